#!/venv/bin/python
"""THE TRANSLATOR: /repo working tree -> lean/WV/Gen/*.lean   (run on every check)

Three extractors, all against the working tree that `import wormhole` resolves
to (the editable install points at /repo/src):

  * Automat transition tables of every MethodicalMachine (by introspection)
  * constants and finite data (by introspection)
  * call skeletons / wiring flags (by `ast`)

Files are rewritten only when their content changes, so an unchanged tree is a
no-op for `lake build`.  Output is deterministic (sorted).
"""
import ast
import hashlib
import importlib
import inspect
import json
import os
import re
import sys
import textwrap

HERE = os.path.dirname(os.path.abspath(__file__))
GEN = os.path.join(HERE, "..", "lean", "WV", "Gen")

MACHINES = [
    # (lean namespace, module, class, machine attribute)
    ("Boss", "wormhole._boss", "Boss", "m"),
    ("Nameplate", "wormhole._nameplate", "Nameplate", "m"),
    ("Mailbox", "wormhole._mailbox", "Mailbox", "m"),
    ("Terminator", "wormhole._terminator", "Terminator", "m"),
    ("Code", "wormhole._code", "Code", "m"),
    ("Allocator", "wormhole._allocator", "Allocator", "m"),
    ("Lister", "wormhole._lister", "Lister", "m"),
    ("Input", "wormhole._input", "Input", "m"),
    ("Key", "wormhole._key", "Key", "m"),
    ("SortedKey", "wormhole._key", "_SortedKey", "m"),
    ("Order", "wormhole._order", "Order", "m"),
    ("Receive", "wormhole._receive", "Receive", "m"),
    ("Send", "wormhole._send", "Send", "m"),
    ("Manager", "wormhole._dilation.manager", "Manager", "m"),
    ("TrafficTimer", "wormhole._dilation.manager", "TrafficTimer", "m"),
    ("Connector", "wormhole._dilation.connector", "Connector", "m"),
    ("DCP", "wormhole._dilation.connection", "DilatedConnectionProtocol", "m"),
    ("Framer", "wormhole._dilation.connection", "_Framer", "m"),
    ("Record", "wormhole._dilation.connection", "_Record", "n"),
    ("SubChannel", "wormhole._dilation.subchannel", "SubChannel", "m"),
]

LEAN_KEYWORDS = {"end", "open", "from", "at", "in", "do", "then", "else", "if",
                 "fun", "let", "have", "show", "match", "with", "where", "by",
                 "local", "private", "section", "namespace", "stop", "error",
                 "export", "import", "initialize", "instance", "class", "set_option"}


def ident(name):
    """Python identifier -> Lean constructor name (stable, injective)."""
    n = name
    if n.startswith("_"):
        n = "u" + n
    if n in LEAN_KEYWORDS or not re.match(r"^[A-Za-z]", n):
        n = "k_" + n
    return n


def dump_machine(ns, module, cls, attr):
    mod = importlib.import_module(module)
    klass = getattr(mod, cls)
    mm = getattr(klass, attr)
    auto = mm._automaton
    rows = []
    for (s, i, t, outs) in auto.allTransitions():
        rows.append((s.method.__name__, i.method.__name__, t.method.__name__,
                     [o.method.__name__ for o in outs]))
    rows.sort()
    init = auto.initialState.method.__name__
    states = sorted({r[0] for r in rows} | {r[2] for r in rows} | {init})
    # all declared inputs / states even if unused in rows
    inputs = sorted({r[1] for r in rows})
    outputs = sorted({o for r in rows for o in r[3]})
    return dict(ns=ns, cls=cls, module=module, init=init, states=states,
                inputs=inputs, outputs=outputs, rows=rows)


def lean_machine(m):
    ns = m["ns"]
    L = []
    L.append(f"namespace {ns}")
    L.append(f"/-- states of `{m['module']}.{m['cls']}` -/")
    L.append("inductive State where")
    for s in m["states"]:
        L.append(f"  | {ident(s)}")
    L.append("  deriving DecidableEq, Repr, Inhabited, Hashable")
    L.append("inductive Input where")
    for s in m["inputs"]:
        L.append(f"  | {ident(s)}")
    L.append("  deriving DecidableEq, Repr, Inhabited, Hashable")
    L.append("inductive Output where")
    if m["outputs"]:
        for s in m["outputs"]:
            L.append(f"  | {ident(s)}")
    else:
        L.append("  | k_none")
    L.append("  deriving DecidableEq, Repr, Inhabited, Hashable")
    L.append(f"def init : State := .{ident(m['init'])}")
    L.append("def State.all : List State := [" + ", ".join("." + ident(s) for s in m["states"]) + "]")
    L.append("def Input.all : List Input := [" + ", ".join("." + ident(s) for s in m["inputs"]) + "]")
    L.append("/-- the transition table, exactly as Automat holds it: absent row = NoTransition -/")
    L.append("def table : State → Input → Option (State × List Output)")
    for (s, i, t, outs) in m["rows"]:
        o = ", ".join("." + ident(x) for x in outs)
        L.append(f"  | .{ident(s)}, .{ident(i)} => some (.{ident(t)}, [{o}])")
    L.append("  | _, _ => none")
    L.append("def State.name : State → String")
    for s in m["states"]:
        L.append(f"  | .{ident(s)} => \"{s}\"")
    L.append("def Input.name : Input → String")
    for s in m["inputs"]:
        L.append(f"  | .{ident(s)} => \"{s}\"")
    L.append("def Input.ofName? : String → Option Input")
    for s in m["inputs"]:
        L.append(f"  | \"{s}\" => some .{ident(s)}")
    L.append("  | _ => none")
    L.append("def State.ofName? : String → Option State")
    for s in m["states"]:
        L.append(f"  | \"{s}\" => some .{ident(s)}")
    L.append("  | _ => none")
    L.append("def Output.name : Output → String")
    if m["outputs"]:
        for s in m["outputs"]:
            L.append(f"  | .{ident(s)} => \"{s}\"")
    else:
        L.append("  | .k_none => \"\"")
    L.append(f"end {ns}")
    return "\n".join(L) + "\n"


def write_if_changed(path, content):
    os.makedirs(os.path.dirname(path), exist_ok=True)
    try:
        with open(path) as f:
            if f.read() == content:
                return False
    except FileNotFoundError:
        pass
    with open(path, "w") as f:
        f.write(content)
    return True


def lean_str(s):
    out = ['"']
    for ch in s:
        o = ord(ch)
        if ch == '"':
            out.append('\\"')
        elif ch == "\\":
            out.append("\\\\")
        elif ch == "\n":
            out.append("\\n")
        elif ch == "\t":
            out.append("\\t")
        elif ch == "\r":
            out.append("\\r")
        elif o < 32 or o == 127:
            out.append("\\x%02x" % o)
        else:
            out.append(ch)
    out.append('"')
    return "".join(out)


def lean_bytes(b):
    return "[" + ", ".join(str(x) for x in b) + "]"


# ---------------------------------------------------------------------------
# constants

def extract_consts():
    L = ["namespace WV.Gen.Consts"]
    from wormhole._dilation import connection as dc
    L.append(f"def T_KCM : Nat := {dc.T_KCM[0]}")
    L.append(f"def T_PING : Nat := {dc.T_PING[0]}")
    L.append(f"def T_PONG : Nat := {dc.T_PONG[0]}")
    L.append(f"def T_OPEN : Nat := {dc.T_OPEN[0]}")
    L.append(f"def T_DATA : Nat := {dc.T_DATA[0]}")
    L.append(f"def T_CLOSE : Nat := {dc.T_CLOSE[0]}")
    L.append(f"def T_ACK : Nat := {dc.T_ACK[0]}")
    # tag byte lengths must be 1 (the parser slices [0:1])
    L.append("def tagLens : List Nat := [" + ", ".join(str(len(x)) for x in (
        dc.T_KCM, dc.T_PING, dc.T_PONG, dc.T_OPEN, dc.T_DATA, dc.T_CLOSE, dc.T_ACK)) + "]")
    L.append(f"def NOISE_MAX_PAYLOAD : Nat := {dc.NOISE_MAX_PAYLOAD}")
    L.append(f"def NOISE_MAX_CIPHERTEXT : Nat := {dc.NOISE_MAX_CIPHERTEXT}")
    from wormhole._dilation import connector as dco
    from wormhole._dilation import manager as dm
    L.append(f"def PROLOGUE_LEADER : List Nat := {lean_bytes(dco.PROLOGUE_LEADER)}")
    L.append(f"def PROLOGUE_FOLLOWER : List Nat := {lean_bytes(dco.PROLOGUE_FOLLOWER)}")
    L.append("def DILATION_VERSIONS : List String := [" + ", ".join(lean_str(v) for v in dm.DILATION_VERSIONS) + "]")
    L.append(f"def RELAY_DELAY_ms : Nat := {int(round(dco.Connector.RELAY_DELAY * 1000))}")
    from wormhole import transit as tr
    L.append(f"def TRANSIT_TIMEOUT_s : Nat := {int(tr.TIMEOUT)}")
    # transit handshake templates, instantiated with a 32-byte key of zeros
    k = b"\x00" * 32
    L.append(f"def transit_sender_handshake_zero : List Nat := {lean_bytes(tr.build_sender_handshake(k))}")
    L.append(f"def transit_receiver_handshake_zero : List Nat := {lean_bytes(tr.build_receiver_handshake(k))}")
    L.append(f"def transit_relay_handshake_zero : List Nat := {lean_bytes(tr.build_sided_relay_handshake(k, '00'*8))}")
    from wormhole import _nameplate, _code
    src_n = inspect.getsource(_nameplate.validate_nameplate)
    src_c = inspect.getsource(_code.validate_code)
    rx = re.findall(r're\.search\(r?"([^"]*)"', src_n) + re.findall(r"re\.search\(r?'([^']*)'", src_n)
    L.append("def nameplate_regexes : List String := [" + ", ".join(lean_str(x) for x in rx) + "]")
    L.append(f"def validate_code_rejects_space : Bool := {'true' if (chr(39)+' '+chr(39) in src_c or chr(34)+' '+chr(34) in src_c) else 'false'}")
    # what `\d` means in the `str` regexes above: the code points with str.isdecimal() (Unicode Nd) of the
    # interpreter that runs the real code, as inclusive ranges (the C19 harness compares this with `re` itself)
    rngs, start = [], None
    for cp in range(0x110000 + 1):
        d = cp < 0x110000 and chr(cp).isdecimal()
        if d and start is None:
            start = cp
        elif not d and start is not None:
            rngs.append((start, cp - 1))
            start = None
    L.append("def unicode_decimal_ranges : List (Nat × Nat) := [" + ", ".join(f"({a}, {b})" for a, b in rngs) + "]")
    from wormhole import _boss
    src_b = inspect.getsource(_boss.Boss.got_message)
    rx = re.findall(r're\.search\(r"([^"]*)"', src_b) + re.findall(r"re\.search\(r'([^']*)'", src_b)
    L.append("def boss_phase_regexes : List String := [" + ", ".join(lean_str(x) for x in rx) + "]")
    # C04: the chunk size of the FileSender that cmd_send._send_file actually uses
    from wormhole.cli import cmd_send as _cs
    L.append(f"def FILESENDER_CHUNK_SIZE : Nat := {int(_cs.basic.FileSender.CHUNK_SIZE)}")
    L.append("end WV.Gen.Consts")
    return "\n".join(L) + "\n"


def extract_words():
    from wormhole import _wordlist as wl
    L = ["namespace WV.Gen.Words",
         "/-- `byte_to_even_word`, `byte_to_odd_word` lower-cased as `PGPWordList.choose_words`/`get_completions` use them,",
         "    indexed by byte value 0..255 -/"]
    ev = [wl.byte_to_even_word[bytes([i])].lower() for i in range(256)]
    od = [wl.byte_to_odd_word[bytes([i])].lower() for i in range(256)]
    L.append("def even : List String := [" + ", ".join(lean_str(w) for w in ev) + "]")
    L.append("def odd : List String := [" + ", ".join(lean_str(w) for w in od) + "]")
    raw_ev = [wl.byte_to_even_word[bytes([i])] for i in range(256)]
    raw_od = [wl.byte_to_odd_word[bytes([i])] for i in range(256)]
    L.append("def rawEven : List String := [" + ", ".join(lean_str(w) for w in raw_ev) + "]")
    L.append("def rawOdd : List String := [" + ", ".join(lean_str(w) for w in raw_od) + "]")
    # the same lower-cased tables as lists of Unicode code points (Python `str` = sequence of code points);
    # this is the form the C19 model computes with (kernel-friendly: no String internals)
    def cps(w):
        return "[" + ", ".join(str(ord(c)) for c in w) + "]"
    L.append("def evenCP : List (List Nat) := [" + ", ".join(cps(w) for w in ev) + "]")
    L.append("def oddCP : List (List Nat) := [" + ", ".join(cps(w) for w in od) + "]")
    # the sets `get_completions` iterates over (built by a separate loop in _wordlist.py), sorted
    L.append("def evenSetCP : List (List Nat) := [" + ", ".join(cps(w) for w in sorted(wl.even_words_lowercase)) + "]")
    L.append("def oddSetCP : List (List Nat) := [" + ", ".join(cps(w) for w in sorted(wl.odd_words_lowercase)) + "]")
    L.append("end WV.Gen.Words")
    return "\n".join(L) + "\n"


# ---------------------------------------------------------------------------
# call skeletons (ast)

def _call_name(node):
    """self._X.meth(...) -> '_X.meth' ; self.meth(...) -> 'self.meth' ; foo(...) -> 'foo'"""
    f = node.func
    parts = []
    while isinstance(f, ast.Attribute):
        parts.append(f.attr)
        f = f.value
    if isinstance(f, ast.Name):
        parts.append(f.id)
    else:
        parts.append("?")
    parts.reverse()
    if parts and parts[0] == "self":
        parts = parts[1:]
        if len(parts) == 1:
            return "self." + parts[0]
    return ".".join(parts)


class _Skel(ast.NodeVisitor):
    def __init__(self):
        self.calls = []
        self.guard = []

    def visit_Call(self, node):
        # args first (evaluation order), then the call itself
        for a in node.args:
            self.visit(a)
        for k in node.keywords:
            self.visit(k.value)
        if isinstance(node.func, ast.Attribute):
            self.visit(node.func.value)
        self.calls.append(("/".join(self.guard) or "-", _call_name(node)))

    def _guarded(self, tag, body):
        self.guard.append(tag)
        for n in body:
            self.visit(n)
        self.guard.pop()

    def visit_If(self, node):
        self.visit(node.test)
        self._guarded("if", node.body)
        if node.orelse:
            self._guarded("else", node.orelse)

    def visit_While(self, node):
        self.visit(node.test)
        self._guarded("while", node.body)

    def visit_For(self, node):
        self.visit(node.iter)
        self._guarded("for", node.body)

    def visit_Try(self, node):
        self._guarded("try", node.body)
        for h in node.handlers:
            self._guarded("except", h.body)
        if node.finalbody:
            self._guarded("finally", node.finalbody)

    def visit_With(self, node):
        for it in node.items:
            self.visit(it.context_expr)
        for n in node.body:
            self.visit(n)

    def visit_FunctionDef(self, node):
        # nested defs are not executed in order
        pass

    visit_Lambda = visit_FunctionDef


IGNORED_CALLS = {"dict_to_bytes", "bytes_to_dict", "bytes_to_hexstr", "hexstr_to_bytes",
                 "len", "isinstance", "str", "int", "repr", "print", "list", "dict", "set",
                 "sorted", "tuple", "bool", "type", "min", "max", "range", "enumerate",
                 "log.err", "log.msg", "self._debug", "self._timing.add", "_timing.add",
                 "to_bytes", "hexlify", "unhexlify", "re.search", "format", "getattr", "hasattr"}


def skeleton_of(func):
    src = textwrap.dedent(inspect.getsource(func))
    tree = ast.parse(src)
    fn = tree.body[0]
    sk = _Skel()
    for n in fn.body:
        sk.visit(n)
    out = []
    for g, c in sk.calls:
        base = c
        if base in IGNORED_CALLS or base.split(".")[-1] in ("append", "add", "get", "encode", "decode", "items",
                                                             "keys", "values", "pop", "popleft", "discard",
                                                             "remove", "format", "startswith", "lower",
                                                             "split", "join", "finish", "hex", "copy", "update"):
            continue
        out.append((g, c))
    return out


SKELETON_TARGETS = [
    ("wormhole._boss", "Boss", None),           # None = every @m.output + listed plain methods
    ("wormhole._nameplate", "Nameplate", None),
    ("wormhole._mailbox", "Mailbox", None),
    ("wormhole._terminator", "Terminator", None),
    ("wormhole._code", "Code", None),
    ("wormhole._allocator", "Allocator", None),
    ("wormhole._lister", "Lister", None),
    ("wormhole._input", "Input", None),
    ("wormhole._key", "Key", None),
    ("wormhole._key", "_SortedKey", None),
    ("wormhole._order", "Order", None),
    ("wormhole._receive", "Receive", None),
    ("wormhole._send", "Send", None),
    ("wormhole._rendezvous", "RendezvousConnector", None),
    ("wormhole._dilation.manager", "Manager", None),
    ("wormhole._dilation.manager", "TrafficTimer", None),
    ("wormhole._dilation.manager", "Dilator", None),
    ("wormhole._dilation.connector", "Connector", None),
    ("wormhole._dilation.connection", "DilatedConnectionProtocol", None),
    ("wormhole._dilation.subchannel", "SubChannel", None),
    ("wormhole._dilation.subchannel", "SubchannelDemultiplex", None),   # C15: parked OPENs, hand-over to a listener
    ("wormhole._dilation.outbound", "Outbound", None),
    ("wormhole._dilation.outbound", "PullToPush", None),
    ("wormhole._dilation.inbound", "Inbound", None),
    ("wormhole.cli.cmd_receive", "Receiver", None),   # C04
    ("wormhole.cli.cmd_send", "Sender", None),        # C04
    ("wormhole.transit", "Connection", None),         # C04
    ("wormhole.transit", "FileConsumer", None),       # C04
]


# C03: the API façade and the observer behind get_message(); kept in a file of their own (WV/Gen/ApiSkel.lean) so
# that the big `Skel.skeleton` match (and everything pinned against it) is not disturbed
API_SKELETON_TARGETS = [
    ("wormhole.wormhole", "_DelegatedWormhole", None),
    ("wormhole.wormhole", "_DeferredWormhole", None),
    ("wormhole.observer", "SequenceObserver", None),
    ("wormhole.observer", "OneShotObserver", None),
    ("wormhole.eventual", "EventualQueue", None),
]


def extract_skeletons(targets=None):
    """JSON + Lean data: per class, per method, ordered outgoing calls with guard shape."""
    data = {}
    for module, cls, _ in (targets or SKELETON_TARGETS):
        mod = importlib.import_module(module)
        klass = getattr(mod, cls)
        for name, member in sorted(vars(klass).items()):
            f = member
            # automat decorators wrap: MethodicalOutput has .method ; MethodicalInput has .method too (body unused)
            if hasattr(f, "method") and callable(getattr(f, "method")):
                kind = type(f).__name__
                if kind == "MethodicalInput" or kind == "MethodicalState":
                    continue
                f = f.method
            if not inspect.isfunction(f):
                continue
            if name.startswith("__") and name != "__attrs_post_init__":
                continue
            try:
                sk = skeleton_of(f)
            except Exception as e:  # pragma: no cover
                sk = [("opaque", hashlib.sha256(inspect.getsource(f).encode()).hexdigest()[:12])]
            data[f"{cls}.{name}"] = sk
    return data


def lean_skeletons(data, ns="WV.Gen.Skel"):
    L = ["namespace " + ns,
         "/-- ordered outgoing calls `(guard-shape, callee)` of each method, extracted by `ast` from the working tree -/",
         "def skeleton : String → List (String × String)"]
    for k in sorted(data):
        items = ", ".join(f"({lean_str(g)}, {lean_str(c)})" for g, c in data[k])
        L.append(f"  | {lean_str(k)} => [{items}]")
    L.append("  | _ => []")
    L.append("end " + ns)
    return "\n".join(L) + "\n"


# ---------------------------------------------------------------------------
# wiring flags and small structural facts (ast)

def extract_flags():
    flags = {}
    from wormhole._dilation import manager as dm
    src = textwrap.dedent(inspect.getsource(dm.Manager.__attrs_post_init__))
    tree = ast.parse(src)
    passed = False
    for node in ast.walk(tree):
        if isinstance(node, ast.Call) and _call_name(node) == "SubchannelDemultiplex":
            for a in list(node.args) + [k.value for k in node.keywords]:
                if "expected_subprotocols" in ast.dump(a):
                    passed = True
    flags["demux_gets_expected_subprotocols"] = passed
    # Dilator.dilate passes expected_subprotocols to Manager(...)
    src = textwrap.dedent(inspect.getsource(dm.Dilator.dilate))
    tree = ast.parse(src)
    passed = False
    for node in ast.walk(tree):
        if isinstance(node, ast.Call) and _call_name(node) == "Manager":
            for a in list(node.args) + [k.value for k in node.keywords]:
                if "expected_subprotocols" in ast.dump(a):
                    passed = True
    flags["manager_gets_expected_subprotocols"] = passed
    # Dilator.dilate: the pending-versions replay guard is `is not None`
    guard_is_not_none = False
    for node in ast.walk(tree):
        if isinstance(node, ast.If) and "_pending_wormhole_versions" in ast.dump(node.test):
            guard_is_not_none = isinstance(node.test, ast.Compare) and any(isinstance(o, ast.IsNot) for o in node.test.ops)
    flags["pending_versions_guard_is_not_none"] = guard_is_not_none
    # _send_ping_reset_timer uses DelayedCall.delay (adds to deadline) vs reset (restart from now)
    src = inspect.getsource(dm.Manager._send_ping_reset_timer)
    flags["ping_timer_uses_delay"] = ".delay(" in src
    flags["ping_timer_uses_reset"] = ".reset(" in src
    # C17: does Dilator.stop() stop the wormhole's Cooperator (which drives the pull-producers registered on
    # subchannels; a stopped Cooperator's tasks raise SchedulerStopped from pause()/resume())?
    dstop = ast.parse(textwrap.dedent(inspect.getsource(dm.Dilator.stop))).body[0]
    flags["dilator_stop_stops_cooperator"] = any(
        isinstance(n, ast.Call) and _call_name(n) in ("_cooperator.stop", "_cooperator.stopService")
        for n in ast.walk(dstop))
    # C17: what `_find_shared_versions` does with the peer's (JSON) `can-dilate` value before building a set of it:
    # does it take anything that is not a list/tuple as "no versions", and does it keep only the str entries?
    fsv = ast.parse(textwrap.dedent(inspect.getsource(dm._find_shared_versions))).body[0]
    req_list = False
    for node in ast.walk(fsv):
        if isinstance(node, ast.If):
            t = ast.unparse(node.test).replace(" ", "")
            if t.startswith("notisinstance(their_versions,") and "list" in t and \
                    any(isinstance(b, ast.Assign) and ast.unparse(b.targets[0]) == "their_versions"
                        and ast.unparse(b.value) in ("[]", "()", "list()") for b in node.body):
                req_list = True
    flags["shared_versions_requires_list"] = req_list
    flags["shared_versions_filters_strings"] = any(
        isinstance(node, (ast.SetComp, ast.ListComp, ast.GeneratorExp))
        and any(ast.unparse(c).replace(" ", "") == "isinstance(%s,str)" % ast.unparse(g.target) for g in node.generators for c in g.ifs)
        for node in ast.walk(fsv))
    # C17: the discipline of the ping-timer handle `Manager._timer` (None / a pending DelayedCall / one that has
    # already fired).  Does the expiry callback clear the handle?  Which of its three users ask `.active()` before
    # touching it (`.delay()` / `.cancel()` raise AlreadyCalled on a DelayedCall that has fired)?
    def _timer_use_guarded(func, meth):
        """every `self._timer.<meth>()` in `func` sits under an `if` whose test mentions `_timer.active()`"""
        tree = ast.parse(textwrap.dedent(inspect.getsource(func)))
        uses, guarded = 0, 0

        def walk(node, under):
            nonlocal uses, guarded
            if isinstance(node, ast.If):
                u = under or ("_timer.active()" in ast.unparse(node.test))
                for ch in node.body:
                    walk(ch, u)
                for ch in node.orelse:
                    walk(ch, under)
                return
            if isinstance(node, ast.Call) and _call_name(node) == "_timer." + meth:
                uses += 1
                guarded += 1 if under else 0
            for ch in ast.iter_child_nodes(node):
                walk(ch, under)
        walk(tree, False)
        return uses > 0 and uses == guarded

    def _expiry_clears_handle():
        fn = ast.parse(textwrap.dedent(inspect.getsource(dm.Manager._send_ping_reset_timer))).body[0]
        for node in ast.walk(fn):
            if isinstance(node, ast.Call) and _call_name(node) == "_reactor.callLater" and len(node.args) >= 2:
                cb = node.args[1]
                body = None
                if isinstance(cb, ast.Name):        # a nested function
                    for d in ast.walk(fn):
                        if isinstance(d, ast.FunctionDef) and d.name == cb.id:
                            body = d
                elif isinstance(cb, ast.Attribute) and hasattr(dm.Manager, cb.attr):   # a method
                    body = ast.parse(textwrap.dedent(inspect.getsource(getattr(dm.Manager, cb.attr)))).body[0]
                if body is None:
                    return False
                return any(isinstance(n, ast.Assign) and ast.unparse(n.targets[0]) == "self._timer"
                           and ast.unparse(n.value) == "None" for n in ast.walk(body))
        return False
    flags["timer_expiry_clears_handle"] = _expiry_clears_handle()
    flags["ping_timer_checks_active"] = _timer_use_guarded(dm.Manager._send_ping_reset_timer, "delay")
    flags["stop_using_checks_active"] = _timer_use_guarded(dm.Manager._stop_using_connection, "cancel")
    flags["abandon_checks_active"] = _timer_use_guarded(dm.Manager.__dict__["abandon_connection"].method, "cancel")
    # C16: Outbound.send_if_connected (un-queued Ping/Pong/Ack) is guarded by exactly `if self._connection:`
    # (in particular not by the flow-control flag `_paused`)
    from wormhole._dilation import outbound as dout
    fn = ast.parse(textwrap.dedent(inspect.getsource(dout.Outbound.send_if_connected))).body[0]
    ifs = [n for n in ast.walk(fn) if isinstance(n, ast.If)]
    sends = [n for n in ast.walk(fn) if isinstance(n, ast.Call) and _call_name(n) == "_connection.send_record"]
    flags["send_if_connected_ignores_pause"] = (len(ifs) == 1 and len(sends) == 1
                                                and ast.unparse(ifs[0].test) == "self._connection"
                                                and any(n is sends[0] for b in ifs[0].body for n in ast.walk(b)))
    # C16: DilatedConnectionProtocol.dataReceived catches exactly `Disconnect` (-> loseConnection): any other exception
    # raised while a record is handled escapes to the reactor, which drops the transport (so the records that follow in
    # the same segment are lost WITH the connection, never stranded in the framer)
    from wormhole._dilation import connection as _dc16
    fn = ast.parse(textwrap.dedent(inspect.getsource(_dc16.DilatedConnectionProtocol.dataReceived))).body[0]
    tries = [n for n in ast.walk(fn) if isinstance(n, ast.Try)]
    flags["data_received_catches_only_disconnect"] = (
        len(tries) == 1 and len(tries[0].handlers) == 1 and not tries[0].finalbody and not tries[0].orelse
        and tries[0].handlers[0].type is not None and ast.unparse(tries[0].handlers[0].type) == "Disconnect")
    # C13: WHEN a subchannel id is allocated.  SubchannelConnectorEndpoint.connect reserves its id only after
    # `yield …_main_channel.when_fired()` (so the role is known), and choose_role — not allocate_subchannel_id —
    # seeds Manager._next_subchannel_id, in both role branches.
    from wormhole._dilation import subchannel as dsub
    fn = ast.parse(textwrap.dedent(inspect.getsource(dsub.SubchannelConnectorEndpoint.connect))).body[0]
    pos_yield = pos_alloc = None
    for i, st in enumerate(fn.body):
        d = ast.dump(st)
        if pos_yield is None and "Yield" in d and "when_fired" in d:
            pos_yield = i
        if pos_alloc is None and "allocate_subchannel_id" in d:
            pos_alloc = i
    flags["connect_allocates_after_main_channel"] = (pos_yield is not None and pos_alloc is not None
                                                     and pos_yield < pos_alloc)

    def _assigns(func, attr):
        f = getattr(func, "method", func)
        t = ast.parse(textwrap.dedent(inspect.getsource(f)))
        return sum(1 for n in ast.walk(t) if isinstance(n, ast.Assign)
                   and any(isinstance(x, ast.Attribute) and x.attr == attr for x in n.targets))
    flags["choose_role_seeds_subchannel_id"] = (_assigns(vars(dm.Manager)["choose_role"], "_next_subchannel_id") == 2
                                                and _assigns(vars(dm.Manager)["allocate_subchannel_id"], "_next_subchannel_id") == 0)
    # C13: records parked between the Leader's KCM and select() are drained oldest first
    # (`while q: r = q.pop(0); manager.got_record(r)`), and only __attrs_post_init__/update_ack_watermark ever
    # assign Inbound._highest_inbound_acked (in particular stop_using_connection keeps it)
    from wormhole._dilation import connection as dconn, inbound as dinb
    piq = vars(dconn.DilatedConnectionProtocol)["process_inbound_queue"]
    t = ast.parse(textwrap.dedent(inspect.getsource(getattr(piq, "method", piq))))
    pops = [n for n in ast.walk(t) if isinstance(n, ast.Call) and isinstance(n.func, ast.Attribute) and n.func.attr == "pop"]
    front = [n for n in pops if len(n.args) == 1 and isinstance(n.args[0], ast.Constant) and n.args[0].value == 0
             and "_inbound_record_queue" in ast.dump(n.func.value)]
    other = [n for n in ast.walk(t) if (isinstance(n, ast.Call) and _call_name(n).split(".")[-1] in ("reversed", "reverse", "popleft"))
             or isinstance(n, ast.Slice)]
    flags["parked_queue_is_fifo"] = len(pops) == 1 and len(front) == 1 and not other
    assigners = []
    for name, member in vars(dinb.Inbound).items():
        if inspect.isfunction(member):
            tt = ast.parse(textwrap.dedent(inspect.getsource(member)))
            for n in ast.walk(tt):
                tg = n.targets if isinstance(n, ast.Assign) else [n.target] if isinstance(n, (ast.AugAssign, ast.AnnAssign)) else []
                if any(isinstance(x, ast.Attribute) and x.attr == "_highest_inbound_acked" for x in tg):
                    assigners.append(name)
    flags["stop_using_connection_keeps_watermark"] = sorted(assigners) == ["__attrs_post_init__", "update_ack_watermark"]
    # C13: the per-name backlog of OPENs waiting for a later listen() is unbounded — `defaultdict(deque)`, no
    # `maxlen`, no factory lambda (a bounded deque silently evicts the oldest pending OPEN)
    t = ast.parse(textwrap.dedent(inspect.getsource(dsub.SubchannelDemultiplex.__init__)))
    vals = [n.value for n in ast.walk(t) if isinstance(n, ast.Assign)
            and any(isinstance(x, ast.Attribute) and x.attr == "_pending_opens" for x in n.targets)]
    flags["pending_opens_unbounded"] = (
        len(vals) == 1 and isinstance(vals[0], ast.Call) and _call_name(vals[0]) == "defaultdict"
        and len(vals[0].args) == 1 and not vals[0].keywords
        and isinstance(vals[0].args[0], ast.Name) and vals[0].args[0].id == "deque"
        and "maxlen" not in inspect.getsource(dsub.SubchannelDemultiplex))
    # C10: records parked on a not-yet-selected connection (`_inbound_record_queue`) are appended at the back by
    # queue_inbound_record and handed to Manager.got_record from the FRONT by process_inbound_queue
    from wormhole._dilation import connection as dconn_

    def _meth(cls, name):
        f = vars(cls)[name]
        return ast.parse(textwrap.dedent(inspect.getsource(getattr(f, "method", f)))).body[0]

    def _is_queue(n):
        return isinstance(n, ast.Attribute) and n.attr == "_inbound_record_queue" and isinstance(n.value, ast.Name) and n.value.id == "self"
    fn_q = _meth(dconn_.DilatedConnectionProtocol, "queue_inbound_record")
    appends = [n for n in ast.walk(fn_q) if isinstance(n, ast.Call) and isinstance(n.func, ast.Attribute)
               and n.func.attr == "append" and _is_queue(n.func.value)]
    other_q = [n for n in ast.walk(fn_q) if isinstance(n, ast.Call) and isinstance(n.func, ast.Attribute)
               and _is_queue(n.func.value) and n.func.attr != "append"]
    fn_p = _meth(dconn_.DilatedConnectionProtocol, "process_inbound_queue")
    body = [st for st in fn_p.body if not (isinstance(st, ast.Expr) and isinstance(st.value, ast.Constant))]
    fifo = False
    if len(appends) == 1 and not other_q and len(body) == 1 and isinstance(body[0], ast.While) and _is_queue(body[0].test) \
            and not body[0].orelse:
        pops = [n for n in ast.walk(body[0]) if isinstance(n, ast.Call) and isinstance(n.func, ast.Attribute)
                and _is_queue(n.func.value)]
        front = (len(pops) == 1 and (
            (pops[0].func.attr == "pop" and len(pops[0].args) == 1 and isinstance(pops[0].args[0], ast.Constant)
             and pops[0].args[0].value == 0 and not pops[0].keywords)
            or (pops[0].func.attr == "popleft" and not pops[0].args and not pops[0].keywords)))
        # nothing else in the loop touches the queue (no reversed copies, no swaps)
        others = [n for n in ast.walk(body[0]) if _is_queue(n)]
        fifo = front and len(others) == 2     # the loop test and the pop
    init_src = ast.parse(textwrap.dedent(inspect.getsource(dconn_.DilatedConnectionProtocol.__attrs_post_init__))).body[0]
    inits = [n for n in ast.walk(init_src) if isinstance(n, ast.Assign) and any(_is_queue(t) for t in n.targets)]
    fifo = fifo and len(inits) == 1 and isinstance(inits[0].value, ast.List) and not inits[0].value.elts
    flags["dcp_parked_queue_fifo"] = fifo
    # C10: SubChannel._pending_remote_data / _pending_remote_close / _protocol are PER-INSTANCE state: assigned on
    # `self` in the (attrs) initialiser from fresh literals, never bound in the class body
    cls = ast.parse(textwrap.dedent(inspect.getsource(dsub.SubChannel))).body[0]
    class_level = set()
    for st in cls.body:
        targets = []
        if isinstance(st, ast.Assign):
            targets = st.targets
        elif isinstance(st, ast.AnnAssign):
            targets = [st.target]
        for t in targets:
            if isinstance(t, ast.Name):
                class_level.add(t.id)
    per_instance = False
    for st in cls.body:
        if isinstance(st, ast.FunctionDef) and st.name in ("__attrs_post_init__", "__init__"):
            got = {}
            for n in ast.walk(st):
                if isinstance(n, ast.Assign):
                    for t in n.targets:
                        if isinstance(t, ast.Attribute) and isinstance(t.value, ast.Name) and t.value.id == "self":
                            got[t.attr] = n.value
            v = got.get("_pending_remote_data")
            per_instance = (isinstance(v, ast.List) and not v.elts
                            and isinstance(got.get("_pending_remote_close"), ast.Constant)
                            and got["_pending_remote_close"].value is False)
    flags["subchannel_pending_per_instance"] = (per_instance and "_pending_remote_data" not in class_level
                                                and "_pending_remote_close" not in class_level)
    # C15: SubChannel.pauseProducing/resumeProducing/stopProducing are plain forwarders: the whole body (docstring
    # aside) is the single statement `self._manager.subchannel_<x>Producing(self)` — no guard, no early return, so the
    # request reaches Inbound in every state of the subchannel
    def _plain_forward(func, callee):
        fn = ast.parse(textwrap.dedent(inspect.getsource(getattr(func, "method", func)))).body[0]
        body = [st for st in fn.body
                if not (isinstance(st, ast.Expr) and isinstance(st.value, ast.Constant) and isinstance(st.value.value, str))]
        return (len(body) == 1 and isinstance(body[0], ast.Expr) and isinstance(body[0].value, ast.Call)
                and ast.unparse(body[0].value) == f"self._manager.{callee}(self)")
    from wormhole._dilation import subchannel as _c15_dsub
    for verb in ("pause", "resume", "stop"):
        flags[f"subchannel_{verb}_is_plain_forward"] = _plain_forward(
            vars(_c15_dsub.SubChannel)[f"{verb}Producing"], f"subchannel_{verb}Producing")
    # C10 (round 5): the retransmit queue and the watermark are touched only where the model touches them.
    # (a) which Outbound methods mutate / rebind `_outbound_queue` and `_queued_unsent`
    from wormhole._dilation import outbound as dout_c10
    from wormhole._dilation import inbound as dinb_c10
    _MUT = {"append", "appendleft", "extend", "extendleft", "pop", "popleft", "clear", "remove", "insert", "rotate", "reverse"}

    def _touchers(cls, attr):
        out = set()
        ctree = ast.parse(textwrap.dedent(inspect.getsource(cls))).body[0]
        for fn in ctree.body:
            if not isinstance(fn, ast.FunctionDef):
                continue
            for n in ast.walk(fn):
                def is_attr(x):
                    return isinstance(x, ast.Attribute) and x.attr == attr and isinstance(x.value, ast.Name) and x.value.id == "self"
                if isinstance(n, (ast.Assign, ast.AugAssign, ast.AnnAssign, ast.Delete)):
                    ts = n.targets if isinstance(n, (ast.Assign, ast.Delete)) else [n.target]
                    for t in ts:
                        base = t.value if isinstance(t, ast.Subscript) else t
                        if is_attr(base):
                            out.add(fn.name)
                if isinstance(n, ast.Call) and isinstance(n.func, ast.Attribute) and n.func.attr in _MUT and is_attr(n.func.value):
                    out.add(fn.name)
        return sorted(out)
    flags["outbound_queue_touched_only_by_send_and_ack"] = (
        _touchers(dout_c10.Outbound, "_outbound_queue") == ["__attrs_post_init__", "handle_ack", "queue_and_send_record"])
    flags["queued_unsent_touched_only_by_known_methods"] = (
        _touchers(dout_c10.Outbound, "_queued_unsent") == ["__attrs_post_init__", "handle_ack", "queue_and_send_record",
                                                           "resumeProducing", "stop_using_connection", "use_connection"])
    # (b) the watermark starts at the integer -1, and is_record_old is exactly `r.seqnum <= self._highest_inbound_acked`
    init_fn = ast.parse(textwrap.dedent(inspect.getsource(dinb_c10.Inbound.__attrs_post_init__))).body[0]
    wm_init = [n.value for n in ast.walk(init_fn) if isinstance(n, ast.Assign)
               and any(isinstance(t, ast.Attribute) and t.attr == "_highest_inbound_acked" for t in n.targets)]
    flags["inbound_watermark_starts_at_minus_one"] = (len(wm_init) == 1 and ast.unparse(wm_init[0]) == "-1")
    old_fn = ast.parse(textwrap.dedent(inspect.getsource(dinb_c10.Inbound.is_record_old))).body[0]
    obody = [st for st in old_fn.body if not (isinstance(st, ast.Expr) and isinstance(st.value, ast.Constant))]
    cmp_src = "r.seqnum <= self._highest_inbound_acked"
    plain = False
    if len(obody) == 1 and isinstance(obody[0], ast.Return) and obody[0].value is not None:
        plain = ast.unparse(obody[0].value) == cmp_src
    elif (len(obody) == 2 and isinstance(obody[0], ast.If) and ast.unparse(obody[0].test) == cmp_src
          and len(obody[0].body) == 1 and isinstance(obody[0].body[0], ast.Return) and ast.unparse(obody[0].body[0].value) == "True"
          and not obody[0].orelse and isinstance(obody[1], ast.Return) and ast.unparse(obody[1].value) == "False"):
        plain = True
    flags["is_record_old_is_plain_le"] = plain
    # C04: the offer/answer/ack codec (util.dict_to_bytes / bytes_to_dict) must carry str values code point for code
    # point: no call to to_bytes (which NFC-normalises) or unicodedata in either, and json.dumps with its default
    # ensure_ascii (no keyword arguments at all)
    from wormhole import util as _util
    def _calls(fn):
        t = ast.parse(textwrap.dedent(inspect.getsource(fn)))
        return [(_call_name(n), [k.arg for k in n.keywords]) for n in ast.walk(t) if isinstance(n, ast.Call)]
    enc_calls = _calls(_util.dict_to_bytes)
    dec_calls = _calls(_util.bytes_to_dict)
    norm = lambda cs: any(c in ("to_bytes", "to_unicode") or c.startswith("unicodedata") for c, _ in cs)
    flags["dict_codec_normalises"] = norm(enc_calls) or norm(dec_calls)
    flags["dict_to_bytes_plain_json_dumps"] = [(c, k) for c, k in enc_calls if c == "json.dumps"] == [("json.dumps", [])]
    flags["bytes_to_dict_plain_json_loads"] = [(c, k) for c, k in dec_calls if c == "json.loads"] == [("json.loads", [])]
    # C19: the convenience entry points xfer_util.send/receive take the ALLOCATE branch only for `code is None`
    # (every other value, "" included, goes to set_code and is validated there), and Input hands the typed
    # prefix to the wordlist unchanged (completions are spliced onto the string the wordlist is GIVEN)
    def _xfer_guard_is_none(func):
        tree = ast.parse(textwrap.dedent(inspect.getsource(inspect.unwrap(func))))
        found = []
        for node in ast.walk(tree):
            if isinstance(node, ast.If) and any(
                    isinstance(n, ast.Call) and isinstance(n.func, ast.Attribute) and n.func.attr == "allocate_code"
                    for b in node.body for n in ast.walk(b)):
                t = node.test
                is_none = (isinstance(t, ast.Compare) and isinstance(t.left, ast.Name) and t.left.id == "code"
                           and len(t.ops) == 1 and isinstance(t.ops[0], ast.Is)
                           and isinstance(t.comparators[0], ast.Constant) and t.comparators[0].value is None)
                sets = [n for b in node.orelse for n in ast.walk(b)
                        if isinstance(n, ast.Call) and isinstance(n.func, ast.Attribute) and n.func.attr == "set_code"]
                plain = (len(sets) == 1 and len(sets[0].args) == 1 and isinstance(sets[0].args[0], ast.Name)
                         and sets[0].args[0].id == "code" and not sets[0].keywords)
                found.append(is_none and plain)
        return found == [True]
    from wormhole import xfer_util as _xu
    flags["xfer_allocates_only_for_code_is_none"] = _xfer_guard_is_none(_xu.send) and _xfer_guard_is_none(_xu.receive)
    from wormhole import _input as _inp
    f = vars(_inp.Input)["_get_word_completions"]
    f = getattr(f, "method", f)
    tree = ast.parse(textwrap.dedent(inspect.getsource(f)))
    rets = [n for n in ast.walk(tree) if isinstance(n, ast.Return)]
    ok = False
    if len(rets) == 1 and isinstance(rets[0].value, ast.Call):
        c = rets[0].value
        ok = (isinstance(c.func, ast.Attribute) and c.func.attr == "get_completions" and not c.keywords
              and len(c.args) == 1 and isinstance(c.args[0], ast.Name) and c.args[0].id == "prefix"
              and not any(isinstance(n, (ast.Assign, ast.AugAssign)) for n in ast.walk(tree)))
    flags["input_word_completions_get_prefix_unchanged"] = ok
    # C12: the record codec puts Open.subprotocol on the wire as the plain UTF-8 of the str it was given — no
    # normalisation (util.to_bytes / unicodedata), no other transformation — and reads it back with
    # str(bytes, "utf8"); nothing else in either function touches the name
    from wormhole._dilation import connection as _dcn
    tree = ast.parse(textwrap.dedent(inspect.getsource(_dcn.encode_record)))
    rets = [ast.unparse(n.value) for n in ast.walk(tree) if isinstance(n, ast.Return) and n.value is not None]
    calls = {_call_name(n) for n in ast.walk(tree) if isinstance(n, ast.Call)}
    flags["encode_record_subprotocol_plain_utf8"] = (
        "T_OPEN + to_be4(r.scid) + to_be4(r.seqnum) + r.subprotocol.encode('utf8')" in rets
        and calls <= {"isinstance", "to_be4", "r.subprotocol.encode", "TypeError"})
    tree = ast.parse(textwrap.dedent(inspect.getsource(_dcn.parse_record)))
    assigns = [ast.unparse(n) for n in ast.walk(tree) if isinstance(n, ast.Assign)]
    calls = {_call_name(n) for n in ast.walk(tree) if isinstance(n, ast.Call)}
    flags["parse_record_subprotocol_plain_utf8"] = (
        "subprotocol = str(plaintext[9:], 'utf8')" in assigns
        and "return Open(seqnum, scid, subprotocol)" in [ast.unparse(n) for n in ast.walk(tree) if isinstance(n, ast.Return)]
        and calls <= {"from_be4", "str", "KCM", "Ping", "Pong", "Open", "Data", "Close", "Ack", "log.err", "ValueError"})
    # C12: every candidate connection gets a Noise object of its own — build_protocol assigns a local from
    # build_noise() and hands that local to the protocol; the Connector keeps no Noise object on itself
    from wormhole._dilation import connector as _dco
    tree = ast.parse(textwrap.dedent(inspect.getsource(_dco.Connector.build_protocol)))
    local_fresh = any(isinstance(n, ast.Assign) and len(n.targets) == 1 and isinstance(n.targets[0], ast.Name)
                      and n.targets[0].id == "noise" and isinstance(n.value, ast.Call) and _call_name(n.value) == "build_noise"
                      and not n.value.args and not n.value.keywords for n in ast.walk(tree))
    only_one_assign = sum(1 for n in ast.walk(tree) if isinstance(n, ast.Assign)
                          and any(isinstance(t, ast.Name) and t.id == "noise" for t in n.targets)) == 1
    handed = any(isinstance(n, ast.Call) and _call_name(n) == "DilatedConnectionProtocol"
                 and any(isinstance(a, ast.Name) and a.id == "noise" for a in n.args) for n in ast.walk(tree))
    ctree = ast.parse(textwrap.dedent(inspect.getsource(_dco.Connector)))
    kept = any(isinstance(n, ast.Attribute) and "noise" in n.attr.lower() and isinstance(n.value, ast.Name)
               and n.value.id == "self" for n in ast.walk(ctree))
    flags["build_protocol_fresh_noise_per_protocol"] = local_fresh and only_one_assign and handed and not kept
    # mailbox world: the reconnecting service is Twisted's ClientService with its DEFAULT retry policy (the harness
    # replaces the class, so a custom policy would be invisible to it): the constructor call has exactly two
    # positional arguments and no keywords
    from wormhole import _rendezvous as _rv
    _t = ast.parse(textwrap.dedent(inspect.getsource(_rv.RendezvousConnector)))
    _cs = [n for n in ast.walk(_t) if isinstance(n, ast.Call) and _call_name(n).endswith("ClientService")]
    flags["clientservice_plain_constructor"] = (len(_cs) == 1 and len(_cs[0].args) == 2 and not _cs[0].keywords)
    # C01: the code string the application passes is the string that reaches Boss.got_code / Key.got_code
    # (and from there SPAKE2): nobody on the way rebinds it, and validate_code is a predicate (returns nothing)
    from wormhole import _code as _c01code, _boss as _c01boss

    def _fn(klass, name):
        f = vars(klass)[name]
        return f.method if hasattr(f, "method") and callable(getattr(f, "method")) else f

    def _passes_unchanged(func, param, callees):
        fn = ast.parse(textwrap.dedent(inspect.getsource(func))).body[0]
        for node in ast.walk(fn):
            targets = []
            if isinstance(node, ast.Assign):
                targets = node.targets
            elif isinstance(node, (ast.AugAssign, ast.AnnAssign, ast.NamedExpr, ast.For, ast.comprehension)):
                targets = [node.target]
            elif isinstance(node, ast.With):
                targets = [i.optional_vars for i in node.items if i.optional_vars is not None]
            for t in targets:
                if any(isinstance(n, ast.Name) and n.id == param for n in ast.walk(t)):
                    return False          # the parameter is rebound
        seen = set()
        for node in ast.walk(fn):
            if isinstance(node, ast.Call) and _call_name(node) in callees:
                if node.keywords or len(node.args) != 1 or not (isinstance(node.args[0], ast.Name) and node.args[0].id == param):
                    return False
                seen.add(_call_name(node))
        return seen == set(callees)
    vc = ast.parse(textwrap.dedent(inspect.getsource(_c01code.validate_code))).body[0]
    flags["validate_code_returns_nothing"] = not any(isinstance(n, ast.Return) and n.value is not None for n in ast.walk(vc))
    flags["code_string_passed_unchanged"] = all([
        _passes_unchanged(_c01boss.Boss.set_code, "code", ["_C.set_code"]),
        _passes_unchanged(_c01code.Code.set_code, "code", ["self._set_code"]),
        _passes_unchanged(_fn(_c01code.Code, "do_set_code"), "code", ["_B.got_code", "_K.got_code"]),
        _passes_unchanged(_fn(_c01code.Code, "do_finish_input"), "code", ["_B.got_code", "_K.got_code"]),
        _passes_unchanged(_fn(_c01code.Code, "do_finish_allocate"), "code", ["_B.got_code", "_K.got_code"]),
    ])
    # C15: the exception policy of PullToPush._pull: the try around the pull producer's resumeProducing() has exactly
    # one handler, `except Exception:`, and that handler calls self._unregister()
    from wormhole._dilation import outbound as _c15_dout
    fn = ast.parse(textwrap.dedent(inspect.getsource(_c15_dout.PullToPush._pull))).body[0]
    outer = [n for n in ast.walk(fn) if isinstance(n, ast.Try)
             and any(isinstance(x, ast.Call) and _call_name(x) == "_producer.resumeProducing" for b in n.body for x in ast.walk(b))]
    ok = False
    if len(outer) == 1 and len(outer[0].handlers) == 1:
        hnd = outer[0].handlers[0]
        ok = (isinstance(hnd.type, ast.Name) and hnd.type.id == "Exception"
              and any(isinstance(x, ast.Call) and _call_name(x) == "self._unregister" for b in hnd.body for x in ast.walk(b)))
    flags["pull_to_push_unregisters_on_any_exception"] = ok
    # C15: the model identifies producers with ids and ends Outbound.resumeProducing's loop exactly when
    # _get_next_unpaused_producer() returned None: the real loop's `break` must be guarded by `<name> is None` on the
    # name that call was assigned to (a truth test would also stop on a registered producer whose truth value is False)
    from wormhole._dilation import outbound as _c15_out2
    t = ast.parse(textwrap.dedent(inspect.getsource(_c15_out2.Outbound.resumeProducing)))
    assigned = [n.targets[0].id for n in ast.walk(t) if isinstance(n, ast.Assign) and isinstance(n.value, ast.Call)
                and _call_name(n.value) == "self._get_next_unpaused_producer" and isinstance(n.targets[0], ast.Name)]
    breaks = [n for n in ast.walk(t) if isinstance(n, ast.If) and any(isinstance(b, ast.Break) for b in n.body)]
    def _is_none_test(test, name):
        return (isinstance(test, ast.Compare) and isinstance(test.left, ast.Name) and test.left.id == name
                and len(test.ops) == 1 and isinstance(test.ops[0], ast.Is)
                and isinstance(test.comparators[0], ast.Constant) and test.comparators[0].value is None)
    flags["outbound_resume_loop_ends_only_on_none"] = (len(assigned) == 1 and len(breaks) == 1
                                                       and _is_none_test(breaks[0].test, assigned[0]))
    # C10 (round 8): the public entry points hand `expected_subprotocols` down UNCHANGED, with default None, and the
    # demultiplexer refuses an OPEN only when a collection was given: None = "hold every OPEN until somebody listens"
    import wormhole.wormhole as _ww_c10
    from wormhole import _boss as _boss_c10

    def _fwd(func, callee):
        f = getattr(func, "method", func)
        fn = ast.parse(textwrap.dedent(inspect.getsource(f))).body[0]
        rebinds = [n for n in ast.walk(fn) if isinstance(n, (ast.Assign, ast.AugAssign, ast.AnnAssign, ast.NamedExpr))
                   and any(isinstance(t, ast.Name) and t.id == "expected_subprotocols"
                           for t in (n.targets if isinstance(n, ast.Assign) else [n.target]))]
        calls = [n for n in ast.walk(fn) if isinstance(n, ast.Call) and _call_name(n) == callee]
        passed = (len(calls) == 1 and any(isinstance(x, ast.Name) and x.id == "expected_subprotocols"
                                          for x in list(calls[0].args) + [kw.value for kw in calls[0].keywords]))
        args = fn.args
        names = [x.arg for x in args.args]
        default_none = False
        if "expected_subprotocols" in names:
            i = names.index("expected_subprotocols") - (len(names) - len(args.defaults))
            default_none = i >= 0 and isinstance(args.defaults[i], ast.Constant) and args.defaults[i].value is None
        return (not rebinds) and passed and default_none
    flags["api_dilate_forwards_expected_subprotocols"] = _fwd(_ww_c10._DeferredWormhole.dilate, "_boss.dilate")
    flags["boss_dilate_forwards_expected_subprotocols"] = _fwd(_boss_c10.Boss.dilate, "_D.dilate")
    flags["dilator_dilate_forwards_expected_subprotocols"] = _fwd(dm.Dilator.dilate, "Manager")
    go = ast.parse(textwrap.dedent(inspect.getsource(dsub.SubchannelDemultiplex._got_open))).body[0]
    raises = [n for n in ast.walk(go) if isinstance(n, ast.If)
              and any(isinstance(x, ast.Raise) for b in n.body for x in ast.walk(b))]
    flags["demux_refuses_only_when_expected_given"] = (
        len(raises) == 1 and ast.unparse(raises[0].test) == "self._expected is not None and name not in self._expected")
    # C12: DilatedConnectionProtocol's parked records belong to three methods only — the initialiser creates the
    # list, queue_inbound_record appends, process_inbound_queue (run by select) drains; nothing else (connectionLost,
    # disconnect, …) reads, replaces or empties it
    dcp_cls = ast.parse(textwrap.dedent(inspect.getsource(_dcn.DilatedConnectionProtocol))).body[0]
    touching = set()
    for st in dcp_cls.body:
        if isinstance(st, ast.FunctionDef) and any(isinstance(n, ast.Attribute) and n.attr == "_inbound_record_queue"
                                                   for n in ast.walk(st)):
            touching.add(st.name)
    flags["dcp_inbound_queue_private"] = touching == {"__attrs_post_init__", "queue_inbound_record", "process_inbound_queue"}
    # C12: flow control is a plain forward to the transport (one statement each), connectionLost only fires the
    # observer, and dataReceived hands EVERY token of a read on: its for-loop has no break / continue / return
    def _plain(name, expr):
        fn = next(st for st in dcp_cls.body if isinstance(st, ast.FunctionDef) and st.name == name)
        body = [st for st in fn.body if not (isinstance(st, ast.Expr) and isinstance(st.value, ast.Constant))]
        return len(body) == 1 and isinstance(body[0], ast.Expr) and ast.unparse(body[0].value) == expr
    dr = next(st for st in dcp_cls.body if isinstance(st, ast.FunctionDef) and st.name == "dataReceived")
    loops = [n for n in ast.walk(dr) if isinstance(n, (ast.For, ast.While))]
    whole = (len(loops) == 1 and isinstance(loops[0], ast.For) and not loops[0].orelse
             and not any(isinstance(n, (ast.Break, ast.Continue, ast.Return)) for n in ast.walk(dr)))
    flags["dcp_flow_control_plain_and_reads_handled_whole"] = (
        _plain("pauseProducing", "self.transport.pauseProducing()")
        and _plain("resumeProducing", "self.transport.resumeProducing()")
        and _plain("connectionLost", "self._disconnected.fire(self)") and whole)
    # C01 (round 8): the glue around the key agreement.
    #  * wormhole.create() hands the application id it was given, untouched, to Boss; Boss hands its _appid to Key
    #    and RendezvousConnector; Key to _SortedKey
    #  * _SortedKey.build_pake feeds exactly to_bytes(code) and idSymmetric=to_bytes(self._appid) to SPAKE2
    #  * the timing recorder only stores what it is given (it gets the live server message from ws_message)
    from wormhole import wormhole as _c01w, _key as _c01key, timing as _c01timing

    def _rebinds(fn, param):
        for node in ast.walk(fn):
            targets = []
            if isinstance(node, ast.Assign):
                targets = node.targets
            elif isinstance(node, (ast.AugAssign, ast.AnnAssign, ast.NamedExpr, ast.For, ast.comprehension)):
                targets = [node.target]
            elif isinstance(node, ast.With):
                targets = [i.optional_vars for i in node.items if i.optional_vars is not None]
            for t in targets:
                if any(isinstance(n, ast.Name) and n.id == param for n in ast.walk(t)):
                    return True
        return False

    def _is_self_attr(node, attr):
        return isinstance(node, ast.Attribute) and node.attr == attr and isinstance(node.value, ast.Name) and node.value.id == "self"
    cfn = ast.parse(textwrap.dedent(inspect.getsource(_c01w.create))).body[0]
    boss_calls = [n for n in ast.walk(cfn) if isinstance(n, ast.Call) and _call_name(n) == "Boss"]
    bw = ast.parse(textwrap.dedent(inspect.getsource(_c01boss.Boss._build_workers))).body[0]
    key_calls = [n for n in ast.walk(bw) if isinstance(n, ast.Call) and _call_name(n) == "Key"]
    rc_calls = [n for n in ast.walk(bw) if isinstance(n, ast.Call) and _call_name(n) == "RendezvousConnector"]
    kp = ast.parse(textwrap.dedent(inspect.getsource(_c01key.Key.__attrs_post_init__))).body[0]
    sk_calls = [n for n in ast.walk(kp) if isinstance(n, ast.Call) and _call_name(n) == "_SortedKey"]
    boss_src = inspect.getsource(_c01boss.Boss)
    flags["create_passes_appid_unchanged"] = (
        not _rebinds(cfn, "appid")
        and len(boss_calls) == 1 and len(boss_calls[0].args) >= 4
        and isinstance(boss_calls[0].args[3], ast.Name) and boss_calls[0].args[3].id == "appid"
        and re.search(r"_appid = attrib\(validator=instance_of\(str\)\)", boss_src) is not None
        and len(key_calls) == 1 and key_calls[0].args and _is_self_attr(key_calls[0].args[0], "_appid")
        and len(rc_calls) == 1 and len(rc_calls[0].args) >= 2 and _is_self_attr(rc_calls[0].args[1], "_appid")
        and len(sk_calls) == 1 and sk_calls[0].args and _is_self_attr(sk_calls[0].args[0], "_appid"))
    bp = ast.parse(textwrap.dedent(inspect.getsource(_fn(_c01key._SortedKey, "build_pake")))).body[0]
    sp_calls = [n for n in ast.walk(bp) if isinstance(n, ast.Call) and _call_name(n) == "SPAKE2_Symmetric"]

    def _to_bytes_of(node, pred):
        return (isinstance(node, ast.Call) and _call_name(node) == "to_bytes" and len(node.args) == 1
                and not node.keywords and pred(node.args[0]))
    flags["pake_fed_to_bytes_code_and_appid"] = (
        not _rebinds(bp, "code") and len(sp_calls) == 1 and len(sp_calls[0].args) == 1
        and _to_bytes_of(sp_calls[0].args[0], lambda a: isinstance(a, ast.Name) and a.id == "code")
        and [k.arg for k in sp_calls[0].keywords] == ["idSymmetric"]
        and _to_bytes_of(sp_calls[0].keywords[0].value, lambda a: _is_self_attr(a, "_appid")))
    tmod = ast.parse(inspect.getsource(_c01timing))
    tcalls = {}
    for cls in [n for n in tmod.body if isinstance(n, ast.ClassDef) and n.name in ("Event", "DebugTiming")]:
        for f in [n for n in cls.body if isinstance(n, ast.FunctionDef)]:
            tcalls[cls.name + "." + f.name] = sorted({_call_name(n) for n in ast.walk(f) if isinstance(n, ast.Call)})
    flags["timing_only_records"] = (
        set(tcalls.get("Event.__init__", ["?"])) <= {"time.time", "float"}
        and set(tcalls.get("Event.detail", ["?"])) <= {"_details.update"}
        and set(tcalls.get("Event.finish", ["?"])) <= {"time.time", "float", "self.detail"}
        and set(tcalls.get("DebugTiming.add", ["?"])) <= {"Event", "_events.append"}
        and not any(isinstance(n, ast.FunctionDef) for n in tmod.body))      # no module-level helpers that could touch details
    # C01 (round 10): strings that UTF-8 cannot encode (a python str may hold unpaired surrogates, PEP 383).
    #  * util.to_bytes is NFC followed by STRICT UTF-8: its whole body is
    #        return unicodedata.normalize("NFC", u).encode("utf-8")
    #    — the .encode call carries no error handler (or the explicit "strict"), so such a str raises
    #    UnicodeEncodeError instead of being folded onto the bytes of another string (the model's `utf8enc`);
    #    `unicodedata` is the standard module, and _key / wormhole use this very function
    #  * both derive_key methods hand to_bytes(purpose) — the bare, never re-bound parameter — to _key.derive_key
    from wormhole import util as _c01util
    import unicodedata as _std_unicodedata
    tb = ast.parse(textwrap.dedent(inspect.getsource(_c01util.to_bytes))).body[0]
    tb_body = [n for n in tb.body
               if not (isinstance(n, ast.Expr) and isinstance(n.value, ast.Constant) and isinstance(n.value.value, str))]
    tb_param = tb.args.args[0].arg if len(tb.args.args) == 1 else None

    def _const(node, values):
        return isinstance(node, ast.Constant) and isinstance(node.value, str) and node.value.lower().replace("_", "-") in values

    def _strict_utf8_encode_of_nfc(node):
        if not (isinstance(node, ast.Call) and isinstance(node.func, ast.Attribute) and node.func.attr == "encode"):
            return False
        kw = {k.arg: k.value for k in node.keywords}
        if None in kw or not set(kw) <= {"encoding", "errors"} or len(node.args) > 2:
            return False
        enc = node.args[0] if node.args else kw.get("encoding")
        err = node.args[1] if len(node.args) == 2 else kw.get("errors")
        if (node.args and "encoding" in kw) or (len(node.args) == 2 and "errors" in kw):
            return False
        if enc is None or not _const(enc, {"utf-8", "utf8"}):
            return False
        if err is not None and not _const(err, {"strict"}):
            return False
        inner = node.func.value
        return (isinstance(inner, ast.Call) and _call_name(inner) == "unicodedata.normalize" and not inner.keywords
                and len(inner.args) == 2 and _const(inner.args[0], {"nfc"})
                and isinstance(inner.args[1], ast.Name) and inner.args[1].id == tb_param)
    flags["to_bytes_is_nfc_then_strict_utf8"] = (
        tb_param is not None and not tb.args.defaults and tb.args.vararg is None and tb.args.kwarg is None
        and not tb.args.kwonlyargs and not tb.decorator_list
        and len(tb_body) == 1 and isinstance(tb_body[0], ast.Return) and _strict_utf8_encode_of_nfc(tb_body[0].value)
        and getattr(_c01util, "unicodedata", None) is _std_unicodedata
        and _c01key.to_bytes is _c01util.to_bytes and _c01w.to_bytes is _c01util.to_bytes)

    def _derive_feeds_to_bytes(klass):
        fn = ast.parse(textwrap.dedent(inspect.getsource(vars(klass)["derive_key"]))).body[0]
        calls = [n for n in ast.walk(fn) if isinstance(n, ast.Call) and _call_name(n) == "derive_key"]
        return (not _rebinds(fn, "purpose") and len(calls) == 1 and len(calls[0].args) == 3 and not calls[0].keywords
                and _to_bytes_of(calls[0].args[1], lambda a: isinstance(a, ast.Name) and a.id == "purpose")
                and _is_self_attr(calls[0].args[0], "_key")
                and [n for n in ast.walk(fn) if isinstance(n, ast.Return)][-1].value is calls[0])
    flags["derive_key_feeds_to_bytes_purpose"] = (
        _derive_feeds_to_bytes(_c01w._DelegatedWormhole) and _derive_feeds_to_bytes(_c01w._DeferredWormhole)
        and _c01w.derive_key is _c01key.derive_key)
    return flags



# ---------------------------------------------------------------------------
# state shared between instances: a class-level (or attrs `default=`) mutable container that methods
# mutate in place through `self.<name>` is ONE object for every instance of the class.  Every model here
# gives each object its own state, so the list must be empty (obligation WV.Props.Common).

_MUTATORS = {"append", "extend", "insert", "pop", "popleft", "appendleft", "add", "remove", "discard", "clear",
             "update", "setdefault", "sort", "reverse", "popitem", "extendleft", "rotate"}


def _is_mutable_literal(v):
    if isinstance(v, (ast.List, ast.Dict, ast.Set, ast.ListComp, ast.DictComp, ast.SetComp)):
        return True
    if isinstance(v, ast.Call):
        nm = getattr(v.func, "id", getattr(v.func, "attr", ""))
        if nm in ("list", "dict", "set", "deque", "defaultdict", "OrderedDict", "bytearray", "Counter"):
            return True
        if nm in ("attrib", "ib", "field", "attr_ib"):
            return any(k.arg == "default" and _is_mutable_literal(k.value) for k in v.keywords)
    return False


def extract_shared_state():
    import glob
    root = os.path.dirname(inspect.getsourcefile(__import__("wormhole")))
    out = []
    for f in sorted(glob.glob(os.path.join(root, "**", "*.py"), recursive=True)):
        rel = os.path.relpath(f, root)
        if rel.startswith("test" + os.sep):
            continue
        try:
            tree = ast.parse(open(f, encoding="utf-8").read())
        except SyntaxError:
            continue
        for cls in ast.walk(tree):
            if not isinstance(cls, ast.ClassDef):
                continue
            cands = []
            for b in cls.body:
                if isinstance(b, ast.Assign) and len(b.targets) == 1 and isinstance(b.targets[0], ast.Name):
                    name, val = b.targets[0].id, b.value
                elif isinstance(b, ast.AnnAssign) and isinstance(b.target, ast.Name) and b.value is not None:
                    name, val = b.target.id, b.value
                else:
                    continue
                if _is_mutable_literal(val):
                    cands.append(name)
            if not cands:
                continue
            mutated = set()
            for n in ast.walk(cls):
                tgt = None
                if isinstance(n, ast.Call) and isinstance(n.func, ast.Attribute) and n.func.attr in _MUTATORS:
                    tgt = n.func.value
                elif isinstance(n, (ast.Assign, ast.AugAssign, ast.Delete)):
                    ts = n.targets if isinstance(n, (ast.Assign, ast.Delete)) else [n.target]
                    for t in ts:
                        if isinstance(t, ast.Subscript):
                            tgt = t.value
                            if isinstance(tgt, ast.Attribute) and isinstance(tgt.value, ast.Name) and tgt.value.id == "self":
                                mutated.add(tgt.attr)
                    continue
                if isinstance(tgt, ast.Attribute) and isinstance(tgt.value, ast.Name) and tgt.value.id == "self":
                    mutated.add(tgt.attr)
            for name in cands:
                if name in mutated or name.lstrip("_") in {m.lstrip("_") for m in mutated}:
                    out.append("%s:%s.%s" % (rel.replace(os.sep, "/"), cls.name, name))
    return sorted(out)


def lean_shared_state(items):
    return ("namespace WV.Gen.Shared\n"
            "/-- `file:Class.attr` for every mutable container created once at class level (or as an attrs default)\n"
            "    and mutated in place through `self` -/\n"
            "def sharedMutableState : List String := [%s]\n"
            "end WV.Gen.Shared\n" % ", ".join(lean_str(x) for x in items))


# ---------------------------------------------------------------------------
# state-dependent assertions of the thirteen mailbox-client modules (C14: "no assertion fires"): every
# `assert` whose test is not a plain isinstance() type check, as "file:Class.function: test".  The model
# mirrors each of them (or argues why it cannot fire); the list is pinned in WV.Props.ClientSkel.

_CLIENT_MODULES = ["_boss", "_nameplate", "_mailbox", "_terminator", "_code", "_allocator", "_lister", "_input",
                   "_key", "_order", "_receive", "_send", "_rendezvous"]


def extract_asserts():
    import importlib
    out = []
    ntype = 0
    for mn in _CLIENT_MODULES:
        mod = importlib.import_module("wormhole." + mn)
        tree = ast.parse(open(inspect.getsourcefile(mod), encoding="utf-8").read())

        def walk(node, ctx):
            nonlocal ntype
            for ch in ast.iter_child_nodes(node):
                if isinstance(ch, ast.ClassDef):
                    walk(ch, ctx + [ch.name])
                elif isinstance(ch, (ast.FunctionDef, ast.AsyncFunctionDef)):
                    walk(ch, ctx + [ch.name])
                elif isinstance(ch, ast.Assert):
                    t = ch.test
                    if isinstance(t, ast.Call) and getattr(t.func, "id", "") == "isinstance":
                        ntype += 1
                    else:
                        out.append("%s.py:%s: %s" % (mn, ".".join(ctx), ast.unparse(t)))
                    walk(ch, ctx)
                else:
                    walk(ch, ctx)
        walk(tree, [])
    return out, ntype


def lean_asserts(items, ntype):
    return ("namespace WV.Gen.Asserts\n"
            "def stateAsserts : List String := [\n  %s]\n"
            "def typeAsserts : Nat := %d\n"
            "end WV.Gen.Asserts\n" % (",\n  ".join(lean_str(x) for x in items), ntype))

def lean_flags(flags):
    L = ["namespace WV.Gen.Flags"]
    for k in sorted(flags):
        L.append(f"def {k} : Bool := {'true' if flags[k] else 'false'}")
    L.append("end WV.Gen.Flags")
    return "\n".join(L) + "\n"


# ---------------------------------------------------------------------------
# C05: `wormhole receive` path handling (cli/cmd_receive.py) — constants and unfiltered call skeletons

RECV_METHODS = ["_decide_destname", "_remove_existing", "_extract_file", "_write_file", "_write_directory",
                "_handle_file", "_handle_directory", "_ask_permission"]
RECV_KEEP = re.compile(r"^(os\.|self\._(remove_existing|extract_file|decide_destname|ask_permission)$|"
                       r"TransferRejectedError$|RespondError$|ValueError$|zf\.|zipfile\.|open$|input$|"
                       r"estimate_free_space$|f\.close$|\w+\.startswith$|shutil\.|tempfile\.)")


# the control flow around them: every call on `self`, every exception raised, every os/shutil call
RECV_FLOW_METHODS = ["_go", "_parse_offer"]
RECV_FLOW_KEEP = re.compile(r"^(self\.|os\.|shutil\.|tempfile\.|\w*Error$)")


_RECV_MUTATORS = {"append", "extend", "insert", "add", "update", "setdefault", "pop", "popitem", "remove", "discard", "clear",
                  "popleft", "appendleft", "extendleft", "sort", "reverse", "rotate",
                  "__setattr__", "__setitem__", "__delattr__", "__delitem__"}


def recv_outlives(cmd_receive):
    """Where the receive path of cli/cmd_receive.py stores something that OUTLIVES one `receive(args)` call (every
    `receive()` builds a new Receiver, so instance attributes do not): writes into the shared `args`/Config object
    (`self.args.x = …`, through a local alias, `setattr`, `vars()`, `__dict__`), `global` declarations, writes to
    attributes of the class (`Receiver.x`, `type(self).x`, `self.__class__.x`), data attributes in the class body,
    mutable default arguments, and writes into module-level containers.  Syntactic (no escape analysis): list of
    `(function, what)`, empty on a tree where one receive cannot influence the next through the program's own state."""
    src = inspect.getsource(cmd_receive)
    tree = ast.parse(src)
    module_names = set()
    for n in tree.body:
        if isinstance(n, (ast.Assign, ast.AnnAssign, ast.AugAssign)):
            for t in (n.targets if isinstance(n, ast.Assign) else [n.target]):
                for x in ast.walk(t):
                    if isinstance(x, ast.Name):
                        module_names.add(x.id)
    out = []

    def is_self_args(e):
        return isinstance(e, ast.Attribute) and e.attr == "args" and isinstance(e.value, ast.Name) and e.value.id == "self"

    def is_class_ref(e):
        if isinstance(e, ast.Name) and e.id in ("Receiver", "cls"):
            return True
        if isinstance(e, ast.Attribute) and e.attr == "__class__":
            return True
        return isinstance(e, ast.Call) and isinstance(e.func, ast.Name) and e.func.id == "type"

    def scan(fn, where, args_param):
        aliases = set([args_param] if args_param else [])
        local = set(a.arg for a in fn.args.args + fn.args.kwonlyargs + fn.args.posonlyargs)
        for node in ast.walk(fn):
            if isinstance(node, ast.Assign) and (is_self_args(node.value) or (isinstance(node.value, ast.Name) and node.value.id in aliases)):
                for t in node.targets:
                    if isinstance(t, ast.Name):
                        aliases.add(t.id)
            if isinstance(node, (ast.Assign, ast.AnnAssign, ast.AugAssign, ast.For, ast.NamedExpr)):
                for t in (node.targets if isinstance(node, ast.Assign) else [node.target]):
                    for x in ast.walk(t):
                        if isinstance(x, ast.Name) and isinstance(x.ctx, ast.Store):
                            local.add(x.id)

        def is_args(e):
            return is_self_args(e) or (isinstance(e, ast.Name) and e.id in aliases)

        def root_of(e):
            """('args'|'class'|'module'|None, spelled path) of an attribute/subscript chain that is written to"""
            path = []
            while isinstance(e, (ast.Attribute, ast.Subscript)):
                if is_args(e) or is_class_ref(e):
                    break
                path.append(e.attr if isinstance(e, ast.Attribute) else "[]")
                e = e.value
            spelled = ".".join(reversed(path))
            if is_args(e):
                # the output channels and the timing recorder hang off the same object; they are not options
                if not path or path[-1] in ("timing", "stdout", "stderr"):
                    return None, spelled
                return "args", spelled
            if is_class_ref(e) and path:
                return "class", spelled
            if isinstance(e, ast.Name) and e.id in module_names and e.id not in local and path:
                return "module", e.id + "." + spelled
            return None, spelled

        def target(t, how):
            if isinstance(t, (ast.Tuple, ast.List)):
                for x in t.elts:
                    target(x, how)
            elif isinstance(t, ast.Starred):
                target(t.value, how)
            elif isinstance(t, (ast.Attribute, ast.Subscript)):
                kind, spelled = root_of(t)
                if kind == "args":
                    out.append((where, "%s args.%s" % (how, spelled)))
                elif kind == "class":
                    out.append((where, "%s class attribute %s" % (how, spelled)))
                elif kind == "module":
                    out.append((where, "%s module-level %s" % (how, spelled)))

        for node in ast.walk(fn):
            if isinstance(node, ast.Assign):
                for t in node.targets:
                    target(t, "assign")
            elif isinstance(node, (ast.AugAssign, ast.AnnAssign)):
                target(node.target, "assign")
            elif isinstance(node, ast.Delete):
                for t in node.targets:
                    target(t, "del")
            elif isinstance(node, (ast.For, ast.AsyncFor)):
                target(node.target, "assign")
            elif isinstance(node, (ast.With, ast.AsyncWith)):
                for it in node.items:
                    if it.optional_vars is not None:
                        target(it.optional_vars, "assign")
            elif isinstance(node, ast.Global):
                out.append((where, "global " + ",".join(node.names)))
            elif isinstance(node, ast.Call):
                f = node.func
                if isinstance(f, ast.Name) and f.id in ("setattr", "delattr", "vars") and node.args and is_args(node.args[0]):
                    out.append((where, "%s(args)" % f.id))
                elif isinstance(f, ast.Name) and f.id in ("setattr", "delattr") and node.args and is_class_ref(node.args[0]):
                    out.append((where, "%s(class)" % f.id))
                elif isinstance(f, ast.Attribute) and f.attr in _RECV_MUTATORS:
                    kind, spelled = root_of(ast.Attribute(value=f.value, attr=f.attr, ctx=ast.Load()))
                    if kind in ("args", "class", "module"):
                        out.append((where, "call %s %s" % (kind, spelled)))
            elif isinstance(node, ast.Attribute) and node.attr == "__dict__" and (is_args(node.value) or is_class_ref(node.value)):
                out.append((where, "__dict__ of " + ("args" if is_args(node.value) else "class")))
            if isinstance(node, (ast.FunctionDef, ast.AsyncFunctionDef, ast.Lambda)):
                for dflt in list(node.args.defaults) + [d for d in node.args.kw_defaults if d is not None]:
                    if isinstance(dflt, (ast.Dict, ast.List, ast.Set, ast.ListComp, ast.DictComp, ast.SetComp, ast.Call)):
                        out.append((where, "mutable default argument " + ast.unparse(dflt)[:40]))

    for n in tree.body:
        if isinstance(n, (ast.FunctionDef, ast.AsyncFunctionDef)) and n.name == "receive":
            scan(n, "receive", n.args.args[0].arg if n.args.args else None)
        elif isinstance(n, ast.ClassDef) and n.name == "Receiver":
            for m in n.body:
                if isinstance(m, (ast.FunctionDef, ast.AsyncFunctionDef)):
                    scan(m, m.name, None)
                elif isinstance(m, ast.Pass) or (isinstance(m, ast.Expr) and isinstance(m.value, ast.Constant)):
                    pass
                else:
                    out.append(("Receiver", "class body: " + ast.unparse(m).splitlines()[0][:60]))
    seen, uniq = set(), []
    for x in out:
        if x not in seen:
            seen.add(x)
            uniq.append(x)
    return uniq


def extract_recv():
    """tmp-file suffix of Receiver._handle_file and the ordered (guard, callee) lists of the
    path-handling methods of cmd_receive.Receiver (nothing filtered but printing/formatting)."""
    from wormhole.cli import cmd_receive
    R = cmd_receive.Receiver
    outlives = recv_outlives(cmd_receive)
    tree = ast.parse(textwrap.dedent(inspect.getsource(R._handle_file)))
    suffix = None
    for node in ast.walk(tree):
        if (isinstance(node, ast.Assign) and isinstance(node.value, ast.BinOp) and isinstance(node.value.op, ast.Add)
                and isinstance(node.value.left, ast.Attribute) and node.value.left.attr == "abs_destname"
                and isinstance(node.value.right, ast.Constant) and isinstance(node.value.right.value, str)):
            suffix = node.value.right.value
    calls = {}
    for name in RECV_METHODS:
        fn = ast.parse(textwrap.dedent(inspect.getsource(getattr(R, name)))).body[0]
        sk = _Skel()
        for n in fn.body:
            sk.visit(n)
        calls[name] = [(g, c) for g, c in sk.calls if RECV_KEEP.match(c)]
    for name in RECV_FLOW_METHODS:
        fn = ast.parse(textwrap.dedent(inspect.getsource(getattr(R, name)))).body[0]
        sk = _Skel()
        for n in fn.body:
            sk.visit(n)
        calls[name] = [(g, c) for g, c in sk.calls if RECV_FLOW_KEEP.match(c)]
    # how cli.Config.__init__ computes `cwd` (cmd_receive joins every destination onto it): the right-hand side of
    # `self.cwd = …`, and whether it is exactly the call `os.getcwd()`
    from wormhole.cli import cli as _cli
    cwd_expr, cwd_is_getcwd, n_assign = "", False, 0
    ctree = ast.parse(textwrap.dedent(inspect.getsource(_cli.Config.__init__)))
    for node in ast.walk(ctree):
        if isinstance(node, (ast.Assign, ast.AnnAssign, ast.AugAssign)):
            targets = node.targets if isinstance(node, ast.Assign) else [node.target]
            for t in targets:
                if isinstance(t, ast.Attribute) and t.attr == "cwd" and isinstance(t.value, ast.Name) and t.value.id == "self":
                    n_assign += 1
                    v = node.value
                    cwd_expr = ast.unparse(v) if v is not None else ""
                    cwd_is_getcwd = (isinstance(node, ast.Assign) and isinstance(v, ast.Call) and not v.args and not v.keywords
                                     and isinstance(v.func, ast.Attribute) and v.func.attr == "getcwd"
                                     and isinstance(v.func.value, ast.Name) and v.func.value.id == "os"
                                     and getattr(_cli, "os", None) is os and os.getcwd.__module__ in ("posix", "nt"))
    cwd_is_getcwd = cwd_is_getcwd and n_assign == 1
    L = ["namespace WV.Gen.Recv",
         "/-- right-hand side of `self.cwd = …` in cli.Config.__init__ -/",
         f"def config_cwd_expr : String := {lean_str(cwd_expr)}",
         "/-- it is the single assignment `self.cwd = os.getcwd()` (the real `os.getcwd`) -/",
         f"def config_cwd_is_os_getcwd : Bool := {'true' if cwd_is_getcwd else 'false'}",
         "/-- `tmp_destname = self.abs_destname + <this>` in Receiver._handle_file (empty: not of that shape) -/",
         f"def tmp_suffix : String := {lean_str(suffix or '')}",
         "def tmp_suffix_chars : List Char := [" + ", ".join("Char.ofNat %d" % ord(c) for c in (suffix or "")) + "]",
         "/-- ordered `(guard-shape, callee)` of the path-handling methods of cmd_receive.Receiver -/",
         "def calls : String → List (String × String)"]
    for k in sorted(calls):
        items = ", ".join(f"({lean_str(g)}, {lean_str(c)})" for g, c in calls[k])
        L.append(f"  | {lean_str(k)} => [{items}]")
    L.append("  | _ => []")
    L.append("def methods : List String := [" + ", ".join(lean_str(k) for k in sorted(calls)) + "]")
    L.append("/-- `(function, what)`: every place where `receive()` / a method of `Receiver` stores something that outlives one")
    L.append("    `receive(args)` call — a write into the shared `args` object, a `global`, a class attribute, a mutable default,")
    L.append("    a module-level container (syntactic; `args.timing/stdout/stderr` are output channels, not options) -/")
    L.append("def outlives_receive : List (String × String) := [" + ", ".join(
        "(%s, %s)" % (lean_str(w), lean_str(x)) for w, x in outlives) + "]")
    L.append("end WV.Gen.Recv")
    return "\n".join(L) + "\n"


# ---------------------------------------------------------------------------
# C20: guards and peer-data accesses of the hint-handling functions (ast)

HINT_GUARD_TARGETS = [
    ("wormhole._hints", None, "parse_tcp_v1_hint"),
    ("wormhole._hints", None, "parse_hint"),
    ("wormhole._hints", None, "encode_hint"),
    ("wormhole._hints", None, "endpoint_from_hint_obj"),
    ("wormhole._hints", None, "describe_hint_obj"),
    ("wormhole.transit", "Common", "add_connection_hints"),
    ("wormhole.transit", "Common", "_connect"),
    ("wormhole.transit", "Common", "_start_connector"),
    ("wormhole._dilation.manager", "Manager", "use_hints"),
    ("wormhole._dilation.connector", "Connector", "_use_hints"),
    ("wormhole._dilation.connector", "Connector", "_schedule_connection"),
    ("wormhole._dilation.connector", "Connector", "_connect"),
]


class _Guards(ast.NodeVisitor):
    """pre-order (= source order) list of: `if` tests, `.get(...)` calls, `x['k']` subscripts,
    `'k' in x` tests, `sorted(...)` calls, `for` headers, `raise` statements"""

    def __init__(self):
        self.out = []

    def visit_If(self, node):
        self.out.append("if " + ast.unparse(node.test))
        self.generic_visit(node)

    def visit_IfExp(self, node):
        self.out.append("ifexp " + ast.unparse(node.test))
        self.generic_visit(node)

    def visit_For(self, node):
        self.out.append("for " + ast.unparse(node.target) + " in " + ast.unparse(node.iter))
        self.generic_visit(node)

    def visit_comprehension(self, node):
        self.out.append("for " + ast.unparse(node.target) + " in " + ast.unparse(node.iter))
        self.generic_visit(node)

    def visit_Raise(self, node):
        self.out.append("raise " + (ast.unparse(node.exc) if node.exc else ""))

    def visit_Return(self, node):
        # the whole returned expression: pins e.g. that describe_hint_obj formats the peer-chosen
        # hostname with a plain `%s` (no conversion that can raise) and which endpoint gets which fields
        self.out.append("return " + (ast.unparse(node.value) if node.value is not None else ""))
        self.generic_visit(node)

    def visit_Call(self, node):
        if isinstance(node.func, ast.Attribute) and node.func.attr == "get":
            self.out.append("get " + ast.unparse(node))
        elif isinstance(node.func, ast.Name) and node.func.id in ("sorted", "filter"):
            self.out.append("call " + ast.unparse(node))
        elif isinstance(node.func, ast.Attribute) and node.func.attr == "msg":
            return  # log.msg(f"...{hint!r}"): formatting with !r never raises
        elif isinstance(node.func, ast.Attribute) and node.func.attr in ("addCallback", "addErrback", "addCallbacks", "addBoth"):
            # what is chained onto a contender's Deferred decides whether a failed attempt stays a failure
            self.out.append("chain " + ast.unparse(node))
        self.generic_visit(node)

    def visit_Subscript(self, node):
        if isinstance(node.slice, ast.Constant) and isinstance(node.slice.value, str):
            self.out.append("index " + ast.unparse(node))
        self.generic_visit(node)

    def visit_Compare(self, node):
        if len(node.ops) == 1 and isinstance(node.ops[0], ast.In) and isinstance(node.left, ast.Constant):
            self.out.append("in " + ast.unparse(node))
        self.generic_visit(node)


def extract_hint_guards():
    data = []
    for module, cls, name in HINT_GUARD_TARGETS:
        mod = importlib.import_module(module)
        f = getattr(mod, name) if cls is None else vars(getattr(mod, cls))[name]
        if hasattr(f, "method") and callable(getattr(f, "method")):
            f = f.method
        f = getattr(f, "__wrapped__", f)
        tree = ast.parse(textwrap.dedent(inspect.getsource(f)))
        g = _Guards()
        for n in tree.body[0].body:
            g.visit(n)
        data.append(((cls + "." if cls else "") + name, g.out))
    return data


def lean_hint_guards(data):
    L = ["namespace WV.Gen.HintGuards",
         "/-- guards and peer-data accesses of the hint-handling code, in source order, extracted by `ast` -/",
         "def table : List (String × List String) := ["]
    rows = []
    for k, items in data:
        rows.append("  (%s, [\n    %s])" % (lean_str(k), ",\n    ".join(lean_str(i) for i in items)))
    L.append(",\n".join(rows) + "]")
    L += lean_status_hints(extract_status_hints())
    L.append("end WV.Gen.HintGuards")
    return "\n".join(L) + "\n"


# C20: the status-reporting side channel of hint handling (`DilationStatus.hints`, `Manager._latest_status`)

STATUS_HINT_FILES = ["wormhole._status", "wormhole._dilation.manager", "wormhole._dilation.connector"]
STATUS_SKELETONS = [("wormhole._dilation.manager", "Manager", "_hint_status"),
                    ("wormhole._dilation.manager", "Manager", "_maybe_send_status")]
_SET_METHODS = ("union", "intersection", "difference", "symmetric_difference", "copy")


def _set_typed(e):
    """syntactic judgement "this expression evaluates to a `set`": `set(...)`/`frozenset(...)`, a set display or
    comprehension, a set method of such an expression, `|`/`&`/`-`/`^` with such a left operand, `Factory(set)`"""
    if isinstance(e, (ast.Set, ast.SetComp)):
        return True
    if isinstance(e, ast.Call):
        f = e.func
        if isinstance(f, ast.Name) and f.id in ("set", "frozenset"):
            return True
        if isinstance(f, ast.Name) and f.id == "Factory" and len(e.args) == 1 and isinstance(e.args[0], ast.Name) \
                and e.args[0].id in ("set", "frozenset") and not e.keywords:
            return True
        if isinstance(f, ast.Attribute) and f.attr in _SET_METHODS:
            return _set_typed(f.value)
    if isinstance(e, ast.BinOp) and isinstance(e.op, (ast.BitOr, ast.BitAnd, ast.Sub, ast.BitXor)):
        return _set_typed(e.left)
    return False


def _qualified_functions(tree):
    """(qualified name, FunctionDef) of every function in a module, methods as `Class.name`"""
    out = []

    def walk(body, prefix):
        for n in body:
            if isinstance(n, (ast.FunctionDef, ast.AsyncFunctionDef)):
                out.append((prefix + n.name, n))
                walk(n.body, prefix + n.name + ".")
            elif isinstance(n, ast.ClassDef):
                walk(n.body, prefix + n.name + ".")
    walk(tree.body, "")
    return out


def _own_nodes(fn):
    """nodes of a function body that do not belong to a nested function / class"""
    todo = list(fn.body)
    while todo:
        n = todo.pop(0)
        yield n
        for c in ast.iter_child_nodes(n):
            if not isinstance(c, (ast.FunctionDef, ast.AsyncFunctionDef, ast.ClassDef)):
                todo.append(c)


def extract_status_hints():
    sites = []          # (where, expression given as `hints=`, set-typed?)
    assigns = []        # (where, right-hand side) of every assignment to `<x>._latest_status`
    callers = []        # (where, call) of every `<x>._hint_status(...)` call
    mentions = []       # statements of Connector._use_hints that mention `hint_status`, in source order
    for module in STATUS_HINT_FILES:
        mod = importlib.import_module(module)
        short = module.split(".")[-1]
        tree = ast.parse(inspect.getsource(mod))
        for n in ast.walk(tree):
            if isinstance(n, ast.ClassDef) and n.name == "DilationStatus":
                for st in n.body:
                    if isinstance(st, ast.AnnAssign) and isinstance(st.target, ast.Name) and st.target.id == "hints":
                        sites.append((short + ".DilationStatus.hints (default)", ast.unparse(st.value) if st.value is not None else "",
                                      st.value is not None and _set_typed(st.value)))
        for qn, fn in _qualified_functions(tree):
            for n in sorted((x for x in _own_nodes(fn) if hasattr(x, "lineno")), key=lambda x: (x.lineno, x.col_offset)):
                if isinstance(n, ast.Call):
                    f = n.func
                    fname = f.id if isinstance(f, ast.Name) else f.attr if isinstance(f, ast.Attribute) else ""
                    if fname in ("evolve", "DilationStatus"):
                        for kw in n.keywords:
                            if kw.arg == "hints":
                                sites.append((short + "." + qn, ast.unparse(kw.value), _set_typed(kw.value)))
                            elif kw.arg is None:
                                sites.append((short + "." + qn, "**" + ast.unparse(kw.value), False))
                        if fname == "DilationStatus" and len(n.args) > 3:
                            sites.append((short + "." + qn, ast.unparse(n.args[3]), _set_typed(n.args[3])))
                    if fname == "_hint_status":
                        callers.append((short + "." + qn, ast.unparse(n)))
                if isinstance(n, (ast.Assign, ast.AnnAssign, ast.AugAssign)):
                    targets = n.targets if isinstance(n, ast.Assign) else [n.target]
                    flat = []
                    for t in targets:
                        flat += list(t.elts) if isinstance(t, (ast.Tuple, ast.List)) else [t]
                    for t in flat:
                        if isinstance(t, ast.Attribute) and t.attr == "_latest_status":
                            assigns.append((short + "." + qn, ast.unparse(n.value) if n.value is not None else ""))
                if isinstance(n, ast.Call) and isinstance(n.func, ast.Name) and n.func.id == "setattr" and len(n.args) >= 2 \
                        and isinstance(n.args[1], ast.Constant) and n.args[1].value == "_latest_status":
                    assigns.append((short + "." + qn, ast.unparse(n)))
            if short == "connector" and qn == "Connector._use_hints":
                for n in sorted((x for x in _own_nodes(fn) if isinstance(x, ast.stmt)), key=lambda x: (x.lineno, x.col_offset)):
                    if isinstance(n, (ast.Expr, ast.Assign, ast.AugAssign, ast.AnnAssign, ast.Return, ast.Delete)) and \
                            any(isinstance(x, ast.Name) and x.id == "hint_status" for x in ast.walk(n)):
                        mentions.append(ast.unparse(n))
    skel = []
    for module, cls, name in STATUS_SKELETONS:
        f = vars(getattr(importlib.import_module(module), cls))[name]
        f = getattr(f, "__wrapped__", f)
        fn = ast.parse(textwrap.dedent(inspect.getsource(f))).body[0]
        rows = []

        def walk(body, depth):
            for st in body:
                if isinstance(st, ast.Expr) and isinstance(st.value, ast.Constant) and isinstance(st.value.value, str):
                    continue        # docstring
                pre = "  " * depth
                if isinstance(st, ast.If):
                    rows.append(pre + "if " + ast.unparse(st.test))
                    walk(st.body, depth + 1)
                    if st.orelse:
                        rows.append(pre + "else")
                        walk(st.orelse, depth + 1)
                elif isinstance(st, (ast.For, ast.While, ast.With, ast.Try)):
                    rows.append(pre + type(st).__name__.lower() + " " + ast.unparse(st).splitlines()[0])
                    for part in ("body", "handlers", "orelse", "finalbody"):
                        for sub in getattr(st, part, []):
                            walk(sub.body if isinstance(sub, ast.ExceptHandler) else [sub], depth + 1)
                else:
                    rows.append(pre + " ".join(ast.unparse(st).split()))
        walk(fn.body, 0)
        skel.append((cls + "." + name + "(" + ", ".join(a.arg for a in fn.args.args) + ")", rows))
    return dict(sites=sites, assigns=assigns, callers=callers, mentions=mentions, skel=skel)


def lean_status_hints(d):
    L = ["/-- every expression that becomes `DilationStatus.hints` (keyword `hints=` of an `evolve(...)`/`DilationStatus(...)` call, the",
         "    field's declared default) in _status.py, _dilation/manager.py, _dilation/connector.py: (where, expression, is it",
         "    syntactically a `set`: `set(...)`, a set display/comprehension, a set method or operator of such an expression) -/",
         "def statusHintSites : List (String × String × Bool) := [" +
         ", ".join("(%s, %s, %s)" % (lean_str(w), lean_str(e), "true" if t else "false") for w, e, t in d["sites"]) + "]",
         "/-- every assignment to an attribute `_latest_status`: (where, right-hand side) -/",
         "def latestStatusAssignments : List (String × String) := [" +
         ", ".join("(%s, %s)" % (lean_str(w), lean_str(e)) for w, e in d["assigns"]) + "]",
         "/-- every call of `_hint_status`: (where, call) -/",
         "def hintStatusCallers : List (String × String) := [" +
         ", ".join("(%s, %s)" % (lean_str(w), lean_str(e)) for w, e in d["callers"]) + "]",
         "/-- the statements of `Connector._use_hints` that mention `hint_status`, in source order -/",
         "def useHintsStatusStatements : List String := [" + ", ".join(lean_str(x) for x in d["mentions"]) + "]",
         "/-- statement skeletons (docstrings dropped, nesting as indentation) of the status helpers -/",
         "def statusSkeleton : List (String × List String) := [" +
         ", ".join("(%s, [%s])" % (lean_str(k), ", ".join(lean_str(r) for r in rows)) for k, rows in d["skel"]) + "]"]
    return L


# ---------------------------------------------------------------------------
# C06: transit record layer (constants by introspection, call skeletons by ast)

C06_SKELETON_METHODS = ["dataReceived", "dataReceivedRECORDS", "_decrypt_record", "send_record", "recordReceived",
                        "receive_record", "_deliverRecords", "close", "connectionLost", "connectConsumer",
                        "_writeToConsumer", "disconnectConsumer", "writeToFile", "_negotiationSuccessful"]


def extract_c06():
    """CTXinfo of the four record-key derivations (observed by calling the real methods with HKDF
    replaced by a recorder), SecretBox sizes as the code sees them, and the ordered call skeletons
    of the `Connection` record-layer methods."""
    from wormhole import transit as tr
    from nacl.secret import SecretBox

    def ctx_of(cls, meth):
        seen = []
        orig = tr.HKDF

        def rec(key, length, CTXinfo=b"", **kw):
            seen.append((length, bytes(CTXinfo)))
            return b"\x00" * length
        tr.HKDF = rec
        try:
            o = cls.__new__(cls)
            o._transit_key = b"\x01" * 32
            getattr(o, meth)()
        except Exception:
            seen = []
        finally:
            tr.HKDF = orig
        # anything but exactly one derivation is emitted as (0, b""): the theorems then fail, not the translator
        return seen[0] if len(seen) == 1 else (0, b"")
    L = ["namespace WV.Gen.C06"]
    for cname, cls in (("sender", tr.TransitSender), ("receiver", tr.TransitReceiver)):
        L.append(f"def is_sender_{cname} : Bool := {'true' if cls.is_sender else 'false'}")
        for mname, meth in (("sendkey", "_sender_record_key"), ("recvkey", "_receiver_record_key")):
            ln, ctx = ctx_of(cls, meth)
            L.append(f"def ctx_{cname}_{mname} : List Nat := {lean_bytes(ctx)}")
            L.append(f"def len_{cname}_{mname} : Nat := {ln}")
    L.append(f"def NONCE_SIZE : Nat := {SecretBox.NONCE_SIZE}")
    L.append(f"def KEY_SIZE : Nat := {SecretBox.KEY_SIZE}")
    L.append(f"def MACBYTES : Nat := {SecretBox.MACBYTES}")
    # the two queues of a freshly built Connection: container type and capacity (`maxlen`; none = unbounded).  A bounded
    # deque silently discards from the other end when full, which no per-record model can express.
    def queue_of(attr):
        try:
            c = tr.Connection(None, None, 0.0, "")
            q = getattr(c, attr)
            return type(q).__name__, getattr(q, "maxlen", None)
        except Exception:
            return "?", 0
    for attr, name in (("_inbound_records", "inbound_records"), ("_waiting_reads", "waiting_reads")):
        ty, ml = queue_of(attr)
        L.append(f"def {name}_type : String := {lean_str(ty)}")
        L.append(f"def {name}_maxlen : Option Nat := {'none' if ml is None else 'some %d' % int(ml)}")
    # two Connection objects of two different transfers (two owners, two transit keys), both negotiated: the attributes
    # (set on the instance or found on the wormhole classes) through which both reach ONE AND THE SAME mutable object.
    # A per-connection model has nothing to say about such an object.
    def shared_between_connections():
        try:
            conns = []
            for i in (1, 2):
                owner = tr.TransitSender.__new__(tr.TransitSender)
                owner._transit_key = bytes([i]) * 32
                c = tr.Connection(owner, None, 0.0, "")
                c._negotiationSuccessful()
                conns.append(c)
            a, b = conns
            names = set(vars(a)) | set(vars(b))
            for klass in type(a).__mro__:
                if (klass.__module__ or "").startswith("wormhole"):
                    names |= set(vars(klass))
            out = []
            missing = object()
            for n in sorted(names):
                if n.startswith("__"):
                    continue
                va, vb = getattr(a, n, missing), getattr(b, n, missing)
                if va is missing or va is not vb or callable(va):
                    continue
                if isinstance(va, (int, float, complex, str, bytes, bool, type(None), tuple, frozenset, type, type(ast))):
                    continue
                out.append(n)
            return out
        except Exception as e:
            return ["<two connections could not be built: %s>" % type(e).__name__]
    L.append("/-- attributes through which two negotiated `Connection` objects of different transfers reach one and the same "
             "mutable object -/")
    L.append("def shared_between_connections : List String := [" + ", ".join(lean_str(x) for x in shared_between_connections()) + "]")
    # connectConsumer: is `consumer.registerProducer(...)` called before `self._consumer` is assigned?  (a consumer may
    # resume its producer from registerProducer(); what that yields must be queued, not written past the queue)
    def registers_before_attach():
        try:
            fn = ast.parse(textwrap.dedent(inspect.getsource(tr.Connection.connectConsumer))).body[0]
            reg = [n.lineno for n in ast.walk(fn) if isinstance(n, ast.Call) and _call_name(n).endswith("registerProducer")]
            asg = [n.lineno for n in ast.walk(fn) if isinstance(n, ast.Assign) and any(
                isinstance(t, ast.Attribute) and t.attr == "_consumer" and isinstance(t.value, ast.Name)
                and t.value.id == "self" for t in n.targets)]
            return bool(reg) and bool(asg) and max(reg) < min(asg)
        except Exception:
            return False
    L.append(f"def connectConsumer_registers_before_attach : Bool := {'true' if registers_before_attach() else 'false'}")
    L.append("/-- ordered outgoing calls `(guard-shape, callee)` of the `transit.Connection` record-layer methods -/")
    L.append("def skeleton : String → List (String × String)")
    for name in C06_SKELETON_METHODS:
        f = getattr(tr.Connection, name, None)
        if f is None:
            sk = [("missing", name)]
        else:
            try:
                sk = skeleton_of(f)
            except Exception:  # pragma: no cover
                sk = [("opaque", hashlib.sha256(inspect.getsource(f).encode()).hexdigest()[:12])]
        items = ", ".join(f"({lean_str(g)}, {lean_str(c)})" for g, c in sk)
        L.append(f"  | {lean_str(name)} => [{items}]")
    L.append("  | _ => []")
    L.append("end WV.Gen.C06")
    return "\n".join(L) + "\n"


# ---------------------------------------------------------------------------
# transit negotiation (C07): dispatch order of Connection._dataReceived, wire literals, deadlines

def extract_transit():
    from wormhole import transit as tr
    L = ["namespace WV.Gen.Transit"]
    src = textwrap.dedent(inspect.getsource(tr.Connection._dataReceived))
    fn = ast.parse(src).body[0]
    arms = []        # the top-level `if self.state == "<literal>":` statements, in source order
    lits = {}        # bytes literals used inside each arm
    for st in fn.body:
        if (isinstance(st, ast.If) and isinstance(st.test, ast.Compare) and len(st.test.ops) == 1
                and isinstance(st.test.ops[0], ast.Eq) and ast.unparse(st.test.left) == "self.state"
                and isinstance(st.test.comparators[0], ast.Constant) and isinstance(st.test.comparators[0].value, str)):
            name = st.test.comparators[0].value
            arms.append(name)
            lits[name] = [n.value for b in st.body for n in ast.walk(b)
                          if isinstance(n, ast.Constant) and isinstance(n.value, bytes)]
    L.append("/-- `if self.state == …` arms of `Connection._dataReceived`, in source order -/")
    L.append("def arms : List String := [" + ", ".join(lean_str(a) for a in arms) + "]")

    def one(name):
        v = lits.get(name, [])
        return v[0] if len(v) == 1 else b""
    L.append(f"def RELAY_OK : List Nat := {lean_bytes(one('relay'))}")
    L.append(f"def GO_EXPECTED : List Nat := {lean_bytes(one('wait-for-decision'))}")
    L.append(f"def GO : List Nat := {lean_bytes(one('go'))}")
    L.append(f"def NEVERMIND : List Nat := {lean_bytes(one('nevermind'))}")
    L.append(f"def TIMEOUT_s : Nat := {int(tr.TIMEOUT)}")
    L.append(f"def RELAY_DELAY_s : Nat := {int(tr.Common.RELAY_DELAY)}")
    # the first argument of `self._not_forever(<expr>, winner)` in Common._connect
    src = textwrap.dedent(inspect.getsource(tr.Common._connect))
    deadline = 0
    for n in ast.walk(ast.parse(src)):
        if isinstance(n, ast.Call) and _call_name(n).endswith("_not_forever") and n.args:
            deadline = eval(compile(ast.Expression(n.args[0]), "<deadline>", "eval"), {"TIMEOUT": tr.TIMEOUT})
    L.append(f"def CONNECT_DEADLINE_s : Nat := {int(deadline)}")
    # strings `connection_ready` can return, in source order
    src = textwrap.dedent(inspect.getsource(tr.Common.connection_ready))
    rets = [n for n in ast.walk(ast.parse(src))
            if isinstance(n, ast.Return) and isinstance(n.value, ast.Constant) and isinstance(n.value.value, str)]
    rets = [n.value.value for n in sorted(rets, key=lambda n: n.lineno)]
    L.append("def connection_ready_returns : List String := [" + ", ".join(lean_str(a) for a in rets) + "]")
    # is the "nevermind" answer guarded by a test of self._winner ?
    guarded = any(isinstance(n, ast.If) and "_winner" in ast.dump(n.test)
                  and any(isinstance(r, ast.Return) and isinstance(r.value, ast.Constant) and r.value.value == "nevermind"
                          for b in n.body for r in ast.walk(b))
                  for n in ast.walk(ast.parse(src)))
    L.append(f"def connection_ready_checks_winner : Bool := {'true' if guarded else 'false'}")
    # HOW is `self._winner` tested there?  `if self._winner:` asks for the TRUTH VALUE of a Connection, which is
    # "is not None" only as long as no class in Connection's MRO defines `__bool__` or `__len__` (a Connection with
    # a `__len__` that counts queued records is falsy while its queue is empty: the Sender forgets its winner).
    tests = [n.test for n in ast.walk(ast.parse(src)) if isinstance(n, (ast.If, ast.IfExp, ast.While)) and "_winner" in ast.dump(n.test)]

    def _winner_test_kind(t):
        if isinstance(t, ast.Attribute) and ast.unparse(t) == "self._winner":
            return "truth"
        if (isinstance(t, ast.Compare) and ast.unparse(t.left) == "self._winner" and len(t.ops) == 1
                and isinstance(t.ops[0], ast.IsNot) and isinstance(t.comparators[0], ast.Constant)
                and t.comparators[0].value is None):
            return "is-not-none"
        return "other"
    kinds_ = sorted({_winner_test_kind(t) for t in tests})
    kind = kinds_[0] if len(kinds_) == 1 else ("none" if not kinds_ else "mixed")
    hooks = sorted({f"{k.__name__}.{a}" for k in tr.Connection.__mro__ if k is not object
                    for a in ("__bool__", "__len__") if a in vars(k)})
    L.append("/-- how `connection_ready` tests `self._winner`: `truth` (`if self._winner:`), `is-not-none`, … -/")
    L.append(f"def connection_ready_winner_test : String := {lean_str(kind)}")
    L.append("/-- `__bool__` / `__len__` definitions in the MRO of `Connection` (they decide the truth value of a winner) -/")
    L.append("def connection_truth_hooks : List String := [" + ", ".join(lean_str(h) for h in hooks) + "]")
    L.append("/-- the test of `self._winner` means \"a winner has been chosen\" -/")
    means = kind == "is-not-none" or (kind == "truth" and not hooks)
    L.append(f"def winner_test_means_is_set : Bool := {'true' if means else 'false'}")
    # how Common._get_direct_hints ties the listening port's stopListening() to `self._listener_d`:
    # nested functions that call <port>.stopListening(), and the add* call that attaches them
    src = textwrap.dedent(inspect.getsource(tr.Common._get_direct_hints))
    tree = ast.parse(src)
    stoppers = set()
    for n in ast.walk(tree):
        if isinstance(n, (ast.FunctionDef, ast.Lambda)):
            body = n.body if isinstance(n.body, list) else [n.body]
            if any(isinstance(c, ast.Call) and isinstance(c.func, ast.Attribute) and c.func.attr == "stopListening"
                   for b in body for c in ast.walk(b)):
                stoppers.add(getattr(n, "name", "<lambda>"))
    on_cb = on_eb = False

    def _is_stopper(a):
        return (isinstance(a, ast.Name) and a.id in stoppers) or (isinstance(a, ast.Lambda) and "<lambda>" in stoppers
                                                                   and "stopListening" in ast.dump(a))
    for n in ast.walk(tree):
        if (isinstance(n, ast.Call) and isinstance(n.func, ast.Attribute)
                and ast.unparse(n.func.value) == "self._listener_d"):
            how = n.func.attr
            args = list(n.args)
            if how == "addBoth" and args and _is_stopper(args[0]):
                on_cb = on_eb = True
            elif how == "addCallback" and args and _is_stopper(args[0]):
                on_cb = True
            elif how == "addErrback" and args and _is_stopper(args[0]):
                on_eb = True
            elif how == "addCallbacks":
                if len(args) > 0 and _is_stopper(args[0]):
                    on_cb = True
                if len(args) > 1 and _is_stopper(args[1]):
                    on_eb = True
    L.append("/-- does `_listener_d` ending by callback / by errback call the port's `stopListening()` ? -/")
    L.append(f"def listener_stop_on_callback : Bool := {'true' if on_cb else 'false'}")
    L.append(f"def listener_stop_on_errback : Bool := {'true' if on_eb else 'false'}")
    # Common._connect's bookkeeping: is `contenders` a list that only grows by .append(...) (one entry per started
    # attempt), and can building an endpoint make _connect raise after attempts were started?
    src = textwrap.dedent(inspect.getsource(tr.Common._connect))
    tree = ast.parse(src)
    is_list = False
    other_writes = 0
    for n in ast.walk(tree):
        if isinstance(n, ast.Assign) and any(isinstance(t, ast.Name) and t.id == "contenders" for t in n.targets):
            is_list = isinstance(n.value, ast.List) and not n.value.elts
        if isinstance(n, (ast.Assign, ast.AugAssign)):
            tg = n.targets if isinstance(n, ast.Assign) else [n.target]
            if any(isinstance(t, ast.Subscript) and ast.unparse(t.value) == "contenders" for t in tg):
                other_writes += 1
        if (isinstance(n, ast.Call) and isinstance(n.func, ast.Attribute) and ast.unparse(n.func.value) == "contenders"
                and n.func.attr not in ("append",)):
            other_writes += 1
    appends = sum(1 for n in ast.walk(tree) if isinstance(n, ast.Call) and isinstance(n.func, ast.Attribute)
                  and ast.unparse(n.func.value) == "contenders" and n.func.attr == "append")
    contenders_is_list = is_list and other_writes == 0 and appends >= 1
    # every call of endpoint_from_hint_obj inside a `try:` body?
    in_try = True
    ncalls = 0

    def _walk(node, guarded):
        nonlocal in_try, ncalls
        if isinstance(node, ast.Call) and _call_name(node).endswith("endpoint_from_hint_obj"):
            ncalls += 1
            if not guarded:
                in_try = False
        if isinstance(node, ast.Try):
            for b in node.body:
                _walk(b, True)
            for part in (node.handlers, node.orelse, node.finalbody):
                for b in part:
                    _walk(b, guarded)
            return
        for ch in ast.iter_child_nodes(node):
            _walk(ch, guarded)
    _walk(tree, False)
    in_try = in_try and ncalls > 0
    # ... or is the function total?  probe the real one with hostnames that have tripped address classifiers
    from wormhole import _hints as hi
    from twisted.internet import task as _task
    total = True
    for host in ["a\x00b", "\x00", "", "1.2.3.4\x00", "::1\x00", "fe80::1%eth0", "fe80::1%", "\u00e9", "a" * 300, "1.2.3",
                 "[::1]", "1.2.3.4.5", " 1.2.3.4", "0x7f.1", "\ud800", "%", ":", "a b", "-", "."]:
        for port in (0, 1, 65535, 70000, -1):
            try:
                hi.endpoint_from_hint_obj(hi.DirectTCPV1Hint(host, port, 0.0), None, _task.Clock())
            except Exception:
                total = False
    L.append("/-- `Common._connect`: `contenders` is a list filled by `.append` only — one entry per started attempt -/")
    L.append(f"def connect_contenders_is_list : Bool := {'true' if contenders_is_list else 'false'}")
    L.append(f"def connect_endpoint_call_in_try : Bool := {'true' if in_try else 'false'}")
    L.append(f"def endpoint_from_hint_obj_total : Bool := {'true' if total else 'false'}")
    L.append("/-- building an endpoint cannot make `_connect` raise between starting attempts and wrapping them -/")
    L.append(f"def connect_endpoint_errors_contained : Bool := {'true' if (in_try or total) else 'false'}")
    # inbound connections: does InboundConnectionFactory.connectionWasMade start the negotiation at once
    # (`d = p.startNegotiation()` as its first, unconditional statement), and does Connection.dataReceived hand every
    # call to the try/_dataReceived wrapper (no state in which bytes are silently buffered before negotiation)?
    src = textwrap.dedent(inspect.getsource(tr.InboundConnectionFactory.connectionWasMade))
    fn = ast.parse(src).body[0]
    body = [st for st in fn.body if not (isinstance(st, ast.Expr) and isinstance(st.value, ast.Constant))]
    first = body[0] if body else None
    at_once = (isinstance(first, ast.Assign) and isinstance(first.value, ast.Call)
               and isinstance(first.value.func, ast.Attribute) and first.value.func.attr == "startNegotiation"
               and not first.value.args)
    src = textwrap.dedent(inspect.getsource(tr.Connection.dataReceived))
    fn = ast.parse(src).body[0]
    body = [st for st in fn.body if not (isinstance(st, ast.Expr) and isinstance(st.value, ast.Constant))]
    wrapped = len(body) == 1 and isinstance(body[0], ast.Try)
    L.append("/-- `InboundConnectionFactory.connectionWasMade` starts with `d = p.startNegotiation()`, unconditionally -/")
    L.append(f"def inbound_negotiates_at_once : Bool := {'true' if at_once else 'false'}")
    L.append("/-- `Connection.dataReceived` is nothing but the try/except around `_dataReceived` -/")
    L.append(f"def data_received_is_wrapper_only : Bool := {'true' if wrapped else 'false'}")
    # Common._start_connector: what is hung on the endpoint's connect() Deferred?  Only callbacks (a failure of
    # connect() is the contender's failure, whatever its class), or errbacks too?
    src = textwrap.dedent(inspect.getsource(tr.Common._start_connector))
    tree = ast.parse(src)
    no_errback = True
    ncb = 0
    for n in ast.walk(tree):
        if isinstance(n, ast.Call) and isinstance(n.func, ast.Attribute):
            if n.func.attr in ("addErrback", "addBoth", "addCallbacks", "addTimeout", "chainDeferred"):
                no_errback = False
            if n.func.attr == "addCallback":
                ncb += 1
    L.append("/-- `_start_connector` hangs only `addCallback`s on the endpoint's `connect()` Deferred -/")
    L.append(f"def start_connector_has_no_errback : Bool := {'true' if (no_errback and ncb >= 1) else 'false'}")
    # the listener's stop hook: `lp.stopListening()` as a bare statement (its Deferred is not waited for) and the
    # hook returns its argument unchanged
    src = textwrap.dedent(inspect.getsource(tr.Common._get_direct_hints))
    tree = ast.parse(src)
    fire_and_forget = False
    for n in ast.walk(tree):
        if isinstance(n, ast.FunctionDef) and n.name in stoppers and n.args.args:
            arg = n.args.args[0].arg
            stmts = [st for st in n.body if not (isinstance(st, ast.Expr) and isinstance(st.value, ast.Constant))]
            bare = any(isinstance(st, ast.Expr) and isinstance(st.value, ast.Call) and isinstance(st.value.func, ast.Attribute)
                       and st.value.func.attr == "stopListening" for st in stmts)
            ret = stmts and isinstance(stmts[-1], ast.Return) and isinstance(stmts[-1].value, ast.Name) \
                and stmts[-1].value.id == arg
            fire_and_forget = bool(bare and ret and len(stmts) == 2)
    L.append("/-- the stop hook on `_listener_d` is `lp.stopListening(); return res`: it does not wait for the port -/")
    L.append(f"def listener_stop_is_fire_and_forget : Bool := {'true' if fire_and_forget else 'false'}")
    L.append("end WV.Gen.Transit")
    return "\n".join(L) + "\n"


# ---------------------------------------------------------------------------
# C02: the shape of the per-message key derivation (ast)

def _c02_leaf(node, env):
    """one operand of the `purpose = a + b + c` concatenation -> Lean `Part`"""
    if isinstance(node, ast.Constant) and isinstance(node.value, bytes):
        return ".const " + lean_bytes(node.value)
    # sha256(X).digest()
    if (isinstance(node, ast.Call) and isinstance(node.func, ast.Attribute) and node.func.attr == "digest"
            and isinstance(node.func.value, ast.Call) and _call_name(node.func.value) == "sha256"
            and len(node.func.value.args) == 1 and isinstance(node.func.value.args[0], ast.Name)):
        v = node.func.value.args[0].id
        if v in env:
            return ".sha256 " + lean_str(env[v][0]) + " " + lean_str(env[v][1])
        return ".sha256 " + lean_str(v) + ' "-"'
    if isinstance(node, ast.Name):
        if node.id in env:
            return ".raw " + lean_str(env[node.id][0]) + " " + lean_str(env[node.id][1])
        return ".raw " + lean_str(node.id) + ' "-"'
    return ".other " + lean_str(ast.unparse(node))


def _c02_flatten(node):
    if isinstance(node, ast.BinOp) and isinstance(node.op, ast.Add):
        return _c02_flatten(node.left) + _c02_flatten(node.right)
    return [node]


def _c02_call_args(func, callee):
    """source text of the positional arguments of every call of `callee` in `func`, in order"""
    func = getattr(func, "method", func)      # automat wraps @m.output methods
    tree = ast.parse(textwrap.dedent(inspect.getsource(func)))
    out = []
    for node in ast.walk(tree):
        if isinstance(node, ast.Call) and _call_name(node) == callee:
            out.append([ast.unparse(a) for a in node.args] + [k.arg + "=" + ast.unparse(k.value) for k in node.keywords])
    return out


def _c02_boss_rx_state():
    """how Boss._init_other_state creates the four fields of the two in-order inbound streams: one entry per
    assignment statement that touches them, (its attribute targets in source order, the value's source text).  Two streams
    need two separate containers: a chained `a = b = {}` or a helper object shows up here as a different shape."""
    from wormhole import _boss
    fields = {"_next_rx_phase", "_rx_phases", "_next_rx_dilate_seqnum", "_rx_dilate_seqnums"}
    tree = ast.parse(textwrap.dedent(inspect.getsource(_boss.Boss._init_other_state)))
    out = []
    for st in ast.walk(tree):
        if isinstance(st, (ast.Assign, ast.AnnAssign, ast.AugAssign)):
            tg = st.targets if isinstance(st, ast.Assign) else [st.target]
            names = []
            for t in tg:
                for n in ast.walk(t):
                    if isinstance(n, ast.Attribute) and isinstance(n.value, ast.Name) and n.value.id == "self":
                        names.append(n.attr)
            if fields & set(names):
                out.append((names, ast.unparse(st.value) if st.value is not None else ""))
    return out


def extract_c02():
    from wormhole import _key, _receive, _send
    tree = ast.parse(textwrap.dedent(inspect.getsource(_key.derive_phase_key)))
    fn = tree.body[0]
    params = [a.arg for a in fn.args.args]
    env = {}        # local name -> (parameter, encoding)
    purpose = None
    ret = None
    for st in fn.body:
        if isinstance(st, ast.Assign) and len(st.targets) == 1 and isinstance(st.targets[0], ast.Name):
            t = st.targets[0].id
            v = st.value
            if (isinstance(v, ast.Call) and isinstance(v.func, ast.Attribute) and v.func.attr == "encode"
                    and isinstance(v.func.value, ast.Name) and v.func.value.id in params):
                enc = v.args[0].value if v.args and isinstance(v.args[0], ast.Constant) else "?"
                env[t] = (v.func.value.id, str(enc))
            elif t == "purpose":
                purpose = [_c02_leaf(n, env) for n in _c02_flatten(v)]
        elif isinstance(st, ast.Return):
            ret = ast.unparse(st.value)
    L = ["namespace WV.Gen.C02",
         "/-- one operand of the `purpose` concatenation in `derive_phase_key`: a literal, `sha256(param.encode(enc)).digest()`,",
         "    a parameter used raw, or anything the translator does not recognise -/",
         "inductive Part where",
         "  | const (b : List Nat)",
         "  | sha256 (param enc : String)",
         "  | raw (param enc : String)",
         "  | other (src : String)",
         "  deriving DecidableEq, Repr",
         "def phaseKeyParams : List String := [" + ", ".join(lean_str(p) for p in params) + "]",
         "def phasePurpose : List Part := [" + ", ".join(purpose or ['.other "purpose-not-found"']) + "]",
         "def phaseKeyReturn : String := " + lean_str(ret or ""),
         "/-- arguments of the `derive_phase_key(...)` calls in Receive.got_message, _SortedKey.compute_key, Send._encrypt_and_send -/",
         "def receiveKeyArgs : List (List String) := [" + ", ".join("[" + ", ".join(lean_str(a) for a in c) + "]" for c in _c02_call_args(_receive.Receive.got_message, "derive_phase_key")) + "]",
         "def computeKeyArgs : List (List String) := [" + ", ".join("[" + ", ".join(lean_str(a) for a in c) + "]" for c in _c02_call_args(vars(_key._SortedKey)["compute_key"], "derive_phase_key")) + "]",
         "def sendKeyArgs : List (List String) := [" + ", ".join("[" + ", ".join(lean_str(a) for a in c) + "]" for c in _c02_call_args(_send.Send._encrypt_and_send, "derive_phase_key")) + "]",
         "def receiveDecryptArgs : List (List String) := [" + ", ".join("[" + ", ".join(lean_str(a) for a in c) + "]" for c in _c02_call_args(_receive.Receive.got_message, "decrypt_data")) + "]",
         "/-- Boss._init_other_state: the assignments creating the cursors and parking dicts of the two in-order streams -/",
         "def bossRxState : List (List String × String) := [" + ", ".join(
             "([" + ", ".join(lean_str(n) for n in names) + "], " + lean_str(v) + ")" for names, v in _c02_boss_rx_state()) + "]",
         "end WV.Gen.C02"]
    return "\n".join(L) + "\n"


# ---------------------------------------------------------------------------
# PyIR: method BODIES as data (translation validation, lean/WV/Model/PyIR.lean)

# (module, class, plain methods translated in addition to every @m.output and to the plain siblings they call;
#  None = outputs + their helpers only)
PYIR_TARGETS = [
    ("wormhole._mailbox", "Mailbox", ["rx_message"]),
    ("wormhole._order", "Order", ["got_message"]),
    ("wormhole._send", "Send", []),
    ("wormhole._receive", "Receive", ["got_message"]),
    ("wormhole._boss", "Boss", ["got_message", "set_code", "allocate_code", "input_code", "rx_welcome", "start"]),
    ("wormhole._terminator", "Terminator", []),
    ("wormhole._allocator", "Allocator", []),
    ("wormhole._lister", "Lister", []),
    ("wormhole._key", "Key", []),
    ("wormhole._key", "_SortedKey", ["got_pake"]),
    ("wormhole._input", "Input", []),
    ("wormhole._nameplate", "Nameplate", ["set_nameplate"]),
    ("wormhole._code", "Code", ["set_code"]),
    ("wormhole._rendezvous", "RendezvousConnector",
     ["tx_claim", "tx_open", "tx_add", "tx_release", "tx_close", "tx_list", "tx_allocate", "stop", "_stopped",
      "ws_open", "ws_close", "_initial_connection_failed", "_tx",
      "_response_handle_allocated", "_response_handle_nameplates", "_response_handle_ack", "_response_handle_error",
      "_response_handle_welcome", "_response_handle_claimed", "_response_handle_message",
      "_response_handle_released", "_response_handle_closed"]),
]

_PYIR_ISINSTANCE = {"str", "bytes", "int", "bool", "dict", "tuple", "list", "set"}
_PYIR_INIT_METHODS = ("__attrs_post_init__", "__init__", "_init_other_state")


class _Untranslatable(Exception):
    pass


def _pyir_src(node):
    try:
        return ast.unparse(node)
    except Exception:  # pragma: no cover
        return type(node).__name__


def _lean_opt_str(x):
    return "none" if x is None else "(some %s)" % lean_str(x)


def _pyir_kw(n):
    """keyword arguments of a call: (suffix for the callee name, value nodes in source order)"""
    if not n.keywords:
        return "", []
    if any(k.arg is None for k in n.keywords):
        raise _Untranslatable("**kwargs in a call: " + _pyir_src(n))
    return "[" + ",".join(k.arg for k in n.keywords) + "]", [k.value for k in n.keywords]


_PYIR_STR_METHODS = {"split", "startswith", "encode"}


class _PyIR:
    """translates one method of one class; every construct outside the subset raises _Untranslatable(construct)"""

    def __init__(self, module, klass, kinds, data_attrs, fn):
        self.module = module
        self.klass = klass
        self.kinds = kinds              # method name -> "output" | "input" | "state" | "plain"
        self.data_attrs = data_attrs    # attributes created as {} / [] / set() by the constructor
        self.fn = fn
        a = fn.args
        if a.vararg or a.kwarg or a.kwonlyargs or a.defaults or a.kw_defaults or a.posonlyargs:
            raise _Untranslatable("parameter list with defaults/*args/**kwargs")
        names = [x.arg for x in a.args]
        if not names or names[0] != "self":
            raise _Untranslatable("not an instance method")
        self.params = names[1:]
        self.locals = set(self.params)
        for n in ast.walk(fn):
            if isinstance(n, ast.Name) and isinstance(n.ctx, (ast.Store, ast.Del)):
                self.locals.add(n.id)
            if isinstance(n, (ast.FunctionDef, ast.Lambda, ast.AsyncFunctionDef)) and n is not fn:
                raise _Untranslatable("nested function")
            if isinstance(n, ast.ExceptHandler) and n.name:
                self.locals.add(n.name)
        self.match_vars = set()
        self.ntemp = 0
        self.sibling_calls = set()

    # ---- expressions (pure) ----
    def is_self_attr(self, n):
        return isinstance(n, ast.Attribute) and isinstance(n.value, ast.Name) and n.value.id == "self"

    def exprs(self, nodes):
        return "[" + ", ".join(self.expr(n) for n in nodes) + "]"

    def expr(self, n):
        if isinstance(n, ast.Constant):
            v = n.value
            if v is None:
                return ".none"
            if v is True or v is False:
                return "(.bool %s)" % ("true" if v else "false")
            if isinstance(v, int) and v >= 0:
                return "(.int %d)" % v
            if isinstance(v, str):
                return "(.str %s)" % lean_str(v)
            if isinstance(v, bytes):
                return "(.bytes %s)" % lean_bytes(v)
            raise _Untranslatable("constant " + repr(v))
        if isinstance(n, ast.Name):
            if n.id in self.locals:
                return "(.var %s)" % lean_str(n.id)
            if n.id == "self":
                return "(.construct \"self\" [])"      # the instance itself, only ever passed on
            raise _Untranslatable("global name used as a value: " + n.id)
        if self.is_self_attr(n):
            return "(.attr %s)" % lean_str(n.attr)
        if isinstance(n, ast.Subscript) and not isinstance(n.slice, ast.Slice):
            return "(.index %s %s)" % (self.expr(n.value), self.expr(n.slice))
        if isinstance(n, ast.Compare):
            if len(n.ops) != 1:
                raise _Untranslatable("chained comparison")
            op, a, b = n.ops[0], n.left, n.comparators[0]
            if isinstance(op, (ast.Is, ast.IsNot)):
                if isinstance(b, ast.Constant) and b.value is None:
                    return "(.%s %s)" % ("isNone" if isinstance(op, ast.Is) else "isNotNone", self.expr(a))
                raise _Untranslatable("`is` with something other than None")
            tag = {ast.Eq: "eq", ast.NotEq: "ne", ast.In: "isIn", ast.NotIn: "notIn", ast.Lt: "lt"}.get(type(op))
            if tag is None:
                raise _Untranslatable("comparison " + type(op).__name__)
            return "(.%s %s %s)" % (tag, self.expr(a), self.expr(b))
        if isinstance(n, ast.BoolOp):
            tag = "and" if isinstance(n.op, ast.And) else "or"
            out = self.expr(n.values[-1])
            for v in reversed(n.values[:-1]):
                out = "(.%s %s %s)" % (tag, self.expr(v), out)
            return out
        if isinstance(n, ast.UnaryOp) and isinstance(n.op, ast.Not):
            return "(.not %s)" % self.expr(n.operand)
        if isinstance(n, ast.BinOp) and isinstance(n.op, ast.Add):
            return "(.add %s %s)" % (self.expr(n.left), self.expr(n.right))
        if isinstance(n, ast.BinOp) and isinstance(n.op, ast.Mod) and isinstance(n.left, ast.Constant) \
                and n.left.value == "%d" and not isinstance(n.right, ast.Tuple):
            return "(.fmtD %s)" % self.expr(n.right)
        if isinstance(n, ast.Tuple):
            return "(.tuple %s)" % self.exprs(n.elts)
        if isinstance(n, ast.Dict) and not n.keys:
            return ".emptyDict"
        if isinstance(n, ast.Dict) and all(isinstance(k, ast.Constant) and isinstance(k.value, str) for k in n.keys):
            # {"k1": e1, …}: an external (pure) constructor named after its keys
            return "(.call %s %s)" % (lean_str("{" + ",".join(k.value for k in n.keys) + "}"), self.exprs(n.values))
        if isinstance(n, ast.List) and not n.elts:
            return ".emptyList"
        if isinstance(n, ast.JoinedStr):
            tmpl, args = [], []
            for part in n.values:
                if isinstance(part, ast.Constant):
                    tmpl.append(part.value.replace("{", "{{").replace("}", "}}"))
                elif isinstance(part, ast.FormattedValue) and part.conversion == -1 and part.format_spec is None:
                    tmpl.append("{}")
                    args.append(part.value)
                else:
                    raise _Untranslatable("f-string with conversion/format spec")
            return "(.call %s %s)" % (lean_str('f"' + "".join(tmpl) + '"'), self.exprs(args))
        if isinstance(n, ast.Call):
            return self.call_expr(n)
        raise _Untranslatable(type(n).__name__ + ": " + _pyir_src(n))

    def call_expr(self, n):
        kwsfx, kwvals = _pyir_kw(n)
        if kwsfx:
            f = n.func
            # only external functions / constructors take keyword arguments in expression position
            if isinstance(f, ast.Name) and f.id not in self.locals and f.id not in ("len", "isinstance", "set", "dict", "list"):
                obj = getattr(self.module, f.id, None)
                if inspect.isclass(obj) and issubclass(obj, BaseException):
                    raise _Untranslatable("exception constructor with keyword arguments: " + _pyir_src(n))
                return "(.call %s %s)" % (lean_str(f.id + kwsfx), self.exprs(list(n.args) + kwvals))
            raise _Untranslatable("keyword arguments: " + _pyir_src(n))
        for a in n.args:
            if isinstance(a, ast.Starred):
                raise _Untranslatable("*args: " + _pyir_src(n))
        f = n.func
        if isinstance(f, ast.Name):
            if f.id in self.locals:
                raise _Untranslatable("call of a local: " + _pyir_src(n))
            if f.id == "len" and len(n.args) == 1:
                return "(.len %s)" % self.expr(n.args[0])
            if f.id == "isinstance" and len(n.args) == 2:
                t = n.args[1]
                if isinstance(t, ast.Name) and t.id in _PYIR_ISINSTANCE:
                    return "(.isinstance %s %s)" % (self.expr(n.args[0]), lean_str(t.id))
                raise _Untranslatable("isinstance against " + _pyir_src(t))
            if f.id == "set" and not n.args:
                return ".emptySet"
            if f.id == "dict" and not n.args:
                return ".emptyDict"
            if f.id == "list" and not n.args:
                return ".emptyList"
            if f.id == "type" and len(n.args) == 1:
                return "(.call \"type\" %s)" % self.exprs(n.args)      # only ever an argument of an exception
            if f.id in ("getattr", "setattr", "hasattr", "print", "eval", "exec", "type", "iter", "next", "super"):
                raise _Untranslatable("builtin " + f.id)
            obj = getattr(self.module, f.id, None)
            if inspect.isclass(obj):
                if issubclass(obj, BaseException):
                    return "(.construct %s %s)" % (lean_str(f.id), self.exprs(n.args))
                # any other class: an external (pure) constructor, meaning given by the interpreter's Env
            # a module-level function (or int/str/bytes): external, pure, meaning given by the interpreter's Env
            return "(.call %s %s)" % (lean_str(f.id), self.exprs(n.args))
        if isinstance(f, ast.Attribute):
            # re.search(pattern, s)
            if isinstance(f.value, ast.Name) and f.value.id == "re" and "re" not in self.locals and f.attr == "search":
                return "(.call \"re.search\" %s)" % self.exprs(n.args)
            # <match object>.group(k)  ==  k-th element of the tuple of groups that Env's re.search returns
            if isinstance(f.value, ast.Name) and f.value.id in self.match_vars and f.attr == "group" \
                    and len(n.args) == 1 and isinstance(n.args[0], ast.Constant) and isinstance(n.args[0].value, int):
                return "(.index (.var %s) (.int %d))" % (lean_str(f.value.id), n.args[0].value)
            if f.attr == "items" and not n.args:
                return "(.items %s)" % self.expr(f.value)
            # <module>.func(args) / <module>.ExceptionClass(args)
            if isinstance(f.value, ast.Name) and f.value.id not in self.locals and f.value.id != "self" \
                    and inspect.ismodule(getattr(self.module, f.value.id, None)):
                obj = getattr(getattr(self.module, f.value.id), f.attr, None)
                if inspect.isclass(obj) and issubclass(obj, BaseException):
                    return "(.construct %s %s)" % (lean_str(f.attr), self.exprs(n.args))
                return "(.call %s %s)" % (lean_str(f.value.id + "." + f.attr), self.exprs(n.args))
            # str methods on a local / an expression: external functions "str.<meth>"
            if f.attr in _PYIR_STR_METHODS and not self.is_self_attr(f.value) \
                    and not (isinstance(f.value, ast.Name) and f.value.id not in self.locals):
                return "(.call %s %s)" % (lean_str("str." + f.attr), self.exprs([f.value] + list(n.args)))
            if f.attr == "get" and len(n.args) in (1, 2) and (
                    (isinstance(f.value, ast.Name) and f.value.id in self.locals) or self.is_self_attr(f.value)):
                # `<dict>.get(k[, default])`: pure; its meaning is Env's "dict.get"
                args = [f.value] + list(n.args) + ([] if len(n.args) == 2 else [ast.Constant(None)])
                return "(.call \"dict.get\" %s)" % self.exprs(args)
        raise _Untranslatable("call in expression position: " + _pyir_src(n))

    # ---- effectful calls ----
    def data_call(self, n):
        """self.<data attr>.<mutator>(...) -> (kind, attr, args) or None"""
        if isinstance(n, ast.Call) and isinstance(n.func, ast.Attribute) and self.is_self_attr(n.func.value) \
                and n.func.value.attr in self.data_attrs and not n.keywords:
            return n.func.attr, n.func.value.attr, n.args
        return None

    def collab_call(self, n):
        """`self.<X>.<meth>(…)` on something that is not a container created by the constructor"""
        return (isinstance(n, ast.Call) and isinstance(n.func, ast.Attribute) and self.is_self_attr(n.func.value)
                and n.func.value.attr not in self.data_attrs and n.func.attr not in ("get", "items"))

    def pop_like(self, n, target):
        """`[target =] self.<a>.pop(k) | .pop(k, None) | .popleft()` as a statement, or None"""
        dc = self.data_call(n)
        if dc is None:
            return None
        kind, a, args = dc
        t = _lean_opt_str(target)
        if kind == "pop" and len(args) == 1:
            return ".pop %s %s %s" % (t, lean_str(a), self.expr(args[0]))
        if kind == "pop" and len(args) == 2 and isinstance(args[1], ast.Constant) and args[1].value is None:
            return ".popDefault %s %s %s" % (t, lean_str(a), self.expr(args[0]))
        if kind == "popleft" and not args:
            return ".popleft %s %s" % (t, lean_str(a))
        return None

    def args_with_hoist(self, args, out):
        """argument list of a recorded call; an effectful `self.<a>.pop(k)` among the arguments is hoisted into a
        temporary in front of the statement — only if everything evaluated before it is a constant or a local"""
        res = []
        for i, a in enumerate(args):
            if isinstance(a, ast.Starred):
                raise _Untranslatable("*args")
            if self.data_call(a) is not None:
                if not all(isinstance(b, (ast.Constant, ast.Name)) for b in args[:i]):
                    raise _Untranslatable("effectful argument after a non-trivial one: " + _pyir_src(a))
                tmp = "$%d" % self.ntemp
                self.ntemp += 1
                st = self.pop_like(a, tmp)
                if st is None:
                    raise _Untranslatable("effectful argument: " + _pyir_src(a))
                out.append(st)
                self.locals.add(tmp)
                res.append("(.var %s)" % lean_str(tmp))
            else:
                res.append(self.expr(a))
        return "[" + ", ".join(res) + "]"

    def call_stmt(self, n, target, out):
        """a call evaluated for its effect (`target` = local that receives the value, or None)"""
        kwsfx, kwvals = _pyir_kw(n)
        f = n.func
        pl = self.pop_like(n, target)
        if pl is not None:
            out.append(pl)
            return
        dc = self.data_call(n)
        if dc is not None:
            kind, a, args = dc
            if target is None and kind == "add" and len(args) == 1:
                out.append(".setAdd %s %s" % (lean_str(a), self.expr(args[0])))
                return
            if target is None and kind == "append" and len(args) == 1:
                out.append(".append %s %s" % (lean_str(a), self.expr(args[0])))
                return
            raise _Untranslatable("container method: " + _pyir_src(n))
        if isinstance(f, ast.Attribute) and self.is_self_attr(f.value):
            # self._X.meth(args): a collaborator
            pre = []
            args = self.args_with_hoist(list(n.args) + kwvals, pre)
            if pre:
                # CPython looks the collaborator up before it evaluates the (hoisted) argument
                out.append(".assign \"$recv\" (.attr %s)" % lean_str(f.value.attr))
                self.locals.add("$recv")
            out.extend(pre)
            if target is None:
                out.append(".emit %s %s %s" % (lean_str(f.value.attr), lean_str(f.attr + kwsfx), args))
            else:
                out.append(".emitTo %s %s %s %s" % (lean_str(target), lean_str(f.value.attr), lean_str(f.attr + kwsfx), args))
            return
        if self.is_self_attr(f):
            kind = self.kinds.get(f.attr)
            callee = getattr(self, "klass_funcs", {}).get(f.attr)
            if kind == "plain" and callee is not None and (callee.args.kwarg or callee.args.vararg) and target is None:
                # a sibling with *args/**kwargs cannot be interpreted: the call is recorded (the models have it as an item)
                out.append(".emitG \"self\" %s %s" % (lean_str(f.attr + kwsfx), self.exprs(list(n.args) + kwvals)))
                return
            if kind is None and target is None:
                # self.<attr>(…): a callable held in an attribute
                out.append(".emit %s %s %s" % (lean_str(f.attr), lean_str("__call__" + kwsfx), self.exprs(list(n.args) + kwvals)))
                return
            if kwsfx:
                raise _Untranslatable("keyword arguments: " + _pyir_src(n))
            if kind == "input" and target is None:
                pre = []
                args = self.args_with_hoist(n.args, pre)
                out.extend(pre)
                out.append(".emitG \"self\" %s %s" % (lean_str(f.attr), args))
                return
            if kind == "plain":
                pre = []
                args = self.args_with_hoist(n.args, pre)
                out.extend(pre)
                self.sibling_calls.add(f.attr)
                out.append(".callSelf %s %s %s" % (_lean_opt_str(target), lean_str(f.attr), args))
                return
            raise _Untranslatable("call of self.%s (%s)" % (f.attr, kind))
        if isinstance(f, ast.Attribute) and isinstance(f.value, ast.Name) and f.value.id == "log" \
                and "log" not in self.locals and target is None:
            out.append(".emitG \"log\" %s %s" % (lean_str(f.attr + kwsfx), self.exprs(list(n.args) + kwvals)))
            return
        if isinstance(f, ast.Attribute) and f.attr in _PYIR_STR_METHODS and target is None and not kwsfx \
                and isinstance(f.value, ast.Name) and f.value.id in self.locals:
            # `<local>.encode("ascii")` evaluated for its exception only
            self.locals.add("$_")
            out.append(".assign \"$_\" %s" % self.call_expr(n))
            return
        if isinstance(f, ast.Name) and f.id not in self.locals and target is None \
                and inspect.isfunction(getattr(self.module, f.id, None)):
            # a module-level function called for its effect (it may raise): external, evaluated and dropped
            self.locals.add("$_")
            out.append(".assign \"$_\" %s" % self.call_expr(n))
            return
        raise _Untranslatable("call statement: " + _pyir_src(n))

    # ---- statements ----
    def block(self, stmts):
        out = []
        for s in stmts:
            self.stmt(s, out)
        return "[" + ", ".join(out) + "]"

    def assert_msg_ok(self, m):
        if m is None:
            return True
        if isinstance(m, ast.Tuple):
            return all(self.assert_msg_ok(e) for e in m.elts)
        if isinstance(m, ast.Call) and isinstance(m.func, ast.Name) and m.func.id == "type" and len(m.args) == 1:
            return self.assert_msg_ok(m.args[0])
        return isinstance(m, ast.Constant) or (isinstance(m, ast.Name) and m.id in self.locals)

    def mutated_attrs(self, stmts, seen=()):
        """data attributes that a block may change (directly, or through plain sibling methods)"""
        res = set()
        for s in stmts:
            for n in ast.walk(s):
                if isinstance(n, (ast.Assign, ast.AugAssign, ast.Delete)):
                    tgts = n.targets if isinstance(n, (ast.Assign, ast.Delete)) else [n.target]
                    for t in tgts:
                        while isinstance(t, ast.Subscript):
                            t = t.value
                        if self.is_self_attr(t):
                            res.add(t.attr)
                dc = self.data_call(n) if isinstance(n, ast.Call) else None
                if dc is not None and dc[0] != "get" and dc[0] != "items":
                    res.add(dc[1])
                if isinstance(n, ast.Call) and self.is_self_attr(n.func) and self.kinds.get(n.func.attr) == "plain" \
                        and n.func.attr not in seen:
                    callee = self.klass_funcs.get(n.func.attr)
                    if callee is None:
                        res.add("*")
                    else:
                        res |= self.mutated_attrs(callee.body, tuple(seen) + (n.func.attr,))
        return res

    def stmt(self, s, out):
        if isinstance(s, ast.Expr):
            if isinstance(s.value, ast.Constant) and isinstance(s.value.value, str):
                return   # docstring
            if isinstance(s.value, ast.Call):
                self.call_stmt(s.value, None, out)
                return
            raise _Untranslatable("expression statement: " + _pyir_src(s))
        if isinstance(s, ast.Assign):
            if len(s.targets) != 1:
                raise _Untranslatable("chained assignment")
            t = s.targets[0]
            if self.is_self_attr(t):
                if self.collab_call(s.value):
                    tmp = "$%d" % self.ntemp
                    self.ntemp += 1
                    self.locals.add(tmp)
                    self.call_stmt(s.value, tmp, out)
                    out.append(".setAttr %s (.var %s)" % (lean_str(t.attr), lean_str(tmp)))
                    return
                out.append(".setAttr %s %s" % (lean_str(t.attr), self.expr(s.value)))
                return
            if isinstance(t, ast.Name):
                v = s.value
                if isinstance(v, ast.Call) and (self.data_call(v) is not None or self.collab_call(v)
                                                or (self.is_self_attr(v.func) and self.kinds.get(v.func.attr) == "plain")):
                    self.call_stmt(v, t.id, out)
                    return
                if isinstance(v, ast.Call) and isinstance(v.func, ast.Attribute) and isinstance(v.func.value, ast.Name) \
                        and v.func.value.id == "re" and v.func.attr == "search":
                    self.match_vars.add(t.id)
                elif t.id in self.match_vars:
                    raise _Untranslatable("match variable re-assigned")
                out.append(".assign %s %s" % (lean_str(t.id), self.expr(v)))
                return
            if isinstance(t, ast.Subscript) and self.is_self_attr(t.value):
                a = t.value.attr
                if isinstance(t.slice, ast.Slice):
                    sl = t.slice
                    if sl.lower is None and sl.upper is None and sl.step is None and isinstance(s.value, ast.List) \
                            and not s.value.elts:
                        out.append(".clear %s" % lean_str(a))
                        return
                    raise _Untranslatable("slice assignment: " + _pyir_src(s))
                out.append(".setItem %s %s %s" % (lean_str(a), self.expr(t.slice), self.expr(s.value)))
                return
            raise _Untranslatable("assignment target: " + _pyir_src(t))
        if isinstance(s, ast.AugAssign):
            if not isinstance(s.op, ast.Add):
                raise _Untranslatable("augmented assignment " + type(s.op).__name__)
            if self.is_self_attr(s.target):
                out.append(".augAttr %s %s" % (lean_str(s.target.attr), self.expr(s.value)))
                return
            if isinstance(s.target, ast.Name):
                out.append(".augLocal %s %s" % (lean_str(s.target.id), self.expr(s.value)))
                return
            raise _Untranslatable("augmented assignment target")
        if isinstance(s, ast.Assert):
            if not self.assert_msg_ok(s.msg):
                raise _Untranslatable("assert message: " + _pyir_src(s.msg))
            out.append(".assert %s" % self.expr(s.test))
            return
        if isinstance(s, ast.If):
            out.append(".ite %s %s %s" % (self.expr(s.test), self.block(s.body), self.block(s.orelse)))
            return
        if isinstance(s, ast.While):
            if s.orelse:
                raise _Untranslatable("while/else")
            out.append(".while %s %s" % (self.expr(s.test), self.block(s.body)))
            return
        if isinstance(s, ast.For):
            if s.orelse:
                raise _Untranslatable("for/else")
            if isinstance(s.target, ast.Name):
                pat = "(.one %s)" % lean_str(s.target.id)
            elif isinstance(s.target, ast.Tuple) and all(isinstance(e, ast.Name) for e in s.target.elts):
                pat = "(.tup [%s])" % ", ".join(lean_str(e.id) for e in s.target.elts)
            else:
                raise _Untranslatable("loop target: " + _pyir_src(s.target))
            it = s.iter
            base = it.func.value if (isinstance(it, ast.Call) and isinstance(it.func, ast.Attribute)
                                     and it.func.attr == "items" and not it.args) else it
            if not self.is_self_attr(base):
                raise _Untranslatable("loop over something other than self.<attr>[.items()]: " + _pyir_src(it))
            mut = self.mutated_attrs(s.body)
            if base.attr in mut or "*" in mut:
                raise _Untranslatable("loop body mutates the iterated attribute self.%s" % base.attr)
            out.append(".forIn %s %s %s" % (pat, self.expr(it), self.block(s.body)))
            return
        if isinstance(s, ast.With):
            if len(s.items) != 1 or s.items[0].optional_vars is not None or not self.collab_call(s.items[0].context_expr):
                raise _Untranslatable("with statement other than `with self.<X>.<meth>(…):`")
            # the recorded call, then the block (the context manager's __exit__ does not swallow exceptions)
            self.call_stmt(s.items[0].context_expr, None, out)
            for st in s.body:
                self.stmt(st, out)
            return
        if isinstance(s, ast.Try):
            if s.orelse or s.finalbody or len(s.handlers) != 1:
                raise _Untranslatable("try with else/finally/several handlers")
            h = s.handlers[0]
            if isinstance(h.type, ast.Tuple) and all(isinstance(e, ast.Name) for e in h.type.elts):
                out.append(".tryExceptAny %s [%s] %s %s" % (self.block(s.body), ", ".join(lean_str(e.id) for e in h.type.elts),
                                                          _lean_opt_str(h.name), self.block(h.body)))
                return
            if not isinstance(h.type, ast.Name):
                raise _Untranslatable("except clause: " + _pyir_src(h.type) if h.type else "bare except")
            out.append(".tryExcept %s %s %s %s" % (self.block(s.body), lean_str(h.type.id), _lean_opt_str(h.name),
                                                  self.block(h.body)))
            return
        if isinstance(s, ast.Return):
            if s.value is not None and self.collab_call(s.value):
                self.locals.add("$ret")
                self.call_stmt(s.value, "$ret", out)
                out.append(".ret (some (.var \"$ret\"))")
                return
            out.append(".ret none" if s.value is None else ".ret (some %s)" % self.expr(s.value))
            return
        if isinstance(s, ast.Raise):
            if s.cause is not None or s.exc is None:
                raise _Untranslatable("raise … from / bare raise")
            e = s.exc
            if isinstance(e, ast.Call) and isinstance(e.func, ast.Name) and not e.keywords:
                out.append(".raise %s %s" % (lean_str(e.func.id), self.exprs(e.args)))
                return
            if isinstance(e, ast.Name) and e.id not in self.locals:
                out.append(".raise %s []" % lean_str(e.id))
                return
            if isinstance(e, ast.Call) and isinstance(e.func, ast.Attribute) and isinstance(e.func.value, ast.Name) \
                    and e.func.value.id not in self.locals and not e.keywords \
                    and inspect.ismodule(getattr(self.module, e.func.value.id, None)):
                out.append(".raise %s %s" % (lean_str(e.func.attr), self.exprs(e.args)))
                return
            raise _Untranslatable("raise of " + _pyir_src(e))
        if isinstance(s, ast.Pass):
            out.append(".pass")
            return
        if isinstance(s, ast.Delete):
            for t in s.targets:
                if not isinstance(t, ast.Name):
                    raise _Untranslatable("del of " + _pyir_src(t))
                out.append(".del %s" % lean_str(t.id))
            return
        raise _Untranslatable(type(s).__name__ + " statement")


def _pyir_class(module_name, cls_name, extra):
    """-> (translated: {name: (params, body_lean)}, untranslatable: {name: construct})"""
    mod = importlib.import_module(module_name)
    klass = getattr(mod, cls_name)
    kinds, funcs = {}, {}
    for name, member in vars(klass).items():
        f = member
        kind = "plain"
        if hasattr(f, "method") and callable(getattr(f, "method")):
            kind = {"MethodicalInput": "input", "MethodicalState": "state", "MethodicalOutput": "output"}.get(
                type(f).__name__, "other")
            f = f.method
        if not inspect.isfunction(f):
            continue
        kinds[name] = kind
        try:
            funcs[name] = ast.parse(textwrap.dedent(inspect.getsource(f))).body[0]
        except Exception:  # pragma: no cover
            pass
    # data attributes: created as an empty container by the constructor
    data_attrs = set()
    for init in _PYIR_INIT_METHODS:
        fn = funcs.get(init)
        if fn is None:
            continue
        for n in ast.walk(fn):
            if isinstance(n, ast.Assign) and len(n.targets) == 1:
                t, v = n.targets[0], n.value
                if isinstance(t, ast.Attribute) and isinstance(t.value, ast.Name) and t.value.id == "self":
                    if (isinstance(v, ast.Dict) and not v.keys) or (isinstance(v, ast.List) and not v.elts) or (
                            isinstance(v, ast.Call) and isinstance(v.func, ast.Name)
                            and v.func.id in ("set", "dict", "list", "deque") and not v.args):
                        data_attrs.add(t.attr)
    todo = sorted(n for n, k in kinds.items() if k == "output") + list(extra or [])
    done, bad = {}, {}
    while todo:
        name = todo.pop(0)
        if name in done or name in bad:
            continue
        fn = funcs.get(name)
        if fn is None:
            bad[name] = "source not available"
            continue
        try:
            tr = _PyIR(mod, klass, kinds, data_attrs, fn)
            tr.klass_funcs = funcs
            body = tr.block(fn.body)
            done[name] = (tr.params, body)
            for callee in sorted(tr.sibling_calls):
                if callee not in done and callee not in bad:
                    todo.append(callee)
        except _Untranslatable as e:
            bad[name] = str(e)
    # a method that calls an untranslatable sibling is itself untranslatable (the interpreter could not look it up)
    changed = True
    while changed:
        changed = False
        for name in sorted(done):
            fn = funcs[name]
            for n in ast.walk(fn):
                if isinstance(n, ast.Call) and isinstance(n.func, ast.Attribute) and isinstance(n.func.value, ast.Name) \
                        and n.func.value.id == "self" and n.func.attr in bad and kinds.get(n.func.attr) == "plain" \
                        and not (funcs[n.func.attr].args.kwarg or funcs[n.func.attr].args.vararg):
                    bad[name] = "calls untranslatable self.%s" % n.func.attr
                    del done[name]
                    changed = True
                    break
            if changed:
                break
    return done, bad


def extract_pyir(targets=None):
    """Lean data: the bodies of the configured methods in the IR of WV/Model/PyIR.lean"""
    L = ["import WV.Model.PyIR",
         "namespace WV.Gen.PyIR",
         "open WV.PyIR",
         ""]
    all_done, all_bad, classes = [], [], []
    for module, cls, extra in (targets or PYIR_TARGETS):
        try:
            done, bad = _pyir_class(module, cls, extra)
        except Exception as e:
            all_bad.append((cls, "class not translatable: %s" % type(e).__name__))
            continue
        cid = cls.lstrip("_")
        classes.append((cls, cid, done))
        for name in sorted(done):
            params, body = done[name]
            L.append("def %s : List String × List Stmt :=" % ident("m_%s_%s" % (cid, name)))
            L.append("  ([%s]," % ", ".join(lean_str(p) for p in params))
            L.append("   %s)" % body)
            all_done.append((cls, cid, name))
        for name in sorted(bad):
            all_bad.append(("%s.%s" % (cls, name), bad[name]))
    L.append("")
    L.append("/-- per class: the plain and output methods by name (what `self.<meth>(…)` resolves to) -/")
    for cls, cid, done in classes:
        L.append("def %s : MethodTable" % ident("tbl_" + cid))
        for name in sorted(done):
            L.append("  | %s => some %s" % (lean_str(name), ident("m_%s_%s" % (cid, name))))
        L.append("  | _ => none")
    L.append("")
    L.append("/-- parameter names and body of `Class.method`, translated from the working tree -/")
    L.append("def body : String → Option (List String × List Stmt)")
    for cls, cid, name in all_done:
        L.append("  | %s => some %s" % (lean_str("%s.%s" % (cls, name)), ident("m_%s_%s" % (cid, name))))
    L.append("  | _ => none")
    L.append("")
    L.append("def translated : List String := [%s]" % ", ".join(lean_str("%s.%s" % (c, n)) for c, _, n in all_done))
    L.append("")
    L.append("/-- methods with a construct outside the subset, and the construct -/")
    L.append("def untranslatable : List (String × String) := [%s]" % ", ".join(
        "(%s, %s)" % (lean_str(k), lean_str(v)) for k, v in all_bad))
    L.append("end WV.Gen.PyIR")
    return "\n".join(L) + "\n", len(all_done), all_bad


# ---------------------------------------------------------------------------
# C14: which exceptions are caught around the statements that parse bytes a mailbox participant controls
# (the models treat "the PAKE body / element is unusable" as ONE event that ends in `scared`, whatever the parser raised)

CATCH_TARGETS = [
    ("wormhole._key", "_SortedKey", "got_pake"),
    ("wormhole._key", "_SortedKey", "compute_key"),
    ("wormhole._receive", "Receive", "got_message"),
    ("wormhole._rendezvous", "RendezvousConnector", "ws_message"),
]


def _catch_universe():
    """the probe universe: every exception class of builtins below Exception, and the classes the libraries used on these
    paths define (json, binascii, spake2, nacl) — name -> class"""
    import builtins
    import binascii as _ba
    import json as _js
    uni = {}

    def add(c):
        if isinstance(c, type) and issubclass(c, Exception):
            uni[_catch_name(c)] = c
    for v in vars(builtins).values():
        add(v)
    add(_js.JSONDecodeError)
    add(_ba.Error)
    add(_ba.Incomplete)
    import spake2.spake2 as _sp
    import spake2.ed25519_basic as _ed
    import nacl.exceptions as _ne
    for m in (_sp, _ed, _ne):
        for v in vars(m).values():
            if isinstance(v, type) and v.__module__ == m.__name__:
                add(v)
    return uni


def _catch_name(c):
    return c.__qualname__ if c.__module__ == "builtins" else "%s.%s" % (c.__module__, c.__qualname__)


class _TryCalls(ast.NodeVisitor):
    """call names in source order; nested function bodies and `assert` statements are skipped"""

    def __init__(self):
        self.calls = []

    def visit_Call(self, node):
        for a in node.args:
            self.visit(a)
        for k in node.keywords:
            self.visit(k.value)
        if isinstance(node.func, ast.Attribute):
            self.visit(node.func.value)
        self.calls.append(_call_name(node))

    def visit_Assert(self, node):
        pass

    def visit_Return(self, node):
        if node.value is not None:
            self.visit(node.value)
        self.calls.append("return")

    def visit_Raise(self, node):
        if node.exc is not None:
            self.visit(node.exc)
        self.calls.append("raise")

    def visit_FunctionDef(self, node):
        pass

    visit_Lambda = visit_FunctionDef


_CATCH_NOISE = {"self._debug", "_timing.add", "self._timing.add", "log.err", "log.msg", "isinstance", "type"}


def _calls_of(nodes):
    v = _TryCalls()
    for n in nodes:
        v.visit(n)
    return [c for c in v.calls if c not in _CATCH_NOISE]


def extract_catches():
    uni = _catch_universe()
    data = {}
    for module, cls, meth in CATCH_TARGETS:
        mod = importlib.import_module(module)
        f = vars(getattr(mod, cls))[meth]
        f = getattr(f, "method", f)
        f = inspect.unwrap(f)
        fn = ast.parse(textwrap.dedent(inspect.getsource(f))).body[0]
        tries = []
        outside = []

        def walk(nodes):
            for n in nodes:
                if isinstance(n, ast.Try):
                    named = []
                    for h in n.handlers:
                        if h.type is None:
                            classes = [BaseException]
                        else:
                            val = eval(compile(ast.Expression(h.type), "<except>", "eval"), dict(vars(mod)))
                            classes = list(val) if isinstance(val, tuple) else [val]
                        for c in classes:
                            if not (isinstance(c, type) and issubclass(c, BaseException)):
                                raise ValueError("%s.%s: except clause names a non-exception %r" % (cls, meth, c))
                        named.append((classes, _calls_of(h.body)))
                    # Python tries the handlers in order: a class belongs to the FIRST handler that matches it
                    for i, (classes, hcalls) in enumerate(named):
                        earlier = [c for cl, _ in named[:i] for c in cl]
                        covers = sorted(k for k, c in uni.items()
                                        if issubclass(c, tuple(classes)) and not (earlier and issubclass(c, tuple(earlier))))
                        tries.append(dict(body=_calls_of(n.body), caught=[_catch_name(c) for c in classes], covers=covers,
                                          handler=hcalls, orelse=_calls_of(n.orelse), final=_calls_of(n.finalbody)))
                elif isinstance(n, (ast.If, ast.For, ast.While)):
                    outside.extend(_calls_of([n.test] if hasattr(n, "test") else [n.iter]))
                    walk(n.body)
                    walk(n.orelse)
                elif isinstance(n, ast.With):
                    outside.extend(_calls_of([it.context_expr for it in n.items]))
                    walk(n.body)
                else:
                    outside.extend(_calls_of([n]))
        walk(fn.body)
        data["%s.%s" % (cls, meth)] = dict(tries=tries, outside=outside)
    mro = {k: [_catch_name(b) for b in c.__mro__ if b not in (object, BaseException, c) and issubclass(b, Exception)]
           for k, c in uni.items()}
    return data, mro


def lean_catches(data, mro):
    ls = lambda xs: "[" + ", ".join(lean_str(x) for x in xs) + "]"
    L = ["namespace WV.Gen.Catches",
         "/-- one handler of a `try` statement: the calls inside the `try` body, the classes the handler names (resolved in the",
         "    module's namespace: aliases and re-exports are seen through), the classes of `classes` it actually catches (being a",
         "    subclass of a named class and of no earlier handler's), the calls in the handler (`return`/`raise` are listed),",
         "    the calls in `else:` and `finally:` -/",
         "structure Handler where",
         "  body : List String",
         "  caught : List String",
         "  covers : List String",
         "  handler : List String",
         "  orelse : List String := []",
         "  final : List String := []",
         "  deriving DecidableEq, Repr",
         "/-- the handlers of each function, in source order (outermost first) -/",
         "def handlers : String → List Handler"]
    for k in sorted(data):
        hs = ",\n     ".join("{ body := %s, caught := %s,\n       covers := %s,\n       handler := %s, orelse := %s, final := %s }"
                             % (ls(t["body"]), ls(t["caught"]), ls(t["covers"]), ls(t["handler"]), ls(t["orelse"]), ls(t["final"]))
                             for t in data[k]["tries"])
        L.append("  | %s =>\n    [%s]" % (lean_str(k), hs))
    L.append("  | _ => []")
    L.append("/-- the calls of each function that are outside every `try` (assert statements are not listed) -/")
    L.append("def outside : String → List String")
    for k in sorted(data):
        L.append("  | %s => %s" % (lean_str(k), ls(data[k]["outside"])))
    L.append("  | _ => []")
    L.append("/-- the probe universe: every exception class of `builtins` below `Exception`, and those of json, binascii, spake2")
    L.append("    and nacl, each with its proper base classes below `Exception` (method resolution order) -/")
    L.append("def classes : List (String × List String) := [")
    L.append(",\n".join("  (%s, %s)" % (lean_str(k), ls(mro[k])) for k in sorted(mro)) + "]")
    L.append("end WV.Gen.Catches")
    return "\n".join(L) + "\n"


# [dil] begin ---------------------------------------------------------------
# PyIR for the Dilation data path (Outbound / Inbound / PullToPush): a second generated module, WV/Gen/PyIRDil.lean,
# so that the pins of the first one (`untranslatable`, `translated`) do not move.  `_PyIRDil` only ADDS cases to
# `_PyIR` (every override falls back to the base class); the classes are not Automat machines, every method is "plain".

PYIR_DIL_TARGETS = [
    ("wormhole._dilation.outbound", "Outbound",
     ["build_record", "queue_and_send_record", "send_if_connected", "use_connection", "stop_using_connection",
      "handle_ack", "pauseProducing", "resumeProducing", "_get_next_unpaused_producer", "stopProducing",
      "_check_invariants", "subchannel_registerProducer", "subchannel_unregisterProducer", "subchannel_closed"]),
    ("wormhole._dilation.inbound", "Inbound",
     ["is_record_old", "update_ack_watermark", "handle_open", "handle_data", "handle_close", "use_connection",
      "stop_using_connection", "subchannel_local_open", "subchannel_closed", "subchannel_pauseProducing",
      "subchannel_resumeProducing", "subchannel_stopProducing"]),
    ("wormhole._dilation.outbound", "PullToPush",
     ["startStreaming", "stopStreaming", "pauseProducing", "resumeProducing", "stopProducing"]),
]
_PYIR_DIL_RECORD_MODULE = "wormhole._dilation.connection"


def _pyir_dil_records():
    """the namedtuple record classes of connection.py: [(class name, fields)]"""
    conn = importlib.import_module(_PYIR_DIL_RECORD_MODULE)
    out = []
    for k, v in sorted(vars(conn).items()):
        if inspect.isclass(v) and issubclass(v, tuple) and hasattr(v, "_fields"):
            out.append((k, list(v._fields)))
    return out


def _pyir_dil_field_index(name):
    idx = {f.index(name) for _, f in _pyir_dil_records() if name in f}
    if len(idx) != 1:
        raise _Untranslatable("attribute .%s of a value: not a field with one position in the record classes" % name)
    return idx.pop()


class _PyIRDil(_PyIR):
    def __init__(self, module, klass, kinds, data_attrs, fn, attr_kinds):
        self.module = module
        self.klass = klass
        self.kinds = kinds
        self.data_attrs = data_attrs
        self.attr_kinds = attr_kinds      # data attribute -> "set" | "dict" | "list" (deque, list)
        self.fn = fn
        a = fn.args
        if a.kwarg or a.kwonlyargs or a.defaults or a.kw_defaults or a.posonlyargs:
            raise _Untranslatable("parameter list with defaults/**kwargs")
        names = [x.arg for x in a.args]
        if not names or names[0] != "self":
            raise _Untranslatable("not an instance method")
        # `*args` is an ordinary last parameter that holds the tuple of the extra positional arguments
        self.params = names[1:] + ([a.vararg.arg] if a.vararg else [])
        self.locals = set(self.params)
        for n in ast.walk(fn):
            if isinstance(n, ast.Name) and isinstance(n.ctx, (ast.Store, ast.Del)):
                self.locals.add(n.id)
            if isinstance(n, (ast.Lambda, ast.AsyncFunctionDef)):
                raise _Untranslatable("nested function")
            if isinstance(n, ast.FunctionDef) and n is not fn:
                self.closure_of(n)          # raises unless it is a plain forwarding closure
                self.locals.add(n.name)
            if isinstance(n, (ast.Yield, ast.YieldFrom)):
                raise _Untranslatable("generator")
            if isinstance(n, ast.ExceptHandler) and n.name:
                self.locals.add(n.name)
        self.match_vars = set()
        self.ntemp = 0
        self.sibling_calls = set()
        self.assigned = set(self.params)   # locals assigned by a top-level statement seen so far

    def closure_of(self, n):
        """`def f(): self.<plain sibling>(<locals>…)` -> (method, arg nodes)"""
        a = n.args
        if a.args or a.vararg or a.kwarg or a.kwonlyargs or len(n.body) != 1:
            raise _Untranslatable("nested function")
        b = n.body[0]
        if isinstance(b, ast.Expr) and isinstance(b.value, ast.Call) and self.is_self_attr(b.value.func) \
                and not b.value.keywords and all(isinstance(x, ast.Name) for x in b.value.args) \
                and self.kinds.get(b.value.func.attr) == "plain":
            return b.value.func.attr, list(b.value.args)
        raise _Untranslatable("nested function")

    def is_set_valued(self, n):
        if isinstance(n, ast.Call) and isinstance(n.func, ast.Name) and n.func.id == "set" and len(n.args) == 1:
            return n.args[0]
        if isinstance(n, ast.Call) and isinstance(n.func, ast.Attribute) and n.func.attr == "union" and len(n.args) == 1:
            return n
        if self.is_self_attr(n) and self.attr_kinds.get(n.attr) == "set":
            return n
        return None

    def expr(self, n):
        if isinstance(n, ast.Name) and n.id == "self" and "self" not in self.locals:
            return "(.construct \"self\" [])"
        if isinstance(n, ast.Compare) and len(n.ops) == 1:
            op, a, b = n.ops[0], n.left, n.comparators[0]
            if isinstance(op, ast.LtE):
                return "(.le %s %s)" % (self.expr(a), self.expr(b))
            if isinstance(op, ast.Eq):
                sa, sb = self.is_set_valued(a), self.is_set_valued(b)
                if sa is not None and sb is not None:
                    return "(.setEq %s %s)" % (self.expr(sa), self.expr(sb))
            if isinstance(op, ast.Is) and not (isinstance(b, ast.Constant) and b.value is None):
                return "(.call \"is\" %s)" % self.exprs([a, b])
        if isinstance(n, ast.BinOp) and isinstance(n.op, ast.Mod) and isinstance(n.left, ast.Constant) \
                and isinstance(n.left.value, str) and n.left.value != "%d":
            # a message: `"…%s…" % (a, b)`; its text is given by the interpreter's Env
            args = list(n.right.elts) if isinstance(n.right, ast.Tuple) else [n.right]
            return "(.call \"str%%\" %s)" % self.exprs([n.left] + args)
        if isinstance(n, ast.Attribute) and not self.is_self_attr(n) \
                and not (isinstance(n.value, ast.Name) and n.value.id not in self.locals):
            return "(.fieldAt %s %s %d)" % (self.expr(n.value), lean_str(n.attr), _pyir_dil_field_index(n.attr))
        return super().expr(n)

    def project_class(self, t):
        if isinstance(t, ast.Name) and t.id not in self.locals and t.id not in _PYIR_ISINSTANCE \
                and inspect.isclass(getattr(self.module, t.id, None)):
            return t.id
        return None

    def call_expr(self, n):
        f = n.func
        if not n.keywords and isinstance(f, ast.Name) and f.id not in self.locals:
            plain = not any(isinstance(a, ast.Starred) for a in n.args)
            if f.id == "max" and len(n.args) == 2 and plain:
                return "(.max2 %s %s)" % (self.expr(n.args[0]), self.expr(n.args[1]))
            if f.id == "bool" and len(n.args) == 1 and plain:
                return "(.truthOf %s)" % self.expr(n.args[0])
            if f.id == "hasattr" and len(n.args) == 2 and plain and isinstance(n.args[1], ast.Constant):
                return "(.call \"hasattr\" %s)" % self.exprs(n.args)
            if f.id == "isinstance" and len(n.args) == 2 and plain:
                t = n.args[1]
                ts = t.elts if isinstance(t, ast.Tuple) else [t]
                cs = [self.project_class(x) for x in ts]
                if cs and all(c is not None for c in cs):
                    return "(.isinstanceAny %s [%s])" % (self.expr(n.args[0]), ", ".join(lean_str(c) for c in cs))
            obj = getattr(self.module, f.id, None)
            if plain and inspect.isclass(obj) and not issubclass(obj, BaseException) and obj not in (int, str, bytes, bool):
                # a project class: an external constructor, the object it returns is given by the interpreter's Env
                return "(.call %s %s)" % (lean_str(f.id), self.exprs(n.args))
        if not n.keywords and isinstance(f, ast.Name) and f.id in self.params:
            # a parameter that holds a record class: `record_type(seqnum, *args)`
            pos = [a for a in n.args if not isinstance(a, ast.Starred)]
            star = [a for a in n.args if isinstance(a, ast.Starred)]
            if len(star) <= 1 and (not star or n.args[-1] is star[0]):
                return "(.applyCls (.var %s) %s %s)" % (lean_str(f.id), self.exprs(pos),
                                                        "(some %s)" % self.expr(star[0].value) if star else "none")
        if not n.keywords and isinstance(f, ast.Attribute) and not any(isinstance(a, ast.Starred) for a in n.args):
            if f.attr == "isdisjoint" and len(n.args) == 1:
                return "(.isDisjoint %s %s)" % (self.expr(f.value), self.expr(n.args[0]))
            if f.attr == "union" and len(n.args) == 1:
                return "(.setUnion %s %s)" % (self.expr(f.value), self.expr(n.args[0]))
            if f.attr == "get" and len(n.args) in (1, 2) and self.is_self_attr(f.value) \
                    and self.attr_kinds.get(f.value.attr) == "dict":
                return "(.getD %s %s %s)" % (self.expr(f.value), self.expr(n.args[0]),
                                             self.expr(n.args[1]) if len(n.args) == 2 else ".none")
            if f.attr == "providedBy" and isinstance(f.value, ast.Name) and f.value.id not in self.locals:
                return "(.call %s %s)" % (lean_str(f.value.id + ".providedBy"), self.exprs(n.args))
        return super().call_expr(n)

    def recv_chain(self, f):
        """`self.<obj>.<a>.<b>` / `<local>.<a>.<b>` as the callee of a call -> (kind, base, dotted method) or None"""
        path = [f.attr]
        v = f.value
        while isinstance(v, ast.Attribute) and not self.is_self_attr(v):
            path.append(v.attr)
            v = v.value
        meth = ".".join(reversed(path))
        if self.is_self_attr(v):
            return "attr", v.attr, meth
        if isinstance(v, ast.Name) and v.id in self.locals:
            return "local", v.id, meth
        return None

    def call_stmt(self, n, target, out):
        f = n.func
        dc = self.data_call(n)
        if dc is not None and target is not None and dc[0] == "get" and self.attr_kinds.get(dc[1]) == "dict":
            out.append(".assign %s %s" % (lean_str(target), self.call_expr(n)))      # `x = self.<dict>.get(k[, d])` is pure
            return
        if dc is not None and target is None:
            kind, a, args = dc
            ak = self.attr_kinds.get(a)
            rot = kind == "rotate" and len(args) == 1 and isinstance(args[0], ast.UnaryOp) \
                and isinstance(args[0].op, ast.USub) and isinstance(args[0].operand, ast.Constant) \
                and args[0].operand.value == 1
            if rot and ak == "list":
                out.append(".rotateLeft %s" % lean_str(a)); return
            one = self.expr(args[0]) if len(args) == 1 and not rot else None
            if kind == "extend" and one and ak == "list":
                out.append(".extend %s %s" % (lean_str(a), one)); return
            if kind == "clear" and not args:
                out.append(".clearAny %s" % lean_str(a)); return
            if kind == "discard" and one and ak == "set":
                out.append(".setDiscard %s %s" % (lean_str(a), one)); return
            if kind == "remove" and one and ak == "set":
                out.append(".setRemove %s %s" % (lean_str(a), one)); return
            if kind == "remove" and one and ak == "list":
                out.append(".listRemove %s %s" % (lean_str(a), one)); return
        if dc is None and target is None and not n.keywords and isinstance(f, ast.Attribute) \
                and not any(isinstance(a, ast.Starred) for a in n.args):
            rc = self.recv_chain(f)
            if rc is not None and not (rc[0] == "local" and rc[1] == "log"):
                kind, base, meth = rc
                pre = []
                args = self.args_with_hoist(n.args, pre)
                if pre:
                    raise _Untranslatable("effectful argument of a call that may re-enter: " + _pyir_src(n))
                if kind == "attr":
                    out.append(".emitA %s %s %s" % (lean_str(base), lean_str(meth), args))
                else:
                    out.append(".emitV (.var %s) %s %s" % (lean_str(base), lean_str(meth), args))
                return
        super().call_stmt(n, target, out)

    def assert_msg_ok(self, m):
        if isinstance(m, ast.Name) and m.id in self.assigned:
            return True
        return super().assert_msg_ok(m)

    @staticmethod
    def has_break(stmts):
        """does the block contain a break/continue that belongs to the enclosing loop?"""
        for s in stmts:
            if isinstance(s, (ast.Break, ast.Continue)):
                return True
            if isinstance(s, (ast.For, ast.While)):
                if _PyIRDil.has_break(s.orelse):
                    return True
                continue
            for fld in ("body", "orelse", "finalbody"):
                if _PyIRDil.has_break(getattr(s, fld, []) or []):
                    return True
            for h in getattr(s, "handlers", []) or []:
                if _PyIRDil.has_break(h.body):
                    return True
        return False

    def stmt(self, s, out):
        if isinstance(s, ast.Break):
            out.append(".brk"); return
        if isinstance(s, ast.Continue):
            out.append(".cont"); return
        if isinstance(s, ast.FunctionDef):
            meth, args = self.closure_of(s)
            out.append(".assign %s (.call \"closure\" %s)" % (lean_str(s.name), self.exprs([ast.Constant(meth)] + args)))
            return
        if isinstance(s, ast.Delete) and len(s.targets) == 1 and isinstance(s.targets[0], ast.Subscript) \
                and self.is_self_attr(s.targets[0].value) and not isinstance(s.targets[0].slice, ast.Slice):
            t = s.targets[0]
            out.append(".delItem %s %s" % (lean_str(t.value.attr), self.expr(t.slice)))
            return
        if isinstance(s, (ast.While, ast.For)) and not s.orelse and self.has_break(s.body):
            tmp = []
            super().stmt(s, tmp)
            assert len(tmp) == 1 and (tmp[0].startswith(".while ") or tmp[0].startswith(".forIn "))
            out.append(tmp[0].replace(".while ", ".whileBC ", 1) if tmp[0].startswith(".while ")
                       else tmp[0].replace(".forIn ", ".forInBC ", 1))
            return
        super().stmt(s, out)
        if s in self.fn.body and isinstance(s, ast.Assign) and len(s.targets) == 1 and isinstance(s.targets[0], ast.Name):
            self.assigned.add(s.targets[0].id)


def _pyir_dil_class(module_name, cls_name, methods):
    mod = importlib.import_module(module_name)
    klass = getattr(mod, cls_name)
    kinds, funcs = {}, {}
    for name, member in vars(klass).items():
        if not inspect.isfunction(member):
            continue
        kinds[name] = "plain"
        try:
            funcs[name] = ast.parse(textwrap.dedent(inspect.getsource(member))).body[0]
        except Exception:  # pragma: no cover
            pass
    attr_kinds = {}
    for init in _PYIR_INIT_METHODS:
        fn = funcs.get(init)
        if fn is None:
            continue
        for n in ast.walk(fn):
            if isinstance(n, ast.Assign) and len(n.targets) == 1:
                t, v = n.targets[0], n.value
                if isinstance(t, ast.Attribute) and isinstance(t.value, ast.Name) and t.value.id == "self":
                    if isinstance(v, ast.Dict) and not v.keys:
                        attr_kinds[t.attr] = "dict"
                    elif isinstance(v, ast.List) and not v.elts:
                        attr_kinds[t.attr] = "list"
                    elif isinstance(v, ast.Call) and isinstance(v.func, ast.Name) and not v.args \
                            and v.func.id in ("set", "dict", "list", "deque"):
                        attr_kinds[t.attr] = {"set": "set", "dict": "dict"}.get(v.func.id, "list")
    data_attrs = set(attr_kinds)
    todo = list(methods)
    done, bad = {}, {}
    while todo:
        name = todo.pop(0)
        if name in done or name in bad:
            continue
        fn = funcs.get(name)
        if fn is None:
            bad[name] = "source not available"
            continue
        try:
            tr = _PyIRDil(mod, klass, kinds, data_attrs, fn, attr_kinds)
            tr.klass_funcs = funcs
            body = tr.block(fn.body)
            done[name] = (tr.params, body)
            for callee in sorted(tr.sibling_calls):
                if callee not in done and callee not in bad:
                    todo.append(callee)
        except _Untranslatable as e:
            bad[name] = str(e)
    changed = True
    while changed:
        changed = False
        for name in sorted(done):
            for n in ast.walk(funcs[name]):
                if isinstance(n, ast.Call) and isinstance(n.func, ast.Attribute) and isinstance(n.func.value, ast.Name) \
                        and n.func.value.id == "self" and n.func.attr in bad:
                    bad[name] = "calls untranslatable self.%s" % n.func.attr
                    del done[name]
                    changed = True
                    break
            if changed:
                break
    return done, bad


def extract_pyir_dil():
    """Lean data: the bodies of the Dilation data-path methods in the IR of WV/Model/PyIR.lean"""
    L = ["import WV.Model.PyIR", "namespace WV.Gen.PyIRDil", "open WV.PyIR", ""]
    all_done, all_bad, classes = [], [], []
    for module, cls, methods in PYIR_DIL_TARGETS:
        try:
            done, bad = _pyir_dil_class(module, cls, methods)
        except Exception as e:
            all_bad.append((cls, "class not translatable: %s" % type(e).__name__))
            continue
        cid = cls.lstrip("_")
        classes.append((cls, cid, done))
        for name in sorted(done):
            params, body = done[name]
            L.append("def %s : List String × List Stmt :=" % ident("m_%s_%s" % (cid, name)))
            L.append("  ([%s]," % ", ".join(lean_str(p) for p in params))
            L.append("   %s)" % body)
            all_done.append((cls, cid, name))
        for name in sorted(bad):
            all_bad.append(("%s.%s" % (cls, name), bad[name]))
    L.append("")
    for cls, cid, done in classes:
        L.append("def %s : MethodTable" % ident("tbl_" + cid))
        for name in sorted(done):
            L.append("  | %s => some %s" % (lean_str(name), ident("m_%s_%s" % (cid, name))))
        L.append("  | _ => none")
    L.append("")
    L.append("def translated : List String := [%s]" % ", ".join(lean_str("%s.%s" % (c, n)) for c, _, n in all_done))
    L.append("")
    L.append("/-- methods with a construct outside the subset, and the construct -/")
    L.append("def untranslatable : List (String × String) := [%s]" % ", ".join(
        "(%s, %s)" % (lean_str(k), lean_str(v)) for k, v in all_bad))
    L.append("")
    L.append("/-- the namedtuple record classes of connection.py and their fields (what `fieldAt` positions refer to) -/")
    L.append("def recordFields : List (String × List String) := [%s]" % ", ".join(
        "(%s, [%s])" % (lean_str(k), ", ".join(lean_str(x) for x in f)) for k, f in _pyir_dil_records()))
    L.append("end WV.Gen.PyIRDil")
    return "\n".join(L) + "\n", len(all_done), all_bad
# [dil] end -----------------------------------------------------------------

# [deepConn] begin ----------------------------------------------------------
# PyIR for the Dilation Connector (src/wormhole/_dilation/connector.py): a third generated module, WV/Gen/PyIRConn.lean.
# `_PyIRConn` only ADDS cases to `_PyIRDil` (every override falls back to the base class).

PYIR_CONN_TARGETS = [
    ("wormhole._dilation.connector", "Connector",
     ["_publish_hints", "_use_hints", "stop_listeners", "stop_pending_connectors", "stop_pending_connections",
      "break_cycles", "start", "_schedule_connection", "_connect", "_start_listener", "_get_listener_addresses",
      "build_protocol"]),
]
# module-level functions whose call is an EFFECT (recorded), not a pure external function
_PYIR_CONN_EFFECTFUL = {"deferLater"}


class _PyIRConn(_PyIRDil):
    def __init__(self, module, klass, kinds, data_attrs, fn, attr_kinds):
        self.module = module
        self.klass = klass
        self.kinds = kinds
        self.data_attrs = data_attrs
        self.attr_kinds = attr_kinds
        self.fn = fn
        a = fn.args
        if a.kwarg or a.vararg or a.kwonlyargs or a.defaults or a.kw_defaults or a.posonlyargs:
            raise _Untranslatable("parameter list with defaults/*args/**kwargs")
        names = [x.arg for x in a.args]
        if not names or names[0] != "self":
            raise _Untranslatable("not an instance method")
        self.params = names[1:]
        self.locals = set(self.params)
        self.stores = {}
        for n in ast.walk(fn):
            if isinstance(n, ast.Name) and isinstance(n.ctx, (ast.Store, ast.Del)):
                self.locals.add(n.id)
                self.stores[n.id] = self.stores.get(n.id, 0) + 1
            if isinstance(n, (ast.FunctionDef, ast.AsyncFunctionDef)) and n is not fn:
                raise _Untranslatable("nested function")
            if isinstance(n, (ast.Yield, ast.YieldFrom)):
                raise _Untranslatable("generator")
            if isinstance(n, ast.ExceptHandler) and n.name:
                self.locals.add(n.name)
        self.match_vars = set()
        self.ntemp = 0
        self.sibling_calls = set()
        self.assigned = set(self.params)

    def singleton(self, n):
        """a module-level name bound to an instance that compares by identity (roles.LEADER / FOLLOWER)"""
        if isinstance(n, ast.Name) and n.id not in self.locals and hasattr(self.module, n.id):
            obj = getattr(self.module, n.id)
            if obj is not None and type(obj).__eq__ is object.__eq__ and not callable(obj) and not inspect.ismodule(obj) \
                    and not inspect.isclass(obj):
                return n.id
        return None

    def effect_comp(self, n):
        """`[v.meth(args…) for v in self.<set or list attr>]` -> (var, attr node, meth, arg nodes) or None"""
        if not (isinstance(n, ast.ListComp) and len(n.generators) == 1):
            return None
        g = n.generators[0]
        e = n.elt
        if g.ifs or g.is_async or not isinstance(g.target, ast.Name) or not self.is_self_attr(g.iter) \
                or self.attr_kinds.get(g.iter.attr) not in ("set", "list"):
            return None
        v = g.target.id
        if v in self.params or self.stores.get(v, 0) != 1:
            return None      # the comprehension variable must not be visible as another local
        if isinstance(e, ast.Call) and isinstance(e.func, ast.Attribute) and isinstance(e.func.value, ast.Name) \
                and e.func.value.id == v and not e.keywords and not any(isinstance(a, ast.Starred) for a in e.args):
            for a in e.args:
                for m in ast.walk(a):
                    if isinstance(m, ast.Call):
                        return None
            return v, g.iter, e.func.attr, list(e.args)
        return None

    def comp_loop(self, comp, collect, out):
        v, src, meth, args = comp
        mut = self.mutated_attrs([])      # nothing but the recorded call runs in the body
        if collect is None:
            body = ".emitV (.var %s) %s %s" % (lean_str(v), lean_str(meth), self.exprs(args))
        else:
            self.locals.add("$e")
            body = ".emitVT \"$e\" (.var %s) %s %s, .appendLocal %s (.var \"$e\")" % (
                lean_str(v), lean_str(meth), self.exprs(args), lean_str(collect))
        out.append(".forInS (.one %s) %s [%s]" % (lean_str(v), self.expr(src), body))

    def expr(self, n):
        if isinstance(n, ast.Compare) and len(n.ops) == 1 and isinstance(n.ops[0], (ast.Is, ast.IsNot)):
            c = self.singleton(n.comparators[0])
            if c is not None:
                e = "(.isConst %s %s)" % (self.expr(n.left), lean_str(c))
                return e if isinstance(n.ops[0], ast.Is) else "(.not %s)" % e
        if self.is_self_attr(n) and self.kinds.get(n.attr) in ("plain", "input"):
            return "(.construct \"boundmethod\" [(.str %s)])" % lean_str(n.attr)      # `self.accept` as a value
        if isinstance(n, ast.Lambda):
            return "(.construct \"lambda\" [(.str %s)])" % lean_str(_pyir_src(n))     # opaque; its source is its identity
        if isinstance(n, ast.Attribute) and isinstance(n.value, ast.Name) and n.value.id not in self.locals \
                and n.value.id != "self" and getattr(self.module, n.value.id, None) is not None:
            return "(.construct \"global\" [(.str %s)])" % lean_str(n.value.id + "." + n.attr)   # `log.err` as a value
        if isinstance(n, ast.ListComp) and len(n.generators) == 1:
            g = n.generators[0]
            e = n.elt
            if not g.ifs and not g.is_async and isinstance(g.target, ast.Name) and isinstance(e, ast.Call) \
                    and isinstance(e.func, ast.Name) and e.func.id not in self.locals and not e.keywords \
                    and len(e.args) == 1 and isinstance(e.args[0], ast.Name) and e.args[0].id == g.target.id \
                    and inspect.isfunction(getattr(self.module, e.func.id, None)) \
                    and g.target.id not in self.params and self.stores.get(g.target.id, 0) == 1 \
                    and ((isinstance(g.iter, ast.Name) and g.iter.id in self.locals) or self.is_self_attr(g.iter)):
                return "(.mapExt %s %s)" % (lean_str(e.func.id), self.expr(g.iter))
        return super().expr(n)

    def call_stmt(self, n, target, out):
        f = n.func
        dc = self.data_call(n)
        if dc is not None and dc[0] == "when_next_empty" and not dc[2] and target is not None \
                and self.attr_kinds.get(dc[1]) == "set":
            # EmptyableSet.when_next_empty(): a recorded call on the set object
            out.append(".emitTo %s %s \"when_next_empty\" []" % (lean_str(target), lean_str(dc[1])))
            return
        if target is not None and isinstance(f, ast.Name) and f.id in _PYIR_CONN_EFFECTFUL and f.id not in self.locals \
                and not n.keywords and not any(isinstance(a, ast.Starred) for a in n.args):
            out.append(".emitGT %s %s %s" % (lean_str(target), lean_str(f.id), self.exprs(n.args)))
            return
        super().call_stmt(n, target, out)

    def stmt(self, s, out):
        if isinstance(s, ast.Expr):
            comp = self.effect_comp(s.value)
            if comp is not None:
                self.comp_loop(comp, None, out)
                return
        if isinstance(s, ast.Assign) and len(s.targets) == 1 and isinstance(s.targets[0], ast.Name):
            v = s.value
            if isinstance(v, ast.Call) and isinstance(v.func, ast.Name) and v.func.id not in self.locals \
                    and not v.keywords and len(v.args) == 1 and self.effect_comp(v.args[0]) is not None:
                tmp = "$lc%d" % self.ntemp
                self.ntemp += 1
                self.locals.add(tmp)
                out.append(".assign %s .emptyList" % lean_str(tmp))
                self.comp_loop(self.effect_comp(v.args[0]), tmp, out)
                out.append(".assign %s (.call %s [(.var %s)])" % (lean_str(s.targets[0].id), lean_str(v.func.id), lean_str(tmp)))
                return
            if isinstance(v, ast.Call) and isinstance(v.func, ast.Name) and v.func.id in _PYIR_CONN_EFFECTFUL:
                self.call_stmt(v, s.targets[0].id, out)
                return
        if isinstance(s, ast.For) and not s.orelse and self.is_self_attr(s.iter) \
                and self.attr_kinds.get(s.iter.attr) == "set" and not self.has_break(s.body):
            tmp = []
            super().stmt(s, tmp)
            assert len(tmp) == 1 and tmp[0].startswith(".forIn ")
            out.append(tmp[0].replace(".forIn ", ".forInS ", 1))
            return
        super().stmt(s, out)


def _pyir_conn_class(module_name, cls_name, methods):
    mod = importlib.import_module(module_name)
    klass = getattr(mod, cls_name)
    kinds, funcs = {}, {}
    for name, member in vars(klass).items():
        f = member
        kind = "plain"
        if hasattr(f, "method") and callable(getattr(f, "method")):
            kind = {"MethodicalInput": "input", "MethodicalState": "state", "MethodicalOutput": "output"}.get(
                type(f).__name__, "other")
            f = f.method
        if not inspect.isfunction(f):
            continue
        kinds[name] = kind
        try:
            funcs[name] = ast.parse(textwrap.dedent(inspect.getsource(f))).body[0]
        except Exception:  # pragma: no cover
            pass
    attr_kinds = {}
    for init in _PYIR_INIT_METHODS:
        fn = funcs.get(init)
        if fn is None:
            continue
        for n in ast.walk(fn):
            if isinstance(n, ast.Assign) and len(n.targets) == 1:
                t, v = n.targets[0], n.value
                if isinstance(t, ast.Attribute) and isinstance(t.value, ast.Name) and t.value.id == "self":
                    if isinstance(v, ast.Dict) and not v.keys:
                        attr_kinds[t.attr] = "dict"
                    elif isinstance(v, ast.List) and not v.elts:
                        attr_kinds[t.attr] = "list"
                    elif isinstance(v, ast.Call) and isinstance(v.func, ast.Name) and not v.args:
                        if v.func.id in ("set", "dict", "list", "deque") and not v.keywords:
                            attr_kinds[t.attr] = {"set": "set", "dict": "dict"}.get(v.func.id, "list")
                        else:
                            c = getattr(mod, v.func.id, None)
                            # a subclass of set created empty (observer.EmptyableSet): a set; the methods it overrides or
                            # adds are pinned in `setSubclassMethods`
                            if inspect.isclass(c) and issubclass(c, set):
                                attr_kinds[t.attr] = "set"
    data_attrs = set(attr_kinds)
    todo = sorted(n for n, k in kinds.items() if k == "output") + list(methods)
    done, bad = {}, {}
    while todo:
        name = todo.pop(0)
        if name in done or name in bad:
            continue
        fn = funcs.get(name)
        if fn is None:
            bad[name] = "source not available"
            continue
        if kinds.get(name) not in ("plain", "output"):
            bad[name] = "not a plain method or output"
            continue
        try:
            tr = _PyIRConn(mod, klass, kinds, data_attrs, fn, attr_kinds)
            tr.klass_funcs = funcs
            body = tr.block(fn.body)
            done[name] = (tr.params, body)
            for callee in sorted(tr.sibling_calls):
                if callee not in done and callee not in bad:
                    todo.append(callee)
        except _Untranslatable as e:
            bad[name] = str(e)
    changed = True
    while changed:
        changed = False
        for name in sorted(done):
            for n in ast.walk(funcs[name]):
                if isinstance(n, ast.Call) and isinstance(n.func, ast.Attribute) and isinstance(n.func.value, ast.Name) \
                        and n.func.value.id == "self" and n.func.attr in bad:
                    bad[name] = "calls untranslatable self.%s" % n.func.attr
                    del done[name]
                    changed = True
                    break
            if changed:
                break
    # what a `set` subclass used for a data attribute overrides / adds (the interpreter gives it plain-set semantics)
    sub = []
    for k, v in sorted(vars(mod).items()):
        if inspect.isclass(v) and issubclass(v, set) and v is not set:
            sub.append((k, sorted(n for n in vars(v) if not (n.startswith("__") and n != "__init__"))))
    outputs = sorted(n for n, k in kinds.items() if k == "output")
    return done, bad, sub, outputs


def extract_pyir_conn():
    """Lean data: the bodies of the Dilation Connector's outputs and helpers in the IR of WV/Model/PyIR.lean"""
    L = ["import WV.Model.PyIR", "namespace WV.Gen.PyIRConn", "open WV.PyIR", ""]
    all_done, all_bad, classes, subs, outs = [], [], [], [], []
    for module, cls, methods in PYIR_CONN_TARGETS:
        try:
            done, bad, sub, outputs = _pyir_conn_class(module, cls, methods)
        except Exception as e:
            all_bad.append((cls, "class not translatable: %s" % type(e).__name__))
            continue
        cid = cls.lstrip("_")
        classes.append((cls, cid, done))
        subs.extend(sub)
        outs.extend("%s.%s" % (cls, o) for o in outputs)
        for name in sorted(done):
            params, body = done[name]
            L.append("def %s : List String × List Stmt :=" % ident("m_%s_%s" % (cid, name)))
            L.append("  ([%s]," % ", ".join(lean_str(p) for p in params))
            L.append("   %s)" % body)
            all_done.append((cls, cid, name))
        for name in sorted(bad):
            all_bad.append(("%s.%s" % (cls, name), bad[name]))
    L.append("")
    for cls, cid, done in classes:
        L.append("def %s : MethodTable" % ident("tbl_" + cid))
        for name in sorted(done):
            L.append("  | %s => some %s" % (lean_str(name), ident("m_%s_%s" % (cid, name))))
        L.append("  | _ => none")
    L.append("")
    L.append("def translated : List String := [%s]" % ", ".join(lean_str("%s.%s" % (c, n)) for c, _, n in all_done))
    L.append("")
    L.append("/-- every `@m.output` of the class (translated or not) -/")
    L.append("def outputs : List String := [%s]" % ", ".join(lean_str(o) for o in outs))
    L.append("")
    L.append("/-- methods with a construct outside the subset, and the construct -/")
    L.append("def untranslatable : List (String × String) := [%s]" % ", ".join(
        "(%s, %s)" % (lean_str(k), lean_str(v)) for k, v in all_bad))
    L.append("")
    L.append("/-- subclasses of `set` visible in the module and the methods they define (a data attribute created from one is")
    L.append("    interpreted as a plain set: `discard` there also fires the `when_next_empty` observer, which is not modelled) -/")
    L.append("def setSubclassMethods : List (String × List String) := [%s]" % ", ".join(
        "(%s, [%s])" % (lean_str(k), ", ".join(lean_str(x) for x in f)) for k, f in subs))
    L.append("end WV.Gen.PyIRConn")
    return "\n".join(L) + "\n", len(all_done), all_bad
# [deepConn] end ------------------------------------------------------------

# [deepL2] begin ------------------------------------------------------------
# PyIR for the L2 connection layer (connection.py: _Framer, _Record, DilatedConnectionProtocol, the record codec; encode.py):
# a third generated module, WV/Gen/PyIRL2.lean.  `_PyIRL2` only ADDS cases to `_PyIRDil`/`_PyIR`.

PYIR_L2_MODULE = "wormhole._dilation.connection"
PYIR_L2_TARGETS = [
    ("_Framer", ["add_and_parse", "send_frame"]),
    ("_Record", ["send_record", "connectionMade", "add_and_unframe"]),
    ("DilatedConnectionProtocol", ["send_record", "dataReceived", "connectionLost", "disconnect", "pauseProducing",
                                   "resumeProducing", "use_relay"]),
]
PYIR_L2_FUNCTIONS = [("wormhole._dilation.connection", ["encode_record", "parse_record"]),
                     ("wormhole._dilation.encode", ["to_be4", "from_be4"])]


class _PyIRL2(_PyIRDil):
    def __init__(self, module, klass, kinds, data_attrs, fn, attr_kinds, selfless=False):
        self.module = module
        self.klass = klass
        self.kinds = kinds
        self.data_attrs = data_attrs
        self.attr_kinds = attr_kinds
        self.fn = fn
        a = fn.args
        if a.vararg or a.kwarg or a.kwonlyargs or a.defaults or a.kw_defaults or a.posonlyargs:
            raise _Untranslatable("parameter list with defaults/*args/**kwargs")
        names = [x.arg for x in a.args]
        if selfless:
            self.params = names
        else:
            if not names or names[0] != "self":
                raise _Untranslatable("not an instance method")
            self.params = names[1:]
        self.locals = set(self.params)
        for n in ast.walk(fn):
            if isinstance(n, ast.Name) and isinstance(n.ctx, (ast.Store, ast.Del)):
                self.locals.add(n.id)
            if isinstance(n, (ast.Lambda, ast.AsyncFunctionDef)) or (isinstance(n, ast.FunctionDef) and n is not fn):
                raise _Untranslatable("nested function")
            if isinstance(n, ast.YieldFrom):
                raise _Untranslatable("yield from")
            if isinstance(n, ast.ExceptHandler) and n.name:
                self.locals.add(n.name)
        self.match_vars = set()
        self.ntemp = 0
        self.sibling_calls = set()
        self.assigned = set(self.params)
        self.handler_cls = []

    def record_class(self, name):
        obj = getattr(self.module, name, None)
        if name not in self.locals and inspect.isclass(obj) and issubclass(obj, tuple) and hasattr(obj, "_fields"):
            return obj
        return None

    def expr(self, n):
        if isinstance(n, ast.Name) and n.id not in self.locals and n.id != "self":
            v = getattr(self.module, n.id, None)
            if isinstance(v, bytes):
                return "(.bytes %s)" % lean_bytes(v)
            if isinstance(v, int) and not isinstance(v, bool) and v >= 0:
                return "(.int %d)" % v
        if isinstance(n, ast.Subscript) and isinstance(n.slice, ast.Slice):
            sl = n.slice
            if sl.step is not None:
                raise _Untranslatable("slice with a step")
            lo = "none" if sl.lower is None else "(some %s)" % self.expr(sl.lower)
            hi = "none" if sl.upper is None else "(some %s)" % self.expr(sl.upper)
            return "(.slice %s %s %s)" % (self.expr(n.value), lo, hi)
        if isinstance(n, ast.Compare) and len(n.ops) == 1:
            op, a, b = n.ops[0], n.left, n.comparators[0]
            if isinstance(op, ast.GtE):
                return "(.ge %s %s)" % (self.expr(a), self.expr(b))
            if isinstance(op, ast.In) and isinstance(a, ast.Constant) and isinstance(a.value, bytes) and len(a.value) == 1:
                return "(.byteIn %d %s)" % (a.value[0], self.expr(b))
        if isinstance(n, ast.JoinedStr):
            # a log message: its text is given by the interpreter's Env ("fstring"); the template is the first argument
            tmpl, args = [], []
            for part in n.values:
                if isinstance(part, ast.Constant):
                    tmpl.append(part.value)
                elif isinstance(part, ast.FormattedValue) and part.conversion == -1 and part.format_spec is None:
                    tmpl.append("{}")
                    args.append(part.value)
                else:
                    raise _Untranslatable("f-string with conversion/format spec")
            return "(.call \"fstring\" %s)" % self.exprs([ast.Constant("".join(tmpl))] + args)
        return super().expr(n)

    def call_expr(self, n):
        f = n.func
        if isinstance(f, ast.Name):
            rc = self.record_class(f.id)
            if rc is not None:
                if any(isinstance(a, ast.Starred) for a in n.args) or any(k.arg is None for k in n.keywords):
                    raise _Untranslatable("record constructor with *args/**kwargs")
                fields = list(rc._fields)
                slots = dict(zip(fields, n.args))
                for k in n.keywords:
                    if k.arg not in fields or k.arg in slots:
                        raise _Untranslatable("record constructor keyword: " + _pyir_src(n))
                    slots[k.arg] = k.value
                if len(n.args) > len(fields) or set(slots) != set(fields):
                    raise _Untranslatable("record constructor arity: " + _pyir_src(n))
                # keyword arguments are evaluated in source order; they are pure here, so the field order is used
                return "(.construct %s %s)" % (lean_str(f.id), self.exprs([slots[x] for x in fields]))
        if isinstance(f, ast.Attribute) and f.attr == "startswith" and len(n.args) == 1 and not n.keywords:
            return "(.startsWith %s %s)" % (self.expr(f.value), self.expr(n.args[0]))
        return super().call_expr(n)

    def call_stmt(self, n, target, out):
        f = n.func
        if self.is_self_attr(f) and self.kinds.get(f.attr) == "input" and not n.keywords:
            # an Automat input on self: interpreted through the dispatcher the Lean side builds from the generated table
            pre = []
            args = self.args_with_hoist(n.args, pre)
            out.extend(pre)
            out.append(".callSelf %s %s %s" % (_lean_opt_str(target), lean_str(f.attr), args))
            return
        k = len(out)
        super().call_stmt(n, target, out)
        if target is not None and len(out) == k + 1 and out[k].startswith(".emitTo "):
            # `x = self.<obj>.<meth>(…)`: the value (or exception) is a function of the evaluated arguments
            out[k] = ".emitToA " + out[k][len(".emitTo "):]

    def pop_like(self, n, target):
        dc = self.data_call(n)
        if dc is not None and dc[0] == "pop" and len(dc[2]) == 1 and self.attr_kinds.get(dc[1]) == "list" \
                and isinstance(dc[2][0], ast.Constant) and dc[2][0].value == 0:
            return ".popleft %s %s" % (_lean_opt_str(target), lean_str(dc[1]))      # `list.pop(0)`
        return super().pop_like(n, target)

    def stmt(self, s, out):
        if isinstance(s, ast.If) and isinstance(s.test, ast.Call) and self.is_self_attr(s.test.func) \
                and self.kinds.get(s.test.func.attr) == "plain":
            # `if self.<sibling>(…):` — the call is made first, its value tested
            tmp = "$%d" % self.ntemp
            self.ntemp += 1
            self.locals.add(tmp)
            self.call_stmt(s.test, tmp, out)
            out.append(".ite (.var %s) %s %s" % (lean_str(tmp), self.block(s.body), self.block(s.orelse)))
            return
        if isinstance(s, ast.Expr) and isinstance(s.value, ast.Yield):
            v = s.value.value
            if v is None:
                raise _Untranslatable("bare yield")
            if isinstance(v, ast.Call) and self.is_self_attr(v.func) and self.kinds.get(v.func.attr) in ("input", "plain"):
                self.locals.add("$y")
                self.call_stmt(v, "$y", out)
                out.append(".emitG \"$gen\" \"yield\" [(.var \"$y\")]")
                return
            out.append(".emitG \"$gen\" \"yield\" [%s]" % self.expr(v))
            return
        if isinstance(s, ast.Assign) and len(s.targets) == 1 and isinstance(s.targets[0], ast.Name) \
                and isinstance(s.value, ast.Call) and self.is_self_attr(s.value.func) \
                and self.kinds.get(s.value.func.attr) == "input":
            self.call_stmt(s.value, s.targets[0].id, out)
            return
        if isinstance(s, ast.AugAssign) and isinstance(s.op, ast.Add) and isinstance(s.target, ast.Name) \
                and self.collab_call(s.value):
            # `x += self._X.meth(…)`: the call cannot change the local, so it is hoisted
            tmp = "$%d" % self.ntemp
            self.ntemp += 1
            self.locals.add(tmp)
            self.call_stmt(s.value, tmp, out)
            out.append(".augLocal %s (.var %s)" % (lean_str(s.target.id), lean_str(tmp)))
            return
        if isinstance(s, ast.Try) and not s.orelse and not s.finalbody and len(s.handlers) == 1 \
                and isinstance(s.handlers[0].type, ast.Name):
            self.handler_cls.append(s.handlers[0].type.id)
            try:
                super().stmt(s, out)
            finally:
                self.handler_cls.pop()
            return
        if isinstance(s, ast.Raise) and s.exc is None and s.cause is None and self.handler_cls:
            # a bare `raise` inside `except Cls:` re-raises the exception that was caught (classes match by name)
            out.append(".raise %s []" % lean_str(self.handler_cls[-1]))
            return
        super().stmt(s, out)


def _pyir_l2_translate(mod, klass, kinds, funcs, attr_kinds, todo, selfless=False):
    done, bad = {}, {}
    todo = list(todo)
    while todo:
        name = todo.pop(0)
        if name in done or name in bad:
            continue
        fn = funcs.get(name)
        if fn is None:
            bad[name] = "source not available"
            continue
        try:
            tr = _PyIRL2(mod, klass, kinds, set(attr_kinds), fn, attr_kinds, selfless)
            tr.klass_funcs = funcs
            body = tr.block(fn.body)
            done[name] = (tr.params, body)
            for callee in sorted(tr.sibling_calls):
                if callee not in done and callee not in bad:
                    todo.append(callee)
        except _Untranslatable as e:
            bad[name] = str(e)
    changed = True
    while changed:
        changed = False
        for name in sorted(done):
            for n in ast.walk(funcs[name]):
                if isinstance(n, ast.Call) and isinstance(n.func, ast.Attribute) and isinstance(n.func.value, ast.Name) \
                        and n.func.value.id == "self" and n.func.attr in bad and kinds.get(n.func.attr) == "plain":
                    bad[name] = "calls untranslatable self.%s" % n.func.attr
                    del done[name]
                    changed = True
                    break
            if changed:
                break
    return done, bad


def _pyir_l2_class(mod, cls_name, extra):
    klass = getattr(mod, cls_name)
    kinds, funcs = {}, {}
    for name, member in vars(klass).items():
        f = member
        kind = "plain"
        if hasattr(f, "method") and callable(getattr(f, "method")):
            kind = {"MethodicalInput": "input", "MethodicalState": "state", "MethodicalOutput": "output"}.get(
                type(f).__name__, "other")
            f = f.method
        if not inspect.isfunction(f):
            continue
        kinds[name] = kind
        try:
            funcs[name] = ast.parse(textwrap.dedent(inspect.getsource(f))).body[0]
        except Exception:  # pragma: no cover
            pass
    attr_kinds = {}
    for init in _PYIR_INIT_METHODS:
        fn = funcs.get(init)
        if fn is None:
            continue
        for n in ast.walk(fn):
            if isinstance(n, ast.Assign) and len(n.targets) == 1:
                t, v = n.targets[0], n.value
                if isinstance(t, ast.Attribute) and isinstance(t.value, ast.Name) and t.value.id == "self":
                    if isinstance(v, ast.Dict) and not v.keys:
                        attr_kinds[t.attr] = "dict"
                    elif isinstance(v, ast.List) and not v.elts:
                        attr_kinds[t.attr] = "list"
    todo = sorted(n for n, k in kinds.items() if k == "output") + list(extra)
    return _pyir_l2_translate(mod, klass, kinds, funcs, attr_kinds, todo)


def _pyir_l2_first_collectors(mod, cls_name):
    """inputs of the class's machine that are wired with `collector=first` in at least one `upon(…)`, and those wired
    without (Automat's default collector is `list`)"""
    klass = getattr(mod, cls_name)
    tree = ast.parse(textwrap.dedent(inspect.getsource(klass))).body[0]
    first, other = set(), set()
    for n in ast.walk(tree):
        if isinstance(n, ast.Call) and isinstance(n.func, ast.Attribute) and n.func.attr == "upon" and n.args \
                and isinstance(n.args[0], ast.Name):
            col = [k.value for k in n.keywords if k.arg == "collector"]
            if col and isinstance(col[0], ast.Name) and col[0].id == "first":
                first.add(n.args[0].id)
            else:
                other.add(n.args[0].id)
    return sorted(first), sorted(other)


def extract_pyir_l2():
    """Lean data: the bodies of the L2 connection layer in the IR of WV/Model/PyIR.lean"""
    L = ["import WV.Model.PyIR", "namespace WV.Gen.PyIRL2", "open WV.PyIR", ""]
    all_done, all_bad, classes, collectors = [], [], [], []
    mod = importlib.import_module(PYIR_L2_MODULE)
    for cls, extra in PYIR_L2_TARGETS:
        try:
            done, bad = _pyir_l2_class(mod, cls, extra)
            first, other = _pyir_l2_first_collectors(mod, cls)
        except Exception as e:
            all_bad.append((cls, "class not translatable: %s" % type(e).__name__))
            continue
        cid = {"DilatedConnectionProtocol": "DCP"}.get(cls, cls.lstrip("_"))
        classes.append((cls, cid, done))
        collectors.append((cid, first, other))
        for name in sorted(done):
            params, body = done[name]
            L.append("def %s : List String × List Stmt :=" % ident("m_%s_%s" % (cid, name)))
            L.append("  ([%s]," % ", ".join(lean_str(p) for p in params))
            L.append("   %s)" % body)
            all_done.append((cls, cid, name))
        for name in sorted(bad):
            all_bad.append(("%s.%s" % (cls, name), bad[name]))
    for module, names in PYIR_L2_FUNCTIONS:
        fmod = importlib.import_module(module)
        cid = "fn_" + module.rsplit(".", 1)[1]
        funcs = {}
        for name in names:
            try:
                funcs[name] = ast.parse(textwrap.dedent(inspect.getsource(getattr(fmod, name)))).body[0]
            except Exception:
                pass
        done, bad = _pyir_l2_translate(fmod, None, {}, funcs, {}, names, selfless=True)
        classes.append((cid, cid, done))
        for name in sorted(done):
            params, body = done[name]
            L.append("def %s : List String × List Stmt :=" % ident("m_%s_%s" % (cid, name)))
            L.append("  ([%s]," % ", ".join(lean_str(p) for p in params))
            L.append("   %s)" % body)
            all_done.append((cid, cid, name))
        for name in sorted(bad):
            all_bad.append(("%s.%s" % (cid, name), bad[name]))
    L.append("")
    for cls, cid, done in classes:
        L.append("def %s : MethodTable" % ident("tbl_" + cid))
        for name in sorted(done):
            L.append("  | %s => some %s" % (lean_str(name), ident("m_%s_%s" % (cid, name))))
        L.append("  | _ => none")
    L.append("")
    L.append("def translated : List String := [%s]" % ", ".join(lean_str("%s.%s" % (c, n)) for c, _, n in all_done))
    L.append("")
    L.append("/-- methods with a construct outside the subset, and the construct -/")
    L.append("def untranslatable : List (String × String) := [%s]" % ", ".join(
        "(%s, %s)" % (lean_str(k), lean_str(v)) for k, v in all_bad))
    L.append("")
    L.append("/-- per machine: the inputs wired with `collector=first` in every `upon`, and the inputs wired (somewhere) with the default collector -/")
    L.append("def firstCollectors : List (String × List String × List String) := [%s]" % ", ".join(
        "(%s, [%s], [%s])" % (lean_str(c), ", ".join(lean_str(x) for x in f), ", ".join(lean_str(x) for x in o))
        for c, f, o in collectors))
    L.append("")
    L.append("/-- the namedtuple classes of connection.py and their fields (what `fieldAt` positions and `construct` refer to) -/")
    L.append("def recordFields : List (String × List String) := [%s]" % ", ".join(
        "(%s, [%s])" % (lean_str(k), ", ".join(lean_str(x) for x in v._fields))
        for k, v in sorted(vars(mod).items())
        if inspect.isclass(v) and issubclass(v, tuple) and hasattr(v, "_fields")))
    L.append("end WV.Gen.PyIRL2")
    return "\n".join(L) + "\n", len(all_done), all_bad
# [deepL2] end --------------------------------------------------------------

# [deepRC] begin ------------------------------------------------------------
# PyIR for the RendezvousConnector glue and the three Input methods that WV.Gen.PyIR lists as untranslatable: a third
# generated module, WV/Gen/PyIRRC.lean (the pins of the first two do not move).  `_PyIRRC` only ADDS cases to `_PyIR`.

PYIR_RC_TARGETS = [
    ("wormhole._rendezvous", "RendezvousConnector", "RendezvousConnector",
     ["_tx", "stop", "ws_open", "ws_close", "_initial_connection_failed", "_stopped", "_response_handle_nameplates"]),
    ("wormhole._input", "Input", "Input",
     ["_get_nameplate_completions", "record_wordlist", "notify_wordlist_waiters"]),
]
_PYIR_RC_DEFERRED_METHODS = ("addCallback", "addErrback", "addBoth")


class _PyIRRC(_PyIR):
    def __init__(self, module, klass, kinds, data_attrs, fn):
        self.module = module
        self.klass = klass
        self.kinds = kinds
        self.data_attrs = data_attrs
        self.fn = fn
        a = fn.args
        if a.vararg or a.kwonlyargs or a.defaults or a.kw_defaults or a.posonlyargs:
            raise _Untranslatable("parameter list with defaults/*args")
        names = [x.arg for x in a.args]
        if not names or names[0] != "self":
            raise _Untranslatable("not an instance method")
        # `**kwargs` is an ordinary last parameter that holds the dict of the keyword arguments
        self.params = names[1:] + ([a.kwarg.arg] if a.kwarg else [])
        self.kwargs_name = a.kwarg.arg if a.kwarg else None
        self.locals = set(self.params)
        self.lambda_params = set()
        for n in ast.walk(fn):
            if isinstance(n, ast.Name) and isinstance(n.ctx, (ast.Store, ast.Del)):
                self.locals.add(n.id)
            if isinstance(n, (ast.FunctionDef, ast.AsyncFunctionDef)) and n is not fn:
                raise _Untranslatable("nested function")
            if isinstance(n, (ast.Yield, ast.YieldFrom)):
                raise _Untranslatable("generator")
            if isinstance(n, ast.ExceptHandler) and n.name:
                self.locals.add(n.name)
        for n in ast.walk(fn):
            if isinstance(n, ast.Lambda):
                self.callback_of(n)          # raises unless it is a forwarding continuation
        self.match_vars = set()
        self.ntemp = 0
        self.sibling_calls = set()
        self.deferred_vars = set()       # locals assigned from defer.maybeDeferred(…)
        self.set_locals = set()          # locals assigned `set()`
        self.local_funcs = set()         # names bound by a function-level `from … import …`
        self.catch_depth = 0
        self.popped_vars = set()         # locals assigned from `self.<list>.pop()`
        self.set_attrs = set()           # data attributes the constructor creates as `set()` (filled in by the driver)

    def callback_of(self, n):
        """`lambda _: self._X.meth(<locals/constants>…)` -> (obj, meth, arg nodes): a named continuation"""
        a = n.args
        if len(a.args) != 1 or a.vararg or a.kwarg or a.kwonlyargs or a.defaults:
            raise _Untranslatable("nested function")
        ignored = a.args[0].arg
        b = n.body
        if isinstance(b, ast.Call) and isinstance(b.func, ast.Attribute) and self.is_self_attr(b.func.value) \
                and not b.keywords and all(
                    isinstance(x, ast.Constant) or (isinstance(x, ast.Name) and x.id in self.locals and x.id != ignored)
                    for x in b.args):
            return b.func.value.attr, b.func.attr, list(b.args)
        raise _Untranslatable("nested function")

    def expr(self, n):
        if isinstance(n, ast.Lambda):
            obj, meth, args = self.callback_of(n)
            return "(.construct \"callback\" %s)" % self.exprs([ast.Constant(obj), ast.Constant(meth)] + args)
        if self.is_self_attr(n) and self.kinds.get(n.attr) == "plain":
            return "(.construct \"method\" [(.str %s)])" % lean_str(n.attr)      # a bound method of self, passed on
        if isinstance(n, ast.Attribute) and isinstance(n.value, ast.Name) and n.value.id == "log" \
                and "log" not in self.locals and inspect.ismodule(getattr(self.module, "log", None)):
            return "(.construct \"function\" [(.str %s)])" % lean_str("log." + n.attr)
        if isinstance(n, ast.Attribute) and isinstance(n.value, ast.Name) and n.value.id in self.locals:
            return "(.call \"getattr\" %s)" % self.exprs([n.value, ast.Constant(n.attr)])     # `<local>.<name>`: opaque
        return super().expr(n)

    def call_expr(self, n):
        f = n.func
        if not n.keywords and isinstance(f, ast.Name) and f.id == "bool" and "bool" not in self.locals \
                and len(n.args) == 1 and not isinstance(n.args[0], ast.Starred):
            return "(.truthOf %s)" % self.expr(n.args[0])
        if not n.keywords and not n.args and isinstance(f, ast.Attribute) and f.attr == "upper" \
                and isinstance(f.value, ast.Name) and f.value.id in self.locals:
            return "(.call \"str.upper\" %s)" % self.exprs([f.value])
        return super().call_expr(n)

    def call_stmt(self, n, target, out):
        f = n.func
        # d = defer.maybeDeferred(self._X.meth, args…): maybeDeferred calls it at once; the value is the Deferred.
        # (Narrowing: a synchronous exception of the callee propagates in the IR, whereas maybeDeferred would wrap it in
        # a failed Deferred; `Env.raises` on this call is only used to observe what has been done before the call.)
        if target is not None and not n.keywords and isinstance(f, ast.Attribute) and f.attr == "maybeDeferred" \
                and isinstance(f.value, ast.Name) and f.value.id == "defer" and "defer" not in self.locals \
                and n.args and isinstance(n.args[0], ast.Attribute) and self.is_self_attr(n.args[0].value) \
                and not any(isinstance(a, ast.Starred) for a in n.args):
            g = n.args[0]
            out.append(".emitTo %s %s %s %s" % (lean_str(target), lean_str(g.value.attr), lean_str(g.attr),
                                               self.exprs(n.args[1:])))
            self.deferred_vars.add(target)
            return
        # d.addCallback(f) / addErrback / addBoth on such a Deferred: recorded, receiver first
        if target is None and not n.keywords and isinstance(f, ast.Attribute) and f.attr in _PYIR_RC_DEFERRED_METHODS \
                and isinstance(f.value, ast.Name) and f.value.id in self.deferred_vars and len(n.args) == 1 \
                and not isinstance(n.args[0], ast.Starred):
            out.append(".emitV (.var %s) %s %s" % (lean_str(f.value.id), lean_str(f.attr), self.exprs(n.args)))
            return
        # [x =] self.<list>.pop()
        dc = self.data_call(n)
        if dc is not None and dc[0] == "pop" and not dc[2]:
            out.append(".popLast %s %s" % (_lean_opt_str(target), lean_str(dc[1])))
            if target is not None:
                self.popped_vars.add(target)
            return
        # <popped waiter>.callback(x): a call on a value, recorded with the receiver first
        if target is None and not n.keywords and isinstance(f, ast.Attribute) and f.attr == "callback" \
                and isinstance(f.value, ast.Name) and f.value.id in self.popped_vars and len(n.args) == 1 \
                and not isinstance(n.args[0], ast.Starred):
            out.append(".emitV (.var %s) %s %s" % (lean_str(f.value.id), lean_str(f.attr), self.exprs(n.args)))
            return
        # <local set>.add(e)
        if target is None and not n.keywords and isinstance(f, ast.Attribute) and f.attr == "add" and len(n.args) == 1 \
                and isinstance(f.value, ast.Name) and f.value.id in self.set_locals:
            out.append(".setAddL %s %s" % (lean_str(f.value.id), self.expr(n.args[0])))
            return
        # self._X.meth(args…, k=v, **kwargs): the dict goes last, `**` in the name suffix
        if target is None and isinstance(f, ast.Attribute) and self.is_self_attr(f.value) \
                and f.value.attr not in self.data_attrs and any(k.arg is None for k in n.keywords) \
                and not any(isinstance(a, ast.Starred) for a in n.args):
            if not all(k.arg is not None or (isinstance(k.value, ast.Name) and k.value.id in self.locals)
                       for k in n.keywords):
                raise _Untranslatable("**<expression> in a call: " + _pyir_src(n))
            sfx = "[" + ",".join(k.arg if k.arg is not None else "**" + k.value.id for k in n.keywords) + "]"
            out.append(".emit %s %s %s" % (lean_str(f.value.attr), lean_str(f.attr + sfx),
                                          self.exprs(list(n.args) + [k.value for k in n.keywords])))
            return
        # a function imported inside the method, called for its effect: external, evaluated and dropped
        if target is None and not n.keywords and isinstance(f, ast.Name) and f.id in self.local_funcs:
            self.locals.add("$_")
            out.append(".assign \"$_\" (.call %s %s)" % (lean_str(f.id), self.exprs(n.args)))
            return
        super().call_stmt(n, target, out)

    @staticmethod
    def touches_local(stmts, name):
        for s in stmts:
            for n in ast.walk(s):
                if isinstance(n, ast.Name) and n.id == name and isinstance(n.ctx, (ast.Store, ast.Del)):
                    return True
                if isinstance(n, ast.Call) and isinstance(n.func, ast.Attribute) and isinstance(n.func.value, ast.Name) \
                        and n.func.value.id == name:
                    return True
                if isinstance(n, (ast.Subscript, ast.Attribute)) and isinstance(n.ctx, (ast.Store, ast.Del)) \
                        and isinstance(n.value, ast.Name) and n.value.id == name:
                    return True
        return False

    def stmt(self, s, out):
        if isinstance(s, ast.ImportFrom) and all(a.asname is None for a in s.names):
            for a in s.names:
                if a.name in self.locals:
                    raise _Untranslatable("import re-binds a local")
                self.local_funcs.add(a.name)
            out.append(".pass")
            return
        if isinstance(s, ast.Assign) and len(s.targets) == 1:
            t = s.targets[0]
            if isinstance(t, ast.Subscript) and isinstance(t.value, ast.Name) and t.value.id in self.locals \
                    and not isinstance(t.slice, ast.Slice):
                out.append(".setItemLK %s %s %s" % (lean_str(t.value.id), self.expr(t.slice), self.expr(s.value)))
                return
            if isinstance(t, ast.Name):
                v = s.value
                if isinstance(v, ast.Call) and isinstance(v.func, ast.Attribute) and v.func.attr == "maybeDeferred" \
                        and isinstance(v.func.value, ast.Name) and v.func.value.id == "defer":
                    self.call_stmt(v, t.id, out)
                    return
                self.deferred_vars.discard(t.id)
                is_set = isinstance(v, ast.Call) and isinstance(v.func, ast.Name) and v.func.id == "set" and not v.args
                if is_set:
                    self.set_locals.add(t.id)
                else:
                    self.set_locals.discard(t.id)
        if isinstance(s, ast.For) and not s.orelse and self.is_self_attr(s.iter) and s.iter.attr in self.set_attrs:
            # a loop over a set held in an attribute: `iterSet` (the IR's insertion order; see PyIR.lean)
            if isinstance(s.target, ast.Name):
                pat = "(.one %s)" % lean_str(s.target.id)
            else:
                raise _Untranslatable("loop target: " + _pyir_src(s.target))
            mut = self.mutated_attrs(s.body)
            if s.iter.attr in mut or "*" in mut:
                raise _Untranslatable("loop body mutates the iterated attribute self.%s" % s.iter.attr)
            out.append(".forIn %s (.iterSet %s) %s" % (pat, self.expr(s.iter), self.block(s.body)))
            return
        if isinstance(s, ast.For) and not s.orelse and isinstance(s.iter, ast.Name) and s.iter.id in self.locals \
                and s.iter.id not in self.set_locals:
            if isinstance(s.target, ast.Name):
                pat = "(.one %s)" % lean_str(s.target.id)
            elif isinstance(s.target, ast.Tuple) and all(isinstance(e, ast.Name) for e in s.target.elts):
                pat = "(.tup [%s])" % ", ".join(lean_str(e.id) for e in s.target.elts)
            else:
                raise _Untranslatable("loop target: " + _pyir_src(s.target))
            if self.touches_local(s.body, s.iter.id):
                raise _Untranslatable("loop body touches the iterated local " + s.iter.id)
            for n in ast.walk(self.fn):
                # the local must not alias an attribute of self (the body could then change the list through the attribute)
                if isinstance(n, ast.Assign) and any(isinstance(t, ast.Name) and t.id == s.iter.id for t in n.targets) \
                        and any(isinstance(m, ast.Name) and m.id == "self" for m in ast.walk(n.value)):
                    raise _Untranslatable("loop over a local that may alias an attribute: " + s.iter.id)
            out.append(".forIn %s %s %s" % (pat, self.expr(s.iter), self.block(s.body)))
            return
        if isinstance(s, ast.Try) and not s.orelse and not s.finalbody and len(s.handlers) == 1 \
                and isinstance(s.handlers[0].type, ast.Name) and s.handlers[0].type.id == "Exception" \
                and "Exception" not in self.locals:
            h = s.handlers[0]
            body = self.block(s.body)
            self.catch_depth += 1
            try:
                handler = self.block(h.body)
            finally:
                self.catch_depth -= 1
            out.append(".tryCatchAll %s %s %s" % (body, _lean_opt_str(h.name), handler))
            return
        if isinstance(s, ast.Raise) and s.exc is None and s.cause is None and self.catch_depth > 0:
            out.append(".raise \"$reraise\" []")
            return
        if isinstance(s, ast.Try) and self.catch_depth > 0:
            raise _Untranslatable("try nested in an `except Exception` handler")
        super().stmt(s, out)


def _pyir_rc_class(module_name, cls_name, methods):
    mod = importlib.import_module(module_name)
    klass = getattr(mod, cls_name)
    kinds, funcs = {}, {}
    for name, member in vars(klass).items():
        f = member
        kind = "plain"
        if hasattr(f, "method") and callable(getattr(f, "method")):
            kind = {"MethodicalInput": "input", "MethodicalState": "state", "MethodicalOutput": "output"}.get(
                type(f).__name__, "other")
            f = f.method
        if not inspect.isfunction(f):
            continue
        kinds[name] = kind
        try:
            funcs[name] = ast.parse(textwrap.dedent(inspect.getsource(f))).body[0]
        except Exception:  # pragma: no cover
            pass
    data_attrs = set()
    set_attrs = set()
    for init in _PYIR_INIT_METHODS:
        fn = funcs.get(init)
        if fn is None:
            continue
        for n in ast.walk(fn):
            if isinstance(n, ast.Assign) and len(n.targets) == 1:
                t, v = n.targets[0], n.value
                if isinstance(t, ast.Attribute) and isinstance(t.value, ast.Name) and t.value.id == "self":
                    if (isinstance(v, ast.Dict) and not v.keys) or (isinstance(v, ast.List) and not v.elts) or (
                            isinstance(v, ast.Call) and isinstance(v.func, ast.Name)
                            and v.func.id in ("set", "dict", "list", "deque") and not v.args):
                        data_attrs.add(t.attr)
                    if isinstance(v, ast.Call) and isinstance(v.func, ast.Name) and v.func.id == "set" and not v.args:
                        set_attrs.add(t.attr)
    todo = list(methods)
    done, bad = {}, {}
    while todo:
        name = todo.pop(0)
        if name in done or name in bad:
            continue
        fn = funcs.get(name)
        if fn is None:
            bad[name] = "source not available"
            continue
        try:
            tr = _PyIRRC(mod, klass, kinds, data_attrs, fn)
            tr.klass_funcs = funcs
            tr.set_attrs = set_attrs
            body = tr.block(fn.body)
            done[name] = (tr.params, body)
            for callee in sorted(tr.sibling_calls):
                if callee not in done and callee not in bad:
                    todo.append(callee)
        except _Untranslatable as e:
            bad[name] = str(e)
    changed = True
    while changed:
        changed = False
        for name in sorted(done):
            for n in ast.walk(funcs[name]):
                if isinstance(n, ast.Call) and isinstance(n.func, ast.Attribute) and isinstance(n.func.value, ast.Name) \
                        and n.func.value.id == "self" and n.func.attr in bad and kinds.get(n.func.attr) == "plain" \
                        and not (funcs[n.func.attr].args.kwarg or funcs[n.func.attr].args.vararg):
                    bad[name] = "calls untranslatable self.%s" % n.func.attr
                    del done[name]
                    changed = True
                    break
            if changed:
                break
    return done, bad


def extract_pyir_rc():
    """Lean data: the bodies of the RendezvousConnector glue / Input helper methods in the IR of WV/Model/PyIR.lean"""
    L = ["import WV.Model.PyIR", "namespace WV.Gen.PyIRRC", "open WV.PyIR", ""]
    all_done, all_bad, classes = [], [], []
    for module, cls, cid, methods in PYIR_RC_TARGETS:
        try:
            done, bad = _pyir_rc_class(module, cls, methods)
        except Exception as e:
            all_bad.append((cls, "class not translatable: %s" % type(e).__name__))
            continue
        classes.append((cls, cid, done))
        for name in sorted(done):
            params, body = done[name]
            L.append("def %s : List String × List Stmt :=" % ident("m_%s_%s" % (cid, name)))
            L.append("  ([%s]," % ", ".join(lean_str(p) for p in params))
            L.append("   %s)" % body)
            all_done.append((cls, cid, name))
        for name in sorted(bad):
            all_bad.append(("%s.%s" % (cls, name), bad[name]))
    L.append("")
    for cls, cid, done in classes:
        L.append("def %s : MethodTable" % ident("tbl_" + cid))
        for name in sorted(done):
            L.append("  | %s => some %s" % (lean_str(name), ident("m_%s_%s" % (cid, name))))
        L.append("  | _ => none")
    L.append("")
    L.append("def translated : List String := [%s]" % ", ".join(lean_str("%s.%s" % (c, n)) for c, _, n in all_done))
    L.append("")
    L.append("/-- methods with a construct outside the subset, and the construct -/")
    L.append("def untranslatable : List (String × String) := [%s]" % ", ".join(
        "(%s, %s)" % (lean_str(k), lean_str(v)) for k, v in all_bad))
    L.append("end WV.Gen.PyIRRC")
    return "\n".join(L) + "\n", len(all_done), all_bad
# [deepRC] end ----------------------------------------------------------------

# [deepDil2] begin ------------------------------------------------------------
# Second generated module for the Dilation data path (`lean/WV/Gen/PyIRDil2.lean`): methods that `extract_pyir_dil`
# lists as untranslatable and that become translatable with ONE more statement form, without touching `_PyIRDil`:
#   self.<a> = self.<obj>.<meth>(self.<gen>())      where <gen> is a generator method of the class
# becomes   .emitTo "$t" <obj> <meth> [(.call "generator" [(.str <gen>)])], .setAttr <a> (.var "$t")
# (the generator object is an opaque value of the environment; nothing of its body runs at this point in CPython either).
PYIR_DIL2_TARGETS = [
    ("wormhole._dilation.outbound", "PullToPush", ["startStreaming"]),
]


class _PyIRDil2(_PyIRDil):
    def _is_generator_method(self, name):
        fn = getattr(self, "klass_funcs", {}).get(name)
        return fn is not None and any(isinstance(n, (ast.Yield, ast.YieldFrom)) for n in ast.walk(fn))

    def stmt(self, s, out):
        if isinstance(s, ast.Assign) and len(s.targets) == 1 and self.is_self_attr(s.targets[0]) \
                and isinstance(s.value, ast.Call) and isinstance(s.value.func, ast.Attribute) \
                and self.is_self_attr(s.value.func.value) and len(s.value.args) == 1 and not s.value.keywords:
            g = s.value.args[0]
            if isinstance(g, ast.Call) and self.is_self_attr(g.func) and not g.args and not g.keywords \
                    and self._is_generator_method(g.func.attr):
                self.locals.add("$t")
                out.append(".emitTo \"$t\" %s %s [(.call \"generator\" [(.str %s)])]" % (
                    lean_str(s.value.func.value.attr), lean_str(s.value.func.attr), lean_str(g.func.attr)))
                out.append(".setAttr %s (.var \"$t\")" % lean_str(s.targets[0].attr))
                return
        super().stmt(s, out)


def _pyir_dil2_class(module_name, cls_name, methods):
    # `_pyir_dil_class` with the translator class exchanged (it looks `_PyIRDil` up when it runs)
    global _PyIRDil
    saved = _PyIRDil
    _PyIRDil = _PyIRDil2
    try:
        return _pyir_dil_class(module_name, cls_name, methods)
    finally:
        _PyIRDil = saved


def extract_pyir_dil2():
    """Lean data: `WV.Gen.PyIRDil2` — the methods of PYIR_DIL2_TARGETS (and the siblings they call) in the IR"""
    L = ["import WV.Model.PyIR", "namespace WV.Gen.PyIRDil2", "open WV.PyIR", ""]
    all_done, all_bad, classes = [], [], []
    for module, cls, methods in PYIR_DIL2_TARGETS:
        try:
            done, bad = _pyir_dil2_class(module, cls, methods)
        except Exception as e:
            all_bad.append((cls, "class not translatable: %s" % type(e).__name__))
            continue
        cid = cls.lstrip("_")
        classes.append((cls, cid, done))
        for name in sorted(done):
            params, body = done[name]
            L.append("def %s : List String × List Stmt :=" % ident("m_%s_%s" % (cid, name)))
            L.append("  ([%s]," % ", ".join(lean_str(p) for p in params))
            L.append("   %s)" % body)
            all_done.append((cls, cid, name))
        for name in sorted(bad):
            all_bad.append(("%s.%s" % (cls, name), bad[name]))
    L.append("")
    for cls, cid, done in classes:
        L.append("def %s : MethodTable" % ident("tbl_" + cid))
        for name in sorted(done):
            L.append("  | %s => some %s" % (lean_str(name), ident("m_%s_%s" % (cid, name))))
        L.append("  | _ => none")
    L.append("")
    L.append("def translated : List String := [%s]" % ", ".join(lean_str("%s.%s" % (c, n)) for c, _, n in all_done))
    L.append("")
    L.append("/-- methods with a construct outside the subset, and the construct -/")
    L.append("def untranslatable : List (String × String) := [%s]" % ", ".join(
        "(%s, %s)" % (lean_str(k), lean_str(v)) for k, v in all_bad))
    L.append("end WV.Gen.PyIRDil2")
    return "\n".join(L) + "\n", len(all_done), all_bad
# [deepDil2] end --------------------------------------------------------------

# [C13 wire] begin ------------------------------------------------------------
# C13, the 4-byte boundary of the subchannel id: the body of `Manager.allocate_subchannel_id` in the PyIR of
# WV/Model/PyIR.lean (translated by `_PyIR`, the translator of extract_pyir; a module of its own, WV/Gen/C13Wire.lean,
# so that the pins of WV.Gen.PyIR -- `translated`, `untranslatable` -- do not move and Manager's Automat outputs are
# not dragged in), every statement in wormhole._dilation that stores to an attribute `_next_subchannel_id`, the bound
# `to_be4` enforces, and the record classes whose encoder writes `to_be4(r.scid)`.

PYIR_C13_METHODS = [("wormhole._dilation.manager", "Manager", "allocate_subchannel_id")]
_C13_COUNTER = "_next_subchannel_id"
_C13_DILATION_MODULES = ["connection", "connector", "encode", "inbound", "manager", "outbound", "roles", "subchannel"]


def extract_c13_wire():
    L = ["import WV.Model.PyIR",
         "namespace WV.Gen.C13Wire",
         "open WV.PyIR",
         ""]
    for module, cls, name in PYIR_C13_METHODS:
        mod = importlib.import_module(module)
        klass = getattr(mod, cls)
        f = vars(klass)[name]
        f = getattr(f, "method", f)
        fn = ast.parse(textwrap.dedent(inspect.getsource(f))).body[0]
        why = None
        try:
            tr = _PyIR(mod, klass, {name: "plain"}, set(), fn)
            tr.klass_funcs = {name: fn}
            body = tr.block(fn.body)
            if tr.sibling_calls:
                raise _Untranslatable("calls self.%s" % sorted(tr.sibling_calls)[0])
            val = "some ([%s],\n   %s)" % (", ".join(lean_str(x) for x in tr.params), body)
        except _Untranslatable as e:
            val, why = "none", str(e)
        L.append("/-- parameters and body of `%s.%s` (`none`: a construct outside the PyIR subset) -/" % (cls, name))
        L.append("def %s : Option (List String × List Stmt) :=\n  %s" % (ident(name), val))
        L.append("def %s : Option String := %s" % (ident(name + "_untranslatable"), _lean_opt_str(why)))
        L.append("")
    # every store to the counter, anywhere in the dilation package
    writers = []
    for m in _C13_DILATION_MODULES:
        try:
            mod = importlib.import_module("wormhole._dilation." + m)
        except ImportError:
            continue
        tree = ast.parse(inspect.getsource(mod))

        def visit(node, where):
            for ch in ast.iter_child_nodes(node):
                w = where
                if isinstance(ch, (ast.ClassDef, ast.FunctionDef, ast.AsyncFunctionDef)):
                    w = (where + "." if where else "") + ch.name
                tg = ch.targets if isinstance(ch, ast.Assign) else [ch.target] if isinstance(ch, (ast.AugAssign, ast.AnnAssign)) else []
                flat = []
                for t in tg:
                    flat += list(t.elts) if isinstance(t, (ast.Tuple, ast.List)) else [t]
                if any((isinstance(t, ast.Attribute) and t.attr == _C13_COUNTER) or (isinstance(t, ast.Name) and t.id == _C13_COUNTER)
                       for t in flat):
                    writers.append((where or m, " ".join(ast.unparse(ch).split())))
                if isinstance(ch, ast.Call) and _call_name(ch).split(".")[-1] in ("setattr", "__setattr__") and \
                        _C13_COUNTER in ast.unparse(ch):
                    writers.append((where or m, " ".join(ast.unparse(ch).split())))
                visit(ch, w)
        visit(tree, "")
    L.append("/-- every statement in wormhole._dilation that stores to `%s`: (where, statement), in source order -/" % _C13_COUNTER)
    L.append("def counter_writers : List (String × String) := [%s]" % ", ".join(
        "(%s, %s)" % (lean_str(a), lean_str(b)) for a, b in writers))
    # to_be4: `if not 0 <= value < N: raise ValueError`
    from wormhole._dilation import encode as _enc, connection as _conn
    t = ast.parse(textwrap.dedent(inspect.getsource(_enc.to_be4)))
    cmps = [n for n in ast.walk(t) if isinstance(n, ast.Compare)]
    if len(cmps) != 1 or [type(o).__name__ for o in cmps[0].ops] != ["LtE", "Lt"] or ast.unparse(cmps[0].left) != "0":
        raise ValueError("to_be4: range check not of the form `0 <= value < N`")
    guard = [n for n in ast.walk(t) if isinstance(n, ast.If) and isinstance(n.test, ast.UnaryOp) and isinstance(n.test.op, ast.Not)
             and n.test.operand is cmps[0] and any(isinstance(x, ast.Raise) for x in n.body)]
    if len(guard) != 1:
        raise ValueError("to_be4: `if not 0 <= value < N: raise` not found")
    limit = eval(compile(ast.Expression(cmps[0].comparators[-1]), "<to_be4>", "eval"), {})
    L.append("/-- `to_be4(value)` raises unless `0 <= value < be4_limit` -/")
    L.append("def be4_limit : Nat := %d" % int(limit))
    # encode_record: which record classes write `to_be4(r.scid)`
    t = ast.parse(textwrap.dedent(inspect.getsource(_conn.encode_record)))
    classes = []
    for n in ast.walk(t):
        if isinstance(n, ast.If) and isinstance(n.test, ast.Call) and _call_name(n.test) == "isinstance" and len(n.test.args) == 2:
            uses = [c for b in n.body for c in ast.walk(b) if isinstance(c, ast.Call) and _call_name(c).split(".")[-1] == "to_be4"
                    and len(c.args) == 1 and isinstance(c.args[0], ast.Attribute) and c.args[0].attr == "scid"]
            if uses:
                classes.append(ast.unparse(n.test.args[1]))
    L.append("/-- record classes whose wire form contains `to_be4(r.scid)` -/")
    L.append("def scid_is_be4 : List String := [%s]" % ", ".join(lean_str(c) for c in sorted(classes)))
    L.append("end WV.Gen.C13Wire")
    return "\n".join(L) + "\n"
# [C13 wire] end --------------------------------------------------------------

# [deepMgr] begin -------------------------------------------------------------
# PyIR for the Dilation Manager and its TrafficTimer (src/wormhole/_dilation/manager.py): a third generated module,
# WV/Gen/PyIRMgr.lean.  `_PyIRMgr` only ADDS cases to `_PyIRDil` (every override falls back to the base classes).

PYIR_MGR_TARGETS = [
    ("wormhole._dilation.manager", "TrafficTimer", []),
    ("wormhole._dilation.manager", "Manager",
     ["_signal_reconnect", "_send_ping_reset_timer", "send_ping", "_stop_using_connection", "got_wormhole_versions",
      "fail", "got_dilation_key", "send_dilation_generation", "_start_connecting", "when_stopped",
      "connector_connection_lost", "connector_connection_made", "received_dilation_message"]),
]


class _PyIRMgr(_PyIRDil):
    def __init__(self, module, klass, kinds, data_attrs, fn, attr_kinds, nested_in=None):
        self.module = module
        self.klass = klass
        self.kinds = kinds
        self.data_attrs = data_attrs
        self.attr_kinds = attr_kinds
        self.fn = fn
        self.nested_in = nested_in          # the translator of the enclosing method, for a nested `def`
        a = fn.args
        if a.kwonlyargs or a.kw_defaults or a.posonlyargs or a.vararg:
            raise _Untranslatable("parameter list with *args/keyword-only parameters")
        names = [x.arg for x in a.args]
        if nested_in is None:
            if not names or names[0] != "self":
                raise _Untranslatable("not an instance method")
            names = names[1:]
        elif a.defaults or a.kwarg:
            raise _Untranslatable("nested function with defaults/**kwargs")
        # `**fields` is an ordinary last parameter that holds the dict of the keyword arguments; a parameter with a
        # default is an ordinary parameter (every translated call site must pass it, see call_stmt)
        self.params = names + ([a.kwarg.arg] if a.kwarg else [])
        self.locals = set(self.params)
        self.nested = {}                    # name -> FunctionDef of a nested function
        for n in ast.walk(fn):
            if isinstance(n, (ast.Lambda, ast.AsyncFunctionDef, ast.ListComp, ast.SetComp, ast.DictComp, ast.GeneratorExp)):
                raise _Untranslatable("lambda / comprehension")
            if isinstance(n, (ast.Yield, ast.YieldFrom)):
                raise _Untranslatable("generator")
            if isinstance(n, (ast.Global, ast.Nonlocal)):
                raise _Untranslatable("global/nonlocal")
        own = [fn]
        inner_nodes = set()
        for n in ast.walk(fn):
            if isinstance(n, ast.FunctionDef) and n is not fn:
                if nested_in is not None:
                    raise _Untranslatable("doubly nested function")
                self.nested[n.name] = n
                self.locals.add(n.name)
                for m in ast.walk(n):
                    if m is not n:
                        inner_nodes.add(id(m))
        for n in ast.walk(fn):
            if id(n) in inner_nodes:
                continue
            if isinstance(n, ast.Name) and isinstance(n.ctx, (ast.Store, ast.Del)):
                self.locals.add(n.id)
            if isinstance(n, ast.ExceptHandler) and n.name:
                self.locals.add(n.name)
        if nested_in is not None:
            # a nested function may use `self` and its own names only (no closure over a local of the enclosing method)
            for n in ast.walk(fn):
                if isinstance(n, ast.Name) and n.id in nested_in.locals and n.id not in self.locals:
                    raise _Untranslatable("nested function closes over the local " + n.id)
        self.match_vars = set()
        self.ntemp = 0
        self.sibling_calls = set()
        self.assigned = set(self.params)

    def closure_of(self, n):
        raise _Untranslatable("nested function")

    def role_const(self, n):
        if isinstance(n, ast.Name) and n.id not in self.locals:
            obj = getattr(self.module, n.id, None)
            if type(obj).__name__ == "_Role" and isinstance(getattr(obj, "_which", None), str):
                return "(.construct \"_Role\" [(.str %s)])" % lean_str(obj._which)
        return None

    def expr(self, n):
        rc = self.role_const(n)
        if rc is not None:
            return rc
        if self.is_self_attr(n) and self.kinds.get(n.attr) == "plain" and isinstance(n.ctx, ast.Load):
            # a bound plain method used as a value (`TrafficTimer(self._signal_reconnect, …)`)
            return "(.call \"closure\" [(.str %s)])" % lean_str(n.attr)
        if isinstance(n, ast.Compare) and len(n.ops) == 1:
            op, a, b = n.ops[0], n.left, n.comparators[0]
            if isinstance(op, ast.Gt):
                return "(.gt %s %s)" % (self.expr(a), self.expr(b))
            if isinstance(op, (ast.Is, ast.IsNot)) and self.role_const(b) is not None:
                # `x is LEADER`: identity of the two module-level role objects = equality of their names
                return "(.call %s %s)" % (lean_str("is" if isinstance(op, ast.Is) else "is not"), self.exprs([a, b]))
            if isinstance(op, (ast.Eq, ast.NotEq)) and self.role_const(b) is not None \
                    and type(getattr(self.module, b.id)).__eq__ is object.__eq__:
                # `x == LEADER`: the role class defines no __eq__, so this is identity too
                return "(.call %s %s)" % (lean_str("is" if isinstance(op, ast.Eq) else "is not"), self.exprs([a, b]))
        if isinstance(n, ast.Dict) and n.keys and all(isinstance(k, ast.Constant) and isinstance(k.value, str) for k in n.keys):
            ks = [k.value for k in n.keys]
            if len(set(ks)) != len(ks):
                raise _Untranslatable("dict literal with a repeated key")
            return "(.dictLit [%s] %s)" % (", ".join(lean_str(k) for k in ks), self.exprs(n.values))
        return super().expr(n)

    def kwargs_dict(self, n):
        """the `**kwargs` dict a call passes: `f(k1=e1, …)` -> dictLit, `f(**local)` -> the local"""
        if n.args:
            raise _Untranslatable("positional and keyword arguments for a **kwargs sibling: " + _pyir_src(n))
        stars = [k for k in n.keywords if k.arg is None]
        if len(stars) == 1 and len(n.keywords) == 1 and isinstance(stars[0].value, ast.Name) \
                and stars[0].value.id in self.locals:
            return "(.var %s)" % lean_str(stars[0].value.id)
        if not stars:
            ks = [k.arg for k in n.keywords]
            return "(.dictLit [%s] %s)" % (", ".join(lean_str(k) for k in ks), self.exprs([k.value for k in n.keywords]))
        raise _Untranslatable("mixed **kwargs: " + _pyir_src(n))

    def call_stmt(self, n, target, out):
        f = n.func
        if self.is_self_attr(f) and self.kinds.get(f.attr) == "plain":
            callee = self.klass_funcs.get(f.attr)
            if callee is not None:
                ca = callee.args
                if ca.kwarg and not ca.vararg and len(ca.args) == 1:
                    # `self.<sibling>(**fields)`: interpreted, the dict is its one argument
                    self.sibling_calls.add(f.attr)
                    out.append(".callSelf %s %s [%s]" % (_lean_opt_str(target), lean_str(f.attr), self.kwargs_dict(n)))
                    return
                if ca.defaults and (n.keywords or len(n.args) != len(ca.args) - 1
                                    or any(isinstance(x, ast.Starred) for x in n.args)):
                    raise _Untranslatable("call of a sibling with defaults that does not pass every parameter: " + _pyir_src(n))
        super().call_stmt(n, target, out)

    def hoist_collab(self, v, out):
        """`(<local/const>…, self._X.meth(<pure>…), …)`: the one collaborator call of a tuple is recorded first — only when
        everything CPython evaluates before it is a constant or a parameter"""
        if isinstance(v, ast.Tuple):
            idx = [i for i, e in enumerate(v.elts) if self.collab_call(e)]
            if len(idx) == 1 and all(isinstance(e, ast.Constant) or (isinstance(e, ast.Name) and e.id in self.params)
                                     for e in v.elts[:idx[0]]):
                tmp = "$%d" % self.ntemp
                self.ntemp += 1
                self.locals.add(tmp)
                _PyIR.call_stmt(self, v.elts[idx[0]], tmp, out)
                elts = list(v.elts)
                elts[idx[0]] = ast.Name(id=tmp, ctx=ast.Load())
                return ast.Tuple(elts=elts, ctx=ast.Load())
        return v

    def stmt(self, s, out):
        if isinstance(s, ast.FunctionDef):
            if s.name not in self.nested:
                raise _Untranslatable("nested function")
            out.append(".assign %s (.call \"closure\" [(.str %s)])" % (lean_str(s.name), lean_str(self.fn.name + "." + s.name)))
            self.assigned.add(s.name)
            return
        if isinstance(s, ast.Assign) and len(s.targets) == 1:
            t = s.targets[0]
            if isinstance(t, ast.Subscript) and not isinstance(t.slice, ast.Slice):
                if isinstance(t.value, ast.Name) and t.value.id in self.locals:
                    out.append(".setItemL %s %s %s" % (lean_str(t.value.id), self.expr(t.slice), self.expr(s.value)))
                    return
                if self.is_self_attr(t.value) and isinstance(s.value, ast.Tuple) \
                        and (isinstance(t.slice, ast.Constant) or (isinstance(t.slice, ast.Name) and t.slice.id in self.params)):
                    v = self.hoist_collab(s.value, out)
                    out.append(".setItem %s %s %s" % (lean_str(t.value.attr), self.expr(t.slice), self.expr(v)))
                    return
        if isinstance(s, ast.Return) and isinstance(s.value, ast.Call) and self.is_self_attr(s.value.func) \
                and self.kinds.get(s.value.func.attr) == "plain":
            self.locals.add("$ret")
            self.call_stmt(s.value, "$ret", out)
            out.append(".ret (some (.var \"$ret\"))")
            return
        super().stmt(s, out)


def _pyir_mgr_class(module_name, cls_name, methods):
    mod = importlib.import_module(module_name)
    klass = getattr(mod, cls_name)
    kinds, funcs = {}, {}
    for name, member in vars(klass).items():
        f = member
        kind = "plain"
        if hasattr(f, "method") and callable(getattr(f, "method")):
            kind = {"MethodicalInput": "input", "MethodicalState": "state", "MethodicalOutput": "output"}.get(
                type(f).__name__, "other")
            f = f.method
        if not inspect.isfunction(f):
            continue
        kinds[name] = kind
        try:
            funcs[name] = ast.parse(textwrap.dedent(inspect.getsource(f))).body[0]
        except Exception:  # pragma: no cover
            pass
    attr_kinds = {}
    for init in _PYIR_INIT_METHODS:
        fn = funcs.get(init)
        if fn is None:
            continue
        for n in ast.walk(fn):
            if isinstance(n, ast.Assign) and len(n.targets) == 1:
                t, v = n.targets[0], n.value
                if isinstance(t, ast.Attribute) and isinstance(t.value, ast.Name) and t.value.id == "self":
                    if isinstance(v, ast.Dict) and not v.keys:
                        attr_kinds[t.attr] = "dict"
                    elif isinstance(v, ast.List) and not v.elts:
                        attr_kinds[t.attr] = "list"
                    elif isinstance(v, ast.Call) and isinstance(v.func, ast.Name) and not v.args \
                            and v.func.id in ("set", "dict", "list", "deque"):
                        attr_kinds[t.attr] = {"set": "set", "dict": "dict"}.get(v.func.id, "list")
    data_attrs = set(attr_kinds)
    todo = sorted(n for n, k in kinds.items() if k == "output") + list(methods)
    done, bad = {}, {}
    while todo:
        name = todo.pop(0)
        if name in done or name in bad:
            continue
        fn = funcs.get(name)
        if fn is None:
            bad[name] = "source not available"
            continue
        try:
            tr = _PyIRMgr(mod, klass, kinds, data_attrs, fn, attr_kinds)
            tr.klass_funcs = funcs
            body = tr.block(fn.body)
            inner = {}
            for iname, inode in tr.nested.items():
                itr = _PyIRMgr(mod, klass, kinds, data_attrs, inode, attr_kinds, nested_in=tr)
                itr.klass_funcs = funcs
                inner[name + "." + iname] = (itr.params, itr.block(inode.body))
                tr.sibling_calls |= itr.sibling_calls
            done[name] = (tr.params, body)
            done.update(inner)
            for callee in sorted(tr.sibling_calls):
                if callee not in done and callee not in bad:
                    todo.append(callee)
        except _Untranslatable as e:
            bad[name] = str(e)
    changed = True
    while changed:
        changed = False
        for name in sorted(done):
            if "." in name:
                continue
            for n in ast.walk(funcs[name]):
                if isinstance(n, ast.Call) and isinstance(n.func, ast.Attribute) and isinstance(n.func.value, ast.Name) \
                        and n.func.value.id == "self" and n.func.attr in bad and kinds.get(n.func.attr) == "plain":
                    bad[name] = "calls untranslatable self.%s" % n.func.attr
                    for k in [k for k in done if k == name or k.startswith(name + ".")]:
                        del done[k]
                    changed = True
                    break
            if changed:
                break
    return done, bad


def extract_pyir_mgr():
    """Lean data: the bodies of the Manager / TrafficTimer methods in the IR of WV/Model/PyIR.lean"""
    L = ["import WV.Model.PyIR", "namespace WV.Gen.PyIRMgr", "open WV.PyIR", ""]
    all_done, all_bad, classes = [], [], []
    for module, cls, methods in PYIR_MGR_TARGETS:
        try:
            done, bad = _pyir_mgr_class(module, cls, methods)
        except Exception as e:
            all_bad.append((cls, "class not translatable: %s" % type(e).__name__))
            continue
        cid = cls.lstrip("_")
        classes.append((cls, cid, done))
        for name in sorted(done):
            params, body = done[name]
            L.append("def %s : List String × List Stmt :=" % ident("m_%s_%s" % (cid, name.replace(".", "__"))))
            L.append("  ([%s]," % ", ".join(lean_str(p) for p in params))
            L.append("   %s)" % body)
            all_done.append((cls, cid, name))
        for name in sorted(bad):
            all_bad.append(("%s.%s" % (cls, name), bad[name]))
    L.append("")
    for cls, cid, done in classes:
        L.append("def %s : MethodTable" % ident("tbl_" + cid))
        for name in sorted(done):
            L.append("  | %s => some %s" % (lean_str(name), ident("m_%s_%s" % (cid, name.replace(".", "__")))))
        L.append("  | _ => none")
    L.append("")
    L.append("def translated : List String := [%s]" % ", ".join(lean_str("%s.%s" % (c, n)) for c, _, n in all_done))
    L.append("")
    L.append("/-- methods with a construct outside the subset, and the construct -/")
    L.append("def untranslatable : List (String × String) := [%s]" % ", ".join(
        "(%s, %s)" % (lean_str(k), lean_str(v)) for k, v in all_bad))
    L.append("end WV.Gen.PyIRMgr")
    return "\n".join(L) + "\n", len(all_done), all_bad
# [deepMgr] end ---------------------------------------------------------------


# [deepObs] begin -----------------------------------------------------------
# PyIR for the application-facing latches (observer.py, eventual.py, the two wormhole façades of wormhole.py): a
# generated module of its own, WV/Gen/PyIRObs.lean.  `_PyIRObs` only ADDS cases to `_PyIRDil` (every override falls
# back to the base class) and maps them onto constructs the interpreter already has -- WV/Model/PyIR.lean is unchanged:
#   * `d = Deferred()`: allocation of an opaque handle `Deferred(n)`; n is read from the pseudo-attribute `$deferreds`
#     of the heap (number of Deferreds created so far) which is then incremented: two statements, `.assign` + `.augAttr`;
#   * `d.callback` / `d.errback` / `self.<method>` as a VALUE: the object `boundmethod(receiver, "name")`;
#   * a module-level sentinel `X = object()`: the only object of the pseudo-class "X" (`x is X` = isinstanceAny x ["X"]);
#   * `Failure(x)` / `failure.Failure(x)`: the object `Failure(x)`; `isinstance(x, Exception)`: by class name;
#   * `a, b = e1, e2`: right-hand sides into temporaries left to right, then the targets left to right;
#   * `for x in <local>:` when the body does not touch that local; `self.<list>.pop(0)` = `popleft` (IndexError);
#   * `**kwargs` is an ordinary last parameter holding the dict; constant parameter defaults are the caller's business;
#   * `f(*args, **kwargs)` on three locals: the call of a value (`emitV … "__call__" [args, kwargs]`).

PYIR_OBS_TARGETS = [
    ("wormhole.observer", "OneShotObserver",
     ["when_fired", "fire", "_maybe_call_observers", "error", "fire_if_not_fired"]),
    ("wormhole.observer", "SequenceObserver", ["when_next_event", "fire"]),
    ("wormhole.eventual", "EventualQueue", ["eventually", "fire_eventually", "_turn", "flush_sync", "flush"]),
    ("wormhole.wormhole", "_DeferredWormhole",
     ["get_code", "get_welcome", "get_unverified_key", "get_verifier", "get_versions", "get_message", "close",
      "got_welcome", "got_code", "got_key", "got_verifier", "got_versions", "received", "closed"]),
    ("wormhole.wormhole", "_DelegatedWormhole",
     ["close", "got_welcome", "got_code", "got_key", "got_verifier", "got_versions", "received", "closed"]),
]
_PYIR_OBS_BOUND = ("callback", "errback")
_PYIR_OBS_VALUE_CLASSES = ("Failure",)


def _pyir_obs_sentinels(module):
    """module-level `X = object()` assignments: the sentinels of that module"""
    out = set()
    for st in ast.parse(inspect.getsource(module)).body:
        if isinstance(st, ast.Assign) and len(st.targets) == 1 and isinstance(st.targets[0], ast.Name) \
                and isinstance(st.value, ast.Call) and isinstance(st.value.func, ast.Name) and st.value.func.id == "object" \
                and not st.value.args and not st.value.keywords:
            out.add(st.targets[0].id)
    return out


class _PyIRObs(_PyIRDil):
    def __init__(self, module, klass, kinds, data_attrs, fn, attr_kinds):
        self.module = module
        self.klass = klass
        self.kinds = kinds
        self.data_attrs = data_attrs
        self.attr_kinds = attr_kinds
        self.fn = fn
        self.sentinels = _pyir_obs_sentinels(module)
        a = fn.args
        if a.kwonlyargs or a.kw_defaults or a.posonlyargs:
            raise _Untranslatable("parameter list with keyword-only/positional-only parameters")
        if not all(isinstance(d, ast.Constant) for d in a.defaults):
            raise _Untranslatable("parameter default that is not a constant")
        names = [x.arg for x in a.args]
        if not names or names[0] != "self":
            raise _Untranslatable("not an instance method")
        self.params = names[1:] + ([a.vararg.arg] if a.vararg else []) + ([a.kwarg.arg] if a.kwarg else [])
        self.locals = set(self.params)
        for n in ast.walk(fn):
            if isinstance(n, ast.Name) and isinstance(n.ctx, (ast.Store, ast.Del)):
                self.locals.add(n.id)
            if isinstance(n, (ast.Lambda, ast.AsyncFunctionDef)):
                raise _Untranslatable("nested function")
            if isinstance(n, ast.FunctionDef) and n is not fn:
                raise _Untranslatable("nested function")
            if isinstance(n, (ast.Yield, ast.YieldFrom)):
                raise _Untranslatable("generator")
            if isinstance(n, ast.ExceptHandler) and n.name:
                self.locals.add(n.name)
        self.match_vars = set()
        self.ntemp = 0
        self.sibling_calls = set()
        self.assigned = set(self.params)

    def is_deferred_ctor(self, n):
        return (isinstance(n, ast.Call) and isinstance(n.func, ast.Name) and n.func.id == "Deferred"
                and "Deferred" not in self.locals and not n.args and not n.keywords
                and getattr(getattr(self.module, "Deferred", None), "__name__", None) == "Deferred")

    def is_bound_of_local(self, n):
        return (isinstance(n, ast.Attribute) and isinstance(n.value, ast.Name) and n.value.id in self.locals
                and n.attr in _PYIR_OBS_BOUND)

    def expr(self, n):
        if isinstance(n, ast.Name) and n.id not in self.locals and n.id in self.sentinels:
            return "(.construct %s [])" % lean_str(n.id)
        if isinstance(n, ast.Compare) and len(n.ops) == 1 and isinstance(n.ops[0], (ast.Is, ast.IsNot)):
            b = n.comparators[0]
            if isinstance(b, ast.Name) and b.id not in self.locals and b.id in self.sentinels:
                e = "(.isinstanceAny %s [%s])" % (self.expr(n.left), lean_str(b.id))
                return e if isinstance(n.ops[0], ast.Is) else "(.not %s)" % e
        if self.is_bound_of_local(n):
            return "(.construct \"boundmethod\" [(.var %s), (.str %s)])" % (lean_str(n.value.id), lean_str(n.attr))
        if self.is_self_attr(n) and self.kinds.get(n.attr) == "plain" and n.attr in getattr(self, "klass_funcs", {}):
            return "(.construct \"boundmethod\" [(.construct \"self\" []), (.str %s)])" % lean_str(n.attr)
        if self.is_deferred_ctor(n):
            raise _Untranslatable("Deferred() in expression position")
        return super().expr(n)

    def call_expr(self, n):
        f = n.func
        if not n.keywords and not any(isinstance(a, ast.Starred) for a in n.args):
            if isinstance(f, ast.Name) and f.id == "isinstance" and len(n.args) == 2 \
                    and isinstance(n.args[1], ast.Name) and n.args[1].id == "Exception" and "Exception" not in self.locals \
                    and not hasattr(self.module, "Exception"):
                return "(.isinstanceAny %s [\"Exception\"])" % self.expr(n.args[0])
            name = None
            if isinstance(f, ast.Name) and f.id not in self.locals:
                name, obj = f.id, getattr(self.module, f.id, None)
            elif isinstance(f, ast.Attribute) and isinstance(f.value, ast.Name) and f.value.id not in self.locals \
                    and f.value.id != "self" and inspect.ismodule(getattr(self.module, f.value.id, None)):
                name, obj = f.attr, getattr(getattr(self.module, f.value.id), f.attr, None)
            if name in _PYIR_OBS_VALUE_CLASSES and inspect.isclass(obj) and obj.__name__ == name:
                return "(.construct %s %s)" % (lean_str(name), self.exprs(n.args))
        return super().call_expr(n)

    def pop_like(self, n, target):
        dc = self.data_call(n)
        if dc is not None:
            kind, a, args = dc
            if kind == "pop" and len(args) == 1 and isinstance(args[0], ast.Constant) and args[0].value == 0 \
                    and args[0].value is not False and self.attr_kinds.get(a) == "list":
                return ".popleft %s %s" % (_lean_opt_str(target), lean_str(a))
            if kind == "pop" and self.attr_kinds.get(a) == "list":
                return None
        return super().pop_like(n, target)

    def args_with_hoist(self, args, out):
        # a bound method of a local (`d.callback`) in front of an effectful argument is pure: hoisting stays sound
        res = []
        for i, a in enumerate(args):
            if isinstance(a, ast.Starred):
                raise _Untranslatable("*args")
            if self.data_call(a) is not None:
                if not all(isinstance(b, (ast.Constant, ast.Name)) or self.is_bound_of_local(b) for b in args[:i]):
                    raise _Untranslatable("effectful argument after a non-trivial one: " + _pyir_src(a))
                tmp = "$%d" % self.ntemp
                self.ntemp += 1
                st = self.pop_like(a, tmp)
                if st is None:
                    raise _Untranslatable("effectful argument: " + _pyir_src(a))
                out.append(st)
                self.locals.add(tmp)
                res.append("(.var %s)" % lean_str(tmp))
            else:
                res.append(self.expr(a))
        return "[" + ", ".join(res) + "]"

    def call_stmt(self, n, target, out):
        f = n.func
        # `self.<X>.<meth>(…, self.<list>.pop(0))`: the Dilation translator refuses hoisting for calls that may re-enter;
        # the observers' collaborator is the eventual queue, which only stores the call: recorded with `.emit`
        if target is None and not n.keywords and isinstance(f, ast.Attribute) and self.is_self_attr(f.value) \
                and f.value.attr not in self.data_attrs and any(self.data_call(a) is not None for a in n.args):
            return _PyIR.call_stmt(self, n, target, out)
        super().call_stmt(n, target, out)

    def stmt(self, s, out):
        if isinstance(s, ast.Assign) and len(s.targets) == 1 and self.is_deferred_ctor(s.value):
            t = s.targets[0]
            alloc = "(.construct \"Deferred\" [(.attr \"$deferreds\")])"
            if isinstance(t, ast.Name):
                out.append(".assign %s %s" % (lean_str(t.id), alloc))
            elif self.is_self_attr(t):
                out.append(".setAttr %s %s" % (lean_str(t.attr), alloc))
            else:
                raise _Untranslatable("assignment target: " + _pyir_src(t))
            out.append(".augAttr \"$deferreds\" (.int 1)")
            if s in self.fn.body and isinstance(t, ast.Name):
                self.assigned.add(t.id)
            return
        if isinstance(s, ast.Assign) and len(s.targets) == 1 and isinstance(s.targets[0], ast.Tuple) \
                and isinstance(s.value, ast.Tuple) and len(s.targets[0].elts) == len(s.value.elts):
            tmps = []
            for v in s.value.elts:
                if isinstance(v, ast.Call):
                    raise _Untranslatable("call on the right-hand side of a tuple assignment")
                tmp = "$%d" % self.ntemp
                self.ntemp += 1
                self.locals.add(tmp)
                tmps.append(tmp)
                out.append(".assign %s %s" % (lean_str(tmp), self.expr(v)))
            for t, tmp in zip(s.targets[0].elts, tmps):
                if isinstance(t, ast.Name):
                    out.append(".assign %s (.var %s)" % (lean_str(t.id), lean_str(tmp)))
                elif self.is_self_attr(t):
                    out.append(".setAttr %s (.var %s)" % (lean_str(t.attr), lean_str(tmp)))
                else:
                    raise _Untranslatable("assignment target: " + _pyir_src(t))
            return
        if isinstance(s, ast.Expr) and isinstance(s.value, ast.Call) and isinstance(s.value.func, ast.Name) \
                and s.value.func.id in self.locals and len(s.value.args) == 1 and len(s.value.keywords) == 1 \
                and isinstance(s.value.args[0], ast.Starred) and isinstance(s.value.args[0].value, ast.Name) \
                and s.value.keywords[0].arg is None and isinstance(s.value.keywords[0].value, ast.Name):
            # `f(*args, **kwargs)` on locals: the call of a value, recorded with the callee, the tuple and the dict
            out.append(".emitV (.var %s) \"__call__\" [(.var %s), (.var %s)]" % (
                lean_str(s.value.func.id), lean_str(s.value.args[0].value.id), lean_str(s.value.keywords[0].value.id)))
            return
        if isinstance(s, ast.For) and not s.orelse and isinstance(s.iter, ast.Name) and s.iter.id in self.locals \
                and (isinstance(s.target, ast.Name) or (isinstance(s.target, ast.Tuple)
                                                        and all(isinstance(e, ast.Name) for e in s.target.elts))) \
                and not self.has_break(s.body):
            src = s.iter.id
            for b in s.body:
                for n in ast.walk(b):
                    if isinstance(n, ast.Name) and n.id == src:
                        raise _Untranslatable("loop body uses the iterated local " + src)
            if self.mutated_attrs(s.body):
                # the local may alias a container attribute: snapshot iteration is only faithful if nothing is mutated
                raise _Untranslatable("loop over a local whose body mutates attributes of self")
            pat = "(.one %s)" % lean_str(s.target.id) if isinstance(s.target, ast.Name) else \
                "(.tup [%s])" % ", ".join(lean_str(e.id) for e in s.target.elts)
            out.append(".forIn %s (.var %s) %s" % (pat, lean_str(src), self.block(s.body)))
            return
        super().stmt(s, out)


def _pyir_obs_class(module_name, cls_name, methods):
    mod = importlib.import_module(module_name)
    klass = getattr(mod, cls_name)
    kinds, funcs = {}, {}
    for name, member in vars(klass).items():
        if not inspect.isfunction(member):
            continue
        kinds[name] = "plain"
        try:
            funcs[name] = ast.parse(textwrap.dedent(inspect.getsource(member))).body[0]
        except Exception:  # pragma: no cover
            pass
    attr_kinds = {}
    for init in _PYIR_INIT_METHODS:
        fn = funcs.get(init)
        if fn is None:
            continue
        for n in ast.walk(fn):
            if isinstance(n, ast.Assign) and len(n.targets) == 1:
                t, v = n.targets[0], n.value
                if isinstance(t, ast.Attribute) and isinstance(t.value, ast.Name) and t.value.id == "self":
                    if isinstance(v, ast.Dict) and not v.keys:
                        attr_kinds[t.attr] = "dict"
                    elif isinstance(v, ast.List) and not v.elts:
                        attr_kinds[t.attr] = "list"
                    elif isinstance(v, ast.Call) and isinstance(v.func, ast.Name) and not v.args \
                            and v.func.id in ("set", "dict", "list", "deque"):
                        attr_kinds[t.attr] = {"set": "set", "dict": "dict"}.get(v.func.id, "list")
    data_attrs = set(attr_kinds)
    todo = list(methods)
    done, bad = {}, {}
    while todo:
        name = todo.pop(0)
        if name in done or name in bad:
            continue
        fn = funcs.get(name)
        if fn is None:
            bad[name] = "source not available"
            continue
        try:
            tr = _PyIRObs(mod, klass, kinds, data_attrs, fn, attr_kinds)
            tr.klass_funcs = funcs
            body = tr.block(fn.body)
            done[name] = (tr.params, body)
            for callee in sorted(tr.sibling_calls):
                if callee not in done and callee not in bad:
                    todo.append(callee)
        except _Untranslatable as e:
            bad[name] = str(e)
    changed = True
    while changed:
        changed = False
        for name in sorted(done):
            for n in ast.walk(funcs[name]):
                if isinstance(n, ast.Call) and isinstance(n.func, ast.Attribute) and isinstance(n.func.value, ast.Name) \
                        and n.func.value.id == "self" and n.func.attr in bad:
                    bad[name] = "calls untranslatable self.%s" % n.func.attr
                    del done[name]
                    changed = True
                    break
            if changed:
                break
    return done, bad


def extract_pyir_obs():
    """Lean data: the bodies of the observer / eventual-queue / façade methods in the IR of WV/Model/PyIR.lean"""
    L = ["import WV.Model.PyIR", "namespace WV.Gen.PyIRObs", "open WV.PyIR", ""]
    all_done, all_bad, classes = [], [], []
    for module, cls, methods in PYIR_OBS_TARGETS:
        try:
            done, bad = _pyir_obs_class(module, cls, methods)
        except Exception as e:
            all_bad.append((cls, "class not translatable: %s" % type(e).__name__))
            continue
        cid = cls.lstrip("_")
        classes.append((cls, cid, done))
        for name in sorted(done):
            params, body = done[name]
            L.append("def %s : List String × List Stmt :=" % ident("m_%s_%s" % (cid, name)))
            L.append("  ([%s]," % ", ".join(lean_str(p) for p in params))
            L.append("   %s)" % body)
            all_done.append((cls, cid, name))
        for name in sorted(bad):
            all_bad.append(("%s.%s" % (cls, name), bad[name]))
    L.append("")
    for cls, cid, done in classes:
        L.append("def %s : MethodTable" % ident("tbl_" + cid))
        for name in sorted(done):
            L.append("  | %s => some %s" % (lean_str(name), ident("m_%s_%s" % (cid, name))))
        L.append("  | _ => none")
    L.append("")
    L.append("def translated : List String := [%s]" % ", ".join(lean_str("%s.%s" % (c, n)) for c, _, n in all_done))
    L.append("")
    L.append("/-- methods with a construct outside the subset, and the construct -/")
    L.append("def untranslatable : List (String × String) := [%s]" % ", ".join(
        "(%s, %s)" % (lean_str(k), lean_str(v)) for k, v in all_bad))
    L.append("end WV.Gen.PyIRObs")
    return "\n".join(L) + "\n", len(all_done), all_bad
# [deepObs] end -------------------------------------------------------------


# [deepSub] begin -----------------------------------------------------------
# PyIR for subchannels (SubChannel's outputs and helper methods, SubchannelDemultiplex, the Manager methods they call):
# a generated module of its own, WV/Gen/PyIRSub.lean, so that no pin of the other PyIR modules moves.  `_PyIRSub` only
# ADDS cases to `_PyIRDil` (every override falls back to the base class).

# (module, class, take every @m.output as well?, plain methods)
PYIR_SUB_TARGETS = [
    ("wormhole._dilation.subchannel", "SubChannel", True,
     ["__attrs_post_init__", "_set_protocol", "_deliver_queued_data", "write", "writeSequence", "loseWriteConnection",
      "loseConnection", "stopProducing", "pauseProducing", "resumeProducing", "registerProducer", "unregisterProducer"]),
    ("wormhole._dilation.subchannel", "SubchannelDemultiplex", False, ["__init__", "_got_open", "_connect", "register"]),
    ("wormhole._dilation.manager", "Manager", False,
     ["subchannel_closed", "subchannel_local_open", "send_open", "send_data", "send_close", "_queue_and_send",
      "_register_subprotocol_factory"]),
]
_PYIR_SUB_NOT_RECORDED = set(_PYIR_STR_METHODS) | {"get", "items", "group", "popleft", "pop", "join"}


def _pyir_sub_attrs_classes(module):
    """the attrs classes of the module: [(class name, attribute names in positional order)]"""
    import attr as _attr
    out = []
    for k, v in sorted(vars(module).items()):
        if inspect.isclass(v) and getattr(v, "__module__", None) == module.__name__ and _attr.has(v):
            out.append((k, [a.name for a in _attr.fields(v)]))
    return out


def _pyir_sub_field_index(module, name):
    idx = {f.index(name) for _, f in _pyir_sub_attrs_classes(module) if name in f}
    if len(idx) != 1:
        raise _Untranslatable("attribute .%s of a value: not a field with one position in the attrs classes" % name)
    return idx.pop()


class _PyIRSub(_PyIRDil):
    def __init__(self, module, klass, kinds, data_attrs, fn, attr_kinds):
        self.defaults = []
        a = fn.args
        if a.defaults and not (a.kwarg or a.kwonlyargs or a.kw_defaults or a.posonlyargs or a.vararg):
            # a default is the caller's business: the body is translated with the parameter passed explicitly, the
            # default itself is listed in the generated module (`defaults`)
            import copy as _copy
            names = [x.arg for x in a.args]
            self.defaults = list(zip(names[len(names) - len(a.defaults):], [_pyir_src(d) for d in a.defaults]))
            fn2 = _copy.copy(fn)
            fn2.args = _copy.copy(a)
            fn2.args.defaults = []
            fn = fn2
        super().__init__(module, klass, kinds, data_attrs, fn, attr_kinds)

    def global_obj(self, n):
        if isinstance(n, ast.Name) and n.id not in self.locals and n.id != "self":
            return getattr(self.module, n.id, None)
        return None

    def is_interface(self, n):
        from zope.interface.interface import InterfaceClass
        return isinstance(self.global_obj(n), InterfaceClass)

    def expr(self, n):
        g = self.global_obj(n)
        if isinstance(g, int) and not isinstance(g, bool) and g >= 0:
            return "(.int %d)" % g                      # a module-level int constant (MAX_FRAME_LENGTH)
        if inspect.isclass(g) and issubclass(g, tuple) and hasattr(g, "_fields"):
            return "(.construct \"type\" [(.str %s)])" % lean_str(n.id)     # a record class passed on (`Open`, `Data`, `Close`)
        if isinstance(n, ast.Attribute) and not self.is_self_attr(n) and isinstance(n.value, ast.Name) \
                and n.value.id in self.locals:
            return "(.fieldAt %s %s %d)" % (self.expr(n.value), lean_str(n.attr), _pyir_sub_field_index(self.module, n.attr))
        return super().expr(n)

    def call_expr(self, n):
        f = n.func
        if not n.keywords and isinstance(f, ast.Name) and f.id not in self.locals:
            import collections as _c
            g = self.global_obj(f)
            if g is _c.deque and not n.args:
                return ".emptyList"
            if g is _c.defaultdict and len(n.args) == 1 and self.global_obj(n.args[0]) is _c.deque:
                return ".emptyDict"
            if self.is_interface(f) and len(n.args) == 1:
                return "(.call %s %s)" % (lean_str(f.id), self.exprs(n.args))       # adaptation `IFoo(x)`
        if not n.keywords and isinstance(f, ast.Attribute) and f.attr == "join" and len(n.args) == 1 \
                and isinstance(f.value, ast.Constant) and isinstance(f.value.value, bytes):
            return "(.call \"bytes.join\" %s)" % self.exprs([f.value, n.args[0]])
        return super().call_expr(n)

    def call_stmt(self, n, target, out):
        f = n.func
        if target is None and not n.keywords and isinstance(f, ast.Attribute):
            v = f.value
            # `IFoo(x).meth(args…)`: adapt (pure, may raise TypeError), then a call on the adapted value
            if isinstance(v, ast.Call) and not v.keywords and self.is_interface(v.func) and len(v.args) == 1 \
                    and not any(isinstance(a, ast.Starred) for a in list(n.args) + list(v.args)):
                self.locals.add("$adapt")
                out.append(".assign \"$adapt\" %s" % self.call_expr(v))
                out.append(".emitV (.var \"$adapt\") %s %s" % (lean_str(f.attr), self.exprs(n.args)))
                return
            # `self.<defaultdict(deque)>[k].append(x)`
            if f.attr == "append" and len(n.args) == 1 and isinstance(v, ast.Subscript) and self.is_self_attr(v.value) \
                    and self.attr_kinds.get(v.value.attr) == "ddeque" and not isinstance(v.slice, ast.Slice):
                out.append(".appendAtD %s %s %s" % (lean_str(v.value.attr), self.expr(v.slice), self.expr(n.args[0])))
                return
        super().call_stmt(n, target, out)

    def local_popleft(self, v):
        if isinstance(v, ast.Call) and not v.args and not v.keywords and isinstance(v.func, ast.Attribute) \
                and v.func.attr == "popleft" and isinstance(v.func.value, ast.Name) and v.func.value.id in self.locals:
            return v.func.value.id
        return None

    def stmt(self, s, out):
        if isinstance(s, ast.Delete) and len(s.targets) == 1 and self.is_self_attr(s.targets[0]):
            out.append(".delAttr %s" % lean_str(s.targets[0].attr))
            return
        if isinstance(s, ast.Assign) and len(s.targets) == 1:
            t, v = s.targets[0], s.value
            q = self.local_popleft(v)
            if q is not None and isinstance(t, ast.Name):
                out.append(".popleftLocal (.one %s) %s" % (lean_str(t.id), lean_str(q)))
                return
            if q is not None and isinstance(t, ast.Tuple) and all(isinstance(e, ast.Name) for e in t.elts):
                out.append(".popleftLocal (.tup [%s]) %s" % (", ".join(lean_str(e.id) for e in t.elts), lean_str(q)))
                return
            # `x = <local>.<meth>(args…)`: a call on a value whose result is kept
            if isinstance(t, ast.Name) and isinstance(v, ast.Call) and not v.keywords and isinstance(v.func, ast.Attribute) \
                    and v.func.attr not in _PYIR_SUB_NOT_RECORDED and t.id not in self.match_vars \
                    and not any(isinstance(a, ast.Starred) for a in v.args):
                rc = self.recv_chain(v.func)
                if rc is not None and rc[0] == "local" and rc[1] != "log" and rc[1] not in self.match_vars:
                    pre = []
                    args = self.args_with_hoist(v.args, pre)
                    if pre:
                        raise _Untranslatable("effectful argument of a call on a value: " + _pyir_src(v))
                    out.append(".emitVTo %s (.var %s) %s %s" % (lean_str(t.id), lean_str(rc[1]), lean_str(rc[2]), args))
                    if s in self.fn.body:
                        self.assigned.add(t.id)
                    return
        super().stmt(s, out)


def _pyir_sub_class(module_name, cls_name, outputs, methods):
    mod = importlib.import_module(module_name)
    klass = getattr(mod, cls_name)
    kinds, funcs = {}, {}
    for name, member in vars(klass).items():
        f = member
        kind = "plain"
        if hasattr(f, "method") and callable(getattr(f, "method")):
            kind = {"MethodicalInput": "input", "MethodicalState": "state", "MethodicalOutput": "output"}.get(
                type(f).__name__, "other")
            f = f.method
        if not inspect.isfunction(f):
            continue
        kinds[name] = kind
        try:
            funcs[name] = ast.parse(textwrap.dedent(inspect.getsource(f))).body[0]
        except Exception:  # pragma: no cover
            pass
    attr_kinds = {}
    for init in _PYIR_INIT_METHODS:
        fn = funcs.get(init)
        if fn is None:
            continue
        for n in ast.walk(fn):
            if isinstance(n, ast.Assign) and len(n.targets) == 1:
                t, v = n.targets[0], n.value
                if isinstance(t, ast.Attribute) and isinstance(t.value, ast.Name) and t.value.id == "self":
                    if isinstance(v, ast.Dict) and not v.keys:
                        attr_kinds[t.attr] = "dict"
                    elif isinstance(v, ast.List) and not v.elts:
                        attr_kinds[t.attr] = "list"
                    elif isinstance(v, ast.Call) and isinstance(v.func, ast.Name) and not v.args \
                            and v.func.id in ("set", "dict", "list", "deque"):
                        attr_kinds[t.attr] = {"set": "set", "dict": "dict"}.get(v.func.id, "list")
                    elif isinstance(v, ast.Call) and isinstance(v.func, ast.Name) and v.func.id == "defaultdict" \
                            and len(v.args) == 1 and isinstance(v.args[0], ast.Name) and v.args[0].id == "deque" \
                            and not v.keywords:
                        attr_kinds[t.attr] = "ddeque"
    data_attrs = set(attr_kinds)
    todo = (sorted(n for n, k in kinds.items() if k == "output") if outputs else []) + list(methods)
    done, bad, defaults = {}, {}, []
    while todo:
        name = todo.pop(0)
        if name in done or name in bad:
            continue
        fn = funcs.get(name)
        if fn is None:
            bad[name] = "source not available"
            continue
        try:
            tr = _PyIRSub(mod, klass, kinds, data_attrs, fn, attr_kinds)
            tr.klass_funcs = funcs
            body = tr.block(fn.body)
            done[name] = (tr.params, body)
            defaults += [("%s.%s.%s" % (cls_name, name, p), d) for p, d in tr.defaults]
            for callee in sorted(tr.sibling_calls):
                if callee not in done and callee not in bad:
                    todo.append(callee)
        except _Untranslatable as e:
            bad[name] = str(e)
    changed = True
    while changed:
        changed = False
        for name in sorted(done):
            for n in ast.walk(funcs[name]):
                if isinstance(n, ast.Call) and isinstance(n.func, ast.Attribute) and isinstance(n.func.value, ast.Name) \
                        and n.func.value.id == "self" and n.func.attr in bad and kinds.get(n.func.attr) == "plain" \
                        and not (funcs[n.func.attr].args.kwarg or funcs[n.func.attr].args.vararg):
                    bad[name] = "calls untranslatable self.%s" % n.func.attr
                    del done[name]
                    changed = True
                    break
            if changed:
                break
    return done, bad, defaults, kinds


def extract_pyir_sub():
    """Lean data: the bodies of the subchannel methods in the IR of WV/Model/PyIR.lean"""
    L = ["import WV.Model.PyIR", "namespace WV.Gen.PyIRSub", "open WV.PyIR", ""]
    all_done, all_bad, classes, all_defaults, outs = [], [], [], [], []
    for module, cls, outputs, methods in PYIR_SUB_TARGETS:
        try:
            done, bad, defaults, kinds = _pyir_sub_class(module, cls, outputs, methods)
        except Exception as e:
            all_bad.append((cls, "class not translatable: %s" % type(e).__name__))
            continue
        cid = cls.lstrip("_")
        classes.append((cls, cid, done))
        all_defaults += defaults
        if outputs:
            outs += ["%s.%s" % (cls, n) for n in sorted(kinds) if kinds[n] == "output"]
        for name in sorted(done):
            params, body = done[name]
            L.append("def %s : List String × List Stmt :=" % ident("m_%s_%s" % (cid, name)))
            L.append("  ([%s]," % ", ".join(lean_str(p) for p in params))
            L.append("   %s)" % body)
            all_done.append((cls, cid, name))
        for name in sorted(bad):
            all_bad.append(("%s.%s" % (cls, name), bad[name]))
    L.append("")
    for cls, cid, done in classes:
        L.append("def %s : MethodTable" % ident("tbl_" + cid))
        for name in sorted(done):
            L.append("  | %s => some %s" % (lean_str(name), ident("m_%s_%s" % (cid, name))))
        L.append("  | _ => none")
    L.append("")
    L.append("def translated : List String := [%s]" % ", ".join(lean_str("%s.%s" % (c, n)) for c, _, n in all_done))
    L.append("")
    L.append("/-- methods with a construct outside the subset, and the construct -/")
    L.append("def untranslatable : List (String × String) := [%s]" % ", ".join(
        "(%s, %s)" % (lean_str(k), lean_str(v)) for k, v in all_bad))
    L.append("")
    L.append("/-- every `@m.output` of the machine classes (all of them must be in `translated` or `untranslatable`) -/")
    L.append("def outputs : List String := [%s]" % ", ".join(lean_str(x) for x in outs))
    L.append("")
    L.append("/-- parameters with a default value (the bodies are translated with the parameter passed explicitly) -/")
    L.append("def defaults : List (String × String) := [%s]" % ", ".join(
        "(%s, %s)" % (lean_str(k), lean_str(v)) for k, v in all_defaults))
    L.append("")
    L.append("/-- the attrs classes of subchannel.py and their attributes in positional order (what `fieldAt` positions refer to) -/")
    sub = importlib.import_module("wormhole._dilation.subchannel")
    L.append("def attrsFields : List (String × List String) := [%s]" % ", ".join(
        "(%s, [%s])" % (lean_str(k), ", ".join(lean_str(x) for x in f)) for k, f in _pyir_sub_attrs_classes(sub)))
    L.append("end WV.Gen.PyIRSub")
    return "\n".join(L) + "\n", len(all_done), all_bad
# [deepSub] end -------------------------------------------------------------


# [deepTr] begin ------------------------------------------------------------
# PyIR for the transit `Connection` (transit.py): a third generated module, WV/Gen/PyIRTr.lean.  `_PyIRTr` only ADDS
# cases to `_PyIRDil` (every override falls back to the base class).

PYIR_TR_TARGETS = [
    ("wormhole.transit", "Connection",
     ["send_record", "_decrypt_record", "dataReceivedRECORDS", "recordReceived", "_deliverRecords", "receive_record",
      "_writeToConsumer", "disconnectConsumer", "connectConsumer", "close", "connectionLost",
      "_check_and_remove", "_dataReceived", "_negotiationSuccessful", "dataReceived", "startNegotiation",
      "connectionMade", "timeoutConnection", "_cancel",
      "pauseProducing", "resumeProducing", "stopProducing", "registerProducer", "unregisterProducer", "write",
      "writeToFile", "describe"]),
]


def _pyir_tr_const_int(node):
    """value of a constant int expression built from literals with + * ** (what CPython's compiler folds), or None"""
    if isinstance(node, ast.Constant) and isinstance(node.value, int) and not isinstance(node.value, bool) \
            and node.value >= 0:
        return node.value
    if isinstance(node, ast.BinOp) and isinstance(node.op, (ast.Add, ast.Mult, ast.Pow)):
        a, b = _pyir_tr_const_int(node.left), _pyir_tr_const_int(node.right)
        if a is None or b is None:
            return None
        if isinstance(node.op, ast.Add):
            return a + b
        if isinstance(node.op, ast.Mult):
            return a * b
        if b > 4096:
            return None
        return a ** b
    return None


class _PyIRTr(_PyIRDil):
    def __init__(self, module, klass, kinds, data_attrs, fn, attr_kinds, box_attrs):
        # a default value of a parameter only matters to callers that omit the argument; the interpreter's `callM`
        # demands every argument, so the translated body is the body with all parameters given
        saved = (fn.args.defaults, fn.args.kw_defaults)
        fn.args.defaults, fn.args.kw_defaults = [], []
        try:
            super().__init__(module, klass, kinds, data_attrs, fn, attr_kinds)
        finally:
            fn.args.defaults, fn.args.kw_defaults = saved
        self.box_attrs = box_attrs
        self.handler_names = []     # names bound by the enclosing `except Exception as <name>` handlers

    def is_box_call(self, n):
        return (isinstance(n, ast.Call) and isinstance(n.func, ast.Attribute) and self.is_self_attr(n.func.value)
                and n.func.value.attr in self.box_attrs and n.func.attr in ("encrypt", "decrypt") and not n.keywords
                and not any(isinstance(a, ast.Starred) for a in n.args))

    def collab_call(self, n):
        if self.is_box_call(n):
            return False           # a pure function of the ideal AEAD, not a recorded call
        return super().collab_call(n)

    def inherited_method(self, name):
        return name not in self.kinds and callable(getattr(self.klass, name, None))

    def fstring(self, n):
        tmpl, args = [], []
        for part in n.values:
            if isinstance(part, ast.Constant):
                tmpl.append(part.value.replace("{", "{{").replace("}", "}}"))
            elif isinstance(part, ast.FormattedValue):
                conv = {-1: "", 114: "!r", 115: "!s", 97: "!a"}[part.conversion]
                spec = ""
                if part.format_spec is not None:
                    if not (isinstance(part.format_spec, ast.JoinedStr) and all(
                            isinstance(v, ast.Constant) for v in part.format_spec.values)):
                        raise _Untranslatable("f-string with a computed format spec")
                    spec = ":" + "".join(v.value for v in part.format_spec.values)
                tmpl.append("{" + conv + spec + "}")
                args.append(part.value)
            else:  # pragma: no cover
                raise _Untranslatable("f-string part")
        return "".join(tmpl), args

    def expr(self, n):
        k = _pyir_tr_const_int(n)
        if k is not None and not isinstance(n, ast.Constant):
            return "(.int %d)" % k
        if isinstance(n, ast.Name) and n.id not in self.locals and n.id != "self":
            v = getattr(self.module, n.id, None)
            if isinstance(v, int) and not isinstance(v, bool) and v >= 0:
                return "(.int %d)" % v           # a module-level int constant (TIMEOUT)
        if isinstance(n, ast.Attribute) and isinstance(n.value, ast.Name) and n.value.id not in self.locals \
                and n.value.id != "self" and inspect.isclass(getattr(self.module, n.value.id, None)):
            v = getattr(getattr(self.module, n.value.id), n.attr, None)
            if isinstance(v, int) and not isinstance(v, bool) and v >= 0:
                return "(.int %d)" % v           # a class-level int constant (SecretBox.NONCE_SIZE)
        if isinstance(n, ast.Subscript) and isinstance(n.slice, ast.Slice) and n.slice.step is None:
            lo = "none" if n.slice.lower is None else "(some %s)" % self.expr(n.slice.lower)
            hi = "none" if n.slice.upper is None else "(some %s)" % self.expr(n.slice.upper)
            return "(.sliceT %s %s %s)" % (self.expr(n.value), lo, hi)
        if isinstance(n, ast.Compare) and len(n.ops) == 1 and isinstance(n.ops[0], ast.GtE):
            return "(.geT %s %s)" % (self.expr(n.left), self.expr(n.comparators[0]))
        if isinstance(n, ast.JoinedStr):
            tmpl, args = self.fstring(n)
            return "(.call %s %s)" % (lean_str('f"' + tmpl + '"'), self.exprs(args))
        return super().expr(n)

    def call_expr(self, n):
        f = n.func
        plain = not n.keywords and not any(isinstance(a, ast.Starred) for a in n.args)
        if plain and isinstance(f, ast.Name) and f.id not in self.locals:
            # int(hexlify(X), 16): big-endian decoding
            if f.id == "int" and len(n.args) == 2 and isinstance(n.args[1], ast.Constant) and n.args[1].value == 16 \
                    and isinstance(n.args[0], ast.Call) and isinstance(n.args[0].func, ast.Name) \
                    and n.args[0].func.id == "hexlify" and "hexlify" not in self.locals \
                    and len(n.args[0].args) == 1 and not n.args[0].keywords:
                return "(.call \"be_decode\" %s)" % self.exprs(n.args[0].args)
            # unhexlify(f"{E:0Nx}"): big-endian encoding into N/2 bytes
            if f.id == "unhexlify" and len(n.args) == 1 and isinstance(n.args[0], ast.JoinedStr):
                tmpl, args = self.fstring(n.args[0])
                m = re.match(r"^\{:0(\d+)x\}$", tmpl)
                if m and len(args) == 1 and int(m.group(1)) % 2 == 0:
                    return "(.call \"be_fixed\" [%s, (.int %d)])" % (self.expr(args[0]), int(m.group(1)) // 2)
        if plain and isinstance(f, ast.Attribute) and f.attr == "startswith" and len(n.args) == 1 \
                and (self.is_self_attr(f.value) or (isinstance(f.value, ast.Name) and f.value.id in self.locals)):
            return "(.startswithT %s %s)" % (self.expr(f.value), self.expr(n.args[0]))
        if self.is_box_call(n):
            return "(.call %s %s)" % (lean_str("SecretBox." + f.attr), self.exprs([f.value] + list(n.args)))
        return super().call_expr(n)

    def call_stmt(self, n, target, out):
        f = n.func
        if self.is_self_attr(f) and self.inherited_method(f.attr) and target is None and not n.keywords \
                and not any(isinstance(a, ast.Starred) for a in n.args):
            # a method inherited from a framework base class (`setTimeout` of TimeoutMixin): recorded, not interpreted
            out.append(".emitG \"self\" %s %s" % (lean_str(f.attr), self.exprs(n.args)))
            return
        if isinstance(f, ast.Attribute) and self.is_self_attr(f.value) and f.value.attr not in self.data_attrs \
                and target is not None and not n.keywords and not self.is_box_call(n) \
                and not any(isinstance(a, ast.Starred) for a in n.args):
            # `x = self.<collab>.<meth>(…)`: recorded, value from Env.retOfT
            out.append(".emitToFT %s %s %s %s" % (lean_str(target), lean_str(f.value.attr), lean_str(f.attr), self.exprs(n.args)))
            return
        if isinstance(f, ast.Attribute) and self.is_self_attr(f.value) and f.value.attr not in self.data_attrs \
                and target is None and not n.keywords and not self.is_box_call(n) \
                and not any(isinstance(a, ast.Starred) for a in n.args) \
                and any(isinstance(a, ast.Call) and self.collab_call(a) for a in n.args):
            # `self.<X>.<meth>(self.<Y>.<m2>(), …)`: CPython looks `self.<X>.<meth>` up first (None -> AttributeError),
            # then evaluates the arguments from left to right, then makes the call
            out.append(".ite (.isNone (.attr %s)) [.raise \"AttributeError\" []] []" % lean_str(f.value.attr))
            args = self.hoist_collab_args(list(n.args), out)
            out.append(".emitA %s %s %s" % (lean_str(f.value.attr), lean_str(f.attr), self.exprs(args)))
            return
        super().call_stmt(n, target, out)

    def sibling_call(self, n):
        return (isinstance(n, ast.Call) and self.is_self_attr(n.func) and self.kinds.get(n.func.attr) == "plain"
                and not n.keywords)

    def hoist_collab_args(self, args, out):
        """collaborator calls among the arguments become `emitToFT` temporaries in front of the statement — only if
        everything evaluated before them is a constant or a local; returns the argument nodes with the calls replaced"""
        res = []
        for i, a in enumerate(args):
            if isinstance(a, ast.Call) and self.collab_call(a):
                if not all(isinstance(b, (ast.Constant, ast.Name)) for b in args[:i]):
                    raise _Untranslatable("effectful argument after a non-trivial one: " + _pyir_src(a))
                tmp = "$%d" % self.ntemp
                self.ntemp += 1
                self.locals.add(tmp)
                self.call_stmt(a, tmp, out)
                res.append(ast.Name(id=tmp, ctx=ast.Load()))
            else:
                res.append(a)
        return res

    def args_with_hoist(self, args, out):
        return super().args_with_hoist(self.hoist_collab_args(list(args), out), out)

    def project_class(self, t):
        import builtins
        if isinstance(t, ast.Name) and t.id not in self.locals and getattr(self.module, t.id, None) is None \
                and inspect.isclass(getattr(builtins, t.id, None)) and issubclass(getattr(builtins, t.id), BaseException):
            return t.id           # a builtin exception class, matched by name like the project's classes
        return super().project_class(t)

    def stmt(self, s, out):
        # `a, self.b = e1, e2`: the right-hand sides first (left to right), then the targets (left to right)
        if isinstance(s, ast.Assign) and len(s.targets) == 1 and isinstance(s.targets[0], ast.Tuple) \
                and isinstance(s.value, ast.Tuple) and len(s.targets[0].elts) == len(s.value.elts) \
                and all(isinstance(t, ast.Name) or self.is_self_attr(t) for t in s.targets[0].elts):
            tmps = []
            for v in s.value.elts:
                tmp = "$%d" % self.ntemp
                self.ntemp += 1
                self.locals.add(tmp)
                out.append(".assign %s %s" % (lean_str(tmp), self.expr(v)))
                tmps.append(tmp)
            for t, tmp in zip(s.targets[0].elts, tmps):
                if isinstance(t, ast.Name):
                    out.append(".assign %s (.var %s)" % (lean_str(t.id), lean_str(tmp)))
                else:
                    out.append(".setAttr %s (.var %s)" % (lean_str(t.attr), lean_str(tmp)))
            return
        # `x = self.<box>.decrypt(e)`, `self.<a> = SecretBox(k)`: pure
        if isinstance(s, ast.Assign) and len(s.targets) == 1 and isinstance(s.targets[0], ast.Name) and self.is_box_call(s.value):
            out.append(".assign %s %s" % (lean_str(s.targets[0].id), self.call_expr(s.value)))
            return
        # `return self.<sibling>(…)`
        if isinstance(s, ast.Return) and s.value is not None and self.sibling_call(s.value):
            self.locals.add("$ret")
            self.call_stmt(s.value, "$ret", out)
            out.append(".ret (some (.var \"$ret\"))")
            return
        # `if [not] self.<sibling>(…):` — the call is made first, its value tested
        if isinstance(s, ast.If):
            t = s.test
            neg = isinstance(t, ast.UnaryOp) and isinstance(t.op, ast.Not)
            c = t.operand if neg else t
            if self.sibling_call(c):
                tmp = "$%d" % self.ntemp
                self.ntemp += 1
                self.locals.add(tmp)
                self.call_stmt(c, tmp, out)
                cond = "(.not (.var %s))" % lean_str(tmp) if neg else "(.var %s)" % lean_str(tmp)
                out.append(".ite %s %s %s" % (cond, self.block(s.body), self.block(s.orelse)))
                return
        # `self.<a> = self.<collab>.<meth>(…)` / `self.<a> = SecretBox(k)` are handled by the base class
        # `try: … except Exception [as e]: …` with a bare `raise` inside
        if isinstance(s, ast.Try) and not s.orelse and not s.finalbody and len(s.handlers) == 1 \
                and isinstance(s.handlers[0].type, ast.Name) and s.handlers[0].type.id == "Exception":
            h = s.handlers[0]
            if h.name is not None:
                for b in h.body:
                    for x in ast.walk(b):
                        if isinstance(x, ast.Name) and x.id == h.name and isinstance(x.ctx, (ast.Store, ast.Del)):
                            raise _Untranslatable("handler re-binds its exception name")
            body = self.block(s.body)
            self.handler_names.append(h.name)
            try:
                hb = self.block(h.body)
            finally:
                self.handler_names.pop()
            out.append(".tryCatchAllT %s %s %s" % (body, _lean_opt_str(h.name), hb))
            return
        if isinstance(s, ast.Raise) and s.exc is None and s.cause is None:
            if self.handler_names and self.handler_names[-1] is not None:
                out.append(".raiseVT (.var %s)" % lean_str(self.handler_names[-1]))
                return
            raise _Untranslatable("bare raise outside `except Exception as <name>`")
        if isinstance(s, ast.Raise) and s.cause is None and self.is_self_attr(s.exc):
            out.append(".raiseVT %s" % self.expr(s.exc))
            return
        super().stmt(s, out)


def _pyir_tr_class(module_name, cls_name, methods):
    mod = importlib.import_module(module_name)
    klass = getattr(mod, cls_name)
    kinds, funcs = {}, {}
    for name, member in vars(klass).items():
        if not inspect.isfunction(member):
            continue
        kinds[name] = "plain"
        try:
            funcs[name] = ast.parse(textwrap.dedent(inspect.getsource(member))).body[0]
        except Exception:  # pragma: no cover
            pass
    attr_kinds, box_attrs = {}, set()
    for name, fn in funcs.items():
        for n in ast.walk(fn):
            if isinstance(n, ast.Assign) and len(n.targets) == 1:
                t, v = n.targets[0], n.value
                if isinstance(t, ast.Attribute) and isinstance(t.value, ast.Name) and t.value.id == "self":
                    if name in _PYIR_INIT_METHODS:
                        if isinstance(v, ast.Dict) and not v.keys:
                            attr_kinds[t.attr] = "dict"
                        elif isinstance(v, ast.List) and not v.elts:
                            attr_kinds[t.attr] = "list"
                        elif isinstance(v, ast.Call) and isinstance(v.func, ast.Name) and not v.args \
                                and v.func.id in ("set", "dict", "list", "deque"):
                            attr_kinds[t.attr] = {"set": "set", "dict": "dict"}.get(v.func.id, "list")
                    if isinstance(v, ast.Call) and isinstance(v.func, ast.Name) and v.func.id == "SecretBox":
                        box_attrs.add(t.attr)
    data_attrs = set(attr_kinds)
    todo = list(methods)
    done, bad = {}, {}
    while todo:
        name = todo.pop(0)
        if name in done or name in bad:
            continue
        fn = funcs.get(name)
        if fn is None:
            bad[name] = "source not available"
            continue
        try:
            tr = _PyIRTr(mod, klass, kinds, data_attrs, fn, attr_kinds, box_attrs)
            tr.klass_funcs = funcs
            body = tr.block(fn.body)
            done[name] = (tr.params, body)
            for callee in sorted(tr.sibling_calls):
                if callee not in done and callee not in bad:
                    todo.append(callee)
        except _Untranslatable as e:
            bad[name] = str(e)
    changed = True
    while changed:
        changed = False
        for name in sorted(done):
            for n in ast.walk(funcs[name]):
                if isinstance(n, ast.Call) and isinstance(n.func, ast.Attribute) and isinstance(n.func.value, ast.Name) \
                        and n.func.value.id == "self" and n.func.attr in bad:
                    bad[name] = "calls untranslatable self.%s" % n.func.attr
                    del done[name]
                    changed = True
                    break
            if changed:
                break
    return done, bad


def extract_pyir_tr():
    """Lean data: the method bodies of transit.Connection in the IR of WV/Model/PyIR.lean"""
    L = ["import WV.Model.PyIR", "namespace WV.Gen.PyIRTr", "open WV.PyIR", ""]
    all_done, all_bad, classes = [], [], []
    for module, cls, methods in PYIR_TR_TARGETS:
        try:
            done, bad = _pyir_tr_class(module, cls, methods)
        except Exception as e:
            all_bad.append((cls, "class not translatable: %s" % type(e).__name__))
            continue
        cid = cls.lstrip("_")
        classes.append((cls, cid, done))
        for name in sorted(done):
            params, body = done[name]
            L.append("def %s : List String × List Stmt :=" % ident("m_%s_%s" % (cid, name)))
            L.append("  ([%s]," % ", ".join(lean_str(p) for p in params))
            L.append("   %s)" % body)
            all_done.append((cls, cid, name))
        for name in sorted(bad):
            all_bad.append(("%s.%s" % (cls, name), bad[name]))
    L.append("")
    for cls, cid, done in classes:
        L.append("def %s : MethodTable" % ident("tbl_" + cid))
        for name in sorted(done):
            L.append("  | %s => some %s" % (lean_str(name), ident("m_%s_%s" % (cid, name))))
        L.append("  | _ => none")
    L.append("")
    L.append("def translated : List String := [%s]" % ", ".join(lean_str("%s.%s" % (c, n)) for c, _, n in all_done))
    L.append("")
    L.append("/-- methods with a construct outside the subset, and the construct -/")
    L.append("def untranslatable : List (String × String) := [%s]" % ", ".join(
        "(%s, %s)" % (lean_str(k), lean_str(v)) for k, v in all_bad))
    L.append("end WV.Gen.PyIRTr")
    return "\n".join(L) + "\n", len(all_done), all_bad
# [deepTr] end --------------------------------------------------------------


BASELINE = os.path.join(HERE, "gen_baseline")


def main():
    """Every generated module is translated on its own.  A section the translator cannot translate any more (the source
    was rewritten into a shape it does not know: a method it parses is gone, a class moved, …) keeps the last generated
    text of that module (or, on a fresh checkout, the baseline text committed under tools/gen_baseline, which is the
    translation of the pinned tree) and is NAMED in WV/Gen/Failed.lean; `WV.Props.Common.translator_covers_everything`
    demands that list to be empty, so an untranslatable tree is a broken proof obligation of every property (and the
    failing-input search runs), never an infrastructure error and never silently stale."""
    changed = []
    failed = []
    hdr = "/- GENERATED by tools/extract.py from the /repo working tree. Do not edit. -/\n"
    state = {}

    def section(name, produce):
        path = os.path.join(GEN, name + ".lean")
        try:
            body = produce()
        except Exception as e:
            import traceback
            failed.append((name, "%s: %s" % (type(e).__name__, str(e)[:200]), traceback.format_exc()[-1500:]))
            if not os.path.exists(path):
                base = os.path.join(BASELINE, name + ".lean")
                if os.path.exists(base):
                    with open(base) as f:
                        write_if_changed(path, f.read())
            return
        if write_if_changed(path, body):
            changed.append(name)

    machines = []
    for m in MACHINES:
        def one(m=m):
            d = dump_machine(*m)
            machines.append(d)
            return hdr + "namespace WV.Gen\n" + lean_machine(d) + "end WV.Gen\n"
        section("T_%s" % m[0], one)
    section("Tables", lambda: hdr + "".join("import WV.Gen.T_%s\n" % m[0] for m in MACHINES))
    section("Consts", lambda: hdr + extract_consts())
    section("Words", lambda: hdr + extract_words())

    def skel():
        state["sk"] = extract_skeletons()
        return hdr + lean_skeletons(state["sk"])
    section("Skel", skel)
    section("ApiSkel", lambda: hdr + lean_skeletons(extract_skeletons(API_SKELETON_TARGETS), "WV.Gen.ApiSkel"))

    def flags():
        state["fl"] = extract_flags()
        return hdr + lean_flags(state["fl"])
    section("Flags", flags)

    def asserts():
        _as, _nt = extract_asserts()
        return hdr + lean_asserts(_as, _nt)
    section("Asserts", asserts)
    section("Shared", lambda: hdr + lean_shared_state(extract_shared_state()))
    section("Recv", lambda: hdr + extract_recv())
    section("HintGuards", lambda: hdr + lean_hint_guards(extract_hint_guards()))
    section("C06", lambda: hdr + extract_c06())
    section("Transit", lambda: hdr + extract_transit())
    section("C02", lambda: hdr + extract_c02())

    section("Catches", lambda: hdr + lean_catches(*extract_catches()))

    def pyir():
        text, n, bad = extract_pyir()
        state["pyir_n"], state["pyir_bad"] = n, bad
        return hdr + text
    section("PyIR", pyir)

    # [dil] begin
    def pyir_dil():
        text, n, bad = extract_pyir_dil()
        state["pyir_dil_n"], state["pyir_dil_bad"] = n, bad
        return hdr + text
    section("PyIRDil", pyir_dil)
    section("C13Wire", lambda: hdr + extract_c13_wire())
    # [dil] end

    # [deepConn] begin
    def pyir_conn():
        text, n, bad = extract_pyir_conn()
        state["pyir_conn_n"], state["pyir_conn_bad"] = n, bad
        return hdr + text
    section("PyIRConn", pyir_conn)
    # [deepConn] end

    # [deepL2] begin
    def pyir_l2():
        text, n, bad = extract_pyir_l2()
        state["pyir_l2_n"], state["pyir_l2_bad"] = n, bad
        return hdr + text
    section("PyIRL2", pyir_l2)
    # [deepL2] end

    # [deepMgr] begin
    def pyir_mgr():
        text, n, bad = extract_pyir_mgr()
        state["pyir_mgr_n"], state["pyir_mgr_bad"] = n, bad
        return hdr + text
    section("PyIRMgr", pyir_mgr)
    # [deepMgr] end
    # [deepObs] begin
    def pyir_obs():
        text, n, bad = extract_pyir_obs()
        state["pyir_obs_n"], state["pyir_obs_bad"] = n, bad
        return hdr + text
    section("PyIRObs", pyir_obs)
    # [deepObs] end
    # [deepRC] begin
    def pyir_rc():
        text, n, bad = extract_pyir_rc()
        state["pyir_rc_n"], state["pyir_rc_bad"] = n, bad
        return hdr + text
    section("PyIRRC", pyir_rc)
    # [deepRC] end
    # [deepSub] begin
    def pyir_sub():
        text, n, bad = extract_pyir_sub()
        state["pyir_sub_n"], state["pyir_sub_bad"] = n, bad
        return hdr + text
    section("PyIRSub", pyir_sub)
    # [deepSub] end

    # [deepTr] begin
    def pyir_tr():
        text, n, bad = extract_pyir_tr()
        state["pyir_tr_n"], state["pyir_tr_bad"] = n, bad
        return hdr + text
    section("PyIRTr", pyir_tr)
    # [deepTr] end
    # [deepDil2] begin
    def pyir_dil2():
        text, n, bad = extract_pyir_dil2()
        state["pyir_dil2_n"], state["pyir_dil2_bad"] = n, bad
        return hdr + text
    section("PyIRDil2", pyir_dil2)
    # [deepDil2] end
    L = [hdr + "namespace WV.Gen.Failed",
         "/-- generated modules the translator could NOT regenerate from the working tree in this run (they still hold their",
         "    previous / baseline text), with the reason -/",
         "def failed : List (String × String) := [" + ", ".join("(%s, %s)" % (lean_str(n), lean_str(w)) for n, w, _ in failed) + "]",
         "end WV.Gen.Failed"]
    if write_if_changed(os.path.join(GEN, "Failed.lean"), "\n".join(L) + "\n"):
        changed.append("Failed")
    summary = {
        "machines": len(machines),
        "transitions": sum(len(m["rows"]) for m in machines),
        "skeleton_methods": len(state.get("sk", [])),
        "flags": state.get("fl", {}),
        "changed": changed,
        "pyir_methods": state.get("pyir_n", 0),
        "pyir_untranslatable": [k for k, _ in state.get("pyir_bad", [])],
        "pyir_dil_methods": state.get("pyir_dil_n", 0),                                   # [dil]
        "pyir_dil_untranslatable": [k for k, _ in state.get("pyir_dil_bad", [])],        # [dil]
        "pyir_conn_methods": state.get("pyir_conn_n", 0),                                 # [deepConn]
        "pyir_conn_untranslatable": [k for k, _ in state.get("pyir_conn_bad", [])],      # [deepConn]
        "pyir_l2_methods": state.get("pyir_l2_n", 0),                                     # [deepL2]
        "pyir_l2_untranslatable": [k for k, _ in state.get("pyir_l2_bad", [])],          # [deepL2]
        "pyir_mgr_methods": state.get("pyir_mgr_n", 0),                                   # [deepMgr]
        "pyir_mgr_untranslatable": [k for k, _ in state.get("pyir_mgr_bad", [])],        # [deepMgr]
        "pyir_obs_methods": state.get("pyir_obs_n", 0),                                   # [deepObs]
        "pyir_obs_untranslatable": [k for k, _ in state.get("pyir_obs_bad", [])],        # [deepObs]
        "pyir_rc_methods": state.get("pyir_rc_n", 0),                                     # [deepRC]
        "pyir_rc_untranslatable": [k for k, _ in state.get("pyir_rc_bad", [])],          # [deepRC]
        "pyir_sub_methods": state.get("pyir_sub_n", 0),                                   # [deepSub]
        "pyir_sub_untranslatable": [k for k, _ in state.get("pyir_sub_bad", [])],        # [deepSub]
        "pyir_tr_methods": state.get("pyir_tr_n", 0),                                     # [deepTr]
        "pyir_tr_untranslatable": [k for k, _ in state.get("pyir_tr_bad", [])],          # [deepTr]
        "pyir_dil2_methods": state.get("pyir_dil2_n", 0),                                 # [deepDil2]
        "pyir_dil2_untranslatable": [k for k, _ in state.get("pyir_dil2_bad", [])],      # [deepDil2]
        "failed_sections": [[n, w] for n, w, _ in failed],
    }
    write_if_changed(os.path.join(GEN, "summary.json"), json.dumps(summary, indent=1, sort_keys=True) + "\n")
    for n, w, tb in failed:
        sys.stderr.write("translator: section %s failed: %s\n%s\n" % (n, w, tb))
    print(json.dumps(summary))


if __name__ == "__main__":
    main()
