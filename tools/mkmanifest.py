#!/usr/bin/env python3
"""Regenerates MANIFEST.json from the table below (one entry per claimed property)."""
import json
import os

ROOT = os.path.dirname(os.path.dirname(os.path.abspath(__file__)))
COMMON_NOTE = ("Trusted: Lean 4.33 kernel (axioms per theorem are measured on every run and listed in the evidence; "
               "expected ⊆ propext, Classical.choice, Quot.sound unless stated), tools/extract.py (translator: Automat tables, "
               "constants, call skeletons regenerated from /repo on every run), the correspondence harness (differential "
               "execution of model vs. real code; bounded by its generators). ")

CLAIMS = {
    "C02": dict(
        text="16 Lean theorems for an arbitrary crypto instance under an ideal-interface hypothesis, adversary = every event list with arbitrary frame bodies: phaseKey_injective (interprets the generated HKDF purpose operands), sealed_opens_only_under_its_label, delivered_was_sealed / delivered_in_honest_record (induction over the run), relabel_reflect_replay_rejected, own_side_is_echo_never_decrypted, pake_reflection_rejected, pake_missing_scared, phase_at_most_once_partial; 19 call skeletons + key-derivation argument lists as decide obligations; tied to two real clients with real SPAKE2/NaCl against the real server objects under 1-3 tamper operations, classified by an independent re-implementation of the key schedule.",
        note="Partial: 'versions at most once over whole runs' is per-step + oracle only. Modelled not verified: SPAKE2, HKDF, SHA-256, SecretBox (ideal interface); JSON/hex codec abstract; Nameplate/Code not modelled here.",
        tech="Lean 4 proof (induction over adversary schedules, ideal-crypto interface) + generated operand/skeleton obligations + differential correspondence"),
    "C03": dict(
        text="13 Lean theorems over arbitrary traces of the executed step functions: tx_numbering, send_fifo, pending_until_echo, resent_on_every_open (generated Mailbox table), dedup_once, echo_never_delivered, reorder_buffer_prefix (invariant induction over every arrival list), observer_fifo / observer_prefix_with_errors, e2e_prefix / e2e_complete on the abstract Pipe, and the composition e2e_prefix_clients (= client_refines_pipe): for two composed Clients + a storing/duplicating/reordering/replaying server bag and arbitrary drops on both sides, what B received is exactly the first n of what A sent, both directions, all schedules; phase_roundtrip; 26 call skeletons as obligations; components tied to the real Boss/Send/Mailbox/Order/Receive/observer objects, whole-client oracle on two real clients under arbitrary delivery order, duplication, replay and drops.",
        note="Composition proved in Lean (kernel-only) over the same step functions the driver executes; that the real client is this composed Client is checked by the component-level and whole-client differential runs. Crypto ideal (open_seal); the server delivers stored triples unmodified (tampering is C02).",
        tech="Lean 4 proof (invariant inductions over traces) + skeleton agreement + component-level and whole-client differential correspondence"),
    "C04": dict(
        text="16 Lean theorems over an executable Xfer model (sender chunker + running hash + ack check; receiver byte accounting into dest+'.tmp', rename only after xfersize bytes; zip mode) for every content, size incl. 0, chunk size and interleaving: receiver_success_exact, both_success_exact, cut_no_success_no_final, sender_success_needs_matching_ack (iff), honest_run_succeeds; call skeletons of _parse_offer/_transfer_data/_write_file/_send_file are decide obligations; tied to the REAL Sender._send_file / Receiver._parse_offer.._close_transit over two real transit.Connection objects in a sandbox.",
        note="Channel hypothesis = C06 (receiver gets a prefix of the records, then possibly a drop). Trusted: SHA-256 injectivity, zip round trip, json codec, twisted FileSender loop (compared), POSIX rename. Text mode escaping only by oracle (Python repr not modelled). No localhost smoke pair (sockets are excluded).",
        tech="Lean 4 proof (invariant over transfer events) + skeleton agreement + differential correspondence"),
    "C05": dict(
        text="18 Lean theorems (all names/filesystems/args, by induction on the path algebra) over an executable model of posixpath + Receiver._decide_destname/_remove_existing/_handle_file/_extract_file, with generated call skeletons as a proof obligation; model tied to the real Receiver methods by differential runs in a sandbox; oracle = filesystem snapshot of the sandbox and its parent.",
        note="Modelled not verified: CPython posixpath and zipfile member sanitisation (compared differentially), no symlinks/races. One recorded known finding (staging file foo.tmp clobbered).",
        tech="Lean 4 proof (path algebra induction) + skeleton agreement + differential correspondence"),
    "C09": dict(
        text="resume_obligations for every reachable state of the closed client x environment system (a new connection carries bind and then exactly the owed claim/release, open + every un-echoed message, close, list, allocate - finite certificate over the generated tables lifted by induction), per-machine resume/lost table theorems by decide, data-layer pending_until_echo / drain_resends_all, nothing_repeated over all drop patterns; per-step correspondence with the real client under frequent drops; two-real-client oracle (drops on both sides, then stable connectivity: every send_message delivered exactly once, in order; key/verifier/versions once).",
        note="Certificate evaluated with native_decide (reported per theorem). Partial: liveness is proved in quiescence + no-trap form (control: key_exchange_always_completable; data: C09_Live); fairness itself (that a network performs the continuation) is not proved.",
        tech="Lean 4: finite certificate (native_decide) + kernel-checked lifting + table decide + data-layer lemmas; per-step differential correspondence"),
    "C16": dict(
        text="10 Lean theorems over the generated TrafficTimer and Manager tables for every interval T>=1 and arbitrary timed operation lists: responsive_never_dropped, silent_dropped_in_time / silent_after_answered_ping (drop exactly at the second expiry, < 3T), monitor_lifecycle, monitoring_restarts, follower_never_monitors, legal_never_raises, plus the witness that the pre-fix row violates the bound; delay/reset branch taken from generated flags; tied to a real leader Manager with task.Clock on a 1/8 s grid.",
        note="Modelled not verified: Connector mocked; loss is a separate event after disconnect(); ping ids opaque, freshness NOT assumed (exact guard freshNext stated); argument values inside callLater are visible only to correspondence and oracle.",
        tech="Lean 4 proof (induction over timed traces on generated tables) + skeleton agreement + differential correspondence"),
    "C17": dict(
        text="25 kernel-only Lean theorems on the generated Manager/Connector/Terminator/DCP tables and an executable model with the fake network's state: stop_from_every_state / stop_completes_after_any_interleaving (12-clause invariant by induction over conformant event sequences: Dilator.stop always leads to stoppedD and B.closed exactly once), stop_tells_everything, abandon_drops_active, late_callbacks_harmless, late_accept_refused, old_peer_reported_live / _replay (the replay guard is taken from a generated source flag) / _report_is_final / _future_connect_fails; 26 call skeletons as obligations; two witness theorems for protocol-violating peers that block shutdown (documented observations); tied to a real Terminator+Dilator+Manager+Connector+DilatedConnectionProtocol per case in both roles.",
        note="Liveness environment = conformant peer (a `reconnect` sent to a Leader or a `please` echoing our own side are out of scope; witnessed in Lean and kept in the corpus). Modelled not verified: fake listening/outbound network, ToyNoise, TrafficTimer beyond 'leader starts a ping timer' (C16). All-waiters-failed proved for the three canonical orders of key/versions/dilate/connect.",
        tech="Lean 4 proof (invariant induction over event sequences, per-row decide on generated tables) + skeleton agreement + differential correspondence"),
    "C18": dict(
        text="each_at_most_once, causal_order (code<key<verifier<{versions,messages}), closed_last for every run of the closed system under arbitrarily reordering/duplicating servers, versions_before_messages under an order-preserving server (second certificate), table rows by decide; per-step correspondence with the real client; two-client oracle over both API styles incl. every get_* after closed failing.",
        note="Certificates evaluated with native_decide (reported per theorem). The Deferred facade (OneShotObserver, SequenceObserver, EventualQueue, _DeferredWormhole.closed) is a second executable model OBSERVER with 11 kernel-only theorems (after_closed_all_fail, each_deferred_fires_at_most_once, oneshot_first_value, observer_fifo, eventual_fifo/turn) tied to a real _DeferredWormhole.",
        tech="Lean 4: finite certificates (native_decide) with monitors + kernel-checked lifting; per-step differential correspondence"),
    "C10": dict(
        text="Unbounded ARQ invariant (inv_reachable) and exactly_once_in_order / final_generation_delivers_all proved by induction over arbitrary event schedules on an executable model of Outbound/Inbound/Manager.got_record; tied to two real Managers with fake L2 connections by per-step state comparison.",
        note="Modelled not verified: L2 as an authenticated FIFO of whole records (C12), one connection at a time (C11), Twisted producer contract.",
        tech="Lean 4 proof (invariant by induction over schedules) + differential correspondence"),
    "C11": dict(
        text="Two-sided control model over the generated Manager/Connector/DCP/TrafficTimer tables (both Managers, current Connectors, protocol ends, per-side eventual queues, FIFO mailbox channels, link slots): kernel-only roles_agree / roles_equal_raise, dilate_msgs_in_order (induction over arrival orders), 19 call skeletons; certificate-based (5.1e4 reachable states x 24 events, both side orderings) at_most_one_selected, follower_only_confirmed, roles_in_system, no_undeclared_input_partial, reconverge_no_trap (backward-fixpoint certificate); witness that a KCM on a stale inbound link hits a stopped Connector; tied to two REAL Managers with real Connector and DilatedConnectionProtocol objects over an in-memory network with per-step state comparison.",
        note="Certificates evaluated with native_decide in WV.Proofs.C11Cert (Lean compiler trusted for those three evaluations; reported per theorem). Bounds of the abstraction (not of the runs): at most 2 links exist at once (3 explored by the compiled search only), the network may drop anything except the last candidate of the newest generation, versions before dilate messages, no Manager.stop (C17), honest peers, timers not advanced (signal_reconnect called directly), no relay/Tor. ToyNoise instead of Noise.",
        tech="Lean 4: finite certificates (native_decide) + kernel-checked lifting and data inductions; generated tables; per-step differential correspondence"),
    "C12": dict(
        text="25 Lean theorems (be4/record round-trips, multi-packet seal/open for every length, framer chunking invariance with fuel sufficiency, prologue/relay rejection, unkeyed input never reaches the manager, end-to-end delivery for every record list and chunking) over a model built on the generated _Framer/_Record/DilatedConnectionProtocol tables; tied to the real classes by differential runs.",
        note="Modelled not verified: Noise (ideal nonce-indexed AEAD interface; noiseprotocol is not installed, toy AEAD in the harness), UTF-8 validity predicate, Twisted dropping a connection when dataReceived raises.",
        tech="Lean 4 proof (induction over records/chunkings) + generated tables + differential correspondence"),
    "C14": dict(
        text="no_internal_failure for every run of the closed system (13 generated Automat tables + hand-written output semantics × conformant environment), by a finite inductive-invariant certificate (2.8e4 states × 34 events, recomputed from the generated tables) lifted to unbounded runs by a kernel-checked induction; the control model agrees with the real client step by step (13 machine states, commands, events, exceptions) on every generated schedule against the real mailbox server objects.",
        note="The certificate evaluation uses native_decide (adds the Lean compiler to the trusted base for WV.ClientCert.cert; reported per theorem). The environment model WV.ClientEnv.enabled is hand-written. Modelled not verified: SPAKE2/SecretBox/HKDF (classified by the harness with the real keys), ClientService, autobahn; dilate() not called in this world.",
        tech="Lean 4: finite certificate (native_decide) + kernel-checked lifting induction; translator-generated tables; per-step differential correspondence"),
    "C01": dict(
        text="17 Lean theorems over the generated Key/_SortedKey/Order/Receive/Send/Boss tables with hand-written output bodies and crypto as an ideal interface: key_agree_iff (both arrival orders: stash-then-code = code-then-pake; keys equal iff NFC codes and appids equal), match_derive_equal / purposes_separate (with the exact HKDF length guard), mismatch_delivers_nothing for every message schedule (induction); tied to two real clients with real SPAKE2/NaCl against the real server objects.",
        note="Modelled not verified: SPAKE2, HKDF-SHA256, SHA-256, SecretBox, Unicode NFC (ideal interface `Crypto.Ideal`, toy instance for non-vacuity); two-party statements are per side with the peer's actual messages.",
        tech="Lean 4 proof (case analysis on generated tables + induction over message schedules) + skeleton agreement + differential correspondence"),
    "C06": dict(
        text="18 Lean theorems: chunking_invariant (full state equality for every chunking), roundtrip for every record list/chunking/direction, tamper_prefix and first_bad_frame_drops under an ideal-AEAD hypothesis (delivered is a prefix; first non-honest frame => hung up, loseConnection last, nothing further), nonce_must_equal_counter, directions_separated, pending_reads_fail_on_loss, consumer_mode_same_bytes; model runs on the real NaCl ciphertext bytes with a sealing table; 14 generated call skeletons and the four key-derivation CTXinfos are proof obligations.",
        note="Modelled not verified: XSalsa20-Poly1305 (ideal AEAD), Twisted calling connectionLost after loseConnection; handshake states belong to C07; consumer attach mid-stream / expected=0 only by correspondence.",
        tech="Lean 4 proof (induction over chunkings and record lists) + generated skeletons/constants + differential correspondence on real ciphertext"),
    "C07": dict(
        text="14 Lean theorems over arbitrary event lists and any number of connections: go_only_after_handshake, sender_at_most_one_go, nevermind_only_loser, receiver_only_after_go, selected_holds_key, handshake_accepts_iff (accepts iff the expected string is a prefix, all chunkings), rejected_is_inert, only_one_fires_once_partial, deadline (connect() has completed once the clock reaches start + 2*TIMEOUT), cancels_the_rest / contenders_all_done; _dataReceived arm order, wire literals and the 2*TIMEOUT deadline are generated and checked; tied to real TransitSender/TransitReceiver.connect() with fake endpoints and task.Clock.",
        note="Partial: same_link (two-sided) is not expressible in the one-sided model; it and 'at most one selected on the receiver' are checked by the oracle on the real code. Assumed: HKDF distinctness of handshake strings, Twisted Deferred/Clock semantics, nothing delivered after loseConnection.",
        tech="Lean 4 proof (invariants over event lists) + generated dispatch order/constants + differential correspondence"),
    "C08": dict(
        text="closed_at_most_once, silent_after_closed, verdict_correct, resources_freed_partial for every run of the closed client x environment system (finite certificate over the generated tables lifted by induction), close_always_possible as a kernel-proved-sound backward-fixpoint certificate (no trap after close()), table lemmas by decide; per-step correspondence with the real client; the oracle inspects the REAL server tables when `closed` is notified. One known finding (allocation in flight leaks the allocated nameplate) with a Lean witness theorem.",
        note="Certificates evaluated with native_decide (Lean compiler trusted for WV.ClientCert.cert / certClosable; reported per theorem). Environment model hand-written. Liveness is no-trap under a cooperative environment, not fair-scheduler liveness.",
        tech="Lean 4: finite certificates (native_decide) + kernel-checked lifting inductions + table decide; per-step differential correspondence"),
    "C13": dict(
        text="16 Lean theorems over arbitrary histories on the generated SubChannel table: ids_disjoint, connectionLost_once, nothing_after_lost, write_after_close_errors, unexpected_refused (wiring taken from generated source flags), open_with_listener / open_without_listener_pends / listen_connects_pending, protocol_never_replaced, data_before_close_partial; tied to real Dilator->Manager->Inbound/SubChannel/demultiplexer/endpoints.",
        note="Partial: full two-sided data_before_close statement kept as a def (glue by oracle); listen_connects_pending for one pending OPEN. Trusted: C10 delivery, fake Connector/connection, no re-entrant callbacks.",
        tech="Lean 4 proof (induction over histories, per-row decide on generated table) + generated wiring flags + differential correspondence"),
    "C15": dict(
        text="20 Lean theorems over every reachable micro-configuration of a small-step model with an explicit Python call stack (re-entrant producer turns as an oracle): sets_partition, paused_means_all_paused, waiting_producer_has_active_loop (no lost wake-up), drain_resumes_all, fair_rotation, no_double_signal, inbound_pause_exact and inbound_open_exact (the TCP transport is paused exactly while a not-closed subchannel has an outstanding pause; needs the forwarding added by fix ed4a840 and the close-time release added by fix bec439a, both read from generated skeletons); tied to real Outbound/Inbound/PullToPush/DilatedConnectionProtocol with mock producers.",
        note="Environment hypotheses explicit in Reach (producers' pause/stop do not call back; one producer per subchannel; use/stop connection alternate; a closed subchannel's application does not call pauseProducing again — checked dynamically, such cases are correspondence-only). Trusted: Cooperator scheduling (fake scheduler).",
        tech="Lean 4 proof (invariants over a small-step semantics with call stack) + skeleton agreement + differential correspondence incl. exhaustive small scopes"),
    "C19": dict(
        text="21 Lean theorems: word_tables_bijective (decide +kernel over the generated 256-entry tables), choose_words_shape/injective, allocated_shape, completion_extends/exact/acceptable/complete, wellformed_iff and malformed_rejected (regex semantics keyed on the extracted regex; Unicode \\d ranges generated), only_one_code / failed_set_code_keeps_latch / at_most_one_code, helper order errors from the generated Input table; tied to the real wordlist/Code/Input/Allocator/Boss.",
        note="Modelled not verified: os.urandom uniformity, the two known regexes' semantics (hand-modelled, an unknown regex breaks proof and correspondence). input_code_shape is step-level with state hypotheses.",
        tech="Lean 4 proof (decide +kernel on generated tables, induction over byte lists/prefixes) + differential correspondence"),
    "C20": dict(
        text="hints_total / only_valid_dialled / encode_parse_roundtrip proved for every JSON value in hint position over an executable model of Python's dynamic behaviour on JSON and of parse_hint, add_connection_hints, _connect grouping, Manager.use_hints, Connector._use_hints; guard list extracted by ast is a proof obligation (guards_agree); tied to the real functions by differential runs.",
        note="Modelled not verified: Twisted endpoints/Tor (recorders), CPython sorted() on nan priorities (compared order-free).",
        tech="Lean 4 proof (structural induction over JSON) + ast guard extraction + differential correspondence"),
}


# what was added to a check after its entry above was written (rounds 2-3 of the seeded changes, DESIGN 11.7-11.10)
ADDENDA = {
    "C01": "Also: hostile PAKE bodies (malformed, off-curve, reflected) end in WrongPasswordError; several sessions alive in one process. Round 8: appids differing by invisible characters through the real create(); versions/messages of 2-70 kB; reconnects around the stashed PAKE; glue_is_transparent (timing only records; appid handed unchanged to Boss/Key/RendezvousConnector and into SPAKE2).",
    "C02": "Run-level phase_at_most_once / each_phase_once_and_honest now PROVED for whole runs (token invariant over Mailbox._processed, Order's queue and the Boss buffers), replacing the per-step partial. Also: bad_pake_scared, message_without_key_scared, relabelled_queued_before_pake_rejected; hold/release/dropmsg schedules; oracle clause relabelled-accepted-as-valid. Round 8: cross-stream (application phases vs dilate seqnums) and cross-client scenarios; boss_reorder_buffers_are_separate.",
    "C03": "Also: buffers_independent (dilate-N vs numbered phases), closing_delivers_nothing, all 18 Boss outputs pinned; close/self-close with parked phases.",
    "C04": "Channel hypothesis DISCHARGED: net_receiver_success_exact, net_both_success_exact, net_cut_no_success_no_final, net_sender_success_needs_matching_ack, net_first_bad_frame_no_success hold over C06's connection model for every adversary schedule under C06's own ideal-AEAD hypothesis (WV.Proofs.C04_Net). Round 8: extraction failures beyond PATH_MAX (partial tree; extraction_errors_propagate); 14 present-but-not-the-hash JSON values for the ack's sha256 (send_file_ack_check_shape).",
    "C05": "Also: config_cwd_is_process_cwd / dest_is_child_of_process_cwd (entry point builds the Config; $PWD never consulted). Round 8: refused_file_offer_touches_nothing / refused_directory_offer_touches_nothing; mutation trace (open-for-write, remove, rename, rmtree) besides the snapshots. Round 9: sequences of receives with ONE Config object (library/GUI/retry loop) through cmd_receive.receive(cfg): receive_leaves_args_unchanged, decision_independent_of_history, every_receive_dest_is_child, never_removes_dir_receives over a fold of receives with the args record threaded through; generated fact Gen.Recv.outlives_receive (writes into args / globals / class attributes in cmd_receive) pinned by no_state_outlives_a_receive; per-receive oracle + receive-changed-user-options.",
    "C06": "Round 8: holding transports and consumers that resume inside registerProducer() (holding_transport_prefix, connectConsumer_registers_first).",
    "C07": "same_link now PROVED on a two-sided model (Sender world + Receiver world + links; strangers are the connections that are no link end): both connect() results are the two ends of one link, the one the Sender wrote `go` on, every other connection closed; result_is_negotiated. Also: listener_lifetime, port_closed_after_success / _once_fired / _by_deadline; late arrivals after every outcome. Round 8: the real HostnameEndpoint's own failures (illegal hostnames), asynchronous port close; start_connector_wiring, connect_failure_is_contender_failure, listener_stop_fire_and_forget.",
    "C08": "Environment includes hostile mailbox participants (DESIGN 11.7). Round 8: the mood of every `close` frame on the wire is judged against the verdict (mood-mismatch); oracle-only runs on the real connection stack (real ClientService + real autobahn handshake + real server protocol): closed exactly once, nothing after it, documented verdict.",
    "C09": "Also: key_exchange_always_completable — from every reachable state in which a participant with our code exists and nothing has ended the session, a finite cooperative continuation verifies the peer's version, gets our PAKE/version echoed and empties Send's queue (backward-fixpoint certificate, native_decide, lifted by a kernel-checked soundness theorem): no reachable state is a trap for the session; fairness itself is not proved. Environment includes hostile mailbox participants and two-step connection establishment (DESIGN 11.7). Round 8: oracle-only runs of two clients on the REAL connection stack (real twisted ClientService as the client constructs it, real autobahn handshake with the real server protocol over in-memory pipes; refused and unanswered reconnection attempts, minutes of virtual time, then 400 s of grace) and a long-outage probe (3 000 / 20 000 refused attempts in a row: a next attempt must always be scheduled).",
    "C10": "End-to-end theorems end_to_end / end_to_end_rev / end_to_end_complete PROVED (application calls on one side -> per-subchannel callbacks on the other, exactly once, in order, boundaries kept, any number of reconnects, parked bursts, late listeners); subchannel_delivery_all_runs replaces the former def. Also: parked-record queue and per-subchannel pending data in the model (ARQ invariant over parked + in flight + unsent), per-step L4 theorems; second world with the real DilatedConnectionProtocol/Connector turn and Noise chunk boundaries. Round 8: both sides built through the public wormhole.create(...).dilate(); expected_subprotocols forwarding pinned through all four layers.",
    "C11": "Also: per-direction reachability (one_direction_reachable; reconverge_no_trap in all three networks). Round 8: connection attempts are scheduled -> in flight -> answered; in-flight attempts in model and certificates; network changes (cut) in the differential runs.",
    "C12": "Also: explicit 32-bit and chunk-size boundary corpus through whole connections. Round 8: pausable transport and slow consumers, loss between KCM and the accept turn; flow_control_and_loss_pins, end_to_end_lost_before_select.",
    "C13": "Also: real link layer in the world; parked_open_data_close, watermark_survives_connection_loss, resent_burst_ignored / resent_record_ignored; generated flags for FIFO drain and watermark.",
    "C14": "Environment includes hostile mailbox participants: unusable PAKE bodies and undecryptable bytes under any phase from a third side, at any time (DESIGN 11.7); this exposed the defect repaired by fix 8eac7fb. Round 8: large messages (the stand-in for autobahn raises PayloadExceededError over the real factory's limit), bursts of equal message ids, and oracle-only runs on the real connection stack (nothing escapes an entry point or a timer, nothing is logged as an error, documented verdict exactly once).",
    "C15": "Also: subchannel lifecycle (generated SubChannel table) in the Inbound model: resume_forwarded_in_every_state, local_close_keeps_pause, plain-forwarder flags. Round 5-8: failing pull turns (pull_failure_unregisters), resume_loop_ends_only_on_none (fix 129b6a1), pre-listen backlog and hand-over to pausing listeners (inbound_open_exact over log-defined wants, backlog_touches_nothing).",
    "C16": "Also: late timer firing (`stall`) — responsive_never_dropped for all stall sequences; per-connection loss reports; second world with the real Connector/DilatedConnectionProtocol.",
    "C17": "Also: timer handle state (none/pending/fired) and timer_handle_safe; silent-peer close corpus with the real DelayedCall. Round 8: producers and the Cooperator in the model (cooperator_never_stopped); close() in the middle of a transfer with the real twisted Cooperator.",
    "C18": "Environment includes hostile mailbox participants (DESIGN 11.7). Round 8: Deferred-mode applications whose callbacks take clock time and read the next message from inside a callback.",
    "C20": "Also: hostname classes (IDN, non-IDNA, long/empty labels, NUL, lone surrogates) through the real Twisted endpoints; describe_hint_obj pinned. Round 8: fates per started attempt (TCP-level failure, handshake failure, pending) through the real connect(); dead_hint_never_wins, dead_hints_never_abort.",
}

SESSION3 = {
    "C01": "Session 3: application strings are code-point lists with a concrete strict UTF-8 (encodable as a decidable guard, injectivity proved instead of assumed): unencodable_code_refused, refused_shares_nothing_ever, unencodable_purpose_refused; to_bytes_is_strict pin; lone-surrogate codes/appids/purposes through every entry mode.",
    "C03": "Session 3: TRANSLATION VALIDATION of the method bodies (WV.Props.PyIR_C03, PyIR_C03_Boss: for every heap related to the model's data, executing the Python-subset IR generated from the source of each Mailbox/Order/Send/Receive/Boss output agrees with the hand-written output semantics on final state, ordered calls with arguments and exception; loops for all lengths); several wormholes per process (process_isolation, e2e_prefix_process) with cross-client/cross-stream hand-over schedules; behaviour-only observation when private state is refactored.",
    "C05": "Session 3: several receives with one Config object (receive_leaves_args_unchanged, decision_independent_of_history, every_receive_dest_is_child; generated fact outlives_receive = []).",
    "C06": "Session 3: consumer_threshold_exact — consumer-mode threshold arithmetic for a consumer attached in any reachable state over any backlog and chunking (the former partial item); several live Connection objects per process (product model, links_independent, every_link_delivery_exact; generated fact shared_between_connections = []).",
    "C07": "Session 3: late contenders that reach the factory after the selection (21 theorems over runL/drunL: late_contender_is_refused, late_same_link, late_winner_is_final); winner_test_is_about_none pin (no __len__/__bool__ on Connection).",
    "C08": "Session 3: control-machine bodies translation-validated against WV.Client (WV.Props.PyIR_Client*).",
    "C09": "Session 3: data half of the liveness clause PROVED on the two-client system for every number of messages and every earlier drop pattern (WV.Props.C09_Live: e2e_complete_clients — a Drained state has received = sent; e2e_always_completable — an explicit drop-free continuation reaches Drained); control-machine bodies translation-validated (WV.Props.PyIR_Client*); drained families on two real clients.",
    "C10": "Session 3: Outbound ARQ methods and the Inbound watermark translation-validated against the model (WV.Props.PyIR_C10: handle_ack, use_connection with its replay loop, queue_and_send_record incl. queued-before-send, resumeProducing with re-entrant pause at any budget).",
    "C13": "Session 3: data_before_close_honest for ALL honest schedules (arbitrary declared subprotocol sets; connection loss while records are parked: lostA/lostB, linklost on the real link layer) — the former partial; 32-bit id boundary (connectW, ids_disjoint_wire, ids_never_wrap, PyIR agreement for allocate_subchannel_id); I/O between listen() and the next eventual turn.",
    "C14": "Session 3: control-machine bodies translation-validated (WV.Props.PyIR_Client, _Boss, _Glue: 86 theorems); every way a participant-controlled PAKE body makes a statement of got_pake raise (79 bodies x 5 placements), family-level pins on the except tuples (Gen.Catches); frames relayed by the REAL server from a hostile participant (exposed the defect repaired by fix 9e43836, now judged strictly); application versions dicts with unencodable strings.",
    "C15": "Session 3: Inbound pause-set methods and Outbound.pauseProducing translation-validated (WV.Props.PyIR_C15).",
    "C16": "Session 3: ping ids are an input (random source fixed per case; boundary values, repeats, duplicates of outstanding ids, long sessions crossing 2^32): every theorem quantifies over any id sequence, legal_raises_only_on_duplicate_id, duplicate_id_kills_the_monitor (witness; observation, outside the quantifier).",
    "C18": "Session 3: frames whose handler raises (Boss.error at any moment, also while closing): big-step semantics of the generated Boss table under arbitrary inputs nested to any depth — closed_once_and_last_whatever_calls_the_boss, boss_closed_rows pin; control-machine bodies translation-validated.",
    "C19": "Session 3: completion sessions that go back and edit an earlier word, several clients/allocations per process (completions_depend_only_on_prefix, stale_completion_does_not_extend, helper/readline history independence).",
    "C20": "Session 3: hints messages in any Manager state and generation (hints_total_generations, abandoned_generation_never_dials, hints_reach_current_generation, status_never_affects_hints; status_hints_always_a_set pin).",
}
SESSION4 = {
    "C19": "Session 4: completion queries between a nameplate-list request and its response.",
    "C08": "Session 4: an exception reaching Boss.error while a close() is under way (C18's error-path family at the closing moments) judged by the exactly-one-closed clause.",
    "C05": "Session 4: archive sizes DECLARED by the sender around and far beyond 10 MB; the user's own files next to the destination (<dest>.zip, .part, ...).",
    "C03": "Session 4: one record delivered far behind the others (40 / 70 / 150 records, kind farahead); two-digit dilate-N phases through the whole-client world.",
    "C01": "Session 4: applications that FAIL during key establishment with matching codes (a delegate method or the status listener raises one of six exception classes; case kind appfault): nobody is told WrongPasswordError, no mailbox is closed scary. Also: applications that derive a key from inside the verifier/versions/message callback with PAKE and VERSION arriving in one burst (kind derivecb).",
    "C04": "Session 4: connection losses are reported as Twisted reports them (Failure(ConnectionDone) for an orderly end of stream, Failure(ConnectionLost), none), chosen per case; orderly mid-file ends of stream in the corpus.",
    "C06": "Session 4: the record layer and the handshake ladder of transit.Connection translation-validated (WV.Props.PyIRTr_C06, PyIRTr_C07).",
    "C07": "Session 4: handshake part of transit.Connection translation-validated (WV.Props.PyIRTr_C07). crowds of 20 / 40 pending inbound negotiations (the oldest a slow key holder), then a winner or the deadline.",
    "C09": "Session 4: oracle clause resume-duplicate (the burst that resumes a session on a new connection contains each of bind/claim/release/open/close/allocate at most once). Long sessions (140 / 300 / ... peer records, then reconnects with a full replay).",
    "C10": "Session 4: Inbound.handle_open/handle_data/handle_close and the remaining Outbound methods translation-validated (WV.Props.PyIRDil2_C10).",
    "C11": "Session 4: the Connector's output bodies translation-validated against WV.C11 and WV.C17 (WV.Props.PyIRConn_C11: consider, select_and_stop_remaining incl. a failing select(), stop_everything and its four parts, publish_hints, _schedule_connection; loops over sets for every size and order). Two-digit dilate-N phases through the real mailbox path between the two sides (C03's whole-client world), judged here too.",
    "C12": "Session 4: frames without ciphertext (00 00 00 00) in the place of the KCM or of a later record (mutations emptykcm/emptyframe); the L2 method bodies (_Framer, _Record, DilatedConnectionProtocol, encode_record/parse_record, be4) translation-validated against WV.C12 (WV.Props.PyIRL2_C12). Eager transports (bytes handed over while paused, the next ones from inside resumeProducing()).",
    "C13": "Session 4: SubChannel's eleven outputs, its plain methods, _deliver_queued_data (loop by induction) and SubchannelDemultiplex translation-validated against WV.C13 (WV.Props.PyIRSub_C13).",
    "C14": "Session 4: the RendezvousConnector glue the translator could not read before (ws_open with its bare re-raise, ws_close, stop, _tx with **kwargs, _initial_connection_failed, _response_handle_nameplates) and the Input helpers translation-validated against WV.Client (WV.Props.PyIRRC_C14). Long sessions (80 / 200 / ... peer phases, then reconnects with a full replay) judged for internal failures and self-closing.",
    "C15": "Session 4: producer bookkeeping of Outbound (register/unregister, _get_next_unpaused_producer, the producer branch of resumeProducing, stopProducing, subchannel_closed), Inbound.subchannel_* and PullToPush translation-validated (WV.Props.PyIRDil2_C15).",
    "C16": "Session 4: TrafficTimer outputs and the Manager's ping path (send_ping, timer_expired incl. the handle cleared before the input, _send_ping_reset_timer) translation-validated against WV.C16 (WV.Props.PyIRMgr_C16).",
    "C17": "Session 4: the Manager's shutdown, reconnect and capability-negotiation outputs and connector_connection_made/lost, received_dilation_message translation-validated against WV.C17 (WV.Props.PyIRMgr_C17, PyIRMgr_C17_Conn) and the Connector's shutdown outputs (WV.Props.PyIRConn_C11).",
    "C18": "Session 4: in the two-client runs every message the peer sent is ONE event (event-twice:message); the observer layer (OneShotObserver, SequenceObserver, EventualQueue, the _DeferredWormhole/_DelegatedWormhole facades) is translation-validated against WV.Observer (WV.Props.PyIRObs_C18) — tied by the translator, no longer by the correspondence alone. Long Deferred-mode sessions (40 / 130 / ... messages read by get_message() in waiting and backlog patterns).",
    "C02": "Session 4: the observer layer composed into deferred_api_hands_over_the_sealed_phases is translation-validated (WV.Props.PyIRObs_C18 is an obligation of this check). Long sessions (70 / 140 records) followed by verbatim replays of the peer's version and first records and by a reconnect replay.",
}
EVERY = (" Every check also carries WV.Props.Common.instances_do_not_share_state (no mutable class-level container is mutated through self "
         "anywhere under src/wormhole; generated list), WV.Props.Common.translator_covers_everything (every generated module was regenerated from the working tree in this run; an untranslatable tree is a broken obligation, never a stale translation) and, in the thorough tier, a leanchecker replay of the property's import closure.")


def theorem_count(pid):
    try:
        ev = json.load(open(os.path.join(ROOT, "evidence", pid + ".json")))
        return len(ev["coverage"]["theorems"])
    except Exception:
        return None


def main():
    import re
    props = [json.loads(l) for l in open(os.path.join(ROOT, "properties.jsonl"))]
    checks = []
    for p in props:
        pid = p["id"]
        if pid not in CLAIMS:
            continue
        c = dict(CLAIMS[pid])
        n = theorem_count(pid)
        if n:
            # the number of property theorems is whatever the last run of the check audited
            c["text"] = re.sub(r"^\d+ ((?:kernel-only )?Lean theorems)", lambda m: f"{n} " + m.group(1), c["text"])
        if pid in ADDENDA:
            c["text"] = c["text"] + " " + ADDENDA[pid]
        if pid in SESSION3:
            c["text"] = c["text"] + " " + SESSION3[pid]
        if pid in SESSION4:
            c["text"] = c["text"] + " " + SESSION4[pid]
        c["note"] = c["note"] + EVERY
        checks.append({
            "property_id": pid,
            "quick_cmd": f"./check {pid} --tier quick",
            "thorough_cmd": f"./check {pid} --tier thorough",
            "evidence_file": f"evidence/{pid}.json",
            "replay_cmd_template": f"./check {pid} --replay {{path}}",
            "engine": "lean4+correspondence",
            "level_claimed": {"category": "proof", "text": c["text"], "design_ref": f"DESIGN.md §6 {pid}"},
            "level_note": COMMON_NOTE + c["note"],
            "technique": c["tech"],
        })
    m = {
        "version": 1,
        "setup_cmd": "./check --setup",
        "hooks": {"guard": "MAGIC_WORMHOLE_VERIF",
                  "enable": "none needed: every harness substitutes collaborators inside its own process; there is no guarded code in /repo",
                  "baseline_off_cmd": "cd /repo && /venv/bin/python -m pytest -ra -q -p no:cacheprovider --timeout=900 --continue-on-collection-errors",
                  "source_commits": [], "add_only": True},
        "engines": [{"name": "lean4+correspondence", "path": "lean/ harness/ tools/extract.py check",
                     "serves_properties": sorted(CLAIMS),
                     "kind_free_text": "Lean 4.33 theorems over executable models tied to /repo by a translator (Automat tables, constants, call skeletons, regenerated on every run) and by differential execution against the real code; the property's executable oracle on the real code supplies replays"}],
        "checks": checks,
        "notes": "See DESIGN.md. Exit codes: 0 held / known findings only, 1 VIOLATION, 2 infrastructure failure.",
        "not_applicable": [{"property_id": p["id"],
                            "reason": "check not registered yet (under construction in this session); the planned proof is in DESIGN.md §6"}
                           for p in props if p["id"] not in CLAIMS],
    }
    json.dump(m, open(os.path.join(ROOT, "MANIFEST.json"), "w"), indent=1)
    print("claimed:", sorted(CLAIMS))


if __name__ == "__main__":
    main()
