#!/usr/bin/env python3
"""Regenerates MANIFEST.json from the table below (one entry per claimed property)."""
import json
import os

ROOT = os.path.dirname(os.path.dirname(os.path.abspath(__file__)))
COMMON_NOTE = ("Trusted: Lean 4.33 kernel (axioms per theorem are measured on every run and listed in the evidence; "
               "expected ⊆ propext, Classical.choice, Quot.sound unless stated), tools/extract.py (translator: Automat tables, "
               "constants, call skeletons regenerated from /repo on every run), the correspondence harness (differential "
               "execution of model vs. real code; bounded by its generators). ")

CLAIMS = {
    "C05": dict(
        text="18 Lean theorems (all names/filesystems/args, by induction on the path algebra) over an executable model of posixpath + Receiver._decide_destname/_remove_existing/_handle_file/_extract_file, with generated call skeletons as a proof obligation; model tied to the real Receiver methods by differential runs in a sandbox; oracle = filesystem snapshot of the sandbox and its parent.",
        note="Modelled not verified: CPython posixpath and zipfile member sanitisation (compared differentially), no symlinks/races. One recorded known finding (staging file foo.tmp clobbered).",
        tech="Lean 4 proof (path algebra induction) + skeleton agreement + differential correspondence"),
    "C10": dict(
        text="Unbounded ARQ invariant (inv_reachable) and exactly_once_in_order / final_generation_delivers_all proved by induction over arbitrary event schedules on an executable model of Outbound/Inbound/Manager.got_record; tied to two real Managers with fake L2 connections by per-step state comparison.",
        note="Modelled not verified: L2 as an authenticated FIFO of whole records (C12), one connection at a time (C11), Twisted producer contract.",
        tech="Lean 4 proof (invariant by induction over schedules) + differential correspondence"),
    "C12": dict(
        text="25 Lean theorems (be4/record round-trips, multi-packet seal/open for every length, framer chunking invariance with fuel sufficiency, prologue/relay rejection, unkeyed input never reaches the manager, end-to-end delivery for every record list and chunking) over a model built on the generated _Framer/_Record/DilatedConnectionProtocol tables; tied to the real classes by differential runs.",
        note="Modelled not verified: Noise (ideal nonce-indexed AEAD interface; noiseprotocol is not installed, toy AEAD in the harness), UTF-8 validity predicate, Twisted dropping a connection when dataReceived raises.",
        tech="Lean 4 proof (induction over records/chunkings) + generated tables + differential correspondence"),
    "C14": dict(
        text="no_internal_failure for every run of the closed system (13 generated Automat tables + hand-written output semantics × conformant environment), by a finite inductive-invariant certificate (2.8e4 states × 34 events, recomputed from the generated tables) lifted to unbounded runs by a kernel-checked induction; the control model agrees with the real client step by step (13 machine states, commands, events, exceptions) on every generated schedule against the real mailbox server objects.",
        note="The certificate evaluation uses native_decide (adds the Lean compiler to the trusted base for WV.ClientCert.cert; reported per theorem). The environment model WV.ClientEnv.enabled is hand-written. Modelled not verified: SPAKE2/SecretBox/HKDF (classified by the harness with the real keys), ClientService, autobahn; dilate() not called in this world.",
        tech="Lean 4: finite certificate (native_decide) + kernel-checked lifting induction; translator-generated tables; per-step differential correspondence"),
    "C20": dict(
        text="hints_total / only_valid_dialled / encode_parse_roundtrip proved for every JSON value in hint position over an executable model of Python's dynamic behaviour on JSON and of parse_hint, add_connection_hints, _connect grouping, Manager.use_hints, Connector._use_hints; guard list extracted by ast is a proof obligation (guards_agree); tied to the real functions by differential runs.",
        note="Modelled not verified: Twisted endpoints/Tor (recorders), CPython sorted() on nan priorities (compared order-free).",
        tech="Lean 4 proof (structural induction over JSON) + ast guard extraction + differential correspondence"),
}


def main():
    props = [json.loads(l) for l in open(os.path.join(ROOT, "properties.jsonl"))]
    checks = []
    for p in props:
        pid = p["id"]
        if pid not in CLAIMS:
            continue
        c = CLAIMS[pid]
        checks.append({
            "property_id": pid,
            "quick_cmd": f"./check {pid} --tier quick",
            "thorough_cmd": f"./check {pid} --tier thorough",
            "evidence_file": f"evidence/{pid}.json",
            "replay_cmd_template": f"./check {pid} --replay {{path}}",
            "engine": "lean4+correspondence",
            "level_claimed": {"category": "proof", "text": c["text"], "design_ref": f"DESIGN.md §6 {pid}"},
            "level_note": COMMON_NOTE + c["note"],
            "technique": c["tech"],
        })
    m = {
        "version": 1,
        "setup_cmd": "./check --setup",
        "hooks": {"guard": "MAGIC_WORMHOLE_VERIF",
                  "enable": "none needed: every harness substitutes collaborators inside its own process; there is no guarded code in /repo",
                  "baseline_off_cmd": "cd /repo && /venv/bin/python -m pytest -ra -q -p no:cacheprovider --timeout=900 --continue-on-collection-errors",
                  "source_commits": [], "add_only": True},
        "engines": [{"name": "lean4+correspondence", "path": "lean/ harness/ tools/extract.py check",
                     "serves_properties": sorted(CLAIMS),
                     "kind_free_text": "Lean 4.33 theorems over executable models tied to /repo by a translator (Automat tables, constants, call skeletons, regenerated on every run) and by differential execution against the real code; the property's executable oracle on the real code supplies replays"}],
        "checks": checks,
        "notes": "See DESIGN.md. Exit codes: 0 held / known findings only, 1 VIOLATION, 2 infrastructure failure.",
        "not_applicable": [{"property_id": p["id"],
                            "reason": "check not registered yet (under construction in this session); the planned proof is in DESIGN.md §6"}
                           for p in props if p["id"] not in CLAIMS],
    }
    json.dump(m, open(os.path.join(ROOT, "MANIFEST.json"), "w"), indent=1)
    print("claimed:", sorted(CLAIMS))


if __name__ == "__main__":
    main()
