#!/usr/bin/env python3
"""Evaluate a seeded change against the checks.

  tools/seedrun.py <dir-with-patch.diff-demo.py-meta.json> [--inplace] [--tier quick] [--checks C08,C14]

Default (scratch) mode never touches /repo: it copies /repo to a scratch tree, applies the patch there and
runs everything with PYTHONPATH=<scratch>/src from a private copy of /verif (so concurrent lake builds in
/verif are not disturbed).  --inplace does what the brief prescribes for the final confirmation: `git -C /repo
apply`, run the registered check commands in /verif, `git -C /repo checkout -- .`.

Prints one JSON line: {id, applies, suite_ok, demo_fails_with, demo_passes_without, checks: {Cxx: rc/VIOLATION line}}.
"""
import argparse
import json
import os
import re
import shutil
import subprocess
import sys
import tempfile

PY = "/venv/bin/python"


def sh(cmd, cwd=None, env=None, timeout=3600):
    r = subprocess.run(cmd, shell=True, cwd=cwd, env=env, capture_output=True, text=True, timeout=timeout)
    return r.returncode, r.stdout + r.stderr


def main():
    ap = argparse.ArgumentParser()
    ap.add_argument("dir")
    ap.add_argument("--inplace", action="store_true")
    ap.add_argument("--tier", default="quick")
    ap.add_argument("--checks", default="")
    ap.add_argument("--skip-suite", action="store_true")
    ap.add_argument("--verif", default="/verif")
    a = ap.parse_args()
    d = os.path.abspath(a.dir)
    meta = json.load(open(os.path.join(d, "meta.json")))
    patch = os.path.join(d, "patch.diff")
    demo = os.path.join(d, "demo.py")
    pid = meta.get("property")
    checks = [c for c in a.checks.split(",") if c] or [pid]
    out = dict(id=os.path.basename(d), property=pid)
    env0 = dict(os.environ)
    env0["PYTHONHASHSEED"] = "0"
    if a.inplace:
        rc, o = sh(f"git -C /repo apply --check {patch}")
        out["applies"] = rc == 0
        if rc != 0:
            out["error"] = o[-400:]
            print(json.dumps(out))
            return
        # demo without
        rc0, o0 = sh(f"{PY} {demo}", cwd=d, env=env0, timeout=600)
        out["demo_passes_without"] = rc0 == 0
        sh(f"git -C /repo apply {patch}")
        try:
            rc1, o1 = sh(f"{PY} {demo}", cwd=d, env=env0, timeout=600)
            out["demo_fails_with"] = rc1 != 0
            if not a.skip_suite:
                rcs, os_ = sh(f"cd /repo && {PY} -m pytest -q -p no:cacheprovider --timeout=900 src/wormhole/test", timeout=1800)
                out["suite_ok"] = rcs == 0
                out["suite_tail"] = os_.strip().splitlines()[-1] if os_.strip() else ""
            out["checks"] = {}
            for c in checks:
                rcc, oc = sh(f"./check {c} --tier {a.tier}", cwd=a.verif, env=env0, timeout=3600)
                v = [l for l in oc.splitlines() if l.startswith("VIOLATION")]
                out["checks"][c] = dict(rc=rcc, violation=v[0] if v else None,
                                        why=[l for l in oc.splitlines() if "oracle violated" in l or "no longer checks" in l][:2])
        finally:
            sh("git -C /repo checkout -- .")
        print(json.dumps(out))
        return
    # scratch mode
    tmp = tempfile.mkdtemp(prefix="sr_")
    try:
        repo = os.path.join(tmp, "repo")
        sh(f"rsync -a --exclude .git /repo/ {repo}/")
        rc, o = sh(f"patch -p1 --dry-run < {patch}", cwd=repo)
        out["applies"] = rc == 0
        if rc != 0:
            out["error"] = o[-400:]
            print(json.dumps(out))
            return
        envp = dict(env0)
        envp["PYTHONPATH"] = os.path.join(repo, "src")
        have_demo = os.path.exists(demo)
        if have_demo:
            rc0, o0 = sh(f"{PY} {demo}", cwd=d, env=envp, timeout=600)
            out["demo_passes_without"] = rc0 == 0
        sh(f"patch -p1 < {patch}", cwd=repo)
        if have_demo:
            rc1, o1 = sh(f"{PY} {demo}", cwd=d, env=envp, timeout=600)
            out["demo_fails_with"] = rc1 != 0
            out["demo_tail"] = (o1.strip().splitlines() or [""])[-1][:200]
        if not a.skip_suite:
            rcs, os_ = sh(f"{PY} -m pytest -q -p no:cacheprovider --timeout=900 src/wormhole/test", cwd=repo, env=envp, timeout=1800)
            out["suite_ok"] = rcs == 0
            out["suite_tail"] = os_.strip().splitlines()[-1] if os_.strip() else ""
        vcopy = os.path.join(tmp, "verif")
        sh(f"rsync -a --exclude .git --exclude replays {a.verif}/ {vcopy}/")
        out["checks"] = {}
        for c in checks:
            rcc, oc = sh(f"./check {c} --tier {a.tier}", cwd=vcopy, env=envp, timeout=3600)
            v = [l for l in oc.splitlines() if l.startswith("VIOLATION")]
            why = [l for l in oc.splitlines() if "oracle violated" in l or "no longer checks" in l][:2]
            out["checks"][c] = dict(rc=rcc, violation=(v[0][:160] if v else None), why=[w[:300] for w in why])
        print(json.dumps(out))
    finally:
        shutil.rmtree(tmp, ignore_errors=True)


if __name__ == "__main__":
    main()
