#!/bin/bash
# usage: tools/sweep.sh "<seeds>" [tier]   — runs every registered check with the given seeds on the current tree
cd "$(dirname "$0")/.."
./check --setup > /dev/null 2>&1
tier=${2:-quick}
for s in $1; do
  for id in $(python3 -c "import json;print(' '.join(c['property_id'] for c in json.load(open('MANIFEST.json'))['checks']))"); do
    out=$(VERIF_SEED=$s ./check $id --tier $tier 2>&1)
    rc=$?
    echo "seed=$s $id rc=$rc $(echo "$out" | grep -E '^VIOLATION|done in' | tr '\n' ' ' | cut -c1-200)"
  done
done
