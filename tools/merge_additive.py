#!/usr/bin/env python3
"""tools/merge_additive.py <base-file> <out-file> <variant-file>...

Merges several variants of one file that each differ from the base ONLY by inserted blocks (the discipline the
deepening agents follow for the shared files: tools/extract.py, lean/WV/Model/PyIR.lean, lean/WV.lean).  Every
variant's insertions are located against the base with difflib and re-inserted at the same base position, variant
after variant, whole block by whole block — so blocks of different variants inserted at the same place end up one
after the other and are never interleaved (which is what a line-based union merge does when two blocks share blank
or similar lines).  A variant that deletes or changes a base line is reported and makes the exit status 1 (the change
is still applied if exactly one variant makes it)."""
import difflib
import sys


def main():
    base = open(sys.argv[1], encoding="utf-8").read().splitlines(keepends=True)
    out = sys.argv[2]
    inserts = {}          # base index -> list of blocks (each a list of lines), in variant order
    replaced = {}         # (i1, i2) -> (variant, new lines)
    bad = 0
    for v in sys.argv[3:]:
        lines = open(v, encoding="utf-8").read().splitlines(keepends=True)
        sm = difflib.SequenceMatcher(None, base, lines, autojunk=False)
        for tag, i1, i2, j1, j2 in sm.get_opcodes():
            if tag == "equal":
                continue
            if tag == "insert":
                inserts.setdefault(i1, []).append(lines[j1:j2])
            else:
                key = (i1, i2)
                if key in replaced and replaced[key][1] != lines[j1:j2]:
                    print(f"CONFLICT: {v} and {replaced[key][0]} both change base lines {i1 + 1}-{i2}", file=sys.stderr)
                    bad = 1
                else:
                    if key not in replaced:
                        print(f"note: {v} {tag}s base lines {i1 + 1}-{i2}: {''.join(base[i1:i2])[:200]!r} -> {''.join(lines[j1:j2])[:200]!r}",
                              file=sys.stderr)
                    replaced[key] = (v, lines[j1:j2])
    res = []
    skip_until = -1
    starts = {k[0]: k for k in replaced}
    for i in range(len(base) + 1):
        for blk in inserts.get(i, []):
            res.extend(blk)
        if i == len(base):
            break
        if i in starts:
            k = starts[i]
            res.extend(replaced[k][1])
            skip_until = k[1]
        if i < skip_until:
            continue
        res.append(base[i])
    open(out, "w", encoding="utf-8").write("".join(res))
    return bad


if __name__ == "__main__":
    sys.exit(main())
