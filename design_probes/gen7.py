import random, sys
random.seed(3)
sizes=[5,10,8,10,4,4]
NE=12
tabs=[[[ (random.randrange(sz) if random.random()<0.25 else s) for e in range(NE)] for s in range(sz)] for sz in sizes]
# routing: next machine and next event depend on (machine, new state idx mod 3, event) via random tables
nm=[[[random.randrange(6) for e in range(NE)] for k in range(3)] for m in range(6)]
ne=[[[random.randrange(NE) for e in range(NE)] for k in range(3)] for m in range(6)]
def step(st,e):
    st=list(st); m=e%6; ev=e
    for k in range(4):
        st[m]=tabs[m][st[m]][ev]
        kk=st[m]%3
        m,ev=nm[m][kk][ev],ne[m][kk][ev]
    return tuple(st)
init=(0,)*6
seen={init}; work=[init]
while work:
    s=work.pop()
    for e in range(NE):
        t=step(s,e)
        if t not in seen: seen.add(t); work.append(t)
sys.stderr.write("reachable %d\n"%len(seen))
out=[]
out.append("set_option maxRecDepth 100000\nset_option profiler true")
out.append("inductive E where " + " ".join(f"| e{i}" for i in range(NE)))
out.append("inductive Mc where | m0 | m1 | m2 | m3 | m4 | m5")
out.append("inductive K3 where | k0 | k1 | k2")
for m,sz in enumerate(sizes):
    out.append(f"inductive S{m} where " + " ".join(f"| s{i}" for i in range(sz)))
    out.append(f"def tab{m} : S{m} → E → S{m}")
    for s in range(sz):
        for e in range(NE):
            out.append(f"  | .s{s}, .e{e} => .s{tabs[m][s][e]}")
    out.append(f"def S{m}.k : S{m} → K3 " + " ".join(f"| .s{i} => .k{i%3}" for i in range(sz)))
out.append("def nm : Mc → K3 → E → Mc")
for m in range(6):
    for k in range(3):
        for e in range(NE): out.append(f"  | .m{m}, .k{k}, .e{e} => .m{nm[m][k][e]}")
out.append("def ne : Mc → K3 → E → E")
for m in range(6):
    for k in range(3):
        for e in range(NE): out.append(f"  | .m{m}, .k{k}, .e{e} => .e{ne[m][k][e]}")
out.append("structure St where (a : S0) (b : S1) (c : S2) (d : S3) (e : S4) (f : S5)")
out.append("structure R2 where (s : St) (k : K3)")
out.append("""def St.stepM (s : St) (m : Mc) (ev : E) : R2 :=
  match m with
  | .m0 => let v := tab0 s.a ev; ⟨{s with a := v}, v.k⟩
  | .m1 => let v := tab1 s.b ev; ⟨{s with b := v}, v.k⟩
  | .m2 => let v := tab2 s.c ev; ⟨{s with c := v}, v.k⟩
  | .m3 => let v := tab3 s.d ev; ⟨{s with d := v}, v.k⟩
  | .m4 => let v := tab4 s.e ev; ⟨{s with e := v}, v.k⟩
  | .m5 => let v := tab5 s.f ev; ⟨{s with f := v}, v.k⟩""")
out.append("def chain : Nat → St → Mc → E → St\n  | 0, s, _, _ => s\n  | k+1, s, m, ev => let r := s.stepM m ev; chain k r.s (nm m r.k ev) (ne m r.k ev)")
out.append("def E.m : E → Mc " + " ".join(f"| .e{i} => .m{i%6}" for i in range(NE)))
out.append("def step (s : St) (e : E) : St := chain 4 s e.m e")
from collections import defaultdict
L=sorted(seen)
def tree(items, d):
    if d==6: return "true"
    groups=defaultdict(list)
    for it in items: groups[it[d]].append(it)
    fld="abcdef"[d]
    arms=" ".join(f"| .s{k} => ({tree(v,d+1)})" for k,v in sorted(groups.items()))
    if len(groups)<sizes[d]: arms+=" | _ => false"
    return f"match s.{fld} with {arms}"
out.append("def mem (s : St) : Bool := "+tree(L,0))
out.append("def okE (s : St) : List E → Bool | [] => true | e :: es => match mem (step s e) with | true => okE s es | false => false")
out.append("def allE : List E := [" + ", ".join(f".e{i}" for i in range(NE)) + "]")
out.append("def okS : List St → Bool | [] => true | s :: ss => match okE s allE with | true => okS ss | false => false")
CH=500
chunks=[L[i:i+CH] for i in range(0,len(L),CH)]
for i,c in enumerate(chunks):
    out.append(f"def ch{i} : List St := [" + ", ".join("⟨"+",".join(f".s{x}" for x in st)+"⟩" for st in c) + "]")
for i,c in enumerate(chunks[:2]):
    out.append(f"theorem thm{i} : okS ch{i} = true := by decide +kernel")
print("\n".join(out))
