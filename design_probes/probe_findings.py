# One-line probes behind DESIGN.md section 7 (F1-F9).  Run: /venv/bin/python probe_findings.py
from unittest import mock
from twisted.internet.task import Clock, Cooperator
from zope.interface import implementer, alsoProvides
from wormhole import _interfaces
from wormhole.eventual import EventualQueue
from wormhole.timing import DebugTiming
from wormhole.journal import ImmediateJournal

def t(name, f):
    try: print(name, "->", repr(f())[:90])
    except Exception as e: print(name, "RAISES", type(e).__name__, str(e)[:90])

# F3-F5 hints
from wormhole._hints import parse_hint, parse_tcp_v1_hint
from wormhole.transit import TransitSender
def tr(hs):
    s = TransitSender(None, no_listen=True); s.add_connection_hints(hs); return (s._their_direct_hints, s._our_relay_hints)
t("F3 relay without hints", lambda: parse_hint({"type": "relay-v1"}))
t("F4 relay sub-hint str", lambda: parse_hint({"type": "relay-v1", "hints": ["x"]}))
t("F4 transit hints=5", lambda: tr([{"type": "relay-v1", "hints": 5}]))
t("F4 transit hint not dict", lambda: tr(["abc"]))
t("F5 priority mixed", lambda: tr([{"type": "relay-v1", "hints": [
    {"type": "direct-tcp-v1", "hostname": "h", "port": 1, "priority": "x"},
    {"type": "direct-tcp-v1", "hostname": "h", "port": 1, "priority": 2.0}]}]))
t("F5 priority list", lambda: tr([{"type": "relay-v1", "hints": [
    {"type": "direct-tcp-v1", "hostname": "h", "port": 1, "priority": [1]}]}]))
t("F5 port bool", lambda: parse_tcp_v1_hint({"type": "direct-tcp-v1", "hostname": "h", "port": True}))
# F8 code validation
from wormhole._code import validate_code
t("F8 newline nameplate", lambda: validate_code("4\n-purple-sausages"))
t("F8 tab in words", lambda: validate_code("4-purple\tsausages"))

# F1 ping loop / timer extension
from wormhole._dilation.manager import Manager, TrafficTimer, Dilator
@implementer(_interfaces.ISend)
class S:
    def send(self, phase, pt): pass
clock = Clock(); eq = EventualQueue(clock)
m = Manager(S(), "aa" * 8, None, clock, eq, Cooperator(scheduler=eq.eventually), ["ged"], 30.0, None)
pings = []; disc = []
m.send_ping = lambda pid, cb: pings.append(cb)
class Cn:
    def disconnect(self): disc.append(clock.seconds())
m._connection = Cn()
m._traffic = TrafficTimer(m._signal_reconnect, m._send_ping_reset_timer)
m._traffic.got_connection()
for i in range(100):
    clock.advance(0.1); pings[-1](0.1)
t0 = clock.seconds()
while not disc and clock.seconds() < 100000: clock.advance(1.0)
print("F1 pings in 10s:", len(pings), "; silent from t=%.0f, leader disconnects at t=%.0f (%.1f intervals)" % (t0, disc[0], (disc[0] - t0) / 30))

# F2 wiring
import inspect
print("F2", [l.strip() for l in inspect.getsource(Manager.__attrs_post_init__).splitlines() if "Demultiplex" in l])

# F6 empty versions
@implementer(_interfaces.ITerminator)
class T: pass
from twisted.internet.protocol import Factory
for versions in ({"app_versions": {}}, {}):
    clock = Clock(); eq = EventualQueue(clock)
    d = Dilator(clock, eq, Cooperator(scheduler=eq.eventually), ["ged"]); d.wire(S(), T())
    d.got_key(b"k" * 32); d.got_wormhole_versions(versions)
    api = d.dilate(no_listen=True); res = []
    api.connector_for("x").connect(Factory()).addBoth(res.append); eq.flush_sync()
    print("F6 peer versions", versions, "-> connect():", [type(getattr(r, "value", r)).__name__ for r in res] or "NEVER RESOLVES")

# F7 assert in Receive
from wormhole._order import Order
from wormhole._key import Key
from wormhole._receive import Receive
tm = DebugTiming(); o = Order("me", tm); k = Key("appid", {}, "me", tm); r = Receive("me", tm)
b = mock.Mock(); alsoProvides(b, _interfaces.IBoss); mb = mock.Mock(); alsoProvides(mb, _interfaces.IMailbox)
sd = mock.Mock(); alsoProvides(sd, _interfaces.ISend)
o.wire(k, r); k.wire(b, mb, r); r.wire(b, sd)
o.got_message("them", "version", b"junk")
t("F7 non-pake then pake before local code", lambda: o.got_message("them", "pake", b'{"pake_v1": "00"}'))

# F9 late code entry after self-closure
from wormhole._boss import Boss
class W:
    def got_welcome(self, w): pass
    def got_code(self, c): pass
    def closed(self, r): print("   (closed with %r)" % (r,))
def mk():
    clock = Clock(); eq = EventualQueue(clock)
    return Boss(W(), "side", "ws://127.0.0.1:1/v1", "appid", {}, ("python", "x"), clock, eq,
                Cooperator(scheduler=eq.eventually), ImmediateJournal(), None, DebugTiming())
bo = mk(); bo.rx_welcome({"error": "please upgrade"})
t("F9 set_code after welcome error", lambda: bo.set_code("4-purple-sausages"))
bo = mk(); h = bo.input_code(); h.choose_nameplate("4"); bo.rx_error("crowded", {"type": "claim"})
t("F9 choose_words after server error", lambda: h.choose_words("purple-sausages"))
