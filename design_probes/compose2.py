# variant: honest peer (no bad/malformed pake; non-pake only after our pake went out), optional ignore-row patch
import sys
import compose_lib as C
PATCH = "--patch" in sys.argv
C.FLAGS.append("pake_sent")
_init = C.init_state
def init_state():
    s = _init(); s["pake_sent"] = False; return s
C.init_state = init_state
_tx = C.tx
def tx(s, cmd):
    _tx(s, cmd)
    if cmd == "add" and s["SK"] != "S0_know_nothing": s["pake_sent"] = True
C.tx = tx
C.THEIRS[:] = [(k, g) for (k, g) in C.THEIRS if not (k == "pake" and g != "good")]
_events = C.events
def events(s):
    ev = _events(s)
    if not s["pake_sent"]:
        ev = [e for e in ev if not (isinstance(e, tuple) and e[0] == "theirs" and e[1] != "pake")]
    return ev
C.events = events
if PATCH:
    for st in ("S3_closing", "S4_closed"):
        C.TAB["B"][(st, "got_code")] = (st, [])
    C.TAB["N"][("S5", "_set_nameplate")] = ("S5", [])
    C.TAB["M"][("S3A", "add_message")] = ("S3A", [])
C.main()
