# C08-style monitors on the prototype: closed at most once; from every state after close() a cooperative path to closed exists
import sys, collections
import compose_lib as C
sys.argv.append("--patch")
exec(open("compose2.py").read().replace("C.main()", "").replace("import compose_lib as C", ""))
init = C.freeze(C.init_state())
seen = {init: None}; work = collections.deque([init]); succ = {}
while work:
    t = work.popleft(); s0 = C.thaw(t); succ[t] = []
    for e in C.events(s0):
        s = dict(s0)
        try: C.step(s, e)
        except C.Exn as x:
            if x.kind == "ApiError": continue
        t2 = C.freeze(s); succ[t].append((e, t2))
        if t2 not in seen: seen[t2] = (t, e); work.append(t2)
idx = {f: i + len(C.MACH) for i, f in enumerate(C.FLAGS)}
def fl(t, f): return t[idx[f]]
def trace(t):
    tr = []
    while seen[t] is not None:
        p, e = seen[t]; tr.append(e); t = p
    return list(reversed(tr))
twice = [t for t in seen if fl(t, "nclosed") >= 2]
print("states:", len(seen), " closed-twice states:", len(twice))
if twice: print("  e.g.", trace(min(twice, key=lambda t: len(trace(t)))))
# cooperative events: everything except api_* / helper / ws_close / initial_fail / theirs / welcome_err / resp_error
def coop(e):
    return e in ("ws_open", "resp", "stop_completes", "msg_ours", "welcome_ok")
goal = {t for t in seen if fl(t, "nclosed") >= 1}
pred = collections.defaultdict(list)
for t, es in succ.items():
    for e, t2 in es:
        if coop(e): pred[t2].append(t)
can = set(goal); work = collections.deque(goal)
while work:
    t = work.popleft()
    for p in pred[t]:
        if p not in can: can.add(p); work.append(p)
stuck = [t for t in seen if fl(t, "closed_called") and t not in can]
print("states after close() with NO cooperative path to closed:", len(stuck))
if stuck:
    t = min(stuck, key=lambda t: len(trace(t)))
    print("  e.g.", trace(t)); print("  state:", dict(zip(C.MACH + C.FLAGS, t)))
# closing (Boss S3_closing) without app close: self-closure also must complete
stuck2 = [t for t in seen if t[C.MACH.index("B")] == "S3_closing" and t not in can]
print("Boss S3_closing states with no cooperative path to closed:", len(stuck2))
if stuck2:
    t = min(stuck2, key=lambda t: len(trace(t))); print("  e.g.", trace(t)); print("  state:", dict(zip(C.MACH + C.FLAGS, t)))
