# Feasibility probe (design phase): real wormhole.create() driven with a fake ClientService / WebSocket and task.Clock,
# no change to /repo.  Run: /venv/bin/python probe_mailbox_world.py
import json
from twisted.internet import defer
from twisted.internet.task import Clock
import wormhole
from wormhole import _rendezvous
from wormhole.eventual import EventualQueue
from automat._methodical import _transitionerFromInstance

class FakeService:
    def __init__(self, ep, factory, **kw): self.factory = factory
    def whenConnected(self, failAfterFailures=None): return defer.Deferred()
    def startService(self): pass
    def stopService(self): return defer.succeed(None)
class FakeWS:
    def __init__(self): self.sent = []
    def sendMessage(self, payload, isBinary): self.sent.append(json.loads(payload))
def state(obj):
    mm = type(obj).m
    return _transitionerFromInstance(obj, mm._symbol, mm._automaton)._state.method.__name__

_rendezvous.internet.ClientService = FakeService
clock = Clock(); eq = EventualQueue(clock)
w = wormhole.create("appid", "ws://example.invalid:4000/v1", clock, _eventual_queue=eq)
rc, ws, b = w._boss._RC, FakeWS(), w._boss
rc.ws_open(ws); w.set_code("4-purple-sausages")
rc.ws_message(json.dumps({"type": "welcome", "welcome": {}}).encode())
rc.ws_message(json.dumps({"type": "claimed", "mailbox": "mb1"}).encode())
print([(m["type"], m.get("nameplate") or m.get("mailbox") or m.get("phase")) for m in ws.sent])
print({n: state(o) for n, o in [("B", b), ("N", b._N), ("M", b._M), ("T", b._T), ("C", b._C), ("K", b._K)]})
res = []; w.close().addBoth(res.append)
rc.ws_message(json.dumps({"type": "released"}).encode()); rc.ws_message(json.dumps({"type": "closed"}).encode())
eq.flush_sync(); print("close ->", res)
