# Throw-away prototype (NOT framework code): abstract control model of the 13 mailbox machines
# over the REAL Automat tables, explored by BFS against a conformant-server environment.
# Purpose: measure abstract reachable-state count; find reachable undeclared (state,input) pairs.
import sys, importlib, inspect, collections
from automat import MethodicalMachine

MODS = {"B": ("_boss", "Boss"), "N": ("_nameplate", "Nameplate"), "M": ("_mailbox", "Mailbox"),
        "T": ("_terminator", "Terminator"), "C": ("_code", "Code"), "A": ("_allocator", "Allocator"),
        "L": ("_lister", "Lister"), "I": ("_input", "Input"), "K": ("_key", "Key"),
        "SK": ("_key", "_SortedKey"), "O": ("_order", "Order"), "R": ("_receive", "Receive"),
        "S": ("_send", "Send")}
TAB = {}; INIT = {}
for k, (mod, cls) in MODS.items():
    c = getattr(importlib.import_module("wormhole." + mod), cls)
    au = c.m._automaton
    INIT[k] = au.initialState.method.__name__
    TAB[k] = {(s.method.__name__, i.method.__name__): (o.method.__name__, [x.method.__name__ for x in outs])
              for s, i, o, outs in au.allTransitions()}

class Exn(Exception):
    def __init__(self, kind, detail): self.kind, self.detail = kind, detail

MACH = list(MODS)
# state: dict with machine states + flags; frozen into tuple for hashing
FLAGS = ["conn",        # 'down','up','stopped'
         "everconn",    # bool
         "respq",       # tuple of pending FIFO responses on this connection
         "sub",         # subscribed to mailbox on this connection
         "latch",       # did_start_code
         "closed_called",
         "pake_proc",   # 'pake' in Mailbox._processed
         "any_proc",    # some peer phase processed
         "stash",       # Key stashed pake kind: None/'good'/'bad'
         "oq",          # Order queue: tuple of (kind, good)
         "sq",          # Send queue length saturating 0/1
         "rkey",        # Receive has key
         "nclosed",     # closed notifications count (sat 2)
         "wl",          # input has wordlist
         "stopping",    # RC stop requested
         ]
def init_state():
    s = {k: INIT[k] for k in MACH}
    s.update(conn="down", everconn=False, respq=(), sub=False, latch=False, closed_called=False,
             pake_proc=False, any_proc=False, stash=None, oq=(), sq=0, rkey=False, nclosed=0, wl=False,
             stopping=False)
    return s
def freeze(s): return tuple(s[k] for k in MACH) + tuple(s[f] for f in FLAGS)
def thaw(t):
    s = {}
    for k, v in zip(MACH, t[:len(MACH)]): s[k] = v
    for f, v in zip(FLAGS, t[len(MACH):]): s[f] = v
    return s

APP = []  # app events of current step (for monitors)

def inp(s, m, name, *args):
    key = (s[m], name)
    if key not in TAB[m]:
        raise Exn("NoTransition", f"{m}[{s[m]}].{name}")
    new, outs = TAB[m][key]
    s[m] = new
    for o in outs:
        OUT[m](s, o, *args)

def tx(s, cmd):
    if s["conn"] != "up":
        raise Exn("AssertionError", f"tx {cmd} while not connected")
    # responses queued FIFO
    if cmd in ("claim", "release", "open", "close", "allocate", "list"):
        q = s["respq"]
        if len(q) < 7:
            s["respq"] = q + (cmd,)
        else:
            s["respq"] = q  # saturate (list spam) -- over-approx: drop
    # bind/add: no FIFO response that matters (echo handled as async message)

def out_B(s, o, *a):
    if o == "do_got_code": APP.append("code")
    elif o == "process_version": APP.append("versions")
    elif o == "S_send": inp(s, "S", "send")
    elif o in ("close_unwelcome", "close_error", "close_scared", "close_lonely", "close_happy"):
        inp(s, "T", "close")
    elif o == "W_got_key": APP.append("key")
    elif o in ("D_got_key", "send_status_peer_key", "send_status_confirmed_key", "send_status_closed"): pass
    elif o == "W_got_verifier": APP.append("verifier")
    elif o == "W_received": APP.append("message")
    elif o == "D_received_dilate": pass
    elif o in ("W_close_with_error", "W_closed"):
        APP.append("closed"); s["nclosed"] = min(2, s["nclosed"] + 1)
    else: raise Exception("unknown B out " + o)

def out_N(s, o, *a):
    if o in ("record_nameplate", "send_status_code_allocated", "send_status_code_consumed"): pass
    elif o in ("record_nameplate_and_RC_tx_claim", "RC_tx_claim"): tx(s, "claim")
    elif o == "I_got_wordlist": inp(s, "I", "got_wordlist")
    elif o == "M_got_mailbox": inp(s, "M", "got_mailbox")
    elif o == "RC_tx_release": tx(s, "release")
    elif o == "T_nameplate_done": inp(s, "T", "nameplate_done")
    else: raise Exception("unknown N out " + o)

def out_M(s, o, *a):
    if o in ("record_mailbox", "queue", "dequeue", "record_mood"): pass
    elif o == "RC_tx_open": tx(s, "open")
    elif o == "record_mailbox_and_RC_tx_open_and_drain": tx(s, "open"); tx(s, "add")
    elif o == "drain": tx(s, "add")
    elif o == "RC_tx_add": tx(s, "add")
    elif o == "N_release_and_accept":
        kind, good, dup = a
        inp(s, "N", "release")
        if not dup:
            s["any_proc"] = True
            if kind == "pake": s["pake_proc"] = True
            # Order.got_message
            if kind == "pake": inp(s, "O", "got_pake", kind, good)
            else: inp(s, "O", "got_non_pake", kind, good)
    elif o in ("RC_tx_close", "record_mood_and_RC_tx_close"): tx(s, "close")
    elif o in ("ignore_mood_and_T_mailbox_done", "T_mailbox_done"): inp(s, "T", "mailbox_done")
    else: raise Exception("unknown M out " + o)

def rc_stop(s):
    s["stopping"] = True
    if s["conn"] == "up":
        pass  # loseConnection; ws_close + stoppedRC come later as event 'stop_completes'
    else:
        s["conn"] = "stopped"
        inp(s, "T", "stoppedRC")

def out_T(s, o, *a):
    if o == "close_nameplate": inp(s, "N", "close")
    elif o == "close_mailbox": inp(s, "M", "close")
    elif o in ("ignore_mood_and_RC_stop", "RC_stop"): rc_stop(s)
    elif o == "stop_dilator": inp(s, "T", "stoppedD")   # no manager: synchronous
    elif o == "B_closed": inp(s, "B", "closed")
    else: raise Exception("unknown T out " + o)

def out_C(s, o, *a):
    if o == "do_set_code":
        inp(s, "N", "_set_nameplate"); inp(s, "B", "got_code"); inp(s, "K", "got_code")
    elif o == "do_start_input": inp(s, "I", "start")
    elif o == "do_middle_input": inp(s, "N", "_set_nameplate")
    elif o == "do_finish_input": inp(s, "B", "got_code"); inp(s, "K", "got_code")
    elif o == "do_start_allocate": inp(s, "A", "allocate")
    elif o == "do_finish_allocate":
        inp(s, "N", "_set_nameplate"); inp(s, "B", "got_code"); inp(s, "K", "got_code")
    else: raise Exception("unknown C out " + o)

def out_A(s, o, *a):
    if o == "stash": pass
    elif o in ("stash_and_RC_rx_allocate", "RC_tx_allocate"): tx(s, "allocate")
    elif o == "build_and_notify": inp(s, "C", "allocated")
    else: raise Exception("unknown A out " + o)

def out_L(s, o, *a):
    if o == "RC_tx_list": tx(s, "list")
    elif o == "I_got_nameplates": inp(s, "I", "got_nameplates")
    else: raise Exception("unknown L out " + o)

def out_I(s, o, *a):
    if o in ("do_start", "do_refresh"): inp(s, "L", "refresh")
    elif o in ("record_nameplates", "_get_nameplate_completions", "notify_wordlist_waiters",
               "no_word_completions"): pass
    elif o == "record_all_nameplates": inp(s, "C", "got_nameplate")
    elif o == "record_wordlist": s["wl"] = True
    elif o == "_get_word_completions":
        if not s["wl"]: raise Exn("AssertionError", "I._get_word_completions without wordlist")
    elif o.startswith("raise_"): raise Exn("ApiError", o)
    elif o == "do_words": inp(s, "C", "finished_input")
    else: raise Exception("unknown I out " + o)

def sk_got_pake(s, good):
    if good == "malformed": raise Exn("PakeError", "spake2 finish raised")   # only reached in S1_know_code via compute_key
    inp(s, "SK", "got_pake_good" if good == "good" else "got_pake_bad")

def out_K(s, o, *a):
    if o == "stash_pake": s["stash"] = a[0] if a else "good"
    elif o == "deliver_code": inp(s, "SK", "got_code")
    elif o == "deliver_pake": sk_got_pake(s, a[0])
    elif o == "deliver_code_and_stashed_pake":
        inp(s, "SK", "got_code"); sk_got_pake(s, s["stash"])
    else: raise Exception("unknown K out " + o)

def out_SK(s, o, *a):
    if o == "build_pake": inp(s, "M", "add_message")
    elif o == "scared": inp(s, "B", "scared")
    elif o == "compute_key":
        inp(s, "B", "got_key"); inp(s, "M", "add_message"); inp(s, "R", "got_key")
    else: raise Exception("unknown SK out " + o)

def r_got_message(s, kind, good):
    if not s["rkey"]: raise Exn("AssertionError", "Receive.got_message: assert self._key")
    if good == "good": inp(s, "R", "got_message_good", kind)
    else: inp(s, "R", "got_message_bad")

def out_O(s, o, *a):
    kind, good = a
    if o == "queue":
        q = s["oq"]
        if len(q) < 2: s["oq"] = q + ((kind, good),)
        # saturate: drop further (over-approx acceptable for size; note)
    elif o == "notify_key":
        # K.got_pake(body): Key machine input got_pake with body classification
        inp(s, "K", "got_pake", good)
    elif o == "drain":
        q, s["oq"] = s["oq"], ()
        for (k2, g2) in q: r_got_message(s, k2, g2)
    elif o == "deliver": r_got_message(s, kind, good)
    else: raise Exception("unknown O out " + o)

def boss_got_message(s, kind):
    if kind == "version": inp(s, "B", "_got_version")
    elif kind == "dilate": inp(s, "B", "_got_dilate")
    elif kind == "numeric": inp(s, "B", "_got_phase")
    else: pass  # unknown phase: log.err only

def out_R(s, o, *a):
    if o == "record_key": s["rkey"] = True
    elif o == "S_got_verified_key": inp(s, "S", "got_verified_key")
    elif o == "W_happy": inp(s, "B", "happy")
    elif o == "W_got_verifier": inp(s, "B", "got_verifier")
    elif o == "W_got_message": boss_got_message(s, a[0])
    elif o == "W_scared": inp(s, "B", "scared")
    else: raise Exception("unknown R out " + o)

def out_S(s, o, *a):
    if o == "queue": s["sq"] = 1
    elif o == "record_key": pass
    elif o == "drain":
        if s["sq"]: inp(s, "M", "add_message")
        s["sq"] = 0
    elif o == "deliver": inp(s, "M", "add_message")
    else: raise Exception("unknown S out " + o)

OUT = {"B": out_B, "N": out_N, "M": out_M, "T": out_T, "C": out_C, "A": out_A, "L": out_L,
       "I": out_I, "K": out_K, "SK": out_SK, "O": out_O, "R": out_R, "S": out_S}

def with_error_handler(s, f):
    """ws_message / ws_open wrapper: except Exception as e: B.error(e); raise"""
    try:
        f()
    except Exn as e:
        if e.kind == "ApiError": raise
        try:
            inp(s, "B", "error")
        except Exn as e2:
            raise Exn(e.kind, e.detail + " ; then B.error -> " + e2.detail)
        raise Exn(e.kind, e.detail + " [B.error delivered]")

THEIRS = [(k, g) for k in ("version", "numeric", "dilate", "other") for g in ("good", "bad")] + \
         [("pake", "good"), ("pake", "bad"), ("pake", "malformed")]

def events(s):
    ev = []
    cc = s["closed_called"]
    # API
    if not s["latch"] and not cc:
        ev += ["api_set_code", "api_allocate", "api_input"]
    if s["I"] != "S0_idle" and not cc:
        ev += ["h_refresh", "h_np_completions", "h_choose_nameplate", "h_word_completions", "h_choose_words"]
    ev += ["api_send", "api_close"]
    # connection
    if s["conn"] == "down" and not s["stopping"]:
        ev.append("ws_open")
        if not s["everconn"]: ev.append("initial_fail")
    if s["conn"] == "up":
        ev.append("ws_close")
        if s["stopping"]: ev.append("stop_completes")
        else:
            ev.append("welcome_ok"); ev.append("welcome_err")   # welcome may arrive (once per conn really; over-approx)
            if s["respq"]:
                ev.append("resp")
                if s["respq"][0] in ("claim", "open", "allocate"): ev.append("resp_error")
            if s["sub"]:
                ev.append("msg_ours")
                for (k, g) in THEIRS:
                    if k == "pake" and s["pake_proc"]: continue
                    ev.append(("theirs", k, g))
                if s["any_proc"]: ev.append(("theirs_dup",))
    return ev

def step(s, e):
    del APP[:]
    if e == "api_set_code":
        s["latch"] = True; inp(s, "C", "_set_code")
    elif e == "api_allocate":
        s["latch"] = True; inp(s, "C", "allocate_code")
    elif e == "api_input":
        s["latch"] = True; inp(s, "C", "input_code")
    elif e == "h_refresh": inp(s, "I", "refresh_nameplates")
    elif e == "h_np_completions": inp(s, "I", "get_nameplate_completions")
    elif e == "h_choose_nameplate": inp(s, "I", "_choose_nameplate")
    elif e == "h_word_completions": inp(s, "I", "get_word_completions")
    elif e == "h_choose_words": inp(s, "I", "choose_words")
    elif e == "api_send": inp(s, "B", "send")
    elif e == "api_close":
        s["closed_called"] = True; inp(s, "B", "close")
    elif e == "ws_open":
        s["conn"] = "up"; s["everconn"] = True; s["respq"] = (); s["sub"] = False
        def f():
            tx(s, "bind")
            inp(s, "N", "connected"); inp(s, "M", "connected"); inp(s, "L", "connected"); inp(s, "A", "connected")
        with_error_handler(s, f)
    elif e == "initial_fail":
        s["conn"] = "stopped"; s["stopping"] = True
        inp(s, "B", "error")
    elif e in ("ws_close", "stop_completes"):
        s["conn"] = "down"; s["respq"] = (); s["sub"] = False
        inp(s, "N", "lost"); inp(s, "M", "lost"); inp(s, "L", "lost"); inp(s, "A", "lost")
        if e == "stop_completes" or s["stopping"]:
            s["conn"] = "stopped"
            inp(s, "T", "stoppedRC")
    elif e == "welcome_ok":
        pass  # W.got_welcome
    elif e == "welcome_err":
        with_error_handler(s, lambda: inp(s, "B", "rx_unwelcome"))
    elif e == "resp":
        r, s["respq"] = s["respq"][0], s["respq"][1:]
        def f():
            if r == "claim": inp(s, "N", "rx_claimed")
            elif r == "release": inp(s, "N", "rx_released")
            elif r == "open": s["sub"] = True
            elif r == "close": s["sub"] = False; inp(s, "M", "rx_closed")
            elif r == "allocate": inp(s, "A", "rx_allocated")
            elif r == "list": inp(s, "L", "rx_nameplates")
        with_error_handler(s, f)
    elif e == "resp_error":
        s["respq"] = s["respq"][1:]
        with_error_handler(s, lambda: inp(s, "B", "rx_error"))
    elif e == "msg_ours":
        with_error_handler(s, lambda: inp(s, "M", "rx_message_ours"))
    elif isinstance(e, tuple) and e[0] == "theirs":
        with_error_handler(s, lambda: inp(s, "M", "rx_message_theirs", e[1], e[2], False))
    elif isinstance(e, tuple) and e[0] == "theirs_dup":
        with_error_handler(s, lambda: inp(s, "M", "rx_message_theirs", "numeric", "good", True))
    else:
        raise Exception("unknown event %r" % (e,))

def main():
    init = freeze(init_state())
    seen = {init: None}
    work = collections.deque([init])
    bad = {}
    nsteps = 0
    while work:
        t = work.popleft()
        s0 = thaw(t)
        for e in events(s0):
            s = dict(s0)
            nsteps += 1
            try:
                step(s, e)
            except Exn as x:
                if x.kind == "ApiError": continue
                key = (x.kind, x.detail.split(" [")[0].split(" ;")[0])
                if key not in bad: bad[key] = (t, e, x.detail)
                # state after the exception persists; continue exploring from it
            t2 = freeze(s)
            if t2 not in seen:
                seen[t2] = (t, e); work.append(t2)
            if len(seen) > 2_000_000: print("too many"); return
    print("reachable abstract states:", len(seen), "steps:", nsteps)
    def trace(t):
        tr = []
        while seen[t] is not None:
            p, e = seen[t]; tr.append(e); t = p
        return list(reversed(tr))
    for (kind, det), (t, e, full) in sorted(bad.items()):
        print(f"\n{kind}: {det}\n   full: {full}\n   trace: {trace(t) + [e]}")


