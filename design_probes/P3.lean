set_option profiler true
inductive T where | leaf | node (l : T) (k : Nat) (r : T)
def T.mem : T → Nat → Bool
  | .leaf, _ => false
  | .node l k r, x => cond (Nat.blt x k) (l.mem x) (cond (Nat.blt k x) (r.mem x) true)
def step (s : Nat) (e : Nat) : Nat :=
  let a := s % 13; let b := (s / 13) % 11; let c := s / 143
  match e with
  | 0 => ((a+1) % 13) + b*13 + c*143
  | 1 => a + ((b+a) % 11)*13 + c*143
  | 2 => a + b*13 + ((c+1) % 7)*143
  | 3 => ((a*2) % 13) + b*13 + c*143
  | _ => ((a+b) % 13) + ((b+c)%11)*13 + c*143
def build : Nat → Nat → Nat → T
  | 0, _, _ => .leaf
  | f+1, lo, hi => cond (Nat.blt lo hi) (let m := (lo+hi)/2; .node (build f lo m) m (build f (m+1) hi)) .leaf
def R : T := build 20 0 1001
def T.all (p : Nat → Bool) : T → Bool
  | .leaf => true
  | .node l k r => p k && l.all p && r.all p
def closed (r : T) : Bool := r.all fun s => r.mem (step s 0) && r.mem (step s 1) && r.mem (step s 2) && r.mem (step s 3) && r.mem (step s 4)
theorem R_closed : closed R = true := by decide +kernel
theorem R_closed2 : closed R = true := by rfl
