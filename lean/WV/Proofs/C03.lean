import WV.Model.C03

/-! Helper lemmas for the C03 property theorems. -/
set_option linter.unusedSimpArgs false
set_option linter.unusedVariables false

namespace WV.Proofs.C03
open WV WV.C03 WV.Gen

/-! ## dict -/
section Dict
variable {κ : Type} [DecidableEq κ] {β : Type}

theorem dget_dset (d : List (κ × β)) (k k' : κ) (v : β) :
    dget (dset d k v) k' = if k = k' then some v else dget d k' := by
  induction d with
  | nil => simp [dset, dget]
  | cons e r ih =>
    obtain ⟨k0, v0⟩ := e
    by_cases h : k0 = k
    · subst h; by_cases h2 : k0 = k' <;> simp [dset, dget, h2]
    · by_cases h2 : k0 = k'
      · subst h2; simp [dset, dget, h]; intro h3; exact absurd h3.symm h
      · simp [dset, dget, h, h2, ih]

theorem dget_dpop (d : List (κ × β)) (k k' : κ) :
    dget (dpop d k) k' = if k = k' then none else dget d k' := by
  induction d with
  | nil => simp [dpop, dget]
  | cons e r ih =>
    obtain ⟨k0, v0⟩ := e
    unfold dpop at ih ⊢
    by_cases h : k0 = k
    · subst h
      have e : List.filter (fun e => !decide (e.fst = k0)) ((k0, v0) :: r) =
          List.filter (fun e => !decide (e.fst = k0)) r := by simp [List.filter]
      rw [e, ih]
      by_cases h2 : k0 = k' <;> simp [dget, h2]
    · have e : List.filter (fun e => !decide (e.fst = k)) ((k0, v0) :: r) =
          (k0, v0) :: List.filter (fun e => !decide (e.fst = k)) r := by simp [List.filter, h]
      rw [e]
      by_cases h2 : k0 = k'
      · subst h2
        have : ¬ k = k0 := fun e => h e.symm
        simp [dget, this]
      · simp [dget, h2, ih]

theorem dpop_length_le (d : List (κ × β)) (k : κ) : (dpop d k).length ≤ d.length := by
  unfold dpop; exact List.length_filter_le _ _

theorem dpop_length_lt (d : List (κ × β)) (k : κ) (v : β) (h : dget d k = some v) :
    (dpop d k).length < d.length := by
  induction d with
  | nil => simp [dget] at h
  | cons e r ih =>
    obtain ⟨k0, v0⟩ := e
    by_cases h0 : k0 = k
    · have := dpop_length_le r k
      simp [dpop, List.filter, h0] at this ⊢; omega
    · simp [dget, h0] at h
      have := ih h
      simp [dpop, List.filter, h0] at this ⊢; omega

theorem dget_nil_of_length_zero (d : List (κ × β)) (k : κ) (h : d.length = 0) : dget d k = none := by
  cases d with
  | nil => rfl
  | cons _ _ => simp at h

theorem mem_of_dget (d : List (κ × β)) (k : κ) (v : β) (h : dget d k = some v) : (k, v) ∈ d := by
  induction d with
  | nil => simp [dget] at h
  | cons e r ih =>
    obtain ⟨k0, v0⟩ := e
    by_cases h0 : k0 = k
    · simp [dget, h0] at h; simp [h0, h]
    · simp [dget, h0] at h; simp [ih h]

end Dict

/-! ## the strict-order loop -/

theorem rxLoop_acc (fuel : Nat) (b : RxBuf) (acc : List Bytes) :
    rxLoop fuel b acc = ((rxLoop fuel b []).1, acc ++ (rxLoop fuel b []).2) := by
  induction fuel generalizing b acc with
  | zero => simp [rxLoop]
  | succ n ih =>
    unfold rxLoop
    cases h : dget b.phases b.next with
    | none => simp
    | some v =>
      simp only []
      rw [ih _ (acc ++ [v]), ih _ ([] ++ [v])]
      simp

/-- arrivals are consistent with `P`, everything below `next` has arrived, the buffer holds exactly
    the arrived phases ≥ `next`, and the deliveries so far are `P 0 … P (next-1)` -/
structure RxInv (P : Nat → Bytes) (seen : List Nat) (b : RxBuf) (ds : List Bytes) : Prop where
  below : ∀ q, q < b.next → q ∈ seen
  above : ∀ q, b.next ≤ q → dget b.phases q = if q ∈ seen then some (P q) else none
  deliv : ds = (List.range b.next).map P

theorem rxLoop_inv (P : Nat → Bytes) (seen : List Nat) (fuel : Nat) (b : RxBuf) (acc : List Bytes)
    (hf : b.phases.length ≤ fuel) (h : RxInv P seen b acc) :
    RxInv P seen (rxLoop fuel b acc).1 (rxLoop fuel b acc).2 ∧
      dget (rxLoop fuel b acc).1.phases (rxLoop fuel b acc).1.next = none := by
  induction fuel generalizing b acc with
  | zero =>
    simp only [rxLoop]
    exact ⟨h, dget_nil_of_length_zero _ _ (by omega)⟩
  | succ n ih =>
    unfold rxLoop
    cases hg : dget b.phases b.next with
    | none => exact ⟨h, hg⟩
    | some v =>
      simp only []
      have hab := h.above b.next (Nat.le_refl _)
      rw [hg] at hab
      have hseen : b.next ∈ seen := by
        by_cases hs : b.next ∈ seen
        · exact hs
        · simp [hs] at hab
      have hv : v = P b.next := by simp [hseen] at hab; exact hab
      apply ih
      · have := dpop_length_lt b.phases b.next v hg
        simp; omega
      · constructor
        · intro q hq
          simp at hq
          by_cases hq2 : q < b.next
          · exact h.below q hq2
          · have : q = b.next := by omega
            subst this; exact hseen
        · intro q hq
          simp at hq ⊢
          rw [dget_dpop]
          have hne : b.next ≠ q := by omega
          simp [hne]
          exact h.above q (by omega)
        · simp [List.range_succ, h.deliv, hv]

/-- run a list of `_got_phase(phase, plaintext)` arrivals through `W_received` -/
def rxRun (b : RxBuf) (ds : List Bytes) : List (Nat × Bytes) → RxBuf × List Bytes
  | [] => (b, ds)
  | x :: xs => let r := wReceived b x.1 x.2; rxRun r.1 (ds ++ r.2) xs

theorem wReceived_inv (P : Nat → Bytes) (seen : List Nat) (b : RxBuf) (ds : List Bytes) (ph : Nat)
    (h : RxInv P seen b ds) :
    RxInv P (ph :: seen) (wReceived b ph (P ph)).1 (ds ++ (wReceived b ph (P ph)).2) ∧
      dget (wReceived b ph (P ph)).1.phases (wReceived b ph (P ph)).1.next = none := by
  unfold wReceived
  simp only []
  have key := rxLoop_inv P (ph :: seen) (dset b.phases ph (P ph)).length
    { next := b.next, phases := dset b.phases ph (P ph) } ds (Nat.le_refl _)
    (by
      constructor
      · intro q hq; exact List.mem_cons_of_mem _ (h.below q hq)
      · intro q hq
        simp only [dget_dset]
        by_cases hq2 : ph = q
        · subst hq2; simp
        · have : ¬ q = ph := fun e => hq2 e.symm
          simp [hq2, this]; exact h.above q hq
      · exact h.deliv)
  rw [rxLoop_acc] at key
  exact key

theorem rxRun_inv (P : Nat → Bytes) (xs : List (Nat × Bytes)) (hx : ∀ x ∈ xs, x.2 = P x.1)
    (seen : List Nat) (b : RxBuf) (ds : List Bytes)
    (h : RxInv P seen b ds) (hnone : dget b.phases b.next = none) :
    RxInv P (xs.reverse.map (·.1) ++ seen) (rxRun b ds xs).1 (rxRun b ds xs).2 ∧
      dget (rxRun b ds xs).1.phases (rxRun b ds xs).1.next = none := by
  induction xs generalizing seen b ds with
  | nil => simpa [rxRun] using ⟨h, hnone⟩
  | cons x xs ih =>
    have hx1 : x.2 = P x.1 := hx x (by simp)
    have step := wReceived_inv P seen b ds x.1 h
    rw [← hx1] at step
    have := ih (fun y hy => hx y (by simp [hy])) (x.1 :: seen) _ _ step.1 step.2
    simpa [rxRun, List.append_assoc] using this


/-! ## Mailbox -/

/-- phases handed to `Order.got_message` by a list of Mailbox calls -/
def orderPhases (effs : List MEff) : List String :=
  effs.filterMap (fun e => match e with | .toOrder _ p _ => some p | _ => none)

/-- `RC.tx_add` calls in a list of Mailbox calls -/
def txAdds (effs : List MEff) : List (String × Bytes) :=
  effs.filterMap (fun e => match e with | .txAdd p b => some (p, b) | _ => none)

@[simp] theorem orderPhases_append (a b : List MEff) : orderPhases (a ++ b) = orderPhases a ++ orderPhases b := by
  simp [orderPhases, List.filterMap_append]

@[simp] theorem txAdds_append (a b : List MEff) : txAdds (a ++ b) = txAdds a ++ txAdds b := by
  simp [txAdds, List.filterMap_append]

theorem orderPhases_cons (e : MEff) (r : List MEff) :
    orderPhases (e :: r) = (match e with | .toOrder _ p _ => [p] | _ => []) ++ orderPhases r := by
  cases e <;> simp [orderPhases]

theorem txAdds_cons (e : MEff) (r : List MEff) :
    txAdds (e :: r) = (match e with | .txAdd p b => [(p, b)] | _ => []) ++ txAdds r := by
  cases e <;> simp [txAdds]

@[simp] theorem orderPhases_nil : orderPhases [] = [] := rfl
@[simp] theorem txAdds_nil : txAdds [] = [] := rfl

@[simp] theorem orderPhases_drain (m : MboxD) : orderPhases (drainEffs m) = [] := by
  simp [orderPhases, drainEffs, List.filterMap_map, Function.comp_def]

@[simp] theorem txAdds_drain (m : MboxD) : txAdds (drainEffs m) = m.pending := by
  simp [txAdds, drainEffs, List.filterMap_map, Function.comp_def]

/-- run a trace of Mailbox inputs; exceptions leave the state as it is at that point (as in Python) -/
def mboxRun (myside : String) (m : MboxD) (acc : List MEff) : List MIn → MboxD × List MEff
  | [] => (m, acc)
  | x :: xs => let r := mboxIn myside m x; mboxRun myside r.1 (acc ++ r.2.1) xs

theorem mboxOut_processed (o : Mailbox.Output) (a : MArg) (m : MboxD) :
    (mboxOut o a m).1.processed = m.processed ++ orderPhases (mboxOut o a m).2.1 ∧
    (∀ p ∈ orderPhases (mboxOut o a m).2.1, p ∉ m.processed) ∧
    (orderPhases (mboxOut o a m).2.1).Nodup := by
  cases o <;> cases a <;> simp [mboxOut, orderPhases_cons]
  case N_release_and_accept.theirs s p b =>
    by_cases h : p ∈ m.processed <;> simp [acceptPhase, h, orderPhases_cons]
  all_goals (try (split <;> simp [orderPhases_cons]))

theorem mboxOuts_processed (os : List Mailbox.Output) (a : MArg) (m : MboxD) (acc : List MEff)
    (hn : m.processed.Nodup) :
    ∃ new, (mboxOuts os a m acc).2.1 = acc ++ new ∧
      (mboxOuts os a m acc).1.processed = m.processed ++ orderPhases new ∧
      (mboxOuts os a m acc).1.processed.Nodup := by
  induction os generalizing m acc with
  | nil => exact ⟨[], by simp [mboxOuts], by simp [mboxOuts, orderPhases], by simpa [mboxOuts] using hn⟩
  | cons o os ih =>
    have h1 := mboxOut_processed o a m
    have hn' : (mboxOut o a m).1.processed.Nodup := by
      rw [h1.1]
      apply List.nodup_append.mpr
      refine ⟨hn, h1.2.2, ?_⟩
      intro x hx y hy hxy
      subst hxy
      exact h1.2.1 x hy hx
    unfold mboxOuts
    rcases hres : mboxOut o a m with ⟨m', effs, err⟩
    rw [hres] at h1 hn'
    cases err with
    | none =>
      simp only []
      obtain ⟨new, e1, e2, e3⟩ := ih m' (acc ++ effs) hn'
      refine ⟨effs ++ new, by simp [e1], ?_, e3⟩
      simp at h1
      rw [e2, h1.1]; simp
    | some e =>
      simp only []
      simp at h1
      exact ⟨effs, rfl, h1.1, hn'⟩

theorem mboxStep_processed (m : MboxD) (i : Mailbox.Input) (a : MArg) (hn : m.processed.Nodup) :
    (mboxStep m i a).1.processed = m.processed ++ orderPhases (mboxStep m i a).2.1 ∧
      (mboxStep m i a).1.processed.Nodup := by
  unfold mboxStep
  cases h : Mailbox.table m.st i with
  | none => simp [orderPhases, hn]
  | some r =>
    obtain ⟨st', outs⟩ := r
    simp only []
    obtain ⟨new, e1, e2, e3⟩ := mboxOuts_processed outs a { m with st := st' } [] hn
    simp at e1
    rw [e1]
    exact ⟨e2, e3⟩

theorem mboxIn_processed (myside : String) (m : MboxD) (x : MIn) (hn : m.processed.Nodup) :
    (mboxIn myside m x).1.processed = m.processed ++ orderPhases (mboxIn myside m x).2.1 ∧
      (mboxIn myside m x).1.processed.Nodup := by
  cases x <;> simp only [mboxIn, mboxRx] <;> (try split) <;> exact mboxStep_processed _ _ _ hn

theorem mboxRun_processed (myside : String) (tr : List MIn) (m : MboxD) (acc : List MEff)
    (hn : m.processed.Nodup) (he : orderPhases acc = m.processed) :
    orderPhases (mboxRun myside m acc tr).2 = (mboxRun myside m acc tr).1.processed ∧
      (mboxRun myside m acc tr).1.processed.Nodup := by
  induction tr generalizing m acc with
  | nil => exact ⟨he, hn⟩
  | cons x xs ih =>
    have h := mboxIn_processed myside m x hn
    simp only [mboxRun]
    apply ih _ _ h.2
    rw [orderPhases_append, he, h.1]


theorem mem_dset {κ β : Type} [DecidableEq κ] (d : List (κ × β)) (k : κ) (v : β) (e : κ × β)
    (h : e ∈ dset d k v) : e = (k, v) ∨ e ∈ d := by
  induction d with
  | nil => simp [dset] at h; exact Or.inl h
  | cons x r ih =>
    obtain ⟨k0, v0⟩ := x
    by_cases h0 : k0 = k
    · simp [dset, h0] at h
      rcases h with h | h
      · exact Or.inl h
      · exact Or.inr (List.mem_cons_of_mem _ h)
    · simp [dset, h0] at h
      rcases h with h | h
      · exact Or.inr (by simp [h])
      · rcases ih h with h | h
        · exact Or.inl h
        · exact Or.inr (List.mem_cons_of_mem _ h)

theorem mem_dpop {κ β : Type} [DecidableEq κ] (d : List (κ × β)) (k : κ) (e : κ × β)
    (h : e ∈ dpop d k) : e ∈ d := by
  unfold dpop at h; exact (List.mem_filter.mp h).1

theorem mboxOut_st (o : Mailbox.Output) (a : MArg) (m : MboxD) : (mboxOut o a m).1.st = m.st := by
  cases o <;> cases a <;> simp [mboxOut] <;> (split <;> simp)

theorem mboxOuts_st (os : List Mailbox.Output) (a : MArg) (m : MboxD) (acc : List MEff) :
    (mboxOuts os a m acc).1.st = m.st := by
  induction os generalizing m acc with
  | nil => simp [mboxOuts]
  | cons o os ih =>
    unfold mboxOuts
    have h := mboxOut_st o a m
    rcases hres : mboxOut o a m with ⟨m', effs, err⟩
    rw [hres] at h
    cases err with
    | none => simp only []; rw [ih]; exact h
    | some e => exact h

theorem mboxOut_pending_keep (o : Mailbox.Output) (a : MArg) (m : MboxD) (p : String) (b : Bytes)
    (h : dget m.pending p = some b) (h1 : ∀ bb, a ≠ .ours p bb) (h2 : ∀ bb, a ≠ .add p bb) :
    dget (mboxOut o a m).1.pending p = some b := by
  cases o <;> cases a <;> simp [mboxOut, h]
  case queue.add p' b' =>
    rw [dget_dset]
    have : p' ≠ p := fun e => h2 b' (by rw [e])
    simp [this, h]
  case dequeue.ours p' b' =>
    rw [dget_dpop]
    have : p' ≠ p := fun e => h1 b' (by rw [e])
    simp [this, h]
  all_goals (split <;> simp [h])

theorem mboxOuts_pending_keep (os : List Mailbox.Output) (a : MArg) (m : MboxD) (acc : List MEff)
    (p : String) (b : Bytes)
    (h : dget m.pending p = some b) (h1 : ∀ bb, a ≠ .ours p bb) (h2 : ∀ bb, a ≠ .add p bb) :
    dget (mboxOuts os a m acc).1.pending p = some b := by
  induction os generalizing m acc with
  | nil => simpa [mboxOuts] using h
  | cons o os ih =>
    unfold mboxOuts
    have hk := mboxOut_pending_keep o a m p b h h1 h2
    rcases hres : mboxOut o a m with ⟨m', effs, err⟩
    rw [hres] at hk
    cases err with
    | none => simp only []; exact ih _ _ hk
    | some e => exact hk

theorem mboxStep_pending_keep (m : MboxD) (i : Mailbox.Input) (a : MArg) (p : String) (b : Bytes)
    (h : dget m.pending p = some b) (h1 : ∀ bb, a ≠ .ours p bb) (h2 : ∀ bb, a ≠ .add p bb) :
    dget (mboxStep m i a).1.pending p = some b := by
  unfold mboxStep
  cases ht : Mailbox.table m.st i with
  | none => simpa using h
  | some r => exact mboxOuts_pending_keep _ _ _ _ _ _ h h1 h2

theorem mboxIn_pending_keep (myside : String) (m : MboxD) (x : MIn) (p : String) (b : Bytes)
    (h : dget m.pending p = some b) (h1 : ∀ bb, x ≠ .rx myside p bb) (h2 : ∀ bb, x ≠ .add p bb) :
    dget (mboxIn myside m x).1.pending p = some b := by
  cases x with
  | rx s p' b' =>
    simp only [mboxIn, mboxRx]
    split
    · rename_i hs
      apply mboxStep_pending_keep _ _ _ _ _ h
      · intro bb e
        injection e with e1 e2
        exact h1 b' (by rw [hs, e1])
      · intro bb e; cases e
    · apply mboxStep_pending_keep _ _ _ _ _ h <;> (intro bb e; cases e)
  | add p' b' =>
    simp only [mboxIn]
    apply mboxStep_pending_keep _ _ _ _ _ h
    · intro bb e; cases e
    · intro bb e
      injection e with e1 e2
      exact h2 b' (by rw [e1])
  | _ => simp only [mboxIn]; apply mboxStep_pending_keep _ _ _ _ _ h <;> (intro bb e; cases e)

theorem mboxRun_pending_keep (myside : String) (tr : List MIn) (m : MboxD) (acc : List MEff)
    (p : String) (b : Bytes) (h : dget m.pending p = some b)
    (ht : ∀ x ∈ tr, (∀ bb, x ≠ .rx myside p bb) ∧ (∀ bb, x ≠ .add p bb)) :
    dget (mboxRun myside m acc tr).1.pending p = some b := by
  induction tr generalizing m acc with
  | nil => exact h
  | cons x xs ih =>
    simp only [mboxRun]
    apply ih
    · exact mboxIn_pending_keep myside m x p b h (ht x (by simp)).1 (ht x (by simp)).2
    · intro y hy; exact ht y (by simp [hy])

theorem mboxRun_append (myside : String) (t1 t2 : List MIn) (m : MboxD) (acc : List MEff) :
    mboxRun myside m acc (t1 ++ t2) =
      mboxRun myside (mboxRun myside m acc t1).1 (mboxRun myside m acc t1).2 t2 := by
  induction t1 generalizing m acc with
  | nil => rfl
  | cons x xs ih => simp only [List.cons_append, mboxRun]; exact ih _ _

/-- the mailbox has not been told to close -/
def isOpen : Mailbox.State → Bool
  | .S0A | .S0B | .S1A | .S2A | .S2B => true
  | _ => false

theorem mboxStep_st (m : MboxD) (i : Mailbox.Input) (a : MArg) :
    (mboxStep m i a).1.st = (match Mailbox.table m.st i with | none => m.st | some r => r.1) := by
  unfold mboxStep
  cases h : Mailbox.table m.st i with
  | none => rfl
  | some r => simp only []; rw [mboxOuts_st]

theorem mboxIn_open (myside : String) (m : MboxD) (x : MIn) (ho : isOpen m.st = true)
    (hx : ∀ md, x ≠ .close md) : isOpen (mboxIn myside m x).1.st = true := by
  obtain ⟨st, mb, mood, pend, proc⟩ := m
  cases x with
  | close md => exact absurd rfl (hx md)
  | rx s p b =>
    simp only [mboxIn, mboxRx]
    split <;> (rw [mboxStep_st]; cases st <;> simp_all [Mailbox.table, isOpen])
  | _ => simp only [mboxIn]; rw [mboxStep_st]; cases st <;> simp_all [Mailbox.table, isOpen]

theorem mboxRun_open (myside : String) (tr : List MIn) (m : MboxD) (acc : List MEff)
    (ho : isOpen m.st = true) (hx : ∀ x ∈ tr, ∀ md, x ≠ .close md) :
    isOpen (mboxRun myside m acc tr).1.st = true := by
  induction tr generalizing m acc with
  | nil => exact ho
  | cons x xs ih =>
    simp only [mboxRun]
    apply ih
    · exact mboxIn_open myside m x ho (hx x (by simp))
    · intro y hy; exact hx y (by simp [hy])

theorem mboxIn_add_open (myside : String) (m : MboxD) (p : String) (b : Bytes) (ho : isOpen m.st = true) :
    dget (mboxIn myside m (.add p b)).1.pending p = some b := by
  obtain ⟨st, mb, mood, pend, proc⟩ := m
  cases st <;> simp_all [isOpen, mboxIn, mboxStep, Mailbox.table, mboxOuts, mboxOut, dget_dset]


/-- run a trace, keeping the `tx_add`s made on the current connection (reset by every `lost`) -/
def mboxRunCur (myside : String) (m : MboxD) (cur : List (String × Bytes)) : List MIn → MboxD × List (String × Bytes)
  | [] => (m, cur)
  | x :: xs =>
    let r := mboxIn myside m x
    mboxRunCur myside r.1 (if x = .lost then [] else cur ++ txAdds r.2.1) xs

/-- once a mailbox id is known it stays known; while connected-and-open every pending message has
    been submitted on this connection -/
structure ResendInv (m : MboxD) (cur : List (String × Bytes)) : Prop where
  known : (m.st = .S1A ∨ m.st = .S2A ∨ m.st = .S2B) → m.mailbox = true
  sent : m.st = .S2B → ∀ e ∈ m.pending, e ∈ cur

theorem mboxIn_resend (myside : String) (m : MboxD) (cur : List (String × Bytes)) (x : MIn)
    (hx : ∀ md, x ≠ .close md) (ho : isOpen m.st = true) (hinv : ResendInv m cur) :
    ResendInv (mboxIn myside m x).1 (if x = .lost then [] else cur ++ txAdds (mboxIn myside m x).2.1) := by
  obtain ⟨st, mb, mood, pend, proc⟩ := m
  obtain ⟨hk, hs⟩ := hinv
  cases x with
  | close md => exact absurd rfl (hx md)
  | rx s p b =>
    simp only [mboxIn, mboxRx]
    split
    · cases st <;> simp [isOpen] at ho <;>
        simp [mboxStep, Mailbox.table, mboxOuts, mboxOut, txAdds_cons] <;>
        (constructor <;> simp_all)
      intro a b' hm
      exact hs a b' (mem_dpop _ _ _ hm)
    · by_cases hp : p ∈ proc <;> cases st <;> simp [isOpen] at ho <;>
        simp [mboxStep, Mailbox.table, mboxOuts, mboxOut, txAdds_cons, acceptPhase, hp] <;>
        (constructor <;> simp_all)
  | add p b =>
    cases st <;> simp [isOpen] at ho <;>
      simp [mboxIn, mboxStep, Mailbox.table, mboxOuts, mboxOut, txAdds_cons] <;>
      (constructor <;> simp_all)
    intro a b' hm
    rcases mem_dset _ _ _ _ hm with h | h
    · simp at h; exact Or.inr h
    · exact Or.inl (hs a b' h)
  | connected =>
    cases st <;> simp [isOpen] at ho <;>
      simp [mboxIn, mboxStep, Mailbox.table, mboxOuts, mboxOut, txAdds_cons] <;>
      (constructor <;> simp_all) <;>
      (intro a b' hm; exact Or.inr (by rw [txAdds_cons]; simpa using hm))
  | lost =>
    cases st <;> simp [isOpen] at ho <;>
      simp [mboxIn, mboxStep, Mailbox.table, mboxOuts, mboxOut, txAdds_cons] <;>
      (constructor <;> simp_all)
  | gotMailbox =>
    cases st <;> simp [isOpen] at ho <;>
      simp [mboxIn, mboxStep, Mailbox.table, mboxOuts, mboxOut, txAdds_cons] <;>
      (constructor <;> simp_all)
  | rxClosed =>
    cases st <;> simp [isOpen] at ho <;>
      simp [mboxIn, mboxStep, Mailbox.table, mboxOuts, mboxOut, txAdds_cons] <;>
      (constructor <;> simp_all)

theorem mboxRunCur_resend (myside : String) (tr : List MIn) (m : MboxD) (cur : List (String × Bytes))
    (hx : ∀ x ∈ tr, ∀ md, x ≠ .close md) (ho : isOpen m.st = true) (hinv : ResendInv m cur) :
    ResendInv (mboxRunCur myside m cur tr).1 (mboxRunCur myside m cur tr).2 := by
  induction tr generalizing m cur with
  | nil => exact hinv
  | cons x xs ih =>
    simp only [mboxRunCur]
    apply ih
    · intro y hy; exact hx y (by simp [hy])
    · exact mboxIn_open myside m x ho (hx x (by simp))
    · exact mboxIn_resend myside m cur x (hx x (by simp)) ho hinv


/-! ## Boss: tx numbering -/

/-- `S.send(phase, plaintext)` calls in a list of Boss calls -/
def sSends (effs : List BEff) : List (String × Bytes) :=
  effs.filterMap (fun e => match e with | .sSend ph pt => some (ph, pt) | _ => none)

@[simp] theorem sSends_nil : sSends [] = [] := rfl
@[simp] theorem sSends_append (a b : List BEff) : sSends (a ++ b) = sSends a ++ sSends b := by
  simp [sSends, List.filterMap_append]
theorem sSends_cons (e : BEff) (r : List BEff) :
    sSends (e :: r) = (match e with | .sSend ph pt => [(ph, pt)] | _ => []) ++ sSends r := by
  cases e <;> simp [sSends]
@[simp] theorem sSends_map_wReceived (ds : List Bytes) : sSends (ds.map .wReceived) = [] := by
  simp [sSends, List.filterMap_map, Function.comp_def]
@[simp] theorem sSends_map_dReceived (ds : List Bytes) : sSends (ds.map .dReceived) = [] := by
  simp [sSends, List.filterMap_map, Function.comp_def]

def bossRun (b : BossD) (acc : List BEff) : List BIn → BossD × List BEff
  | [] => (b, acc)
  | x :: xs => let r := bossIn b x; bossRun r.1 (acc ++ r.2.1) xs

/-- the plaintexts of the `send_message` calls in a trace -/
def sendPts : List BIn → List Bytes
  | [] => []
  | .send pt :: r => pt :: sendPts r
  | _ :: r => sendPts r

/-- `[(“n”, p₀), (“n+1”, p₁), …]` -/
def numberFrom : Nat → List Bytes → List (String × Bytes)
  | _, [] => []
  | n, p :: r => (showPhase n, p) :: numberFrom (n + 1) r

/-- inputs that start closing the wormhole -/
def closingIn : BIn → Bool
  | .close | .closed | .error | .scared | .rxError | .rxUnwelcome => true
  | _ => false

def bossLive : Boss.State → Bool
  | .S0_empty | .S1_lonely | .S2_happy => true
  | _ => false

theorem bossIn_live (b : BossD) (x : BIn) (hl : bossLive b.st = true) (hx : closingIn x = false) :
    bossLive (bossIn b x).1.st = true ∧
    (bossIn b x).1.nextTx = b.nextTx + (sendPts [x]).length ∧
    sSends (bossIn b x).2.1 = numberFrom b.nextTx (sendPts [x]) := by
  obtain ⟨st, ntx, rx, drx⟩ := b
  cases x with
  | gotMessage ph pt =>
    simp only [bossIn, bossGotMessage]
    cases classifyPhase ph <;> cases st <;> simp [bossLive] at hl <;>
      simp [bossStep, Boss.table, bossOuts, bossOut, bossLive, sendPts, numberFrom, sSends_cons]
  | _ =>
    cases st <;> simp [bossLive] at hl <;> simp [closingIn] at hx <;>
      simp [bossIn, bossStep, Boss.table, bossOuts, bossOut, bossLive, sendPts, numberFrom, takeTxPhase, sSends_cons]

theorem numberFrom_append (n : Nat) (a b : List Bytes) :
    numberFrom n (a ++ b) = numberFrom n a ++ numberFrom (n + a.length) b := by
  induction a generalizing n with
  | nil => simp [numberFrom]
  | cons p r ih => simp [numberFrom, ih, Nat.add_assoc, Nat.add_comm 1]

theorem sendPts_cons (x : BIn) (xs : List BIn) : sendPts (x :: xs) = sendPts [x] ++ sendPts xs := by
  cases x <;> simp [sendPts]

theorem bossRun_numbering (tr : List BIn) (b : BossD) (acc : List BEff)
    (hl : bossLive b.st = true) (hx : ∀ x ∈ tr, closingIn x = false) :
    sSends (bossRun b acc tr).2 = sSends acc ++ numberFrom b.nextTx (sendPts tr) ∧
      (bossRun b acc tr).1.nextTx = b.nextTx + (sendPts tr).length := by
  induction tr generalizing b acc with
  | nil => simp [bossRun, sendPts, numberFrom]
  | cons x xs ih =>
    have h := bossIn_live b x hl (hx x (by simp))
    have := ih (bossIn b x).1 (acc ++ (bossIn b x).2.1) h.1 (fun y hy => hx y (by simp [hy]))
    simp only [bossRun]
    rw [this.1, this.2, sendPts_cons x xs, numberFrom_append, sSends_append, h.2.2, h.2.1]
    simp [Nat.add_assoc]


/-! ## Send -/

def sendRun (C : Crypto) (side : String) (s : SendD) (acc : List SEff) : List SIn → SendD × List SEff
  | [] => (s, acc)
  | x :: xs => let r := sendIn C side s x; sendRun C side r.1 (acc ++ r.2.1) xs

/-- `(phase, plaintext)` of the `send` inputs in a trace -/
def sendIns : List SIn → List (String × Bytes)
  | [] => []
  | .send ph pt :: r => (ph, pt) :: sendIns r
  | _ :: r => sendIns r

def sealAll (C : Crypto) (side : String) (l : List (String × Bytes)) : List SEff :=
  l.map (fun e => (e.1, C.enc side e.1 e.2))

theorem sendDrainLoop_key (C : Crypto) (side : String) (s : SendD) (hk : s.key = true)
    (q : List (String × Bytes)) (acc : List SEff) :
    sendDrainLoop C side s q acc = (acc ++ sealAll C side q, none) := by
  induction q generalizing acc with
  | nil => simp [sendDrainLoop, sealAll]
  | cons e r ih =>
    obtain ⟨ph, pt⟩ := e
    simp [sendDrainLoop, encryptAndSend, hk, ih, sealAll]

structure SendInv (C : Crypto) (side : String) (s : SendD) (effs : List SEff) (sends : List (String × Bytes)) : Prop where
  unverified : s.st = .S0_no_key → effs = [] ∧ s.queue = sends
  verified : s.st = .S1_verified_key → s.key = true ∧ s.queue = [] ∧ effs = sealAll C side sends

theorem sendIn_inv (C : Crypto) (side : String) (s : SendD) (effs : List SEff) (sends : List (String × Bytes))
    (x : SIn) (h : SendInv C side s effs sends) :
    SendInv C side (sendIn C side s x).1 (effs ++ (sendIn C side s x).2.1) (sends ++ sendIns [x]) := by
  obtain ⟨st, key, queue⟩ := s
  obtain ⟨h0, h1⟩ := h
  cases st <;> cases x <;> simp at h0 h1
  · -- S0, send
    obtain ⟨rfl, rfl⟩ := h0
    constructor <;> simp [sendIn, sendStep, Send.table, sendOuts, sendOut, sendIns]
  · -- S0, verified
    obtain ⟨rfl, rfl⟩ := h0
    constructor <;>
      simp [sendIn, sendStep, Send.table, sendOuts, sendOut, sendIns, sendDrainLoop_key]
  · -- S1, send
    obtain ⟨rfl, rfl, rfl⟩ := h1
    constructor <;>
      simp [sendIn, sendStep, Send.table, sendOuts, sendOut, sendIns, encryptAndSend, sealAll]
  · -- S1, verified: NoTransition
    obtain ⟨rfl, rfl, rfl⟩ := h1
    constructor <;> simp [sendIn, sendStep, Send.table, sendIns]

theorem sendIns_cons (x : SIn) (xs : List SIn) : sendIns (x :: xs) = sendIns [x] ++ sendIns xs := by
  cases x <;> simp [sendIns]

theorem sendRun_inv (C : Crypto) (side : String) (tr : List SIn) (s : SendD) (effs : List SEff)
    (sends : List (String × Bytes)) (h : SendInv C side s effs sends) :
    SendInv C side (sendRun C side s effs tr).1 (sendRun C side s effs tr).2 (sends ++ sendIns tr) := by
  induction tr generalizing s effs sends with
  | nil => simpa [sendRun, sendIns] using h
  | cons x xs ih =>
    have := ih _ _ _ (sendIn_inv C side s effs sends x h)
    simp only [sendRun]
    rw [sendIns_cons x xs, ← List.append_assoc]
    exact this

/-! ## SequenceObserver -/

def obsRun (o : Obs) : List ObsOp → Obs
  | [] => o
  | x :: xs => obsRun (o.op x) xs

def getsOf : List ObsOp → Nat
  | [] => 0
  | .get :: r => getsOf r + 1
  | _ :: r => getsOf r

def firesOf : List ObsOp → List Bytes
  | [] => []
  | .fire v :: r => v :: firesOf r
  | _ :: r => firesOf r

/-- Deferred ids are handed out in call order, values are consumed in firing order, and a waiting
    Deferred never coexists with an unclaimed result -/
structure ObsInv (o : Obs) (fires : List Bytes) : Prop where
  noerr : o.error = false
  ids : (o.fired ++ o.queue).map (·.1) ++ o.observers = List.range o.nextId
  vals : (o.fired ++ o.queue).map (·.2) ++ o.results.map CbVal.ok = fires.map CbVal.ok
  excl : o.results = [] ∨ o.observers = []

theorem obsOp_inv (o : Obs) (fires : List Bytes) (x : ObsOp) (h : ObsInv o fires) :
    ObsInv (o.op x) (fires ++ firesOf [x]) ∧ (o.op x).nextId = o.nextId + getsOf [x] := by
  obtain ⟨err, results, observers, queue, fired, nextId⟩ := o
  obtain ⟨h1, h2, h3, h4⟩ := h
  simp at h1 h2 h3 h4
  subst h1
  cases x with
  | turn =>
    refine ⟨⟨rfl, ?_, ?_, h4⟩, rfl⟩ <;> (try simp [Obs.op, Obs.turn, Obs.get, Obs.fire, firesOf, getsOf]) <;>
      (try (first | exact h2 | exact h3 | (rw [← h2]; simp; done) | (rw [← h3]; simp; done) | (rw [List.range_succ, ← h2]; simp; done)))
  | get =>
    cases results with
    | nil =>
      refine ⟨⟨rfl, ?_, ?_, Or.inl rfl⟩, rfl⟩ <;> (try simp [Obs.op, Obs.turn, Obs.get, Obs.fire, firesOf, getsOf]) <;>
      (try (first | exact h2 | exact h3 | (rw [← h2]; simp; done) | (rw [← h3]; simp; done) | (rw [List.range_succ, ← h2]; simp; done)))
    | cons r rs =>
      have hobs : observers = [] := by simpa using h4
      subst hobs
      refine ⟨⟨rfl, ?_, ?_, Or.inr rfl⟩, rfl⟩ <;> (try simp [Obs.op, Obs.turn, Obs.get, Obs.fire, firesOf, getsOf]) <;>
      (try (first | exact h2 | exact h3 | (rw [← h2]; simp; done) | (rw [← h3]; simp; done) | (rw [List.range_succ, ← h2]; simp; done)))
  | fire v =>
    cases observers with
    | nil =>
      cases results <;> refine ⟨⟨rfl, ?_, ?_, Or.inr rfl⟩, rfl⟩ <;> (try simp [Obs.op, Obs.turn, Obs.get, Obs.fire, firesOf, getsOf]) <;>
      (try (first | exact h2 | exact h3 | (rw [← h2]; simp; done) | (rw [← h3]; simp; done) | (rw [List.range_succ, ← h2]; simp; done)))
    | cons d ds =>
      have hres : results = [] := by simpa using h4
      subst hres
      refine ⟨⟨rfl, ?_, ?_, Or.inl rfl⟩, rfl⟩ <;> (try simp [Obs.op, Obs.turn, Obs.get, Obs.fire, firesOf, getsOf]) <;>
      (try (first | exact h2 | exact h3 | (rw [← h2]; simp; done) | (rw [← h3]; simp; done) | (rw [List.range_succ, ← h2]; simp; done)))

theorem firesOf_cons (x : ObsOp) (xs : List ObsOp) : firesOf (x :: xs) = firesOf [x] ++ firesOf xs := by
  cases x <;> simp [firesOf]
theorem getsOf_cons (x : ObsOp) (xs : List ObsOp) : getsOf (x :: xs) = getsOf [x] + getsOf xs := by
  cases x <;> simp [getsOf]; omega

theorem obsRun_inv (tr : List ObsOp) (o : Obs) (fires : List Bytes) (h : ObsInv o fires) :
    ObsInv (obsRun o tr) (fires ++ firesOf tr) ∧ (obsRun o tr).nextId = o.nextId + getsOf tr := by
  induction tr generalizing o fires with
  | nil => simpa [obsRun, firesOf, getsOf] using h
  | cons x xs ih =>
    have hs := obsOp_inv o fires x h
    have := ih _ _ hs.1
    simp only [obsRun]
    rw [firesOf_cons x xs, getsOf_cons x xs, ← List.append_assoc, ← Nat.add_assoc, ← hs.2]
    exact this


/-! ## Pipe -/

theorem getElem?_append_some {α : Type} (l l2 : List α) (q : Nat) (v : α) (h : l[q]? = some v) :
    (l ++ l2)[q]? = some v := by
  have hq : q < l.length := by
    by_cases hc : q < l.length
    · exact hc
    · have : l[q]? = none := List.getElem?_eq_none (by omega)
      rw [this] at h; cases h
  rw [List.getElem?_append_left hq]; exact h

/-- what the loop preserves, relative to the list `sent` of everything the peer has sent -/
structure LoopInv (sent : List Bytes) (seen : List Nat) (b : RxBuf) (ds : List Bytes) : Prop where
  buf : ∀ q v, dget b.phases q = some v → sent[q]? = some v
  recv : ds = sent.take b.next
  le : b.next ≤ sent.length
  seen : ∀ q ∈ seen, q < b.next ∨ dget b.phases q ≠ none

theorem rxLoop_sent (sent : List Bytes) (seen : List Nat) (fuel : Nat) (b : RxBuf) (acc : List Bytes)
    (hf : b.phases.length ≤ fuel) (h : LoopInv sent seen b acc) :
    LoopInv sent seen (rxLoop fuel b acc).1 (rxLoop fuel b acc).2 ∧
      dget (rxLoop fuel b acc).1.phases (rxLoop fuel b acc).1.next = none := by
  induction fuel generalizing b acc with
  | zero =>
    simp only [rxLoop]
    exact ⟨h, dget_nil_of_length_zero _ _ (by omega)⟩
  | succ n ih =>
    unfold rxLoop
    cases hg : dget b.phases b.next with
    | none => exact ⟨h, hg⟩
    | some v =>
      simp only []
      have hv := h.buf _ _ hg
      have hlt : b.next < sent.length := by
        by_cases hc : b.next < sent.length
        · exact hc
        · have : sent[b.next]? = none := List.getElem?_eq_none (by omega)
          rw [this] at hv; cases hv
      apply ih
      · have := dpop_length_lt b.phases b.next v hg
        simp; omega
      · constructor
        · intro q w hq
          simp only [dget_dpop] at hq
          by_cases hn : b.next = q
          · simp [hn] at hq
          · simp [hn] at hq; exact h.buf q w hq
        · simp only []
          rw [List.take_add_one, hv, h.recv]; simp
        · simp only []; omega
        · intro q hq
          simp only [dget_dpop]
          rcases h.seen q hq with h1 | h1
          · exact Or.inl (by omega)
          · by_cases hn : b.next = q
            · exact Or.inl (by omega)
            · simp [hn]; exact Or.inr h1

structure PipeInv (p : Pipe) : Prop where
  ntx : p.tx.nextTx = p.sent.length
  bag : ∀ (i ph : Nat) (body : Bytes), p.bag[i]? = some (ph, body) → p.sent[ph]? = some body
  loop : LoopInv p.sent p.processed p.rx p.received
  clean : dget p.rx.phases p.rx.next = none

theorem pipeInit_inv : PipeInv pipeInit := by
  constructor
  · rfl
  · intro i ph body h; simp [pipeInit] at h
  · constructor
    · intro q v h; simp [pipeInit, rxInit, dget] at h
    · simp [pipeInit, rxInit]
    · simp [pipeInit, rxInit]
    · intro q h; simp [pipeInit] at h
  · simp [pipeInit, rxInit, dget]

theorem pipeStep_inv (p : Pipe) (a : Act) (h : PipeInv p) : PipeInv (p.step a) := by
  obtain ⟨hn, hb, hl, hc⟩ := h
  cases a with
  | send pt =>
    simp only [Pipe.step, takeTxPhase]
    constructor
    · simp [hn]
    · intro i ph body hi
      simp only [] at hi ⊢
      by_cases hlt : i < p.bag.length
      · rw [List.getElem?_append_left hlt] at hi
        exact getElem?_append_some _ _ _ _ (hb i ph body hi)
      · rw [List.getElem?_append_right (by omega)] at hi
        by_cases h0 : i - p.bag.length = 0
        · simp [h0] at hi
          obtain ⟨rfl, rfl⟩ := hi
          rw [hn]; simp
        · have : ([(p.tx.nextTx, pt)] : List (Nat × Bytes))[i - p.bag.length]? = none :=
            List.getElem?_eq_none (by simp; omega)
          rw [this] at hi; cases hi
    · constructor
      · intro q v hq; exact getElem?_append_some _ _ _ _ (hl.buf q v hq)
      · simp only []; rw [List.take_append_of_le_length hl.le]; exact hl.recv
      · simp only [List.length_append]; have := hl.le; omega
      · exact hl.seen
    · exact hc
  | deliver i =>
    simp only [Pipe.step]
    cases hi : p.bag[i]? with
    | none => exact ⟨hn, hb, hl, hc⟩
    | some e =>
      obtain ⟨ph, body⟩ := e
      simp only []
      by_cases hp : ph ∈ p.processed
      · simp only [acceptPhase, hp, if_true]
        exact ⟨hn, hb, hl, hc⟩
      · simp only [acceptPhase, hp, if_false]
        have hsent := hb i ph body hi
        have key := rxLoop_sent p.sent (p.processed ++ [ph]) (dset p.rx.phases ph body).length
          { next := p.rx.next, phases := dset p.rx.phases ph body } p.received (Nat.le_refl _)
          (by
            constructor
            · intro q v hq
              simp only [dget_dset] at hq
              by_cases he : ph = q
              · simp [he] at hq; rw [← he, ← hq]; exact hsent
              · simp [he] at hq; exact hl.buf q v hq
            · exact hl.recv
            · exact hl.le
            · intro q hq
              simp only [dget_dset]
              rcases List.mem_append.mp hq with h1 | h1
              · rcases hl.seen q h1 with h2 | h2
                · exact Or.inl h2
                · by_cases he : ph = q
                  · simp [he]
                  · simp [he]; exact Or.inr h2
              · simp at h1; simp [h1])
        rw [rxLoop_acc] at key
        exact ⟨hn, hb, key.1, key.2⟩

theorem pipeRun_inv (acts : List Act) (p : Pipe) (h : PipeInv p) : PipeInv (p.run acts) := by
  induction acts generalizing p with
  | nil => exact h
  | cons a r ih => exact ih _ (pipeStep_inv p a h)

end WV.Proofs.C03
