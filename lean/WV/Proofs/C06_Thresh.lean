import WV.Model.C06
import WV.Proofs.C06_App
import WV.Proofs.C06_Cons

/-! Consumer mode in general: what `connectConsumer` does over a backlog of queued records, what
    `recordReceived` does while a consumer is attached, for any attached callback script — as equations
    between states of the call stack (`settle`). -/
namespace WV.C06
open WV

/-! ## the call stack, equationally -/

/-- one step of the call stack: `settle` does not depend on the fuel it is given -/
theorem settle_step (a : App) (fr : Frame) (ag : List Frame) :
    settle a (fr :: ag) = settle (appStep a fr).1 ((appStep a fr).2 ++ ag) := by
  have hd := appStep_decreases a fr ag
  unfold settle
  obtain ⟨p, hp⟩ : ∃ p, potential a (fr :: ag) = p + 1 := ⟨potential a (fr :: ag) - 1, by omega⟩
  rw [hp, runAgenda]
  cases hs : appStep a fr with
  | mk a' fs =>
    rw [hs] at hd
    simp only at hd ⊢
    rw [runAgenda_more (potential a' (fs ++ ag)) p a' (fs ++ ag) (Nat.le_refl _) (by omega)]

/-- the call stack is a stack: what lies below the frames `ag` runs after they have run to completion -/
theorem settle_seq : ∀ (n : Nat) (a : App) (ag ag2 : List Frame), potential a ag ≤ n →
    settle a (ag ++ ag2) = settle (settle a ag) ag2 := by
  intro n
  induction n with
  | zero =>
    intro a ag ag2 h
    cases ag with
    | nil => simp [settle_nil]
    | cons fr ag =>
      have := appStep_decreases a fr ag
      omega
  | succ n ih =>
    intro a ag ag2 h
    cases ag with
    | nil => simp [settle_nil]
    | cons fr ag =>
      have hd := appStep_decreases a fr ag
      rw [List.cons_append, settle_step, settle_step a fr ag, ← List.append_assoc]
      exact ih _ _ _ (by omega)

theorem settle_append (a : App) (ag ag2 : List Frame) : settle a (ag ++ ag2) = settle (settle a ag) ag2 :=
  settle_seq _ a ag ag2 (Nat.le_refl _)

theorem settle_cons (a : App) (fr : Frame) (ag : List Frame) : settle a (fr :: ag) = settle (settle a [fr]) ag :=
  settle_append a [fr] ag

/-! ## the threshold arithmetic of `_writeToConsumer` -/

/-- bytes in a list of records -/
def bytesOf (l : List Bytes) : Nat := l.flatten.length

/-- how many of the records `l`, in order, `_writeToConsumer` hands to a consumer that stands at `w` bytes and
    expects `N`: up to and including the first one with which the running total reaches `N` (`>=`); all of them
    if it never does -/
def cutAt (N : Nat) : Nat → List Bytes → Nat
  | _, [] => 0
  | w, r :: l => if N ≤ w + r.length then 1 else 1 + cutAt N (w + r.length) l

/-- what a consumer sees of the records `l`: one `write()` each (a flow-controlled consumer pauses its producer
    inside every `write()`) -/
def wrEvs (fc : Bool) (l : List Bytes) : List Ev :=
  l.flatMap (fun r => Ev.cwrite r :: (if fc then [Ev.tpause] else []))

theorem bytesOf_nil : bytesOf [] = 0 := rfl

theorem bytesOf_cons (r : Bytes) (l : List Bytes) : bytesOf (r :: l) = r.length + bytesOf l := by
  simp [bytesOf]

theorem bytesOf_append (l l' : List Bytes) : bytesOf (l ++ l') = bytesOf l + bytesOf l' := by
  simp [bytesOf]

theorem wrEvs_nil (fc : Bool) : wrEvs fc [] = [] := rfl

theorem wrEvs_cons (fc : Bool) (r : Bytes) (l : List Bytes) : wrEvs fc (r :: l) = wrEvs fc [r] ++ wrEvs fc l := by
  simp [wrEvs]

theorem wrEvs_append (fc : Bool) (l l' : List Bytes) : wrEvs fc (l ++ l') = wrEvs fc l ++ wrEvs fc l' := by
  simp [wrEvs]

theorem writeEvents_eq (a : App) (r : Bytes) : writeEvents a r false = wrEvs a.fcConsumer [r] := by
  simp [writeEvents, wrEvs]

theorem cutAt_le (N : Nat) : ∀ (l : List Bytes) (w : Nat), cutAt N w l ≤ l.length := by
  intro l
  induction l with
  | nil => intro w; simp [cutAt]
  | cons r l ih =>
    intro w
    simp only [cutAt]
    split
    · simp
    · have := ih (w + r.length); simp; omega

/-- the threshold is never reached: everything is written -/
theorem cutAt_all (N : Nat) : ∀ (l : List Bytes) (w : Nat), w + bytesOf l < N → cutAt N w l = l.length := by
  intro l
  induction l with
  | nil => intro w _; rfl
  | cons r l ih =>
    intro w h
    rw [bytesOf_cons] at h
    simp only [cutAt]
    rw [if_neg (by omega), ih (w + r.length) (by omega)]
    simp; omega

/-- the threshold is reached: `cutAt` is the position of the first record with which the running total is `≥ N` -/
theorem cutAt_spec (N : Nat) : ∀ (l : List Bytes) (w : Nat), w < N → N ≤ w + bytesOf l →
    0 < cutAt N w l ∧ cutAt N w l ≤ l.length ∧
    w + bytesOf (l.take (cutAt N w l - 1)) < N ∧ N ≤ w + bytesOf (l.take (cutAt N w l)) := by
  intro l
  induction l with
  | nil => intro w h1 h2; simp [bytesOf] at h2; omega
  | cons r l ih =>
    intro w h1 h2
    rw [bytesOf_cons] at h2
    simp only [cutAt]
    by_cases hr : N ≤ w + r.length
    · rw [if_pos hr]
      refine ⟨by omega, by simp, ?_, ?_⟩
      · simpa [bytesOf] using h1
      · simp [bytesOf]; omega
    · rw [if_neg hr]
      obtain ⟨i1, i2, i3, i4⟩ := ih (w + r.length) (by omega) (by omega)
      refine ⟨by omega, by simp; omega, ?_, ?_⟩
      · obtain ⟨k', hk'⟩ : ∃ k', cutAt N (w + r.length) l = k' + 1 := ⟨cutAt N (w + r.length) l - 1, by omega⟩
        rw [hk'] at i3 ⊢
        simp only [Nat.add_sub_cancel] at i3
        have : 1 + (k' + 1) - 1 = k' + 1 := by omega
        rw [this, List.take_succ_cons, bytesOf_cons]
        omega
      · have : 1 + cutAt N (w + r.length) l = cutAt N (w + r.length) l + 1 := by omega
        rw [this, List.take_succ_cons, bytesOf_cons]
        omega

/-- … and it is the only such position -/
theorem cutAt_unique (N : Nat) (l : List Bytes) (w k : Nat) (hk : 0 < k) (hkl : k ≤ l.length)
    (h1 : w + bytesOf (l.take (k - 1)) < N) (h2 : N ≤ w + bytesOf (l.take k)) : cutAt N w l = k := by
  induction l generalizing w k with
  | nil => simp at hkl; omega
  | cons r l ih =>
    obtain ⟨k', rfl⟩ : ∃ k', k = k' + 1 := ⟨k - 1, by omega⟩
    simp only [Nat.add_sub_cancel] at h1
    rw [List.take_succ_cons, bytesOf_cons] at h2
    simp only [cutAt]
    cases k' with
    | zero =>
      simp [bytesOf] at h2
      rw [if_pos (by omega)]
    | succ k'' =>
      rw [List.take_succ_cons, bytesOf_cons] at h1
      rw [if_neg (by omega)]
      have := ih (w + r.length) (k'' + 1) (by omega) (by simpa using hkl)
        (by simp only [Nat.add_sub_cancel]; omega) (by omega)
      omega

/-! ## `_writeToConsumer`, below and at the threshold -/

theorem writeToConsumer_below (a : App) (k : Consumer) (r : Bytes)
    (h : ∀ N, k.expected = some N → k.written + r.length < N) :
    writeToConsumer a k r false =
      ({ a with consumer := some { k with written := k.written + r.length },
                log := a.log ++ wrEvs a.fcConsumer [r] }, []) := by
  simp only [writeToConsumer, writeEvents_eq]
  cases hx : k.expected with
  | none => rfl
  | some N =>
    have := h N hx
    simp only
    rw [if_neg (by omega)]

theorem writeToConsumer_reach (a : App) (k : Consumer) (r : Bytes) (N : Nat) (hx : k.expected = some N)
    (h : N ≤ k.written + r.length) :
    writeToConsumer a k r false =
      consumerDone { a with consumer := none, log := a.log ++ wrEvs a.fcConsumer [r] ++ [.unreg] } k
        (k.written + r.length) := by
  simp only [writeToConsumer, writeEvents_eq, hx]
  rw [if_pos (by omega)]
  rfl

/-! ## the drain loop of `connectConsumer` over a backlog -/

theorem settle_drain_cons (a : App) (k : Consumer) (r : Bytes) (q : List Bytes)
    (hk : a.consumer = some k) (hq : a.inbound = r :: q) :
    settle a [.drain] = settle (writeToConsumer { a with inbound := q } k r false).1
      ((writeToConsumer { a with inbound := q } k r false).2 ++ [.drain]) := by
  rw [settle_step]
  simp only [appStep, hk, hq, List.append_nil]

theorem settle_drain_stop (a : App) (h : a.consumer = none ∨ a.inbound = []) : settle a [.drain] = a := by
  rw [settle_step]
  have : appStep a .drain = (a, []) := by
    simp only [appStep]
    split
    · rename_i k r rs hk hi
      rcases h with h | h
      · rw [h] at hk; simp at hk
      · rw [h] at hi; simp at hi
    · rfl
  rw [this]
  exact settle_nil a

/-- the backlog does not reach the count (or there is no count): the loop writes all of it and the consumer
    stays attached -/
theorem drain_pending : ∀ (q : List Bytes) (a : App) (k : Consumer),
    a.consumer = some k → a.inbound = q → (∀ N, k.expected = some N → k.written + bytesOf q < N) →
    settle a [.drain] = { a with inbound := [], consumer := some { k with written := k.written + bytesOf q },
                                 log := a.log ++ wrEvs a.fcConsumer q } := by
  intro q
  induction q with
  | nil =>
    intro a k hk hq _
    rw [settle_drain_stop a (.inr hq)]
    cases a
    simp only at hk hq
    subst hk hq
    simp [bytesOf, wrEvs]
  | cons r q ih =>
    intro a k hk hq hlt
    rw [settle_drain_cons a k r q hk hq,
      writeToConsumer_below _ k r (fun N hN => by have := hlt N hN; rw [bytesOf_cons] at this; omega)]
    simp only [List.nil_append]
    rw [ih _ { k with written := k.written + r.length } rfl rfl
      (fun N hN => by have := hlt N hN; rw [bytesOf_cons] at this; simp only; omega)]
    simp [bytesOf, wrEvs, Nat.add_assoc]

/-- the backlog reaches the count: the loop writes the records up to and including the one that reaches it, the
    consumer is disconnected, the Deferred (nobody has a callback on it yet) keeps the count, and the loop stops:
    the rest of the backlog stays queued -/
theorem drain_reach (N : Nat) : ∀ (q : List Bytes) (a : App) (k : Consumer),
    a.consumer = some k → a.inbound = q → k.expected = some N → k.cb = none → k.written < N →
    N ≤ k.written + bytesOf q →
    settle a [.drain] =
      { a with inbound := q.drop (cutAt N k.written q), consumer := none,
               log := a.log ++ wrEvs a.fcConsumer (q.take (cutAt N k.written q)) ++ [.unreg],
               storedDone := a.storedDone ++ [(k.cid, k.written + bytesOf (q.take (cutAt N k.written q)))] } := by
  intro q
  induction q with
  | nil =>
    intro a k _ _ _ _ h1 h2
    simp [bytesOf] at h2; omega
  | cons r q ih =>
    intro a k hk hq hx hcb hw hge
    rw [settle_drain_cons a k r q hk hq]
    rw [bytesOf_cons] at hge
    simp only [cutAt]
    by_cases hr : N ≤ k.written + r.length
    · rw [if_pos hr, writeToConsumer_reach _ k r N hx hr]
      simp only [consumerDone, hcb, List.nil_append]
      rw [settle_drain_stop _ (.inl rfl)]
      simp [bytesOf]
    · rw [if_neg hr, writeToConsumer_below _ k r (fun N' hN' => by rw [hx] at hN'; cases hN'; omega)]
      simp only [List.nil_append]
      rw [ih _ { k with written := k.written + r.length } rfl rfl hx hcb (by simp only; omega) (by simp only; omega)]
      have h1 : 1 + cutAt N (k.written + r.length) q = cutAt N (k.written + r.length) q + 1 := by omega
      simp only [h1, List.take_succ_cons, List.drop_succ_cons]
      simp [bytesOf, wrEvs, Nat.add_assoc]

/-! ## `connectConsumer` as a whole -/

/-- the numbers of `connectConsumer` calls are used once: nothing is stored under the number the next call will
    get (an invariant of every run: `run_freshCid`) -/
def FreshCid (a : App) : Prop :=
  (∀ p ∈ a.storedDone, p.1 < a.nextCid) ∧ (∀ k, a.consumer = some k → k.cid < a.nextCid)

theorem lookupDone_none_of (l : List (Nat × Nat)) (cid : Nat) (h : ∀ p ∈ l, p.1 ≠ cid) : lookupDone l cid = none := by
  unfold lookupDone
  rw [List.find?_eq_none.mpr (by intro p hp; simpa using h p hp)]
  rfl

theorem lookupDone_snoc (l : List (Nat × Nat)) (cid w : Nat) (h : ∀ p ∈ l, p.1 ≠ cid) :
    lookupDone (l ++ [(cid, w)]) cid = some w := by
  unfold lookupDone
  rw [List.find?_append, List.find?_eq_none.mpr (by intro p hp; simpa using h p hp)]
  simp

theorem filter_snoc (l : List (Nat × Nat)) (cid w : Nat) (h : ∀ p ∈ l, p.1 ≠ cid) :
    (l ++ [(cid, w)]).filter (fun p => p.1 != cid) = l := by
  rw [List.filter_append, List.filter_eq_self.mpr (by intro p hp; simpa using h p hp)]
  simp

theorem FreshCid.ne {a : App} (h : FreshCid a) : ∀ p ∈ a.storedDone, p.1 ≠ a.nextCid :=
  fun p hp => Nat.ne_of_lt (h.1 p hp)

/-- `connectConsumer(consumer, expected)` / `writeToFile` as one action of a script; `fc`: with a consumer that
    pauses its producer in every `write()` -/
def consumeAct : Bool → Option Nat → List Act → Act
  | true, ex, s => .consumeFC ex s
  | false, ex, s => .consume ex s

theorem settle_consumeAct (a : App) (fc : Bool) (ex : Option Nat) (s rest : List Act) :
    settle a [.script (consumeAct fc ex s :: rest)] =
      settle (attachConsumer a ex fc s rest).1 (attachConsumer a ex fc s rest).2 := by
  rw [settle_step]
  cases fc <;> simp [consumeAct, appStep]

def kickEvs (fc : Bool) : List Ev := Ev.ckick :: (if fc then [Ev.tpause] else [])

/-- `connectConsumer` has returned with the consumer still attached: the whole backlog was written to it, in
    order, the count starts from the bytes of the backlog alone, and the caller's callback `s` is on the Deferred -/
def attachedState (a : App) (ex : Option Nat) (fc : Bool) (s : List Act) : App :=
  { a with inbound := [], consumer := some ⟨a.nextCid, bytesOf a.inbound, ex, some s⟩, nextCid := a.nextCid + 1,
           fcConsumer := fc, log := a.log ++ [.reg] ++ wrEvs fc a.inbound }

/-- the count was reached by the first `k` records of the backlog, inside `connectConsumer`: the state in which
    the caller's callback starts (it is attached to a Deferred that has fired already) -/
def doneState (a : App) (fc : Bool) (k : Nat) : App :=
  { a with inbound := a.inbound.drop k, nextCid := a.nextCid + 1, fcConsumer := fc,
           log := a.log ++ [.reg] ++ wrEvs fc (a.inbound.take k) ++ [.unreg, .cdone (bytesOf (a.inbound.take k))] }

/-- `expected = 0`: one empty write, disconnected at once, nothing taken from the backlog -/
def kickedState (a : App) (fc : Bool) : App :=
  { a with nextCid := a.nextCid + 1, fcConsumer := fc, log := a.log ++ [.reg] ++ kickEvs fc ++ [.unreg, .cdone 0] }

theorem attachConsumer_none (a : App) (ex : Option Nat) (fc : Bool) (s rest : List Act) (hc : a.consumer = none) :
    attachConsumer a ex fc s rest = finishAttach { a with log := a.log ++ [.reg] } ex fc s rest := by
  simp only [attachConsumer, hc]

/-- a second `connectConsumer` while one is attached: `RuntimeError` leaves the call (and ends the callback that
    made it); nothing else happens — no `registerProducer`, no counter reset, no record moved -/
theorem attach_twice_raises (a : App) (k : Consumer) (ex : Option Nat) (fc : Bool) (s rest : List Act)
    (hc : a.consumer = some k) :
    settle a [.script (consumeAct fc ex s :: rest)] = a.emit [.raised .runtimeError] := by
  rw [settle_consumeAct]
  simp only [attachConsumer, hc]
  exact settle_nil _

theorem attach_pending (a : App) (ex : Option Nat) (fc : Bool) (s rest : List Act) (hc : a.consumer = none)
    (hf : FreshCid a) (hlt : ∀ N, ex = some N → bytesOf a.inbound < N) :
    settle a [.script (consumeAct fc ex s :: rest)] = settle (attachedState a ex fc s) [.script rest] := by
  have h0 : ex ≠ some 0 := by intro h; have := hlt 0 h; omega
  rw [settle_consumeAct, attachConsumer_none a ex fc s rest hc]
  simp only [finishAttach, if_neg h0, List.nil_append]
  have hd := drain_pending a.inbound
    { a with consumer := some ⟨a.nextCid, 0, ex, none⟩, nextCid := a.nextCid + 1, fcConsumer := fc,
             log := a.log ++ [.reg] }
    ⟨a.nextCid, 0, ex, none⟩ rfl rfl (fun N hN => by simpa using hlt N hN)
  rw [settle_cons _ .drain, hd, settle_step]
  simp only [appStep, lookupDone_none_of a.storedDone a.nextCid hf.ne, if_true, List.nil_append]
  simp [attachedState]

theorem attach_reach (a : App) (N : Nat) (fc : Bool) (s rest : List Act) (hc : a.consumer = none)
    (hf : FreshCid a) (hN : 0 < N) (hge : N ≤ bytesOf a.inbound) :
    settle a [.script (consumeAct fc (some N) s :: rest)] =
      settle (doneState a fc (cutAt N 0 a.inbound)) [.script s, .script rest] := by
  have h0 : (some N : Option Nat) ≠ some 0 := by intro h; cases h; omega
  rw [settle_consumeAct, attachConsumer_none a (some N) fc s rest hc]
  simp only [finishAttach, if_neg h0, List.nil_append]
  have hd := drain_reach N a.inbound
    { a with consumer := some ⟨a.nextCid, 0, some N, none⟩, nextCid := a.nextCid + 1, fcConsumer := fc,
             log := a.log ++ [.reg] }
    ⟨a.nextCid, 0, some N, none⟩ rfl rfl rfl rfl hN (by simpa using hge)
  rw [settle_cons _ .drain, hd, settle_step]
  simp only [appStep, lookupDone_snoc a.storedDone a.nextCid _ hf.ne, filter_snoc a.storedDone a.nextCid _ hf.ne]
  simp [doneState, App.emit, hc]

theorem attach_zero (a : App) (fc : Bool) (s rest : List Act) (hc : a.consumer = none) (hf : FreshCid a) :
    settle a [.script (consumeAct fc (some 0) s :: rest)] = settle (kickedState a fc) [.script s, .script rest] := by
  rw [settle_consumeAct, attachConsumer_none a (some 0) fc s rest hc]
  simp only [finishAttach, if_true, writeToConsumer, consumerDone, disconnectConsumer]
  simp only [Nat.zero_add, List.length_nil, ge_iff_le, Nat.le_refl, if_true, List.nil_append]
  rw [settle_cons _ .drain, settle_drain_stop _ (.inl rfl), settle_step]
  simp only [appStep, lookupDone_snoc a.storedDone a.nextCid _ hf.ne, filter_snoc a.storedDone a.nextCid _ hf.ne]
  simp [kickedState, kickEvs, writeEvents, App.emit, hc]

/-! ## records arriving while a consumer is attached -/

theorem arrive_below (a : App) (k : Consumer) (r : Bytes) (hk : a.consumer = some k)
    (h : ∀ N, k.expected = some N → k.written + r.length < N) :
    recordReceived a r = { a with consumer := some { k with written := k.written + r.length },
                                  log := a.log ++ wrEvs a.fcConsumer [r] } := by
  simp only [recordReceived, hk]
  rw [writeToConsumer_below a k r h]
  exact settle_nil _

theorem arrive_reach (a : App) (k : Consumer) (r : Bytes) (N : Nat) (s : List Act) (hk : a.consumer = some k)
    (hx : k.expected = some N) (hcb : k.cb = some s) (h : N ≤ k.written + r.length) :
    recordReceived a r =
      settle { a with consumer := none,
                      log := a.log ++ wrEvs a.fcConsumer [r] ++ [.unreg, .cdone (k.written + r.length)] }
        [.script s] := by
  simp only [recordReceived, hk]
  rw [writeToConsumer_reach a k r N hx h]
  simp [consumerDone, hcb, App.emit]

theorem arrivals_pending : ∀ (l : List Bytes) (a : App) (k : Consumer), a.consumer = some k →
    (∀ N, k.expected = some N → k.written + bytesOf l < N) →
    l.foldl recordReceived a = { a with consumer := some { k with written := k.written + bytesOf l },
                                        log := a.log ++ wrEvs a.fcConsumer l } := by
  intro l
  induction l with
  | nil =>
    intro a k hk _
    cases a
    simp only at hk
    subst hk
    simp [bytesOf, wrEvs]
  | cons r l ih =>
    intro a k hk hlt
    simp only [List.foldl_cons]
    rw [arrive_below a k r hk (fun N hN => by have := hlt N hN; rw [bytesOf_cons] at this; omega)]
    rw [ih _ { k with written := k.written + r.length } rfl
      (fun N hN => by have := hlt N hN; rw [bytesOf_cons] at this; simp only; omega)]
    simp [bytesOf, wrEvs, Nat.add_assoc]

theorem arrivals_reach (N : Nat) (s : List Act) : ∀ (l : List Bytes) (a : App) (k : Consumer),
    a.consumer = some k → k.expected = some N → k.cb = some s → k.written < N → N ≤ k.written + bytesOf l →
    l.foldl recordReceived a =
      (l.drop (cutAt N k.written l)).foldl recordReceived
        (settle { a with consumer := none,
                         log := a.log ++ wrEvs a.fcConsumer (l.take (cutAt N k.written l)) ++
                           [.unreg, .cdone (k.written + bytesOf (l.take (cutAt N k.written l)))] }
          [.script s]) := by
  intro l
  induction l with
  | nil =>
    intro a k _ _ _ h1 h2
    simp [bytesOf] at h2; omega
  | cons r l ih =>
    intro a k hk hx hcb hw hge
    rw [bytesOf_cons] at hge
    simp only [List.foldl_cons, cutAt]
    by_cases hr : N ≤ k.written + r.length
    · rw [if_pos hr, arrive_reach a k r N s hk hx hcb hr]
      simp [bytesOf]
    · rw [if_neg hr, arrive_below a k r hk (fun N' hN' => by rw [hx] at hN'; cases hN'; omega)]
      rw [ih _ { k with written := k.written + r.length } rfl hx hcb (by simp only; omega) (by simp only; omega)]
      have h1 : 1 + cutAt N (k.written + r.length) l = cutAt N (k.written + r.length) l + 1 := by omega
      simp only [h1, List.take_succ_cons, List.drop_succ_cons]
      simp [bytesOf, wrEvs, Nat.add_assoc]

/-! ## a whole consumer session: the backlog, then what arrives -/

theorem cutAt_append_left (N : Nat) (l' : List Bytes) : ∀ (l : List Bytes) (w : Nat), w < N → N ≤ w + bytesOf l →
    cutAt N w (l ++ l') = cutAt N w l := by
  intro l
  induction l with
  | nil => intro w h1 h2; simp [bytesOf] at h2; omega
  | cons r l ih =>
    intro w h1 h2
    rw [bytesOf_cons] at h2
    simp only [List.cons_append, cutAt]
    by_cases hr : N ≤ w + r.length
    · rw [if_pos hr, if_pos hr]
    · rw [if_neg hr, if_neg hr, ih (w + r.length) (by omega) (by omega)]

theorem cutAt_append_right (N : Nat) (l' : List Bytes) : ∀ (l : List Bytes) (w : Nat), w + bytesOf l < N →
    cutAt N w (l ++ l') = l.length + cutAt N (w + bytesOf l) l' := by
  intro l
  induction l with
  | nil => intro w _; simp [bytesOf]
  | cons r l ih =>
    intro w h
    rw [bytesOf_cons] at h
    simp only [List.cons_append, cutAt]
    rw [if_neg (by omega), ih (w + r.length) (by omega), bytesOf_cons]
    simp only [List.length_cons, Nat.add_assoc]
    omega

theorem appCall_consume_pending (a : App) (ex : Option Nat) (fc : Bool) (s : List Act) (hc : a.consumer = none)
    (hf : FreshCid a) (hlt : ∀ N, ex = some N → bytesOf a.inbound < N) :
    appCall a [consumeAct fc ex s] = attachedState a ex fc s := by
  unfold appCall
  rw [attach_pending a ex fc s [] hc hf hlt, settle_script_nil]

theorem appCall_consume_reach (a : App) (N : Nat) (fc : Bool) (s : List Act) (hc : a.consumer = none)
    (hf : FreshCid a) (hN : 0 < N) (hge : N ≤ bytesOf a.inbound) :
    appCall a [consumeAct fc (some N) s] = settle (doneState a fc (cutAt N 0 a.inbound)) [.script s] := by
  unfold appCall
  rw [attach_reach a N fc s [] hc hf hN hge, settle_cons, settle_script_nil]

theorem appCall_consume_zero (a : App) (fc : Bool) (s : List Act) (hc : a.consumer = none) (hf : FreshCid a) :
    appCall a [consumeAct fc (some 0) s] = settle (kickedState a fc) [.script s] := by
  unfold appCall
  rw [attach_zero a fc s [] hc hf, settle_cons, settle_script_nil]

/-- the state in which the consumer's Deferred fires, `k` records into the stream `backlog ++ arrivals` -/
def firedState (a : App) (fc : Bool) (l : List Bytes) (k : Nat) : App :=
  { a with inbound := a.inbound.drop k, nextCid := a.nextCid + 1, fcConsumer := fc,
           log := a.log ++ [.reg] ++ wrEvs fc ((a.inbound ++ l).take k) ++
             [.unreg, .cdone (bytesOf ((a.inbound ++ l).take k))] }

/-- consumer attached over the backlog `a.inbound`, then `l` arrives: the count is not reached (or there is none) -/
theorem session_pending (a : App) (ex : Option Nat) (fc : Bool) (s : List Act) (l : List Bytes)
    (hc : a.consumer = none) (hf : FreshCid a) (hlt : ∀ N, ex = some N → bytesOf (a.inbound ++ l) < N) :
    l.foldl recordReceived (appCall a [consumeAct fc ex s]) =
      { a with inbound := [], consumer := some ⟨a.nextCid, bytesOf (a.inbound ++ l), ex, some s⟩,
               nextCid := a.nextCid + 1, fcConsumer := fc, log := a.log ++ [.reg] ++ wrEvs fc (a.inbound ++ l) } := by
  rw [appCall_consume_pending a ex fc s hc hf
    (fun N hN => by have := hlt N hN; rw [bytesOf_append] at this; omega)]
  rw [arrivals_pending l (attachedState a ex fc s) ⟨a.nextCid, bytesOf a.inbound, ex, some s⟩ rfl
    (fun N hN => by have := hlt N hN; rw [bytesOf_append] at this; exact this)]
  simp [attachedState, bytesOf_append, wrEvs_append]

/-- … the count `N > 0` is reached, by the backlog already or by a record that arrives -/
theorem session_reach (a : App) (N : Nat) (fc : Bool) (s : List Act) (l : List Bytes)
    (hc : a.consumer = none) (hf : FreshCid a) (hN : 0 < N) (hge : N ≤ bytesOf (a.inbound ++ l)) :
    l.foldl recordReceived (appCall a [consumeAct fc (some N) s]) =
      (l.drop (cutAt N 0 (a.inbound ++ l) - a.inbound.length)).foldl recordReceived
        (settle (firedState a fc l (cutAt N 0 (a.inbound ++ l))) [.script s]) := by
  by_cases hq : N ≤ bytesOf a.inbound
  · -- reached inside `connectConsumer`
    have hk := cutAt_append_left N l a.inbound 0 hN (by simpa using hq)
    have hle := cutAt_le N a.inbound 0
    rw [appCall_consume_reach a N fc s hc hf hN hq, hk]
    have h0 : cutAt N 0 a.inbound - a.inbound.length = 0 := by omega
    rw [h0, List.drop_zero]
    have ht : (a.inbound ++ l).take (cutAt N 0 a.inbound) = a.inbound.take (cutAt N 0 a.inbound) := by
      rw [List.take_append_of_le_length hle]
    simp only [firedState, doneState, ht]
  · -- reached by a record that arrives
    have hlt : bytesOf a.inbound < N := by omega
    have hk := cutAt_append_right N l a.inbound 0 (by simpa using hlt)
    simp only [Nat.zero_add] at hk
    rw [appCall_consume_pending a (some N) fc s hc hf (fun N' hN' => by cases hN'; exact hlt)]
    rw [arrivals_reach N s l (attachedState a (some N) fc s) ⟨a.nextCid, bytesOf a.inbound, some N, some s⟩ rfl rfl rfl
      hlt (by rw [bytesOf_append] at hge; exact hge)]
    rw [hk]
    have h0 : a.inbound.length + cutAt N (bytesOf a.inbound) l - a.inbound.length = cutAt N (bytesOf a.inbound) l := by
      omega
    rw [h0]
    have ht : (a.inbound ++ l).take (a.inbound.length + cutAt N (bytesOf a.inbound) l) =
        a.inbound ++ l.take (cutAt N (bytesOf a.inbound) l) := by
      rw [List.take_append]
      simp [List.take_of_length_le]
    have hd : a.inbound.drop (a.inbound.length + cutAt N (bytesOf a.inbound) l) = [] :=
      List.drop_eq_nil_of_le (by omega)
    simp only [firedState, attachedState, ht, hd, hc, bytesOf_append, wrEvs_append]
    simp

/-- … `expected = 0` -/
theorem session_zero (a : App) (fc : Bool) (s : List Act) (l : List Bytes) (hc : a.consumer = none) (hf : FreshCid a) :
    l.foldl recordReceived (appCall a [consumeAct fc (some 0) s]) =
      l.foldl recordReceived (settle (kickedState a fc) [.script s]) := by
  rw [appCall_consume_zero a fc s hc hf]

/-! ## what a passive application sees of a session -/

theorem wrEvs_cw (fc : Bool) (l : List Bytes) : (wrEvs fc l).filterMap Ev.cw = l := by
  induction l with
  | nil => rfl
  | cons r l ih =>
    rw [wrEvs_cons, List.filterMap_append, ih]
    cases fc <;> simp [wrEvs, Ev.cw]

theorem wrEvs_doneVal (fc : Bool) (l : List Bytes) : (wrEvs fc l).filterMap Ev.doneVal = [] := by
  induction l with
  | nil => rfl
  | cons r l ih =>
    rw [wrEvs_cons, List.filterMap_append, ih]
    cases fc <;> simp [wrEvs, Ev.doneVal]

/-- the Deferred's callback does nothing and nobody is reading: after the count is reached the other records are
    queued, in order -/
theorem session_reach_passive (a : App) (N : Nat) (fc : Bool) (l : List Bytes)
    (hc : a.consumer = none) (hf : FreshCid a) (hw : a.waiting = []) (hN : 0 < N)
    (hge : N ≤ bytesOf (a.inbound ++ l)) :
    (l.foldl recordReceived (appCall a [consumeAct fc (some N) []])).consumer = none ∧
    (l.foldl recordReceived (appCall a [consumeAct fc (some N) []])).inbound =
      (a.inbound ++ l).drop (cutAt N 0 (a.inbound ++ l)) ∧
    (l.foldl recordReceived (appCall a [consumeAct fc (some N) []])).consumerWrites =
      a.consumerWrites ++ (a.inbound ++ l).take (cutAt N 0 (a.inbound ++ l)) ∧
    (l.foldl recordReceived (appCall a [consumeAct fc (some N) []])).dones =
      a.dones ++ [bytesOf ((a.inbound ++ l).take (cutAt N 0 (a.inbound ++ l)))] := by
  rw [session_reach a N fc [] l hc hf hN hge, settle_script_nil]
  obtain ⟨g1, g2, g3, g4⟩ := foldl_idle (l.drop (cutAt N 0 (a.inbound ++ l) - a.inbound.length))
    (firedState a fc l (cutAt N 0 (a.inbound ++ l))) hc hw
  refine ⟨g1, ?_, ?_, ?_⟩
  · rw [g4, List.drop_append]; rfl
  · rw [g2]
    have e1 : [Ev.reg].filterMap Ev.cw = [] := rfl
    have e2 : ∀ x, [Ev.unreg, Ev.cdone x].filterMap Ev.cw = [] := fun _ => rfl
    simp only [firedState, App.consumerWrites, List.filterMap_append, wrEvs_cw, e1, e2, List.append_nil]
  · rw [g3]
    have e1 : [Ev.reg].filterMap Ev.doneVal = [] := rfl
    have e2 : ∀ x, [Ev.unreg, Ev.cdone x].filterMap Ev.doneVal = [x] := fun _ => rfl
    simp only [firedState, App.dones, List.filterMap_append, wrEvs_doneVal, e1, e2, List.append_nil]

end WV.C06
