import WV.Proofs.C17_Run
import WV.Proofs.C17_Ms

/-!
C17 helper lemmas, part 9: progress.  Once `Dilator.stop()` has run, cooperative completion
(`settle`) always reaches `S_stopped` / `B.closed()`.
-/
namespace WV.Proofs.C17
open WV WV.Gen WV.C17

variable {ps : String} {pend : List Thunk} {w : World}

/-! ## what `lost` events do -/

structure LoseRel (w w' : World) : Prop where
  ms : w'.ms = w.ms
  ts : w'.ts = w.ts
  conn : w'.conn = w.conn
  mySide : w'.mySide = w.mySide
  flags : ∀ (i : Nat) (y : Conn), w.conns[i]? = some y →
    ∃ y' : Conn, w'.conns[i]? = some y' ∧ y'.closing = y.closing ∧ (y.lost = true → y'.lost = true)

theorem LoseRel.refl (w : World) : LoseRel w w := ⟨rfl, rfl, rfl, rfl, fun _ y h => ⟨y, h, rfl, id⟩⟩

theorem LoseRel.trans {a b c : World} (h1 : LoseRel a b) (h2 : LoseRel b c) : LoseRel a c := by
  refine ⟨h2.ms.trans h1.ms, h2.ts.trans h1.ts, h2.conn.trans h1.conn, h2.mySide.trans h1.mySide, ?_⟩
  intro i y hy
  obtain ⟨y1, a1, a2, a3⟩ := h1.flags i y hy
  obtain ⟨y2, b1, b2, b3⟩ := h2.flags i y1 a1
  exact ⟨y2, b1, b2.trans a2, fun h => b3 (a3 h)⟩

/-- one conditional `lost` of `loseClosing` -/
def loseOne (c : Nat) (w : World) : World :=
  match w.conns[c]? with
  | some x => if x.closing && !x.lost then (step w (.lost c)).1 else w
  | none => w

theorem loseOne_rel (c : Nat) (w : World) : LoseRel w (loseOne c w) ∧
    ∀ y, (loseOne c w).conns[c]? = some y → y.closing = true → y.lost = true := by
  unfold loseOne
  cases hx : w.conns[c]? with
  | none => exact ⟨LoseRel.refl _, by intro y hy; simp [hx] at hy⟩
  | some x =>
    dsimp only
    by_cases hcl : (x.closing && !x.lost) = true
    · rw [if_pos hcl]
      have hl : x.lost = false := by
        cases h : x.lost <;> simp [h] at hcl ⊢
      simp only [step, hx, hl, Bool.false_eq_true, ↓reduceIte]
      refine ⟨⟨rfl, rfl, rfl, rfl, ?_⟩, ?_⟩
      · intro i y hy
        by_cases he : c = i
        · subst he
          rw [hx] at hy; cases hy
          exact ⟨{ x with lost := true, obsDiscard := false, obsMgr := false },
            by simp [List.getElem?_modify, hx], rfl, fun _ => rfl⟩
        · exact ⟨y, by simp [List.getElem?_modify, he, hy], rfl, id⟩
      · intro y hy _
        simp [List.getElem?_modify, hx] at hy
        rw [← hy]
    · rw [if_neg hcl]
      refine ⟨LoseRel.refl _, ?_⟩
      intro y hy hc
      rw [hx] at hy; cases hy
      cases h : x.lost
      · simp [hc, h] at hcl
      · rfl

theorem loseOne_inv (hps : ps < w.mySide ∨ w.mySide < ps) (h : Inv ps [] w) (htm : TimerOk w) (c : Nat) : Inv ps [] (loseOne c w) := by
  unfold loseOne
  split
  · split
    · exact step_inv hps h htm (.lost c) trivial
    · exact h
  · exact h

theorem loseOne_timerOk (htm : TimerOk w) (c : Nat) : TimerOk (loseOne c w) := by
  unfold loseOne
  split
  · split
    · exact (mm_step w (.lost c)).2 htm
    · exact htm
  · exact htm

theorem turn_timerOk (htm : TimerOk w) : TimerOk (turn w) := (mm_step w .turn).2 htm

theorem loseClosing_eq (l : List Nat) (w : World) :
    loseClosing l w = l.foldl (fun v c => loseOne c v) w := by
  induction l generalizing w with
  | nil => rfl
  | cons c cs ih => simp only [loseClosing, List.foldl]; rw [← ih]; rfl

theorem loseClosing_length (l : List Nat) : ∀ (v : World), (loseClosing l v).conns.length = v.conns.length := by
  induction l with
  | nil => intro v; rfl
  | cons a as ih2 =>
    intro v
    have : loseClosing (a :: as) v = loseClosing as (loseOne a v) := rfl
    rw [this, ih2]
    unfold loseOne
    split
    · split
      · simp only [step]
        split
        · rfl
        · split
          · rfl
          · simp
      · rfl
    · rfl

theorem loseClosing_spec (l : List Nat) : ∀ (w : World), (ps < w.mySide ∨ w.mySide < ps) → Inv ps [] w → TimerOk w →
    (Inv ps [] (loseClosing l w) ∧ TimerOk (loseClosing l w)) ∧ LoseRel w (loseClosing l w) ∧
    ∀ c ∈ l, ∀ y, (loseClosing l w).conns[c]? = some y → y.closing = true → y.lost = true := by
  induction l with
  | nil => intro w _ h htm; exact ⟨⟨h, htm⟩, LoseRel.refl _, by intro c hc; simp at hc⟩
  | cons c cs ih =>
    intro w hps h htm
    have e : loseClosing (c :: cs) w = loseClosing cs (loseOne c w) := rfl
    rw [e]
    obtain ⟨r1, d1⟩ := loseOne_rel c w
    have hps' : ps < (loseOne c w).mySide ∨ (loseOne c w).mySide < ps := by rw [r1.mySide]; exact hps
    obtain ⟨i2, r2, d2⟩ := ih (loseOne c w) hps' (loseOne_inv hps h htm c) (loseOne_timerOk htm c)
    refine ⟨i2, r1.trans r2, ?_⟩
    intro c' hc' y hy hcl
    rcases List.mem_cons.mp hc' with rfl | hc'
    · -- processed first; `lost` can only have stayed true since
      cases hmid : (loseOne c' w).conns[c']? with
      | none =>
        -- impossible: the table never shrinks
        by_cases hcs : c' ∈ cs
        · exact d2 c' hcs y hy hcl
        · -- the entry did not exist then, so it does not exist now (flags only relate existing entries): use d2-free argument
          have hlen := loseClosing_length
          have h1 : c' < (loseClosing cs (loseOne c' w)).conns.length := (List.getElem?_eq_some_iff.mp hy).1
          rw [hlen] at h1
          have : (loseOne c' w).conns[c']? ≠ none := by
            intro hn
            have := List.getElem?_eq_none_iff.mp hn
            omega
          exact absurd hmid this
      | some ym =>
        obtain ⟨y', e1, e2, e3⟩ := r2.flags c' ym hmid
        rw [hy] at e1; cases e1
        exact e3 (d1 ym hmid (by rw [← e2]; exact hcl))
    · exact d2 c' hc' y hy hcl

/-! ## what a turn does once the Manager is stopping -/

theorem connectionLost_stops (h : Inv ps (Thunk.mgrLost :: pend) w) (hms : w.ms = .STOPPING) (htm : TimerOk w) :
    (connectionLost w).1.ms = .STOPPED := by
  obtain ⟨c, x, hc, _⟩ := h.armed (by simp [core, hms, inConn])
  have hc' : w.conn = some c := hc
  obtain ⟨op, prs, heq⟩ := connectionLost_eq w htm
  rw [heq]
  simp only [hc', Option.isNone_some, Bool.false_eq_true, ↓reduceIte, lostWorld]
  split
  · simp only [mInput, hms, Manager.table]; rw [ms_mOuts]
  · simp only [mInput, hms, Manager.table]; rw [ms_mOuts]

theorem runThunks_stops (l : List Thunk) : ∀ (w : World), Inv ps (l ++ pend) w → TimerOk w → w.ms = .STOPPING → Thunk.mgrLost ∈ l →
    (runThunks l w).ms = .STOPPED := by
  induction l with
  | nil => intro w _ _ _ hm; simp at hm
  | cons t rest ih =>
    intro w h htm hms hm
    simp only [runThunks]
    have hinv : Inv ps (rest ++ pend) (runThunk t w) := runThunk_inv t h htm
    by_cases ht : t = Thunk.mgrLost
    · subst ht
      exact (msok_runThunks rest _).stopped (connectionLost_stops h hms htm)
    · have hm' : Thunk.mgrLost ∈ rest := by
        rcases List.mem_cons.mp hm with e | e
        · exact absurd e.symm ht
        · exact e
      rcases (msok_runThunk t w).stopping hms with e | e
      · exact ih _ hinv ((mm_runThunk t w).2 htm) e hm'
      · exact (msok_runThunks rest _).stopped e

theorem ts_runThunk (t : Thunk) (w : World) :
    (w.ts = .S_stopped → (runThunk t w).ts = .S_stopped) ∧
    (w.ts = .S_stoppingD → ((runThunk t w).ts = .S_stoppingD ∨ (runThunk t w).ts = .S_stopped)) ∧
    (w.ts = .S_stoppingD → t = .stoppedD → (runThunk t w).ts = .S_stopped) := by
  cases t with
  | accept g c =>
    have := (keep_logged (keep_cInput connectionMade keep_connectionMade g .accept c w)).ts
    exact ⟨fun h => this.trans h, fun h => Or.inl (this.trans h), fun _ e => by simp at e⟩
  | discard c => exact ⟨fun h => h, Or.inl, fun _ e => by simp at e⟩
  | mgrLost =>
    have := (keep_connectionLost w).ts
    exact ⟨fun h => this.trans h, fun h => Or.inl (this.trans h), fun _ e => by simp at e⟩
  | stoppedD =>
    refine ⟨?_, ?_, ?_⟩
    · intro h; simp [runThunk, termFuel, tInput, h, Terminator.table]
    · intro h; right; simp [runThunk, termFuel, tInput, h, Terminator.table, tOuts, andThen, emit]
    · intro h _; simp [runThunk, termFuel, tInput, h, Terminator.table, tOuts, andThen, emit]
  | waiter i ok =>
    obtain ⟨ws, rg, e⟩ := resolveWaiter_same i ok w
    have e' : runThunk (.waiter i ok) w = { w with waiters := ws, registered := rg } := e
    rw [e']
    exact ⟨fun h => h, Or.inl, fun _ e => by simp at e⟩

theorem runThunks_ts_stopped (l : List Thunk) (w : World) (h : w.ts = .S_stopped) : (runThunks l w).ts = .S_stopped := by
  induction l generalizing w with
  | nil => exact h
  | cons t rest ih => exact ih _ ((ts_runThunk t w).1 h)

theorem runThunks_ts_stoppingD (l : List Thunk) (w : World) (h : w.ts = .S_stoppingD) :
    (runThunks l w).ts = .S_stoppingD ∨ (runThunks l w).ts = .S_stopped := by
  induction l generalizing w with
  | nil => exact Or.inl h
  | cons t rest ih =>
    rcases (ts_runThunk t w).2.1 h with e | e
    · exact ih _ e
    · exact Or.inr (runThunks_ts_stopped rest _ e)

theorem runThunks_closes (l : List Thunk) (w : World) (h : w.ts = .S_stoppingD) (hm : Thunk.stoppedD ∈ l) :
    (runThunks l w).ts = .S_stopped := by
  induction l generalizing w with
  | nil => simp at hm
  | cons t rest ih =>
    simp only [runThunks]
    by_cases ht : t = Thunk.stoppedD
    · exact runThunks_ts_stopped rest _ ((ts_runThunk t w).2.2 h ht)
    · have hm' : Thunk.stoppedD ∈ rest := by
        rcases List.mem_cons.mp hm with e | e
        · exact absurd e.symm ht
        · exact e
      rcases (ts_runThunk t w).2.1 h with e | e
      · exact ih _ e hm'
      · exact runThunks_ts_stopped rest _ e

/-- after `Dilator.stop()`, cooperative completion reaches `S_stopped` and `B.closed()` has been
    called exactly once -/
theorem settle_closes (hps : ps < w.mySide ∨ w.mySide < ps) (h : Inv ps [] w) (htm : TimerOk w) (hts : w.ts = .S_stoppingD) :
    (settle w).ts = .S_stopped ∧ (settle w).closed = 1 := by
  unfold settle
  obtain ⟨⟨i1, t1⟩, r1, d1⟩ := loseClosing_spec (ps := ps) (List.range w.conns.length) w hps h htm
  generalize hw1 : loseClosing (List.range w.conns.length) w = w1 at i1 t1 r1 d1
  have hts1 : w1.ts = .S_stoppingD := r1.ts.trans hts
  have i2 : Inv ps [] (turn w1) := turn_inv i1 t1
  have i3 : Inv ps [] (turn (turn w1)) := turn_inv i2 (turn_timerOk t1)
  -- it is enough to reach S_stopped: the invariant ties `closed` to it
  suffices hfin : (turn (turn w1)).ts = .S_stopped by
    refine ⟨hfin, ?_⟩
    have := i3.tsC
    simp only [core] at this
    simp only [hfin, ↓reduceIte] at this
    exact this
  have second : ∀ v : World, Inv ps [] v → (v.ts = .S_stopped ∨ (v.ts = .S_stoppingD ∧ v.ms = .STOPPED)) →
      (turn v).ts = .S_stopped := by
    intro v iv hv
    rcases hv with hv | ⟨hv, hms⟩
    · exact runThunks_ts_stopped _ _ hv
    · obtain ⟨_, b⟩ := iv.tsB hv
      rcases b with ⟨_, b⟩ | ⟨b, _⟩
      · exact runThunks_closes _ _ hv (by simpa [core] using b)
      · have : v.ms = .STOPPING := b
        rw [hms] at this; cases this
  obtain ⟨_, b⟩ := i1.tsB hts1
  rcases b with ⟨hms, hq⟩ | ⟨hms, _⟩
  · -- already STOPPED: the first turn delivers T.stoppedD
    have : (turn w1).ts = .S_stopped := runThunks_closes _ _ hts1 (by simpa [core] using hq)
    exact second _ i2 (Or.inl this)
  · -- STOPPING: the active connection was told to close, so it has been reported lost
    have hms' : w1.ms = .STOPPING := hms
    obtain ⟨c, x, hc, hx, harm, hcl⟩ := i1.armed (by simp [core, hms', inConn])
    have hx' : w1.conns[c]? = some x := hx
    have hlt : c < w.conns.length := by
      have := (List.getElem?_eq_some_iff.mp hx').1
      rw [← hw1, loseClosing_length] at this
      exact this
    have hlost : x.lost = true := by
      rcases hcl (by simp [core, hms']) with e | e
      · exact d1 c (List.mem_range.mpr hlt) x hx' e
      · exact e
    have hq : Thunk.mgrLost ∈ w1.queue := by
      rcases harm with ⟨e, _⟩ | e
      · rw [hlost] at e; cases e
      · simpa [core] using e
    have hstopped : (turn w1).ms = .STOPPED := by
      unfold turn
      apply runThunks_stops (ps := ps) (pend := [])
      · simp only [List.append_nil]; exact InvC.startTurn (k := core w1) i1
      · exact t1
      · exact hms'
      · exact hq
    rcases runThunks_ts_stoppingD w1.queue { w1 with queue := [] } hts1 with e | e
    · exact second _ i2 (Or.inr ⟨e, hstopped⟩)
    · exact second _ i2 (Or.inl e)

end WV.Proofs.C17

namespace WV.Proofs.C17
open WV WV.Gen WV.C17

variable {ps : String} {w : World}

theorem loseClosing_ts (l : List Nat) (v : World) : (loseClosing l v).ts = v.ts := by
  induction l generalizing v with
  | nil => rfl
  | cons a as ih =>
    have : loseClosing (a :: as) v = loseClosing as (loseOne a v) := rfl
    rw [this, ih]
    exact (loseOne_rel a v).1.ts

/-- from `S_stopped` nothing moves any more -/
theorem settle_stays_closed (hps : ps < w.mySide ∨ w.mySide < ps) (h : Inv ps [] w) (htm : TimerOk w) (hts : w.ts = .S_stopped) :
    (settle w).ts = .S_stopped ∧ (settle w).closed = 1 := by
  unfold settle
  obtain ⟨⟨i1, t1⟩, _, _⟩ := loseClosing_spec (ps := ps) (List.range w.conns.length) w hps h htm
  have hts1 : (loseClosing (List.range w.conns.length) w).ts = .S_stopped := by rw [loseClosing_ts]; exact hts
  generalize loseClosing (List.range w.conns.length) w = w1 at i1 t1 hts1
  have i3 : Inv ps [] (turn (turn w1)) := turn_inv (turn_inv i1 t1) (turn_timerOk t1)
  have hfin : (turn (turn w1)).ts = .S_stopped :=
    runThunks_ts_stopped _ _ (runThunks_ts_stopped _ _ hts1)
  refine ⟨hfin, ?_⟩
  have := i3.tsC
  simp only [core] at this
  simp only [hfin, ↓reduceIte] at this
  exact this

/-- `S_stoppingRC --stoppedRC-->`: `Dilator.stop()` never raises, and leaves the Terminator in
    `S_stoppingD` (with a Manager) or already in `S_stopped` (without) -/
theorem stoppedRC_done (h : Inv ps [] w) (htm : TimerOk w) (hts : w.ts = .S_stoppingRC) :
    (step w (.term .stoppedRC)).2 = .done ∧
    ((step w (.term .stoppedRC)).1.ts = .S_stoppingD ∨ (step w (.term .stoppedRC)).1.ts = .S_stopped) := by
  simp only [step, termFuel, tInput, hts, Terminator.table, tOuts]
  obtain ⟨b, eb⟩ := stopCoop_same { w with ts := .S_stoppingD }
  have htb : TimerOk ({ w with coopStopped := b } : World) := by
    have := stopCoop_timerOk { w with ts := .S_stoppingD } htm
    rw [eb] at this
    exact this
  rw [eb]
  by_cases hm : w.hasMgr = true
  · rw [if_pos hm]
    obtain ⟨e1, _⟩ := stopRow_inv (w := { w with coopStopped := b }) h hts hm htb
    rw [andThen_ok e1]
    rcases hr : (andThen (mInput .k_stop "" 0 { w with coopStopped := b, ts := .S_stoppingD }) fun w1 => (whenStopped w1, none)) with ⟨u, e⟩
    rw [hr] at e1
    simp only at e1
    subst e1
    simp only [ofRes, true_and]
    left
    -- the Manager never touches the Terminator's state
    have hk := keep_andThen (w := { w with coopStopped := b, ts := .S_stoppingD })
      (r := mInput .k_stop "" 0 { w with coopStopped := b, ts := .S_stoppingD })
      (f := fun w1 => (whenStopped w1, none)) (keep_mInput _ _ _ _)
      (by intro v; unfold whenStopped; dsimp only; split <;> keep_rfl)
    rw [hr] at hk
    exact hk.ts
  · rw [if_neg hm]
    simp [Terminator.table, tOuts, andThen, ofRes, emit]

end WV.Proofs.C17
