import WV.Model.C11
import WV.Model.C17
import WV.Gen.PyIRConn
import WV.Proofs.PyIR_Dil

set_option linter.unusedSimpArgs false
set_option linter.unusedVariables false

/-!
Translation validation of the Dilation Connector (PyIR, `WV.Gen.PyIRConn`) against the C11 / C17 models: lemmas.

* `ConnD`: the Connector's own bookkeeping (`_listeners`, `_pending_connectors`, `_pending_connections`, `_contenders`,
  `_winning_connection`, role) with handles as ids; `RelConn h d`: the heap holds exactly that (sets in the order of the
  lists of `d`: the theorems hold for every `d`, hence for every iteration order of the Python sets);
* `CEff`: the collaborator calls the models keep; `absCall` decodes a recorded call;
* the Connector-level semantics of the outputs (`considerD`, `selectD`, `stopEverythingD` and its four parts), written
  statement by statement like `WV.C17.stopListeners …` / `WV.C11.conOutput`, and their projection onto the `World` of C17 and the
  `Side` of C11 (`*_is_C17`, `*_is_C11` in `WV.Props.PyIRConn_C11`);
* the loop lemma `forLoop_each` (a `for x in <set>` whose body makes one recorded call per element), by induction for
  every length.
-/
namespace WV.Proofs.PyIRConn
open WV WV.PyIR WV.Gen.PyIRConn WV.Proofs.PyIRC03 WV.Proofs.PyIRDil

/-! ## handles, state, calls -/

def encL (i : Nat) : Val := .ref "Port" i
def encD (j : Nat) : Val := .ref "Deferred" j
def encC (c : Nat) : Val := .ref "DCP" c

theorem keyEnc_L : KeyEnc encL := keyEnc_ref (fun _ => "Port")
theorem keyEnc_D : KeyEnc encD := keyEnc_ref (fun _ => "Deferred")
theorem keyEnc_C : KeyEnc encC := keyEnc_ref (fun _ => "DCP")

structure ConnD where
  leader : Bool
  listeners : List Nat      -- `_listeners`
  connectors : List Nat     -- `_pending_connectors`
  connections : List Nat    -- `_pending_connections`
  contenders : List Nat     -- `_contenders`
  winning : Option Nat      -- `_winning_connection`
  deriving DecidableEq, Repr

def encRole (leader : Bool) : Val := if leader then .obj "LEADER" [] else .obj "FOLLOWER" []
def encWin : Option Nat → Val
  | none => .none
  | some c => encC c

def mgrV : Val := .ref "Manager" 0
def eqV : Val := .ref "EventualQueue" 0

structure RelConn (h : Store) (d : ConnD) : Prop where
  role : h.get "_role" = some (encRole d.leader)
  listeners : h.get "_listeners" = some (.set (d.listeners.map encL))
  connectors : h.get "_pending_connectors" = some (.set (d.connectors.map encD))
  connections : h.get "_pending_connections" = some (.set (d.connections.map encC))
  contenders : h.get "_contenders" = some (.set (d.contenders.map encC))
  winning : h.get "_winning_connection" = some (encWin d.winning)
  manager : h.get "_manager" = some mgrV
  eq : h.get "_eventual_queue" = some eqV

/-- the collaborator calls of the Connector that the C11 / C17 models keep -/
inductive CEff where
  | stopListening (i : Nat)
  | cancel (j : Nat)
  | disconnect (c : Nat)
  | whenNextEmpty
  | eventuallyAccept (c : Nat)
  | select (c : Nat)
  | sendKCM (c : Nat)
  | made (c : Nat)
  | sendHints (hs : List Val)

def absCall : Call → Option CEff
  | ⟨"$v", "stopListening", [.ref "Port" i]⟩ => some (.stopListening i)
  | ⟨"$v", "cancel", [.ref "Deferred" j]⟩ => some (.cancel j)
  | ⟨"$v", "disconnect", [.ref "DCP" c]⟩ => some (.disconnect c)
  | ⟨"_pending_connections", "when_next_empty", []⟩ => some .whenNextEmpty
  | ⟨"_eventual_queue", "eventually", [.obj "boundmethod" [.str "accept"], .ref "DCP" c]⟩ => some (.eventuallyAccept c)
  | ⟨"$v", "select", [.ref "DCP" c, .ref "Manager" 0]⟩ => some (.select c)
  | ⟨"$v", "send_record", [.ref "DCP" c, .obj "KCM" []]⟩ => some (.sendKCM c)
  | ⟨"_manager", "connector_connection_made", [.ref "DCP" c]⟩ => some (.made c)
  | ⟨"_manager", "send_hints", [.list hs]⟩ => some (.sendHints hs)
  | _ => none

def mkStop (i : Nat) : Call := ⟨"$v", "stopListening", [encL i]⟩
def mkCancel (j : Nat) : Call := ⟨"$v", "cancel", [encD j]⟩
def mkDisc (c : Nat) : Call := ⟨"$v", "disconnect", [encC c]⟩
def mkWNE : Call := ⟨"_pending_connections", "when_next_empty", []⟩

theorem abs_mkStop (i : Nat) : absCall (mkStop i) = some (.stopListening i) := rfl
theorem abs_mkCancel (j : Nat) : absCall (mkCancel j) = some (.cancel j) := rfl
theorem abs_mkDisc (c : Nat) : absCall (mkDisc c) = some (.disconnect c) := rfl
theorem abs_mkWNE : absCall mkWNE = some .whenNextEmpty := rfl

/-- what a handle returned by a recorded call is (`stopListening()`'s Deferred, `when_next_empty()`'s Deferred) -/
def retV : Val := .ref "Ret" 0

/-- the environment: `KCM()`, `DeferredList(l)`, `encode_hint(h)` are constructors of opaque objects; no collaborator
    call fails; every recorded call returns the opaque handle `retV` -/
def envK : Env where
  fmtD := fun n => toString n
  raises := fun _ => none
  rets := fun _ => retV
  ext := fun f args =>
    match f, args with
    | "KCM", [] => .ok (.obj "KCM" [])
    | "DeferredList", [v] => .ok (.obj "DeferredList" [v])
    | "encode_hint", [v] => .ok (.obj "encoded_hint" [v])
    | _, _ => unsupported

theorem envK_raises : envK.raises = fun _ => none := rfl
theorem envK_rets : envK.rets = fun _ => retV := rfl
theorem envK_reenter : envK.reenter = fun _ => [] := rfl

/-! ## Connector-level semantics of the outputs (hand-written, statement by statement) -/

abbrev Out := ConnD × List CEff

/-- `stop_listeners`: every tracked port is told to stop, the set is cleared -/
def stopListenersD (d : ConnD) : Out := ({ d with listeners := [] }, d.listeners.map .stopListening)
/-- `stop_pending_connectors`: every Deferred is cancelled; the set is NOT changed -/
def stopPendingConnectorsD (d : ConnD) : Out := (d, d.connectors.map .cancel)
/-- `stop_pending_connections`: `when_next_empty()`, then every tracked protocol is disconnected; the set is not changed -/
def stopPendingConnectionsD (d : ConnD) : Out := (d, .whenNextEmpty :: d.connections.map .disconnect)
def breakCyclesD (d : ConnD) : Out :=
  ({ d with listeners := [], connectors := [], connections := [], winning := none }, [])

def seqD (f g : ConnD → Out) (d : ConnD) : Out :=
  let r1 := f d
  let r2 := g r1.1
  (r2.1, r1.2 ++ r2.2)

def stopEverythingD : ConnD → Out :=
  seqD stopListenersD (seqD stopPendingConnectorsD (seqD stopPendingConnectionsD breakCyclesD))

/-- `consider(c)`: remembered as a contender; `accept(c)` is queued on the eventual queue (both roles) -/
def considerD (c : Nat) (d : ConnD) : Out :=
  ({ d with contenders := if c ∈ d.contenders then d.contenders else d.contenders ++ [c] }, [.eventuallyAccept c])

/-- `select_and_stop_remaining(c)` -/
def selectD (c : Nat) (d : ConnD) : Out :=
  let d1 := { d with winning := some c, contenders := [], connections := C15.sDel c d.connections }
  seqD stopListenersD (seqD stopPendingConnectorsD (seqD stopPendingConnectionsD (fun d2 =>
    (d2, [.select c] ++ (if d2.leader then [.sendKCM c] else []) ++ [.made c])))) d1

/-! ## the loop lemma -/

/-- `for x in vs: <one recorded call mk v; the heap is not touched>` — for every length.  `I n L`: invariant of the
    locals after `n` elements. -/
theorem forLoop_each {G : Prop} (x : String) (mk : Val → Call) (I : Nat → Store → Prop)
    {body : St → St × Flow} {σ : St} {w : St × Flow} (vs : List Val)
    (hw : forLoop (.one x) body vs σ = w)
    (hstep : ∀ v, v ∈ vs → ∀ (n : Nat) (L : Store) (cs : List Call), I n L →
      ∃ L', body ⟨σ.heap, L.set x v, cs⟩ = (⟨σ.heap, L', cs ++ [mk v]⟩, .norm) ∧ I (n + 1) L')
    (hI : I 0 σ.locals)
    (cont : ∀ L', I vs.length L' → w = (⟨σ.heap, L', σ.calls ++ vs.map mk⟩, .norm) → G) : G := by
  suffices key : ∀ (vs' : List Val), (∀ v, v ∈ vs' → v ∈ vs) → ∀ (n : Nat) (L : Store) (cs : List Call), I n L →
      ∃ L', forLoop (.one x) body vs' ⟨σ.heap, L, cs⟩ = (⟨σ.heap, L', cs ++ vs'.map mk⟩, .norm) ∧
        I (n + vs'.length) L' by
    obtain ⟨L', e, hI'⟩ := key vs (fun _ h => h) 0 σ.locals σ.calls hI
    exact cont L' (by simpa using hI') (hw ▸ e)
  intro vs'
  induction vs' with
  | nil => intro _ n L cs hn; exact ⟨L, by simp [forLoop], by simpa using hn⟩
  | cons v r ih =>
    intro hsub n L cs hn
    obtain ⟨L1, hb, hI1⟩ := hstep v (hsub v (by simp)) n L cs hn
    obtain ⟨L', e, hI'⟩ := ih (fun u hu => hsub u (by simp [hu])) (n + 1) L1 (cs ++ [mk v]) hI1
    refine ⟨L', ?_, by simpa [Nat.add_assoc, Nat.add_comm 1] using hI'⟩
    simp [forLoop, bindPat, withVal, St.setLocal, hb, andThen, e]

/-! ## evaluation tactic (the Dil one + the `[deepConn]` constructs) -/

macro "conn_eval" "[" ts:Lean.Parser.Tactic.simpLemma,* "]" : tactic =>
  `(tactic| simp [execB, execS, andThen, withVal, evalE, evalEs, readAttr, readVar, bindParams, doEmit,
      bindPat, iterElems, iterElemsS, valIsConst, mapExtL, valIn, valAdd, valLen, pyEq, scalarEq,
      hashable_none, hashable_bool, hashable_int, hashable_str, hashable_ref,
      truthy_none, truthy_bool, truthy_list, truthy_set, truthy_obj, truthy_ref,
      St.setAttr, St.setLocal, St.bindOpt, Store.get, Store.set, get_set, bind, Res.bind, pure, unsupported,
      setElems, starElems, doEmitR, runReenter, envK_raises, envK_rets, envK_reenter,
      $ts,*])

/-! ## facts about the environment, the decoder, and the plain helper methods (`callM` form, for every fuel) -/

theorem memKeys_C (l : List Nat) (c : Nat) : memKeys (Val.ref "DCP" c) (l.map encC) = .ok (decide (c ∈ l)) :=
  memKeys_enc keyEnc_C l c

theorem setDel_C (l : List Nat) (c : Nat) : setDel (Val.ref "DCP" c) (l.map encC) = .ok ((C15.sDel c l).map encC) :=
  setDel_enc keyEnc_C l c

theorem envK_KCM : envK.ext "KCM" [] = .ok (.obj "KCM" []) := rfl

theorem envK_DL (v : Val) : envK.ext "DeferredList" [v] = .ok (.obj "DeferredList" [v]) := rfl

theorem envK_hint (v : Val) : envK.ext "encode_hint" [v] = .ok (.obj "encoded_hint" [v]) := rfl

theorem abs_select (c : Nat) : absCall ⟨"$v", "select", [.ref "DCP" c, .ref "Manager" 0]⟩ = some (.select c) := rfl

theorem abs_kcm (c : Nat) : absCall ⟨"$v", "send_record", [.ref "DCP" c, .obj "KCM" []]⟩ = some (.sendKCM c) := rfl

theorem abs_made (c : Nat) : absCall ⟨"_manager", "connector_connection_made", [.ref "DCP" c]⟩ = some (.made c) := rfl

theorem abs_accept (c : Nat) :
    absCall ⟨"_eventual_queue", "eventually", [.obj "boundmethod" [.str "accept"], .ref "DCP" c]⟩ = some (.eventuallyAccept c) := rfl

theorem abs_hints (hs : List Val) : absCall ⟨"_manager", "send_hints", [.list hs]⟩ = some (.sendHints hs) := rfl

theorem stop_pending_connectors_callM (fuel : Nat) (js : List Nat) (h : Store) (cs : List Call)
    (hd : h.get "_pending_connectors" = some (.set (js.map encD))) :
    callM envK tbl_Connector (fuel + 1) "stop_pending_connectors" [] h cs = (h, cs ++ js.map mkCancel, .ok .none) := by
  conn_eval [callM, tbl_Connector, m_Connector_stop_pending_connectors, hd]
  generalize hw : forLoop _ _ _ _ = w
  refine forLoop_each _ (fun v => ⟨"$v", "cancel", [v]⟩) (fun _ _ => True) _ hw ?hstep trivial ?cont
  case hstep =>
    intro v hv n L cs' _
    obtain ⟨j, _, rfl⟩ := List.mem_map.1 hv
    conn_eval [encD]
  case cont =>
    intro L' _ hw'
    subst hw'
    simp [mkCancel, Function.comp_def]

def lcRet (n : Nat) : Val := .obj "DeferredList" [.list (List.replicate n retV)]

theorem stop_listeners_callM (fuel : Nat) (ls : List Nat) (h : Store) (cs : List Call)
    (hl : h.get "_listeners" = some (.set (ls.map encL))) :
    callM envK tbl_Connector (fuel + 1) "stop_listeners" [] h cs =
      (h.set "_listeners" (.set []), cs ++ ls.map mkStop, .ok (lcRet ls.length)) := by
  conn_eval [callM, tbl_Connector, m_Connector_stop_listeners, hl]
  generalize hw : forLoop _ _ _ _ = w
  refine forLoop_each _ (fun v => ⟨"$v", "stopListening", [v]⟩)
    (fun n L => L.get "$lc0" = some (.list (List.replicate n retV))) _ hw ?hstep (by simp [Store.get]) ?cont
  case hstep =>
    intro v hv n L cs' hn
    obtain ⟨j, _, rfl⟩ := List.mem_map.1 hv
    conn_eval [encL, hn, List.replicate_succ']
  case cont =>
    intro L' hL hw'
    subst hw'
    conn_eval [hL, hl, envK_DL, mkStop, Function.comp_def, lcRet]

theorem stop_pending_connections_callM (fuel : Nat) (xs : List Nat) (h : Store) (cs : List Call)
    (hc : h.get "_pending_connections" = some (.set (xs.map encC))) :
    callM envK tbl_Connector (fuel + 1) "stop_pending_connections" [] h cs =
      (h, cs ++ mkWNE :: xs.map mkDisc, .ok retV) := by
  conn_eval [callM, tbl_Connector, m_Connector_stop_pending_connections, hc]
  generalize hw : forLoop _ _ _ _ = w
  refine forLoop_each _ (fun v => ⟨"$v", "disconnect", [v]⟩)
    (fun _ L => L.get "d" = some retV) _ hw ?hstep (by simp [Store.get]) ?cont
  case hstep =>
    intro v hv n L cs' hn
    obtain ⟨j, _, rfl⟩ := List.mem_map.1 hv
    conn_eval [encC, hn]
  case cont =>
    intro L' hL hw'
    subst hw'
    conn_eval [hL, mkDisc, mkWNE, Function.comp_def]

theorem break_cycles_callM (fuel : Nat) (a b c : List Val) (h : Store) (cs : List Call)
    (hl : h.get "_listeners" = some (.set a)) (hd : h.get "_pending_connectors" = some (.set b))
    (hc : h.get "_pending_connections" = some (.set c)) :
    callM envK tbl_Connector (fuel + 1) "break_cycles" [] h cs =
      ((((h.set "_listeners" (.set [])).set "_pending_connectors" (.set [])).set "_pending_connections" (.set [])).set
        "_winning_connection" .none, cs, .ok .none) := by
  conn_eval [callM, tbl_Connector, m_Connector_break_cycles, hl, hd, hc]

theorem mapExtL_hint (hs : List Val) :
    mapExtL envK.ext "encode_hint" hs = .ok (hs.map fun v => .obj "encoded_hint" [v]) := by
  induction hs with
  | nil => rfl
  | cons v r ih => simp [mapExtL, envK_hint, ih, bind, Res.bind, pure]

/-! ## projection onto the `World` of C17 -/

/-- one recorded call reaches the element `sel e` of a list of the world and marks it with `f` -/
def fieldEff {α : Type} (sel : CEff → Option Nat) (f : α → α) (L : List α) (e : CEff) : List α :=
  match sel e with
  | some i => L.modify i f
  | none => L

def selStop : CEff → Option Nat | .stopListening i => some i | _ => none

def selCancel : CEff → Option Nat | .cancel j => some j | _ => none

def selDisc : CEff → Option Nat | .disconnect c => some c | _ => none

/-- `port.stopListening()` -/
def markStopped (l : C17.Listener) : C17.Listener := { l with stopped := true }

/-- `d.cancel()`: a no-op on a Deferred that has completed -/
def markCancelled (a : C17.Attempt) : C17.Attempt :=
  if a.phase ≠ .done then { a with cancelled := true, phase := .done } else a

/-- `c.disconnect()` = `transport.loseConnection()` -/
def markClosing (c : C17.Conn) : C17.Conn := { c with closing := true }

/-- the network of the C17 world reacting to one call of the Connector -/
def netEff (w : C17.World) (e : CEff) : C17.World :=
  { w with listeners := fieldEff selStop markStopped w.listeners e,
           attempts := fieldEff selCancel markCancelled w.attempts e,
           conns := fieldEff selDisc markClosing w.conns e }

theorem netEff_disconnect (c : Nat) (w : C17.World) : netEff w (.disconnect c) = C17.disconnect c w := by
  simp [netEff, fieldEff, selStop, selCancel, selDisc, C17.disconnect]
  rfl

theorem foldl_netEff (effs : List CEff) (w : C17.World) :
    effs.foldl netEff w = { w with listeners := effs.foldl (fieldEff selStop markStopped) w.listeners,
                                   attempts := effs.foldl (fieldEff selCancel markCancelled) w.attempts,
                                   conns := effs.foldl (fieldEff selDisc markClosing) w.conns } := by
  induction effs generalizing w with
  | nil => rfl
  | cons e r ih => simp [List.foldl, ih, netEff]

theorem fieldEff_step {α : Type} (sel : CEff → Option Nat) (f : α → α) (e : CEff) (L : List α) (i : Nat) :
    (fieldEff sel f L e)[i]? = (L[i]?).map (fun a => if sel e == some i then f a else a) := by
  unfold fieldEff
  split
  · next k hk =>
    by_cases hki : k = i
    · subst hki; simp [List.getElem?_modify, hk]
    · simp [List.getElem?_modify, hk, hki]
  · next hk => simp [hk]

theorem fieldEff_get {α : Type} (sel : CEff → Option Nat) (f : α → α) (hf : ∀ a, f (f a) = f a)
    (effs : List CEff) (L : List α) (i : Nat) :
    (effs.foldl (fieldEff sel f) L)[i]? =
      (L[i]?).map (fun a => if effs.any (fun e => sel e == some i) then f a else a) := by
  induction effs generalizing L with
  | nil => simp
  | cons e r ih =>
    simp only [List.foldl, ih, List.any_cons, fieldEff_step, Option.map_map]
    congr 1
    funext a
    by_cases h1 : (sel e == some i) = true <;> by_cases h2 : (r.any fun e => sel e == some i) = true <;>
      simp [h1, h2, hf]

/-- the Connector of generation `g` and the world agree on what is tracked -/
structure RelW (g : Nat) (d : ConnD) (w : C17.World) : Prop where
  listeners : ∀ i, i ∈ d.listeners ↔ ∃ l, w.listeners[i]? = some l ∧ l.gen = g ∧ l.tracked = true
  connectors : ∀ j, j ∈ d.connectors ↔ ∃ a, w.attempts[j]? = some a ∧ a.gen = g ∧ a.inSet = true
  connections : ∀ c, c ∈ d.connections ↔ ∃ x, w.conns[c]? = some x ∧ x.gen = g ∧ x.tracked = true

/-- the Connector's sets written back into the `tracked` / `inSet` bits of generation `g` -/
def track (g : Nat) (d : ConnD) (w : C17.World) : C17.World :=
  { w with listeners := w.listeners.mapIdx fun i l => if l.gen = g then { l with tracked := decide (i ∈ d.listeners) } else l,
           attempts := w.attempts.mapIdx fun j a => if a.gen = g then { a with inSet := decide (j ∈ d.connectors) } else a,
           conns := w.conns.mapIdx fun c x => if x.gen = g then { x with tracked := decide (c ∈ d.connections) } else x }

/-- the world after the Connector ran an output: the network reacted to the calls, the sets are the new ones -/
def worldAfter (g : Nat) (r : Out) (w : C17.World) : C17.World := track g r.1 (r.2.foldl netEff w)

theorem any_sel_map (sel : CEff → Option Nat) (mk : Nat → CEff) (hmk : ∀ k, sel (mk k) = some k) (ls : List Nat) (i : Nat) :
    ((ls.map mk).any fun e => sel e == some i) = decide (i ∈ ls) := by
  induction ls with
  | nil => simp
  | cons a r ih =>
    simp only [List.map_cons, List.any_cons, ih, hmk]
    by_cases h : a = i
    · simp [h]
    · have h' : ¬ i = a := fun e => h e.symm
      simp [h, h']

theorem any_sel_map_none (sel : CEff → Option Nat) (mk : Nat → CEff) (hmk : ∀ k, sel (mk k) = none) (ls : List Nat) (i : Nat) :
    ((ls.map mk).any fun e => sel e == some i) = false := by
  induction ls with
  | nil => simp
  | cons a r ih => simp only [List.map_cons, List.any_cons, ih, hmk]; simp

theorem mapIdx_foldl_get {α : Type} (sel : CEff → Option Nat) (f : α → α) (hf : ∀ a, f (f a) = f a)
    (effs : List CEff) (L : List α) (F : Nat → α → α) (i : Nat) :
    ((effs.foldl (fieldEff sel f) L).mapIdx F)[i]? =
      (L[i]?).map (fun a => F i (if effs.any (fun e => sel e == some i) then f a else a)) := by
  simp [List.getElem?_mapIdx, fieldEff_get sel f hf, Option.map_map, Function.comp_def]

theorem markStopped_idem (l : C17.Listener) : markStopped (markStopped l) = markStopped l := rfl

theorem markClosing_idem (c : C17.Conn) : markClosing (markClosing c) = markClosing c := rfl

theorem markCancelled_idem (a : C17.Attempt) : markCancelled (markCancelled a) = markCancelled a := by
  unfold markCancelled; by_cases h : a.phase = .done <;> simp [h]

theorem sel_simps :
    (∀ k, selStop (.stopListening k) = some k) ∧ (∀ k, selStop (.cancel k) = none) ∧ (∀ k, selStop (.disconnect k) = none) ∧
    (∀ k, selCancel (.stopListening k) = none) ∧ (∀ k, selCancel (.cancel k) = some k) ∧ (∀ k, selCancel (.disconnect k) = none) ∧
    (∀ k, selDisc (.stopListening k) = none) ∧ (∀ k, selDisc (.cancel k) = none) ∧ (∀ k, selDisc (.disconnect k) = some k) :=
  ⟨fun _ => rfl, fun _ => rfl, fun _ => rfl, fun _ => rfl, fun _ => rfl, fun _ => rfl, fun _ => rfl, fun _ => rfl, fun _ => rfl⟩

/-- normalises `effs.any (sel · == some i)` for the effect lists of the Connector-level semantics -/
macro "any_norm" : tactic =>
  `(tactic| simp only [List.any_append, List.any_cons, List.any_nil, Bool.or_false, Bool.false_or,
      any_sel_map selStop CEff.stopListening (fun _ => rfl), any_sel_map selCancel CEff.cancel (fun _ => rfl),
      any_sel_map selDisc CEff.disconnect (fun _ => rfl),
      any_sel_map_none selStop CEff.cancel (fun _ => rfl), any_sel_map_none selStop CEff.disconnect (fun _ => rfl),
      any_sel_map_none selCancel CEff.stopListening (fun _ => rfl), any_sel_map_none selCancel CEff.disconnect (fun _ => rfl),
      any_sel_map_none selDisc CEff.stopListening (fun _ => rfl), any_sel_map_none selDisc CEff.cancel (fun _ => rfl),
      selStop, selCancel, selDisc, Option.some.injEq, beq_iff_eq, reduceCtorEq, List.map_nil, List.append_nil])

macro "fld_listeners" R:term "," w:term "," d:term "," g:term : tactic => `(tactic| (
  apply List.ext_getElem?
  intro i
  rw [mapIdx_foldl_get _ _ markStopped_idem]
  any_norm
  cases hl : ($w).listeners[i]? with
  | none => simp [hl]
  | some l =>
    have := ($R).listeners i
    simp [hl] at this
    rcases l with ⟨lg, lr, lt, ls⟩
    by_cases hin : i ∈ ($d).listeners <;> by_cases h1 : lg = $g <;> cases lt <;> simp_all [markStopped]))

macro "fld_attempts" R:term "," w:term "," d:term "," g:term : tactic => `(tactic| (
  apply List.ext_getElem?
  intro j
  rw [mapIdx_foldl_get _ _ markCancelled_idem]
  any_norm
  cases ha : ($w).attempts[j]? with
  | none => simp [ha]
  | some a =>
    have := ($R).connectors j
    simp [ha] at this
    rcases a with ⟨ag, ap, ac, ai⟩
    by_cases hin : j ∈ ($d).connectors <;> by_cases h1 : ag = $g <;> cases ai <;> cases ap <;> simp_all [markCancelled]))

macro "fld_conns" R:term "," w:term "," d:term "," g:term : tactic => `(tactic| (
  apply List.ext_getElem?
  intro c
  rw [mapIdx_foldl_get _ _ markClosing_idem]
  any_norm
  cases hx : ($w).conns[c]? with
  | none => simp [hx]
  | some x =>
    have := ($R).connections c
    simp [hx] at this
    rcases x with ⟨xg, xi, xs, xc, xl, xt, xo, xm⟩
    by_cases hin : c ∈ ($d).connections <;> by_cases h1 : xg = $g <;> cases xt <;> simp_all [markClosing]))

theorem mem_sDel (c x : Nat) (l : List Nat) : x ∈ C15.sDel c l ↔ x ∈ l ∧ x ≠ c := by
  simp [C15.sDel]

/-- what C11 keeps of the Connector's calls on the eventual queue -/
def absEq : CEff → Option C11.EqCall
  | .eventuallyAccept c => some (.accept c)
  | _ => none

/-- what C11 keeps of `manager.send_hints(…)`: one `connection-hints` message naming the current listener -/
def absMsg : CEff → Option C11.Msg
  | .sendHints _ => some (.hints true)
  | _ => none

/-! ## `_schedule_connection` -/

/-- the environment of `_schedule_connection`: `deferLater(…)` returns the fresh Deferred `fresh`; `endpoint_from_hint_obj` and
    `describe_hint_obj` build opaque objects from their arguments -/
def envS (fresh : Nat) : Env where
  fmtD := fun n => toString n
  raises := fun _ => none
  rets := fun _ => encD fresh
  ext := fun f args =>
    match f, args with
    | "endpoint_from_hint_obj", [h, t, r] => .ok (.obj "endpoint" [h, t, r])
    | "describe_hint_obj", [h, r, t] => .ok (.obj "description" [h, r, t])
    | _, _ => unsupported

theorem envS_raises (n : Nat) : (envS n).raises = fun _ => none := rfl
theorem envS_rets (n : Nat) : (envS n).rets = fun _ => encD n := rfl
theorem envS_reenter (n : Nat) : (envS n).reenter = fun _ => [] := rfl
theorem envS_ep (n : Nat) (h t r : Val) : (envS n).ext "endpoint_from_hint_obj" [h, t, r] = .ok (.obj "endpoint" [h, t, r]) := rfl
theorem envS_desc (n : Nat) (h t r : Val) : (envS n).ext "describe_hint_obj" [h, r, t] = .ok (.obj "description" [h, r, t]) := rfl

theorem memKeys_D (l : List Nat) (c : Nat) : memKeys (Val.ref "Deferred" c) (l.map encD) = .ok (decide (c ∈ l)) :=
  memKeys_enc keyEnc_D l c

/-- the calls of `_schedule_connection(delay, h, is_relay)`, literally -/
def scheduleCalls (fresh : Nat) (tor rc delay hint isRelay : Val) : List Call :=
  [⟨"$g", "deferLater", [rc, delay, .obj "boundmethod" [.str "_connect"], .obj "endpoint" [hint, tor, rc],
      .obj "description" [hint, isRelay, tor], isRelay]⟩,
   ⟨"$v", "addErrback", [encD fresh, .obj "lambda" [.str "lambda f: f.trap(ConnectingCancelledError, ConnectionRefusedError, CancelledError, ConnectError)"]]⟩,
   ⟨"$v", "addErrback", [encD fresh, .obj "lambda" [.str "lambda f: f.trap(DNSLookupError)"]]⟩,
   ⟨"$v", "addErrback", [encD fresh, .obj "global" [.str "log.err"]]⟩]

/-! ## a collaborator that fails: environments that agree with `envK` except for `raises` -/

structure EnvLike (env : Env) : Prop where
  rets : env.rets = fun _ => retV
  reenter : env.reenter = fun _ => []
  ext : env.ext = envK.ext

/-- `forLoop_each` when the recorded calls may fail: `Q` = indices at which the environment lets a call succeed -/
theorem forLoop_eachQ {G : Prop} (x : String) (mk : Val → Call) (I : Nat → Store → Prop) (Q : Nat → Prop)
    {body : St → St × Flow} {σ : St} {w : St × Flow} (vs : List Val)
    (hw : forLoop (.one x) body vs σ = w)
    (hstep : ∀ v, v ∈ vs → ∀ (n : Nat) (L : Store) (cs : List Call), I n L → Q cs.length →
      ∃ L', body ⟨σ.heap, L.set x v, cs⟩ = (⟨σ.heap, L', cs ++ [mk v]⟩, .norm) ∧ I (n + 1) L')
    (hI : I 0 σ.locals) (hQ : ∀ i, i < vs.length → Q (σ.calls.length + i))
    (cont : ∀ L', I vs.length L' → w = (⟨σ.heap, L', σ.calls ++ vs.map mk⟩, .norm) → G) : G := by
  suffices key : ∀ (vs' : List Val), (∀ v, v ∈ vs' → v ∈ vs) → ∀ (n : Nat) (L : Store) (cs : List Call), I n L →
      (∀ i, i < vs'.length → Q (cs.length + i)) →
      ∃ L', forLoop (.one x) body vs' ⟨σ.heap, L, cs⟩ = (⟨σ.heap, L', cs ++ vs'.map mk⟩, .norm) ∧
        I (n + vs'.length) L' by
    obtain ⟨L', e, hI'⟩ := key vs (fun _ h => h) 0 σ.locals σ.calls hI hQ
    exact cont L' (by simpa using hI') (hw ▸ e)
  intro vs'
  induction vs' with
  | nil => intro _ n L cs hn _; exact ⟨L, by simp [forLoop], by simpa using hn⟩
  | cons v r ih =>
    intro hsub n L cs hn hq
    obtain ⟨L1, hb, hI1⟩ := hstep v (hsub v (by simp)) n L cs hn (by simpa using hq 0 (by simp))
    obtain ⟨L', e, hI'⟩ := ih (fun u hu => hsub u (by simp [hu])) (n + 1) L1 (cs ++ [mk v]) hI1
      (by intro i hi; have := hq (i + 1) (by simpa using hi); simpa [Nat.add_assoc, Nat.add_comm 1] using this)
    refine ⟨L', ?_, by simpa [Nat.add_assoc, Nat.add_comm 1] using hI'⟩
    simp [forLoop, bindPat, withVal, St.setLocal, hb, andThen, e]

theorem stop_pending_connectors_callMQ (env : Env) (E : EnvLike env) (fuel : Nat) (js : List Nat) (h : Store) (cs : List Call)
    (hd : h.get "_pending_connectors" = some (.set (js.map encD)))
    (hq : ∀ i, i < js.length → env.raises (cs.length + i) = none) :
    callM env tbl_Connector (fuel + 1) "stop_pending_connectors" [] h cs = (h, cs ++ js.map mkCancel, .ok .none) := by
  conn_eval [callM, tbl_Connector, m_Connector_stop_pending_connectors, hd]
  generalize hw : forLoop _ _ _ _ = w
  refine forLoop_eachQ _ (fun v => ⟨"$v", "cancel", [v]⟩) (fun _ _ => True) (fun k => env.raises k = none) _ hw
    ?hstep trivial (by simpa using hq) ?cont
  case hstep =>
    intro v hv n L cs' _ hq'
    obtain ⟨j, _, rfl⟩ := List.mem_map.1 hv
    conn_eval [encD, hq', E.reenter]
  case cont =>
    intro L' _ hw'
    subst hw'
    simp [mkCancel, Function.comp_def]

theorem stop_listeners_callMQ (env : Env) (E : EnvLike env) (fuel : Nat) (ls : List Nat) (h : Store) (cs : List Call)
    (hl : h.get "_listeners" = some (.set (ls.map encL)))
    (hq : ∀ i, i < ls.length → env.raises (cs.length + i) = none) :
    callM env tbl_Connector (fuel + 1) "stop_listeners" [] h cs =
      (h.set "_listeners" (.set []), cs ++ ls.map mkStop, .ok (lcRet ls.length)) := by
  conn_eval [callM, tbl_Connector, m_Connector_stop_listeners, hl]
  generalize hw : forLoop _ _ _ _ = w
  refine forLoop_eachQ _ (fun v => ⟨"$v", "stopListening", [v]⟩)
    (fun n L => L.get "$lc0" = some (.list (List.replicate n retV))) (fun k => env.raises k = none) _ hw ?hstep
    (by simp [Store.get]) (by simpa using hq) ?cont
  case hstep =>
    intro v hv n L cs' hn hq'
    obtain ⟨j, _, rfl⟩ := List.mem_map.1 hv
    conn_eval [encL, hn, List.replicate_succ', hq', E.reenter, E.rets]
  case cont =>
    intro L' hL hw'
    subst hw'
    conn_eval [hL, hl, E.ext, envK_DL, mkStop, Function.comp_def, lcRet]

theorem stop_pending_connections_callMQ (env : Env) (E : EnvLike env) (fuel : Nat) (xs : List Nat) (h : Store) (cs : List Call)
    (hc : h.get "_pending_connections" = some (.set (xs.map encC)))
    (hq : ∀ i, i < xs.length + 1 → env.raises (cs.length + i) = none) :
    callM env tbl_Connector (fuel + 1) "stop_pending_connections" [] h cs =
      (h, cs ++ mkWNE :: xs.map mkDisc, .ok retV) := by
  have h0 : env.raises cs.length = none := by simpa using hq 0 (by omega)
  conn_eval [callM, tbl_Connector, m_Connector_stop_pending_connections, hc, h0, E.rets]
  generalize hw : forLoop _ _ _ _ = w
  refine forLoop_eachQ _ (fun v => ⟨"$v", "disconnect", [v]⟩)
    (fun _ L => L.get "d" = some retV) (fun k => env.raises k = none) _ hw ?hstep (by simp [Store.get])
    (by intro i hi; have := hq (i + 1) (by simpa using hi); simpa [Nat.add_assoc, Nat.add_comm 1] using this) ?cont
  case hstep =>
    intro v hv n L cs' hn hq'
    obtain ⟨j, _, rfl⟩ := List.mem_map.1 hv
    conn_eval [encC, hn, hq', E.reenter]
  case cont =>
    intro L' hL hw'
    subst hw'
    conn_eval [hL, mkDisc, mkWNE, Function.comp_def]

/-- `envK` in which the k-th recorded call (0-based) raises `cls` -/
def envKr (k : Nat) (cls : String) : Env := { envK with raises := fun i => if i = k then some cls else none }

theorem envKr_like (k : Nat) (cls : String) : EnvLike (envKr k cls) := ⟨rfl, rfl, rfl⟩
theorem envKr_raises (k : Nat) (cls : String) : (envKr k cls).raises = fun i => if i = k then some cls else none := rfl
theorem envKr_reenter (k : Nat) (cls : String) : (envKr k cls).reenter = fun _ => [] := rfl
theorem envKr_rets (k : Nat) (cls : String) : (envKr k cls).rets = fun _ => retV := rfl

end WV.Proofs.PyIRConn
