import WV.Model.C06
import WV.Proofs.C06_App

/-! Reads are served in the order in which they were issued: the ids of the read Deferreds that
    `_deliverRecords` calls back form an increasing sequence, and everything still waiting comes later. -/
namespace WV.C06
open WV

def Ev.aid : Ev → Option Nat
  | .assigned id _ => some id
  | _ => none

/-- ids of the reads that obtained a record, in the order in which the records left the connection -/
def App.assignedIds (a : App) : List Nat := a.log.filterMap Ev.aid

def ids (ws : List Reader) : List Nat := ws.map (·.id)

/-- served reads, then waiting reads: strictly increasing ids, all already handed out -/
def OrderInv (a : App) : Prop :=
  (a.assignedIds ++ ids a.waiting).Pairwise (· < ·) ∧ ∀ x ∈ a.assignedIds ++ ids a.waiting, x < a.nextId

/-- the three things `OrderInv` looks at -/
structure SameIds (a a' : App) : Prop where
  asg : a'.assignedIds = a.assignedIds
  wt : ids a'.waiting = ids a.waiting
  nid : a'.nextId = a.nextId

theorem SameIds.refl (a : App) : SameIds a a := ⟨rfl, rfl, rfl⟩

theorem SameIds.trans {a b c : App} (h1 : SameIds a b) (h2 : SameIds b c) : SameIds a c :=
  ⟨h2.asg.trans h1.asg, h2.wt.trans h1.wt, h2.nid.trans h1.nid⟩

theorem SameIds.inv {a a' : App} (h : SameIds a a') (hi : OrderInv a) : OrderInv a' := by
  unfold OrderInv
  rw [h.asg, h.wt, h.nid]
  exact hi

theorem sameIds_emit (a : App) (evs : List Ev) (h : evs.filterMap Ev.aid = []) : SameIds a (a.emit evs) :=
  ⟨by simp [App.assignedIds, App.emit, List.filterMap_append, h], rfl, rfl⟩

theorem consumerDone_ids (a : App) (k : Consumer) (w : Nat) : SameIds a (consumerDone a k w).1 := by
  unfold consumerDone
  cases k.cb with
  | none => exact ⟨rfl, rfl, rfl⟩
  | some s => exact sameIds_emit a _ (by simp [Ev.aid])

theorem writeToConsumer_ids_aux (a1 : App) (k : Consumer) (w : Nat) (ex : Option Nat) :
    SameIds a1 (match ex with
      | some n => if w ≥ n then consumerDone (disconnectConsumer a1) k w else (a1, [])
      | none => (a1, [])).1 := by
  cases ex with
  | none => exact SameIds.refl a1
  | some n =>
    simp only
    split
    · refine SameIds.trans ?_ (consumerDone_ids (disconnectConsumer a1) k w)
      exact ⟨by simp [App.assignedIds, disconnectConsumer, List.filterMap_append, Ev.aid], rfl, rfl⟩
    · exact SameIds.refl a1

theorem writeEvents_aid (a : App) (r : Bytes) (kick : Bool) : (writeEvents a r kick).filterMap Ev.aid = [] := by
  cases kick <;> cases h : a.fcConsumer <;> simp [writeEvents, h, Ev.aid]

theorem writeToConsumer_ids (a : App) (k : Consumer) (r : Bytes) (kick : Bool) :
    SameIds a (writeToConsumer a k r kick).1 := by
  have h1 : SameIds a { a with consumer := some { k with written := k.written + r.length },
                                log := a.log ++ writeEvents a r kick } :=
    ⟨by simp [App.assignedIds, List.filterMap_append, writeEvents_aid], rfl, rfl⟩
  exact SameIds.trans h1 (writeToConsumer_ids_aux _ k (k.written + r.length) k.expected)

theorem finishAttach_ids (a : App) (ex : Option Nat) (fc : Bool) (s rest : List Act) :
    SameIds a (finishAttach a ex fc s rest).1 := by
  simp only [finishAttach]
  have h1 : SameIds a { a with consumer := some { cid := a.nextCid, written := 0, expected := ex, cb := none },
                               nextCid := a.nextCid + 1, fcConsumer := fc } := ⟨rfl, rfl, rfl⟩
  split
  · exact SameIds.trans h1 (writeToConsumer_ids _ _ [] true)
  · exact h1

theorem attachConsumer_order (a : App) (ex : Option Nat) (fc : Bool) (s rest : List Act) (hi : OrderInv a) :
    OrderInv (attachConsumer a ex fc s rest).1 := by
  simp only [attachConsumer]
  split
  · exact (sameIds_emit a _ (by simp [Ev.aid])).inv hi
  · have h1 : SameIds a { a with log := a.log ++ [.reg] } :=
      ⟨by simp [App.assignedIds, List.filterMap_append, Ev.aid], rfl, rfl⟩
    exact (SameIds.trans h1 (finishAttach_ids _ ex fc s rest)).inv hi

theorem fireRead_ids (a : App) (d : Reader) (r : Bytes) :
    (fireRead a d r).1.assignedIds = a.assignedIds ++ [d.id] ∧ ids (fireRead a d r).1.waiting = ids a.waiting ∧
    (fireRead a d r).1.nextId = a.nextId := by
  unfold fireRead
  cases d.cb <;> simp [App.assignedIds, App.emit, List.filterMap_append, Ev.aid]

theorem failRead_ids (a : App) (d : Reader) : SameIds a (failRead a d) := by
  unfold failRead
  cases d.cb with
  | none => exact ⟨rfl, rfl, rfl⟩
  | some s => exact sameIds_emit a _ (by simp [Ev.aid])

theorem foldl_failRead_ids : ∀ (ws : List Reader) (a : App), SameIds a (ws.foldl failRead a) := by
  intro ws
  induction ws with
  | nil => intro a; exact SameIds.refl a
  | cons d ds ih => intro a; exact SameIds.trans (failRead_ids a d) (ih _)

theorem orderInv_drop_waiting (a a' : App) (h1 : a'.assignedIds = a.assignedIds) (h2 : a'.waiting = [])
    (h3 : a'.nextId = a.nextId) (hi : OrderInv a) : OrderInv a' := by
  unfold OrderInv at *
  rw [h1, h2, h3]
  simp only [ids, List.map_nil, List.append_nil]
  exact ⟨(List.pairwise_append.mp hi.1).1, fun x hx => hi.2 x (List.mem_append_left _ hx)⟩

theorem close_order (a : App) (hi : OrderInv a) : OrderInv (close a) := by
  unfold close
  have h := foldl_failRead_ids a.waiting ({ a with waiting := [] }.emit [.lose])
  have hw := (foldl_failRead_spec a.waiting ({ a with waiting := [] }.emit [.lose])).2.2.2
  refine orderInv_drop_waiting a _ ?_ hw ?_ hi
  · rw [h.asg]; simp [App.assignedIds, App.emit, List.filterMap_append, Ev.aid]
  · rw [h.nid]; rfl

theorem connectionLost_order (a : App) (hi : OrderInv a) : OrderInv (connectionLost a) := by
  have h := foldl_failRead_ids a.waiting { a with waiting := [] }
  have hw := (connectionLost_fields a).2.2.2
  refine orderInv_drop_waiting a _ ?_ hw ?_ hi
  · unfold connectionLost
    simp only
    split
    · rw [(sameIds_emit _ [Ev.cfail] (by simp [Ev.aid])).asg, h.asg]; rfl
    · rw [h.asg]; rfl
  · unfold connectionLost
    simp only
    split
    · show (App.emit _ _).nextId = _
      simp only [App.emit]; rw [h.nid]
    · rw [h.nid]

theorem ids_attachFirst (id : Nat) (s : List Act) : ∀ ws : List Reader, ids (attachFirst id s ws) = ids ws := by
  intro ws
  induction ws with
  | nil => rfl
  | cons d ds ih =>
    simp only [attachFirst]
    split
    · simp [ids]
    · simp only [ids, List.map_cons] at ih ⊢; rw [ih]

/-- every step of the call stack keeps the reads in issue order -/
theorem appStep_order (a : App) (fr : Frame) (hi : OrderInv a) : OrderInv (appStep a fr).1 := by
  cases fr with
  | deliver =>
    simp only [appStep]
    split
    · rename_i r rs d ds hin hw
      obtain ⟨f1, f2, f3⟩ := fireRead_ids { a with inbound := rs, waiting := ds } d r
      cases hf : fireRead { a with inbound := rs, waiting := ds } d r with
      | mk a' fs =>
        rw [hf] at f1 f2 f3
        simp only at f1 f2 f3 ⊢
        unfold OrderInv at *
        rw [f1, f2, f3]
        have e : ({ a with inbound := rs, waiting := ds } : App).assignedIds ++ [d.id] ++ ids ds
            = a.assignedIds ++ ids a.waiting := by
          rw [hw]; simp [App.assignedIds, ids]
        rw [e]
        exact hi
    · exact hi
  | drain =>
    simp only [appStep]
    split
    · rename_i k r rs hk hin
      have h := writeToConsumer_ids { a with inbound := rs } k r false
      cases hf : writeToConsumer { a with inbound := rs } k r false with
      | mk a' fs =>
        rw [hf] at h
        exact h.inv (by exact hi)
    · exact hi
  | script acts =>
    cases acts with
    | nil => exact hi
    | cons act rest =>
      cases act with
      | read s =>
        simp only [appStep]
        unfold OrderInv at *
        simp only [ids, List.map_append, List.map_cons, List.map_nil]
        obtain ⟨h1, h2⟩ := hi
        refine ⟨?_, ?_⟩
        · rw [← List.append_assoc]
          apply List.pairwise_append.mpr
          refine ⟨h1, by simp, ?_⟩
          intro x hx y hy
          simp at hy
          subst hy
          exact h2 x hx
        · intro x hx
          rw [← List.append_assoc] at hx
          rcases List.mem_append.mp hx with h | h
          · exact Nat.lt_succ_of_lt (h2 x h)
          · simp at h; subst h; exact Nat.lt_succ_self _
      | consume ex s => exact attachConsumer_order a ex false s rest hi
      | consumeFC ex s => exact attachConsumer_order a ex true s rest hi
      | pause => exact (sameIds_emit a _ (by simp [Ev.aid])).inv hi
      | resume => exact (sameIds_emit a _ (by simp [Ev.aid])).inv hi
      | detach =>
        simp only [appStep]
        split
        · exact (sameIds_emit a _ (by simp [Ev.aid])).inv hi
        · have h1 : SameIds a (disconnectConsumer a) :=
            ⟨by simp [App.assignedIds, disconnectConsumer, List.filterMap_append, Ev.aid], rfl, rfl⟩
          exact h1.inv hi
      | close => exact close_order a hi
  | attachRead id s =>
    simp only [appStep]
    split
    · have h1 : SameIds a ({ a with storedReads := a.storedReads.filter (fun p => p.1 != id) }) := ⟨rfl, rfl, rfl⟩
      exact (SameIds.trans h1 (sameIds_emit _ _ (by simp [Ev.aid]))).inv hi
    · have h1 : SameIds a ({ a with storedReads := a.storedReads.filter (fun p => p.1 != id) }) := ⟨rfl, rfl, rfl⟩
      exact (SameIds.trans h1 (sameIds_emit _ _ (by simp [Ev.aid]))).inv hi
    · have h1 : SameIds a { a with waiting := attachFirst id s a.waiting } := ⟨rfl, ids_attachFirst id s a.waiting, rfl⟩
      exact h1.inv hi
  | attachCons cid s =>
    simp only [appStep]
    split
    · have h1 : SameIds a ({ a with storedDone := a.storedDone.filter (fun p => p.1 != cid) }) := ⟨rfl, rfl, rfl⟩
      exact (SameIds.trans h1 (sameIds_emit _ _ (by simp [Ev.aid]))).inv hi
    · split
      · split
        · exact (⟨rfl, rfl, rfl⟩ : SameIds a _).inv hi
        · exact hi
      · exact hi

theorem runAgenda_order : ∀ (fuel : Nat) (a : App) (ag : List Frame), OrderInv a → OrderInv (runAgenda fuel a ag).1 := by
  intro fuel
  induction fuel with
  | zero => intro a ag h; exact h
  | succ f ih =>
    intro a ag h
    cases ag with
    | nil => exact h
    | cons fr ag =>
      simp only [runAgenda]
      have := appStep_order a fr h
      cases hs : appStep a fr with
      | mk a' fs =>
        rw [hs] at this
        exact ih a' (fs ++ ag) this

theorem settle_order (a : App) (ag : List Frame) (h : OrderInv a) : OrderInv (settle a ag) :=
  runAgenda_order _ a ag h

theorem recordReceived_order (a : App) (r : Bytes) (h : OrderInv a) : OrderInv (recordReceived a r) := by
  unfold recordReceived
  cases hc : a.consumer with
  | some k =>
    simp only
    have hw := writeToConsumer_ids a k r false
    cases hf : writeToConsumer a k r false with
    | mk a1 fs =>
      rw [hf] at hw
      exact settle_order a1 fs (hw.inv h)
  | none =>
    simp only
    exact settle_order _ _ ((⟨rfl, rfl, rfl⟩ : SameIds a { a with inbound := a.inbound ++ [r] }).inv h)

theorem appCall_order (a : App) (acts : List Act) (h : OrderInv a) : OrderInv (appCall a acts) :=
  settle_order a _ h

theorem init_order : OrderInv App.init := by
  simp [OrderInv, App.init, App.assignedIds, ids]

end WV.C06
