import WV.Proofs.C13

/-!
C13 — the 4-byte wire field of the subchannel id: lemmas.

* `Fr` (frame): no operation except `connect` touches the allocation counter or puts an OPEN on the wire;
* the id invariant `IdsOK` (+ "every id on the wire fits the field") along runs of the *driven* model
  (`stepW`/`wstepW`: `connect` with `to_be4`'s error branch, `ffwd`);
* `wstepW = wstep` while the counters are inside the field.
-/
namespace WV.C13
open WV WV.Gen

/-- what no operation except `connect` changes: the allocation counter and the OPENs this side has sent -/
structure Fr (s s' : Side) : Prop where
  n : s'.nextScid = s.nextScid
  o : openIds s'.log = openIds s.log
  l : s'.leader = s.leader

theorem Fr.refl (s : Side) : Fr s s := ⟨rfl, rfl, rfl⟩

theorem Fr.trans {a b c : Side} (h1 : Fr a b) (h2 : Fr b c) : Fr a c :=
  ⟨h2.n.trans h1.n, h2.o.trans h1.o, h2.l.trans h1.l⟩

theorem fr_andThen {s : Side} {r : Res} {f : Side → Res} (h1 : Fr s r.1) (h2 : ∀ s1, Fr s1 (f s1).1) :
    Fr s (andThen r f).1 := by
  obtain ⟨s1, e⟩ := r
  cases e with
  | none => exact h1.trans (h2 s1)
  | some e => exact h1

theorem fr_log {s s' : Side} (hn : s'.nextScid = s.nextScid) (hl : s'.leader = s.leader) (l : List Eff)
    (hlog : s'.log = s.log ++ l) (ho : openIds l = []) : Fr s s' :=
  ⟨hn, by rw [hlog, openIds_append, ho, List.append_nil], hl⟩

theorem fr_updSC (uid : Nat) (f : SC → SC) (s : Side) : Fr s (updSC uid f s) := ⟨rfl, rfl, rfl⟩

theorem scInput_fr (uid : Nat) (i : SubChannel.Input) (arg : Bytes) (s : Side) : Fr s (scInput uid i arg s).1 := by
  cases hs : s.subs[uid]? with
  | none => rw [scInput_eq_none i arg hs]; exact Fr.refl s
  | some c =>
    cases ht : SubChannel.table c.st i with
    | none => rw [scInput_eq_norow arg hs ht]; exact Fr.refl s
    | some row =>
      obtain ⟨st', outs⟩ := row
      rw [scInput_eq_row arg hs ht]
      have hc1 : (updSC uid (fun c => { c with st := st' }) s).subs[uid]? = some { c with st := st' } := by
        simp [updSC, getElem?_modifyAt, hs]
      obtain ⟨l, ro, _, _, _⟩ := runOuts_spec uid arg outs _ _ hc1
      exact (fr_updSC uid _ s).trans (fr_log ro.nextScid ro.leader l ro.log ro.noOpen)

theorem buildProtocol_fr (name : String) (s : Side) : Fr s (buildProtocol name s) :=
  fr_log rfl rfl [.build s.protoCount name] rfl rfl

theorem setProtocol_fr (uid pid : Nat) (k : PKind) (s : Side) : Fr s (setProtocol uid pid k s).1 := by
  unfold setProtocol
  split
  · exact Fr.refl s
  · split
    · exact Fr.refl s
    · exact (fr_updSC uid _ s).trans (scInput_fr _ _ _ _)

theorem feedData_fr (uid : Nat) : ∀ (ds : List Bytes) (s : Side), Fr s (feedData uid ds s).1
  | [], s => Fr.refl s
  | d :: ds, s => by
    unfold feedData
    exact fr_andThen (scInput_fr _ _ _ _) (fun s1 => feedData_fr uid ds s1)

theorem deliverQueued_fr (uid : Nat) (s : Side) : Fr s (deliverQueued uid s).1 := by
  unfold deliverQueued
  split
  · exact Fr.refl s
  · split
    · exact Fr.refl s
    · refine fr_andThen (feedData_fr uid _ s) ?_
      intro s1
      have h2 := fr_updSC uid (fun c => { c with pendingData := none }) s1
      simp only []
      split
      · exact h2
      · split
        · refine h2.trans (fr_andThen (scInput_fr _ _ _ _) ?_)
          intro s3
          exact fr_updSC uid _ s3
        · exact h2

theorem connectSC_fr (k : PKind) (uid : Nat) (s : Side) : Fr s (connectSC k uid s).1 := by
  unfold connectSC
  split
  · exact Fr.refl s
  · simp only []
    refine fr_andThen ((buildProtocol_fr _ s).trans (setProtocol_fr _ _ _ _)) ?_
    intro s2
    exact (fr_log (s := s2) (s' := emit (.made s.protoCount) s2) rfl rfl [.made s.protoCount] rfl rfl).trans (deliverQueued_fr uid _)

theorem connectAll_fr (k : PKind) : ∀ (us : List Nat) (s : Side), Fr s (connectAll k us s).1
  | [], s => Fr.refl s
  | u :: us, s => by
    unfold connectAll
    exact fr_andThen (connectSC_fr k u s) (fun s1 => connectAll_fr k us s1)

theorem gotOpen_fr (uid : Nat) (name : String) (s : Side) : Fr s (gotOpen uid name s).1 := by
  unfold gotOpen
  split
  · exact connectSC_fr _ _ _
  · split
    · split
      · exact ⟨rfl, rfl, rfl⟩
      · exact Fr.refl s
    · exact ⟨rfl, rfl, rfl⟩

theorem handleOpen_fr (scid : Nat) (name : String) (s : Side) : Fr s (handleOpen scid name s).1 := by
  unfold handleOpen
  split
  · exact fr_log rfl rfl [_] rfl rfl
  · simp only []
    have h1 : Fr s { s with subs := s.subs ++ [SC.new scid name], open_ := s.open_ ++ [(scid, s.subs.length)] } :=
      ⟨rfl, rfl, rfl⟩
    have h2 := gotOpen_fr s.subs.length name
      { s with subs := s.subs ++ [SC.new scid name], open_ := s.open_ ++ [(scid, s.subs.length)] }
    split
    · rename_i s2 heq
      rw [heq] at h2
      have h3 : Fr s2 (sendRec (fun q => .txClose q scid) s2) := fr_log rfl rfl [_] rfl rfl
      split
      · exact h1.trans (h2.trans (h3.trans ⟨rfl, rfl, rfl⟩))
      · exact h1.trans (h2.trans h3)
    · exact h1.trans h2

theorem handleData_fr (scid : Nat) (d : Bytes) (s : Side) : Fr s (handleData scid d s).1 := by
  unfold handleData
  split
  · exact fr_log rfl rfl [_] rfl rfl
  · exact scInput_fr _ _ _ _

theorem handleClose_fr (scid : Nat) (s : Side) : Fr s (handleClose scid s).1 := by
  unfold handleClose
  split
  · exact fr_log rfl rfl [_] rfl rfl
  · exact scInput_fr _ _ _ _

theorem gotRecord_fr (seq : Nat) (handle : Side → Res) (hh : ∀ s1, Fr s1 (handle s1).1) (s : Side) :
    Fr s (gotRecord seq handle s).1 := by
  have h1 : Fr s (emit (.ack seq) s) := fr_log rfl rfl [_] rfl rfl
  have key : ∀ (b : Bool) (h' : Option Nat),
      Fr s (if b = true then (emit (.ack seq) s, none) else handle { emit (.ack seq) s with highestAcked := h' }).1 := by
    intro b h'
    cases b with
    | true => exact h1
    | false =>
      simp only [Bool.false_eq_true, if_false]
      have h2 : Fr (emit (.ack seq) s) { emit (.ack seq) s with highestAcked := h' } := ⟨rfl, rfl, rfl⟩
      exact h1.trans (h2.trans (hh _))
  unfold gotRecord
  exact key _ _

theorem gotRecordNoAck_fr (seq : Nat) (handle : Side → Res) (hh : ∀ s1, Fr s1 (handle s1).1) (s : Side) :
    Fr s (gotRecordNoAck seq handle s).1 := by
  have key : ∀ (b : Bool) (h' : Option Nat),
      Fr s (if b = true then (s, none) else handle { s with highestAcked := h' }).1 := by
    intro b h'
    cases b with
    | true => exact Fr.refl s
    | false =>
      simp only [Bool.false_eq_true, if_false]
      have h2 : Fr s { s with highestAcked := h' } := ⟨rfl, rfl, rfl⟩
      exact h2.trans (hh _)
  unfold gotRecordNoAck
  exact key _ _

theorem Rx.handler_fr (r : Rx) (s : Side) : Fr s (r.handler s).1 := by
  cases r with
  | opn q scid name => exact handleOpen_fr scid name s
  | data q scid d => exact handleData_fr scid d s
  | close q scid => exact handleClose_fr scid s

theorem selectRun_fr : ∀ (rs : List Rx) (s : Side), Fr s (selectRun rs s).1
  | [], s => Fr.refl s
  | r :: rs, s => by
    have h1 := gotRecordNoAck_fr r.seq r.handler (fun s1 => r.handler_fr s1) s
    unfold selectRun
    cases hr : gotRecordNoAck r.seq r.handler s with
    | mk s' e =>
      rw [hr] at h1
      cases e with
      | none => exact h1.trans (selectRun_fr rs s')
      | some err => exact h1.trans ⟨rfl, rfl, rfl⟩

theorem register_fr (name : String) (k : PKind) (s : Side) : Fr s (register name k s).1 := by
  unfold register
  split
  · exact Fr.refl s
  · simp only []
    have h1 : Fr s { s with factories := s.factories ++ [(name, k)], pendingOpens := eraseKey name s.pendingOpens } :=
      ⟨rfl, rfl, rfl⟩
    exact h1.trans (connectAll_fr k _ _)

/-- **frame.**  Every operation other than `connect` leaves the allocation counter and the OPENs on the wire alone -/
theorem step_fr (s : Side) (o : Op) (hne : ∀ name k, o ≠ .connect name k) : Fr s (step s o).1 := by
  cases o with
  | connect name k => exact absurd rfl (hne name k)
  | listen name k => exact register_fr name k s
  | write pid d =>
    simp only [step]
    split
    · exact Fr.refl s
    · exact scInput_fr _ _ _ _
  | lose pid =>
    simp only [step]
    split
    · exact Fr.refl s
    · split
      · exact Fr.refl s
      · exact scInput_fr _ _ _ _
  | loseWrite pid =>
    simp only [step]
    split
    · exact Fr.refl s
    · split
      · exact scInput_fr _ _ _ _
      · exact Fr.refl s
  | rxOpen seq scid name => exact gotRecord_fr seq _ (fun s1 => handleOpen_fr scid name s1) s
  | rxData seq scid d => exact gotRecord_fr seq _ (fun s1 => handleData_fr scid d s1) s
  | rxClose seq scid => exact gotRecord_fr seq _ (fun s1 => handleClose_fr scid s1) s
  | park r => exact ⟨rfl, rfl, rfl⟩
  | select =>
    have h1 : Fr s { s with parked := [] } := ⟨rfl, rfl, rfl⟩
    exact h1.trans (selectRun_fr s.parked _)
  | lost => exact ⟨rfl, rfl, rfl⟩

theorem connectTail_fr (name : String) (k : PKind) (uid : Nat) (s : Side) : Fr s (connectTail name k uid s).1 := by
  unfold connectTail
  simp only []
  refine fr_andThen ((buildProtocol_fr _ s).trans (setProtocol_fr _ _ _ _)) ?_
  intro s4
  exact fr_log (s := s4) (s' := emit (.made s.protoCount) s4) rfl rfl [.made s.protoCount] rfl rfl

/-- **what `connect` does to the counter and the wire**: an empty name fails before anything happens; otherwise the
    counter advances by exactly 2 and exactly one OPEN, carrying the old counter value, is added -/
theorem connect_ids (name : String) (k : PKind) (s : Side) :
    (name = "" ∧ (connect name k s).1 = s) ∨
    (name ≠ "" ∧ (connect name k s).1.nextScid = s.nextScid + 2 ∧
      openIds (connect name k s).1.log = openIds s.log ++ [s.nextScid] ∧ (connect name k s).1.leader = s.leader) := by
  unfold connect
  split
  · rename_i h; exact Or.inl ⟨h, rfl⟩
  · rename_i h
    refine Or.inr ⟨h, ?_⟩
    simp only []
    have base : ∀ s' : Side, Fr { sendRec (fun q => Eff.txOpen q s.nextScid name) { s with nextScid := s.nextScid + 2 } with
        subs := (sendRec (fun q => Eff.txOpen q s.nextScid name) { s with nextScid := s.nextScid + 2 }).subs ++
          [SC.new s.nextScid name] } s' →
        s'.nextScid = s.nextScid + 2 ∧ openIds s'.log = openIds s.log ++ [s.nextScid] ∧ s'.leader = s.leader := by
      intro s' fr
      refine ⟨fr.n, ?_, fr.l⟩
      rw [fr.o]
      show openIds (s.log ++ [Eff.txOpen s.nextSeq s.nextScid name]) = _
      rw [openIds_append]; rfl
    split
    · exact base _ (Fr.refl _)
    · refine base _ (Fr.trans ?_ (connectTail_fr _ _ _ _))
      exact ⟨rfl, rfl, rfl⟩

/-! ## the driven model -/

theorem stepW_of_not_connect (s : Side) (o : Op) (hne : ∀ name k, o ≠ .connect name k) : stepW s o = step s o := by
  cases o <;> first | rfl | exact absurd rfl (hne _ _)

theorem connectW_within {s : Side} (h : s.nextScid < wireLimit) (name : String) (k : PKind) :
    connectW name k s = connect name k s := by
  unfold connectW
  split
  · rename_i hn; unfold connect; simp [hn]
  · simp [h]

/-- ids: parity, non-zero, below the counter, strictly increasing (`IdsOK`) — and every id on the wire fits the field -/
def IdsW (s : Side) : Prop := IdsOK s ∧ ∀ c ∈ openIds s.log, c < wireLimit

theorem IdsOK_bump {s s' : Side} (m : Nat) (hl : s'.leader = s.leader) (hn : s'.nextScid = s.nextScid + 2 * m)
    (ho : openIds s'.log = openIds s.log) (h : IdsOK s) : IdsOK s' := by
  unfold IdsOK at *
  rw [hl, hn, ho]
  generalize (if s.leader = true then 1 else 0) = X at *
  obtain ⟨h1, h2, h3, h4⟩ := h
  refine ⟨by omega, by omega, ?_, h4⟩
  intro c hc
  have := h3 c hc
  omega

theorem IdsW_fr {s s' : Side} (fr : Fr s s') (h : IdsW s) : IdsW s' :=
  ⟨IdsOK_frame fr.l fr.n fr.o h.1, by rw [fr.o]; exact h.2⟩

theorem connectW_idsW (name : String) (k : PKind) {s : Side} (hwf : WF s) (h : IdsW s) : IdsW (connectW name k s).1 := by
  unfold connectW
  split
  · exact h
  · split
    · rename_i hne hlt
      refine ⟨(connect_evo hwf name k).ids h.1, ?_⟩
      rcases connect_ids name k s with ⟨he, _⟩ | ⟨_, _, ho, _⟩
      · exact absurd he hne
      · rw [ho]
        intro c hc
        rcases List.mem_append.mp hc with hc | hc
        · exact h.2 c hc
        · simp at hc; subst hc; exact hlt
    · exact ⟨IdsOK_bump (s := s) 1 rfl rfl rfl h.1, h.2⟩

theorem connectW_wf (name : String) (k : PKind) {s : Side} (hwf : WF s) : WF (connectW name k s).1 := by
  unfold connectW
  split
  · exact hwf
  · split
    · exact (connect_evo hwf name k).wf
    · exact ⟨hwf.bound, hwf.uniq⟩

theorem connectW_leader (name : String) (k : PKind) {s : Side} (hwf : WF s) : (connectW name k s).1.leader = s.leader := by
  unfold connectW
  split
  · rfl
  · split
    · exact (connect_evo hwf name k).leader
    · rfl

theorem stepW_inv {s : Side} (hwf : WF s) (h : IdsW s) (o : Op) :
    WF (stepW s o).1 ∧ IdsW (stepW s o).1 ∧ (stepW s o).1.leader = s.leader := by
  by_cases hc : ∃ name k, o = .connect name k
  · obtain ⟨name, k, rfl⟩ := hc
    exact ⟨connectW_wf name k hwf, connectW_idsW name k hwf h, connectW_leader name k hwf⟩
  · have hne : ∀ name k, o ≠ .connect name k := fun name k he => hc ⟨name, k, he⟩
    rw [stepW_of_not_connect s o hne]
    have ev := step_evo hwf o
    exact ⟨ev.wf, IdsW_fr (step_fr s o hne) h, ev.leader⟩

def WInvW (la lb : Bool) (w : World) : Prop :=
  WF w.a ∧ WF w.b ∧ IdsW w.a ∧ IdsW w.b ∧ w.a.leader = la ∧ w.b.leader = lb

theorem IdsW_of_step {s : Side} (hwf : WF s) (h : IdsW s) (o : Op) (hne : ∀ name k, o ≠ .connect name k) :
    IdsW (step s o).1 := IdsW_fr (step_fr s o hne) h

theorem wireOp_not_connect {e : Eff} {o : Op} (h : wireOp e = some o) : ∀ name k, o ≠ .connect name k := by
  intro name k hc
  cases e <;> simp [wireOp] at h <;> subst h <;> cases hc

theorem wire_not_connect {log : List Eff} {i : Nat} {o : Op} (h : (wire log)[i]? = some o) :
    ∀ name k, o ≠ .connect name k := by
  have hm : o ∈ wire log := List.mem_of_getElem? h
  unfold wire at hm
  obtain ⟨e, _, he⟩ := List.mem_filterMap.mp hm
  exact wireOp_not_connect he

theorem wstepW_inv {la lb : Bool} {w : World} (h : WInvW la lb w) (o : WOpW) : WInvW la lb (wstepW w o).1 := by
  obtain ⟨h1, h2, h3, h4, h5, h6⟩ := h
  have side : ∀ {s : Side} (hwf : WF s) (hi : IdsW s) (o : Op), (∀ name k, o ≠ .connect name k) →
      WF (step s o).1 ∧ IdsW (step s o).1 ∧ (step s o).1.leader = s.leader :=
    fun hwf hi o hne => ⟨(step_evo hwf o).wf, IdsW_of_step hwf hi o hne, (step_evo hwf o).leader⟩
  cases o with
  | ffwdA n => exact ⟨⟨h1.bound, h1.uniq⟩, h2, ⟨IdsOK_bump (s := w.a) n rfl rfl rfl h3.1, h3.2⟩, h4, h5, h6⟩
  | ffwdB n => exact ⟨h1, ⟨h2.bound, h2.uniq⟩, h3, ⟨IdsOK_bump (s := w.b) n rfl rfl rfl h4.1, h4.2⟩, h5, h6⟩
  | w o =>
    cases o with
    | onA o =>
      obtain ⟨a, b, c⟩ := stepW_inv h1 h3 o
      exact ⟨a, h2, b, h4, c.trans h5, h6⟩
    | onB o =>
      obtain ⟨a, b, c⟩ := stepW_inv h2 h4 o
      exact ⟨h1, a, h3, b, h5, c.trans h6⟩
    | deliverAB =>
      simp only [wstepW, wstep]
      split
      · exact ⟨h1, h2, h3, h4, h5, h6⟩
      · rename_i o ho
        obtain ⟨a, b, c⟩ := side h2 h4 o (wire_not_connect ho)
        exact ⟨h1, a, h3, b, h5, c.trans h6⟩
    | deliverBA =>
      simp only [wstepW, wstep]
      split
      · exact ⟨h1, h2, h3, h4, h5, h6⟩
      · rename_i o ho
        obtain ⟨a, b, c⟩ := side h1 h3 o (wire_not_connect ho)
        exact ⟨a, h2, b, h4, c.trans h5, h6⟩
    | parkAB =>
      simp only [wstepW, wstep]
      split
      · exact ⟨h1, h2, h3, h4, h5, h6⟩
      · rename_i x _
        obtain ⟨a, b, c⟩ := side h2 h4 (.park x) (fun _ _ hc => by cases hc)
        exact ⟨h1, a, h3, b, h5, c.trans h6⟩
    | parkBA =>
      simp only [wstepW, wstep]
      split
      · exact ⟨h1, h2, h3, h4, h5, h6⟩
      · rename_i x _
        obtain ⟨a, b, c⟩ := side h1 h3 (.park x) (fun _ _ hc => by cases hc)
        exact ⟨a, h2, b, h4, c.trans h5, h6⟩
    | lostA =>
      obtain ⟨a, b, c⟩ := side h1 h3 .lost (fun _ _ hc => by cases hc)
      exact ⟨a, h2, b, h4, c.trans h5, h6⟩
    | lostB =>
      obtain ⟨a, b, c⟩ := side h2 h4 .lost (fun _ _ hc => by cases hc)
      exact ⟨h1, a, h3, b, h5, c.trans h6⟩

theorem wrunW_inv {la lb : Bool} : ∀ (ops : List WOpW) (w : World), WInvW la lb w → WInvW la lb (wrunW w ops)
  | [], _, h => h
  | o :: os, _, h => wrunW_inv os _ (wstepW_inv h o)

/-! ## inside the field the driven model is the unbounded one -/

/-- the allocation this world operation would make (if it is a `connect` with a name) fits the wire field -/
def fitsStep (w : World) : WOp → Prop
  | .onA (.connect name _) => name = "" ∨ w.a.nextScid < wireLimit
  | .onB (.connect name _) => name = "" ∨ w.b.nextScid < wireLimit
  | _ => True

/-- … at every step of a run of the unbounded model -/
def WithinWire : World → List WOp → Prop
  | _, [] => True
  | w, o :: os => fitsStep w o ∧ WithinWire (wstep w o).1 os

theorem connectW_fits {s : Side} {name : String} (h : name = "" ∨ s.nextScid < wireLimit) (k : PKind) :
    connectW name k s = connect name k s := by
  rcases h with h | h
  · unfold connectW connect; simp [h]
  · exact connectW_within h name k

theorem wstepW_eq_wstep {w : World} {o : WOp} (h : fitsStep w o) : wstepW w (.w o) = wstep w o := by
  cases o with
  | onA o =>
    cases o <;> first
      | rfl
      | (simp only [fitsStep] at h; simp only [wstepW, wstep, stepW, step, connectW_fits h])
  | onB o =>
    cases o <;> first
      | rfl
      | (simp only [fitsStep] at h; simp only [wstepW, wstep, stepW, step, connectW_fits h])
  | deliverAB => rfl
  | deliverBA => rfl
  | parkAB => rfl
  | parkBA => rfl
  | lostA => rfl
  | lostB => rfl

theorem wrunW_eq_wrun : ∀ (ops : List WOp) (w : World), WithinWire w ops → wrunW w (ops.map .w) = wrun w ops
  | [], _, _ => rfl
  | o :: os, w, h => by
    simp only [List.map, wrunW, wrun]
    rw [wstepW_eq_wstep h.1]
    exact wrunW_eq_wrun os _ h.2

/-- the counter never goes down, and only `connect` (by 2) and `ffwd` move it -/
theorem stepW_counter (s : Side) (o : Op) : s.nextScid ≤ (stepW s o).1.nextScid := by
  by_cases hc : ∃ name k, o = .connect name k
  · obtain ⟨name, k, rfl⟩ := hc
    show s.nextScid ≤ (connectW name k s).1.nextScid
    unfold connectW
    split
    · exact Nat.le_refl _
    · split
      · rcases connect_ids name k s with ⟨_, he⟩ | ⟨_, hn, _⟩
        · rw [he]; exact Nat.le_refl _
        · omega
      · show s.nextScid ≤ s.nextScid + 2; omega
  · have hne : ∀ name k, o ≠ .connect name k := fun name k he => hc ⟨name, k, he⟩
    rw [stepW_of_not_connect s o hne, (step_fr s o hne).n]
    exact Nat.le_refl _

end WV.C13
