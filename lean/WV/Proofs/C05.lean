import WV.Model.C05

/-! Helper lemmas for C05: `split('/')` / `'/'.join`, the `normpath` loop, `join`. -/
namespace WV.C05
open List

/-- an ordinary path component: not empty, not `.`, not `..`, no separator -/
def IsName (c : Path) : Prop := c ≠ [] ∧ c ≠ dot ∧ c ≠ dotdot ∧ '/' ∉ c

instance (c : Path) : Decidable (IsName c) := by unfold IsName; infer_instance

deriving instance DecidableEq for Except

/-! ### split / join -/

theorem splitSlash_append_slash (a b : Path) :
    splitSlash (a ++ '/' :: b) = ((splitSlash a).1, (splitSlash a).2 ++ comps b) := by
  induction a with
  | nil => simp [splitSlash, comps]
  | cons c cs ih =>
    by_cases h : c = '/'
    · simp [splitSlash, h, ih]
    · simp [splitSlash, h, ih]

theorem comps_append_slash (a b : Path) : comps (a ++ '/' :: b) = comps a ++ comps b := by
  simp [comps, splitSlash_append_slash]

theorem splitSlash_noslash {c : Path} (h : '/' ∉ c) : splitSlash c = (c, []) := by
  induction c with
  | nil => simp [splitSlash]
  | cons x xs ih =>
    have hx : x ≠ '/' := fun e => h (by simp [e])
    have hxs : '/' ∉ xs := fun e => h (by simp [e])
    simp [splitSlash, hx, ih hxs]

theorem comps_noslash {c : Path} (h : '/' ∉ c) : comps c = [c] := by
  simp [comps, splitSlash_noslash h]

theorem comps_nil : comps [] = [[]] := by simp [comps, splitSlash]

theorem comps_cons_slash (p : Path) : comps ('/' :: p) = [] :: comps p := by
  simp [comps, splitSlash]

theorem comps_ne_nil (p : Path) : comps p ≠ [] := by simp [comps]

theorem comps_joinSlash : ∀ (cs : List Path), cs ≠ [] → (∀ c ∈ cs, '/' ∉ c) → comps (joinSlash cs) = cs
  | [], h, _ => absurd rfl h
  | [a], _, hs => by simpa [joinSlash] using comps_noslash (hs a (by simp))
  | a :: b :: rest, _, hs => by
    have ih := comps_joinSlash (b :: rest) (by simp) (fun c hc => hs c (by simp at hc ⊢; right; exact hc))
    have ha : '/' ∉ a := hs a (by simp)
    simp only [joinSlash, comps_append_slash, comps_noslash ha, ih]
    simp

theorem joinSlash_cons_cons (c : Char) (h : Path) (t : List Path) :
    joinSlash ((c :: h) :: t) = c :: joinSlash (h :: t) := by
  cases t <;> simp [joinSlash]

theorem joinSlash_comps (p : Path) : joinSlash (comps p) = p := by
  induction p with
  | nil => simp [comps, splitSlash, joinSlash]
  | cons c cs ih =>
    by_cases h : c = '/'
    · subst h
      rw [comps_cons_slash]
      simp only [comps] at ih ⊢
      simp [joinSlash, ih]
    · have : comps (c :: cs) = (c :: (splitSlash cs).1) :: (splitSlash cs).2 := by
        simp [comps, splitSlash, h]
      rw [this, joinSlash_cons_cons]
      simp only [comps] at ih
      rw [ih]

theorem comps_mem_noslash (p : Path) : ∀ c ∈ comps p, '/' ∉ c := by
  induction p with
  | nil => simp [comps, splitSlash]
  | cons x xs ih =>
    by_cases h : x = '/'
    · subst h
      rw [comps_cons_slash]
      intro c hc
      simp at hc
      rcases hc with rfl | hc
      · simp
      · exact ih c hc
    · have : comps (x :: xs) = (x :: (splitSlash xs).1) :: (splitSlash xs).2 := by
        simp [comps, splitSlash, h]
      rw [this]
      intro c hc
      simp at hc
      rcases hc with rfl | hc
      · have h1 := ih (splitSlash xs).1 (by simp [comps])
        intro hm
        simp at hm
        rcases hm with hm | hm
        · exact h hm.symm
        · exact h1 hm
      · exact ih c (by simp [comps, hc])

theorem joinSlash_append : ∀ (a b : List Path), a ≠ [] → b ≠ [] →
    joinSlash (a ++ b) = joinSlash a ++ '/' :: joinSlash b
  | [], _, h, _ => absurd rfl h
  | [x], [], _, h => absurd rfl h
  | [x], y :: ys, _, _ => by simp [joinSlash]
  | x :: x' :: xs, b, _, hb => by
    have ih := joinSlash_append (x' :: xs) b (by simp) hb
    simp only [List.cons_append] at ih ⊢
    simp [joinSlash, ih]

theorem comps_replicate_slash (n : Nat) (q : Path) :
    comps (List.replicate n '/' ++ q) = List.replicate n [] ++ comps q := by
  induction n with
  | zero => simp
  | succ k ih => simp [List.replicate_succ, comps_cons_slash, ih]

/-! ### the `normpath` loop -/

theorem IsName.ne_nil {c : Path} (h : IsName c) : c ≠ [] := h.1
theorem IsName.noslash {c : Path} (h : IsName c) : '/' ∉ c := h.2.2.2

theorem IsName.head_ne_slash {c : Path} (h : IsName c) : c.head? ≠ some '/' := by
  cases c with
  | nil => simp
  | cons x xs =>
    intro e
    simp at e
    exact h.noslash (by simp [e])

theorem normStep_nil (abs : Bool) (st : List Path) : normStep abs st [] = st := by
  simp [normStep]

theorem normStep_dot (abs : Bool) (st : List Path) : normStep abs st dot = st := by
  simp [normStep]

theorem normStep_name (abs : Bool) (st : List Path) {c : Path} (h : IsName c) :
    normStep abs st c = c :: st := by
  simp [normStep, h.1, h.2.1, h.2.2.1]

theorem foldl_names (abs : Bool) : ∀ (ys : List Path) (st : List Path), (∀ c ∈ ys, IsName c) →
    ys.foldl (normStep abs) st = ys.reverse ++ st
  | [], st, _ => by simp
  | y :: ys, st, h => by
    have hy : IsName y := h y (by simp)
    have ih := foldl_names abs ys (y :: st) (fun c hc => h c (by simp [hc]))
    simp [List.foldl_cons, normStep_name abs st hy, ih]

theorem foldl_replicate_nil (abs : Bool) (n : Nat) (st : List Path) :
    (List.replicate n ([] : Path)).foldl (normStep abs) st = st := by
  induction n with
  | zero => simp
  | succ k ih => simp [List.replicate_succ, normStep_nil, ih]

/-- on an absolute path the stack only ever holds ordinary names -/
theorem normStep_inv {st : List Path} {c : Path} (hst : ∀ e ∈ st, IsName e) (hc : '/' ∉ c) :
    ∀ e ∈ normStep true st c, IsName e := by
  unfold normStep
  by_cases h1 : c = [] ∨ c = dot
  · simpa [h1] using hst
  · rw [if_neg h1]
    by_cases h2 : c ≠ dotdot
    · have hn : IsName c := ⟨fun e => h1 (Or.inl e), fun e => h1 (Or.inr e), h2, hc⟩
      rw [if_pos (Or.inl h2)]
      intro e he
      simp at he
      rcases he with rfl | he
      · exact hn
      · exact hst e he
    · have h3 : st.head? ≠ some dotdot := by
        intro e
        cases st with
        | nil => simp at e
        | cons x xs =>
          simp at e
          have := hst x (by simp)
          exact this.2.2.1 e
      have hcond : ¬ (c ≠ dotdot ∨ (true = false ∧ st = []) ∨ st.head? = some dotdot) := by
        intro hh
        rcases hh with hh | hh | hh
        · exact h2 hh
        · exact absurd hh.1 (by decide)
        · exact h3 hh
      rw [if_neg hcond]
      intro e he
      exact hst e (List.mem_of_mem_tail he)

theorem foldl_inv : ∀ (cs : List Path) (st : List Path), (∀ e ∈ st, IsName e) → (∀ c ∈ cs, '/' ∉ c) →
    ∀ e ∈ cs.foldl (normStep true) st, IsName e
  | [], st, hst, _ => by simpa using hst
  | c :: cs, st, hst, hcs => by
    simp only [List.foldl_cons]
    exact foldl_inv cs _ (normStep_inv hst (hcs c (by simp))) (fun x hx => hcs x (by simp [hx]))

/-! ### `initial_slashes` -/

theorem initialSlashes_abs {x : Path} (h : x.head? = some '/') :
    initialSlashes x = 1 ∨ initialSlashes x = 2 := by
  cases x with
  | nil => simp at h
  | cons c0 t0 =>
    simp at h
    subst h
    cases t0 with
    | nil => simp [initialSlashes]
    | cons c1 t1 =>
      by_cases h1 : c1 = '/'
      · subst h1
        cases t1 with
        | nil => simp [initialSlashes]
        | cons c2 t2 => by_cases h2 : c2 = '/' <;> simp [initialSlashes, h2]
      · simp [initialSlashes, h1]

/-! ### `join` -/

theorem join2_cases {x y : Path} (hx : x ≠ []) (hy : y.head? ≠ some '/') :
    (∃ x', x = x' ++ ['/'] ∧ join2 x y = x' ++ '/' :: y) ∨ join2 x y = x ++ '/' :: y := by
  unfold join2
  rw [if_neg hy]
  by_cases hl : x.getLast? = some '/'
  · left
    obtain ⟨x', hx'⟩ := List.getLast?_eq_some_iff.mp hl
    refine ⟨x', hx', ?_⟩
    rw [if_pos (Or.inr hl), hx']
    simp
  · right
    rw [if_neg]
    intro h
    rcases h with h | h
    · exact hx h
    · exact hl h

theorem foldl_comps_join2 (abs : Bool) (st : List Path) {x y : Path} (hx : x ≠ []) (hy : y.head? ≠ some '/') :
    (comps (join2 x y)).foldl (normStep abs) st
      = (comps y).foldl (normStep abs) ((comps x).foldl (normStep abs) st) := by
  rcases join2_cases hx hy with ⟨x', hx', hj⟩ | hj
  · rw [hj, hx', comps_append_slash, comps_append_slash, comps_nil]
    simp [List.foldl_append, normStep_nil]
  · rw [hj, comps_append_slash]
    simp [List.foldl_append]

theorem initialSlashes_join2 {x y : Path} (hx : x.head? = some '/') (hy : y.head? ≠ some '/') :
    initialSlashes (join2 x y) = initialSlashes x := by
  unfold join2
  rw [if_neg hy]
  match x, hx with
  | [c0], h =>
    simp at h
    subst h
    cases y with
    | nil => simp [initialSlashes]
    | cons c1 t =>
      have : c1 ≠ '/' := by simpa using hy
      simp [initialSlashes, this]
  | [c0, c1], h =>
    simp at h
    subst h
    by_cases h1 : c1 = '/'
    · subst h1
      cases y with
      | nil => simp [initialSlashes]
      | cons c2 t =>
        have : c2 ≠ '/' := by simpa using hy
        simp [initialSlashes, this]
    · simp [initialSlashes, h1]
  | c0 :: c1 :: c2 :: t, h =>
    simp at h
    subst h
    split <;> simp [initialSlashes]

theorem head?_joinSlash_names : ∀ (ys : List Path), (∀ c ∈ ys, IsName c) → (joinSlash ys).head? ≠ some '/'
  | [], _ => by simp [joinSlash]
  | [a], h => by simpa [joinSlash] using (h a (by simp)).head_ne_slash
  | a :: b :: rest, h => by
    have ha := h a (by simp)
    cases a with
    | nil => exact absurd rfl ha.ne_nil
    | cons c cs =>
      have := ha.head_ne_slash
      simpa [joinSlash] using this

/-- `normpath(join(x, "a/b/c"))` appends the names to what `normpath(x)` computed -/
theorem normParts_join2_names {x : Path} (hx : x.head? = some '/') (ys : List Path) (hne : ys ≠ [])
    (hys : ∀ c ∈ ys, IsName c) :
    normParts (join2 x (joinSlash ys)) = ((normParts x).1, (normParts x).2 ++ ys) := by
  have hx' : x ≠ [] := by intro e; simp [e] at hx
  have hy := head?_joinSlash_names ys hys
  unfold normParts
  rw [initialSlashes_join2 hx hy, foldl_comps_join2 _ _ hx' hy,
    comps_joinSlash ys hne (fun c hc => (hys c hc).noslash), foldl_names _ ys _ hys]
  simp

/-- `normpath(join(x, ""))` and `normpath(join(x, "."))` are `normpath(x)` -/
theorem normParts_join2_trivial {x b : Path} (hx : x.head? = some '/') (hb : b = [] ∨ b = dot) :
    normParts (join2 x b) = normParts x := by
  have hx' : x ≠ [] := by intro e; simp [e] at hx
  have hy : b.head? ≠ some '/' := by rcases hb with rfl | rfl <;> simp [dot]
  have hc : comps b = [b] := by rcases hb with rfl | rfl <;> simp [comps, splitSlash, dot]
  unfold normParts
  rw [initialSlashes_join2 hx hy, foldl_comps_join2 _ _ hx' hy, hc]
  rcases hb with rfl | rfl <;> simp [normStep_nil, normStep_dot]

theorem join2_abs {x y : Path} (hx : x.head? = some '/') : (join2 x y).head? = some '/' := by
  unfold join2
  split
  · assumption
  · cases x with
    | nil => simp at hx
    | cons c cs => split <;> simpa using hx

/-! ### `normpath` of an absolute path -/

theorem render_ne_nil {n : Nat} (cs : List Path) (h : n = 1 ∨ n = 2) : render (n, cs) ≠ [] := by
  rcases h with rfl | rfl <;> simp [render, List.replicate_succ]

theorem normpath_abs {x : Path} (hx : x.head? = some '/') : normpath x = render (normParts x) := by
  have hx' : x ≠ [] := by intro e; simp [e] at hx
  have := render_ne_nil (normParts x).2 (initialSlashes_abs hx)
  unfold normpath
  rw [if_neg hx']
  simp only
  rw [if_neg]
  exact this

theorem normParts_names {x : Path} (hx : x.head? = some '/') : ∀ e ∈ (normParts x).2, IsName e := by
  have h12 := initialSlashes_abs hx
  have hb : (initialSlashes x != 0) = true := by rcases h12 with h | h <;> simp [h]
  unfold normParts
  simp only [hb, List.mem_reverse]
  exact foldl_inv _ [] (by simp) (comps_mem_noslash x)

theorem render_snoc (n : Nat) {cs ys : List Path} (hc : cs ≠ []) (hy : ys ≠ []) :
    render (n, cs ++ ys) = render (n, cs) ++ '/' :: joinSlash ys := by
  simp [render, joinSlash_append cs ys hc hy]

/-! ### normal forms -/

theorem initialSlashes_render {n : Nat} (hn : n = 1 ∨ n = 2) {q : Path} (hq : q.head? ≠ some '/') :
    initialSlashes (List.replicate n '/' ++ q) = n := by
  rcases hn with rfl | rfl
  · cases q with
    | nil => simp [initialSlashes, List.replicate_succ]
    | cons c t =>
      have : c ≠ '/' := by simpa using hq
      simp [initialSlashes, List.replicate_succ, this]
  · cases q with
    | nil => simp [initialSlashes, List.replicate_succ]
    | cons c t =>
      have : c ≠ '/' := by simpa using hq
      simp [initialSlashes, List.replicate_succ, this]

theorem comps_render (n : Nat) (cs : List Path) (hcs : ∀ c ∈ cs, IsName c) :
    comps (render (n, cs)) = List.replicate n [] ++ (if cs = [] then [[]] else cs) := by
  unfold render
  rw [comps_replicate_slash]
  by_cases h : cs = []
  · simp [h, joinSlash, comps_nil]
  · simp only [h, if_false]
    rw [comps_joinSlash cs h (fun c hc => (hcs c hc).noslash)]

/-- `normpath` is idempotent on what it produces for absolute paths -/
theorem normParts_render {n : Nat} (hn : n = 1 ∨ n = 2) (cs : List Path) (hcs : ∀ c ∈ cs, IsName c) :
    normParts (render (n, cs)) = (n, cs) := by
  have hi : initialSlashes (render (n, cs)) = n := initialSlashes_render hn (head?_joinSlash_names cs hcs)
  unfold normParts
  rw [hi, comps_render n cs hcs, List.foldl_append, foldl_replicate_nil]
  by_cases h : cs = []
  · simp [h, normStep_nil]
  · simp only [h, if_false]
    rw [foldl_names _ cs [] hcs]
    simp

theorem render_head {n : Nat} (hn : n = 1 ∨ n = 2) (cs : List Path) : (render (n, cs)).head? = some '/' := by
  rcases hn with rfl | rfl <;> simp [render, List.replicate_succ]

/-- an absolute, normalised, non-root path (what `os.getcwd()` and `abspath` return) -/
structure Norm (d : Path) : Prop where
  abs : d.head? = some '/'
  fix : normpath d = d
  notRoot : d ≠ ['/'] ∧ d ≠ ['/', '/']

theorem Norm.eq_render {d : Path} (h : Norm d) : d = render (normParts d) := by
  have := normpath_abs h.abs
  rw [h.fix] at this
  exact this

theorem Norm.parts_ne_nil {d : Path} (h : Norm d) : (normParts d).2 ≠ [] := by
  intro e
  have hr := h.eq_render
  have h12 := initialSlashes_abs h.abs
  have h1 : (normParts d).1 = initialSlashes d := rfl
  have : render (normParts d) = List.replicate (initialSlashes d) '/' := by
    unfold render
    rw [e, h1]
    simp [joinSlash]
  rw [this] at hr
  rcases h12 with h' | h' <;> rw [h'] at hr
  · exact h.notRoot.1 (by simpa [List.replicate_succ] using hr)
  · exact h.notRoot.2 (by simpa [List.replicate_succ] using hr)

theorem abspath_abs (proc : Path) {p : Path} (h : p.head? = some '/') : abspath proc p = normpath p := by
  simp [abspath, h]

/-- **child lemma**: for an absolute `x` whose normal form is not a root, and an ordinary name `b`,
    `abspath(join(x, b))` is `normpath(x) + "/" + b` -/
theorem abspath_child (proc : Path) {x b : Path} (hx : x.head? = some '/') (hb : IsName b)
    (hnr : normpath x ≠ ['/'] ∧ normpath x ≠ ['/', '/']) :
    abspath proc (join2 x b) = normpath x ++ '/' :: b := by
  have hj : join2 x b = join2 x (joinSlash [b]) := by simp [joinSlash]
  have hne : (normParts x).2 ≠ [] := by
    intro e
    have h12 := initialSlashes_abs hx
    have h1 : (normParts x).1 = initialSlashes x := rfl
    have hr := normpath_abs hx
    have : render (normParts x) = List.replicate (initialSlashes x) '/' := by
      unfold render
      rw [e, h1]
      simp [joinSlash]
    rw [this] at hr
    rcases h12 with h' | h' <;> rw [h'] at hr
    · exact hnr.1 (by simpa [List.replicate_succ] using hr)
    · exact hnr.2 (by simpa [List.replicate_succ] using hr)
  rw [abspath_abs proc (join2_abs hx), normpath_abs (join2_abs hx), hj,
    normParts_join2_names hx [b] (by simp) (by simpa using hb), render_snoc _ hne (by simp),
    normpath_abs hx]
  simp [joinSlash]

/-- the degenerate names: `abspath(join(x, ""))` and `abspath(join(x, "."))` are `normpath(x)` itself -/
theorem abspath_trivial (proc : Path) {x b : Path} (hx : x.head? = some '/') (hb : b = [] ∨ b = dot) :
    abspath proc (join2 x b) = normpath x := by
  rw [abspath_abs proc (join2_abs hx), normpath_abs (join2_abs hx), normParts_join2_trivial hx hb,
    normpath_abs hx]

theorem normpath_idem {x : Path} (hx : x.head? = some '/') : normpath (normpath x) = normpath x := by
  have h12 := initialSlashes_abs hx
  have h1 : (normParts x).1 = initialSlashes x := rfl
  have hn : (normParts x).1 = 1 ∨ (normParts x).1 = 2 := by rw [h1]; exact h12
  have hh : (render (normParts x)).head? = some '/' := by
    have := render_head hn (normParts x).2
    simpa using this
  rw [normpath_abs hx, normpath_abs hh]
  have this : normParts (render (normParts x)) = normParts x :=
    normParts_render hn (normParts x).2 (normParts_names hx)
  rw [this]

/-- the child of a normal path by an ordinary name is again normal -/
theorem Norm.child {d b : Path} (hd : Norm d) (hb : IsName b) : Norm (d ++ '/' :: b) := by
  have hc := abspath_child [] hd.abs hb (by rw [hd.fix]; exact hd.notRoot)
  rw [hd.fix, abspath_abs [] (join2_abs hd.abs)] at hc
  refine ⟨?_, ?_, ?_⟩
  · cases d with
    | nil => exact absurd hd.abs (by simp)
    | cons c cs => simpa using hd.abs
  · rw [← hc]
    exact normpath_idem (join2_abs hd.abs)
  · cases d with
    | nil => exact absurd hd.abs (by simp)
    | cons c cs =>
      have hc' : c = '/' := by simpa using hd.abs
      subst hc'
      constructor
      · simp
      · intro e
        simp at e
        have : cs = [] := by
          cases cs with
          | nil => rfl
          | cons y ys => simp at e
        subst this
        exact hd.notRoot.1 rfl

/-! ### the `_extract_file` guard -/

theorem replicate_nil_append_inj : ∀ (n m : Nat) (A B : List Path),
    (∀ a, A.head? = some a → a ≠ []) → A ≠ [] → (∀ b, B.head? = some b → b ≠ []) → B ≠ [] →
    List.replicate n ([] : Path) ++ A = List.replicate m ([] : Path) ++ B → A = B
  | 0, 0, _, _, _, _, _, _, h => by simpa using h
  | 0, m + 1, A, B, hA, hA', _, _, h => by
    cases A with
    | nil => exact absurd rfl hA'
    | cons a as =>
      simp [List.replicate_succ] at h
      exact absurd h.1 (hA a (by simp))
  | n + 1, 0, A, B, _, _, hB, hB', h => by
    cases B with
    | nil => exact absurd rfl hB'
    | cons b bs =>
      simp [List.replicate_succ] at h
      exact absurd h.1 (hB b (by simp))
  | n + 1, m + 1, A, B, hA, hA', hB, hB', h => by
    simp [List.replicate_succ] at h
    exact replicate_nil_append_inj n m A B hA hA' hB hB' h

/-- "strictly below": `p = d/c₁/…/cₖ`, k ≥ 1, every `cᵢ` an ordinary name -/
def Below (d p : Path) : Prop :=
  ∃ rest : List Path, rest ≠ [] ∧ (∀ c ∈ rest, IsName c) ∧ p = d ++ '/' :: joinSlash rest

theorem prefix_slash_below {d x : Path} (hd : Norm d) (hx : x.head? = some '/')
    (hp : (d ++ ['/']).isPrefixOf (normpath x) = true) : Below d (normpath x) := by
  obtain ⟨r, hr⟩ := List.isPrefixOf_iff_prefix.mp hp
  have hr' : normpath x = d ++ '/' :: r := by rw [← hr]; simp
  -- both sides as component lists
  have h12 := initialSlashes_abs hx
  have hn : (normParts x).1 = 1 ∨ (normParts x).1 = 2 := h12
  have hxs := normParts_names hx
  have hds := normParts_names hd.abs
  have hdne := hd.parts_ne_nil
  have e1 : comps (normpath x) = comps d ++ comps r := by rw [hr', comps_append_slash]
  rw [normpath_abs hx] at e1
  have e2 : comps d = comps (render (normParts d)) := by rw [← hd.eq_render]
  rw [e2] at e1
  have c1 : comps (render (normParts x)) = _ := comps_render (normParts x).1 (normParts x).2 hxs
  have c2 : comps (render (normParts d)) = _ := comps_render (normParts d).1 (normParts d).2 hds
  rw [c1, c2, if_neg hdne, List.append_assoc] at e1
  -- the stack of x cannot be empty
  have hxne : (normParts x).2 ≠ [] := by
    intro e
    rw [if_pos e] at e1
    have hmem : ∀ c ∈ List.replicate (normParts x).1 ([] : Path) ++ [[]], c = [] := by
      intro c hc
      simp at hc
      rcases hc with hc | hc
      · exact hc.2
      · exact hc
    obtain ⟨c0, t0, hc0⟩ := List.exists_cons_of_ne_nil hdne
    have : c0 ∈ List.replicate (normParts x).1 ([] : Path) ++ [[]] := by
      rw [e1, hc0]; simp
    exact (hds c0 (by rw [hc0]; simp)).ne_nil (hmem c0 this)
  rw [if_neg hxne] at e1
  have key := replicate_nil_append_inj _ _ _ _
    (by
      intro a ha
      obtain ⟨c0, t0, hc0⟩ := List.exists_cons_of_ne_nil hxne
      rw [hc0] at ha
      simp at ha
      subst ha
      exact (hxs c0 (by rw [hc0]; simp)).ne_nil)
    hxne
    (by
      intro b hb
      obtain ⟨c0, t0, hc0⟩ := List.exists_cons_of_ne_nil hdne
      rw [hc0] at hb
      simp at hb
      subst hb
      exact (hds c0 (by rw [hc0]; simp)).ne_nil)
    (by simp [hdne])
    e1
  refine ⟨comps r, comps_ne_nil r, ?_, ?_⟩
  · intro c hc
    exact hxs c (by rw [key]; simp [hc])
  · rw [joinSlash_comps]
    exact hr'

/-! ### basename -/

theorem basename_noslash : ∀ p : Path, '/' ∉ basename p
  | [] => by simp [basename]
  | c :: cs => by
    unfold basename
    by_cases h : '/' ∈ cs
    · rw [if_pos h]
      exact basename_noslash cs
    · rw [if_neg h]
      by_cases hc : c = '/'
      · rw [if_pos hc]; exact h
      · rw [if_neg hc]
        intro hm
        simp at hm
        rcases hm with hm | hm
        · exact hc hm.symm
        · exact h hm

theorem name_cases {b : Path} (h : '/' ∉ b) : IsName b ∨ b = [] ∨ b = dot ∨ b = dotdot := by
  by_cases h1 : b = []
  · exact Or.inr (Or.inl h1)
  · by_cases h2 : b = dot
    · exact Or.inr (Or.inr (Or.inl h2))
    · by_cases h3 : b = dotdot
      · exact Or.inr (Or.inr (Or.inr h3))
      · exact Or.inl ⟨h1, h2, h3, h⟩

/-! ### the file system -/

/-- every (real) directory of `fs` is still a directory in `fs'` -/
def KeepsDirs (fs fs' : FS) : Prop := ∀ p, fs.isRealDir p = true → fs'.isRealDir p = true

theorem KeepsDirs.refl (fs : FS) : KeepsDirs fs fs := fun _ h => h
theorem KeepsDirs.trans {a b c : FS} (h1 : KeepsDirs a b) (h2 : KeepsDirs b c) : KeepsDirs a c :=
  fun p h => h2 p (h1 p h)

theorem not_isDir_not_real {fs : FS} {p : Path} (h : fs.isDir p = false) : fs.isRealDir p = false := by
  unfold FS.isDir at h
  unfold FS.isRealDir
  cases hk : fs.kind p with
  | none => simp
  | some k => cases k <;> simp_all

theorem keepsDirs_remove_real {fs : FS} {d : Path} (h : fs.isRealDir d = false) : KeepsDirs fs (fs.remove d) := by
  intro p hp
  by_cases e : p = d
  · subst e; rw [h] at hp; exact absurd hp (by decide)
  · simpa [FS.isRealDir, FS.remove, e] using hp

theorem keepsDirs_set_real {fs : FS} {d : Path} (k : Kind) (h : fs.isRealDir d = false) : KeepsDirs fs (fs.set d k) := by
  intro p hp
  by_cases e : p = d
  · subst e; rw [h] at hp; exact absurd hp (by decide)
  · simpa [FS.isRealDir, FS.set, e] using hp

theorem keepsDirs_remove_file {fs : FS} {d : Path} (h : fs.isDir d = false) : KeepsDirs fs (fs.remove d) :=
  keepsDirs_remove_real (not_isDir_not_real h)

theorem keepsDirs_set {fs : FS} {d : Path} (k : Kind) (h : fs.isDir d = false) : KeepsDirs fs (fs.set d k) :=
  keepsDirs_set_real k (not_isDir_not_real h)

theorem keepsDirs_openWrite {fs : FS} {d : Path} (h : fs.isDir d = false) : KeepsDirs fs (fs.openWrite d) := by
  unfold FS.openWrite
  split
  · exact keepsDirs_set _ h
  · exact keepsDirs_set _ h

theorem isFile_not_isDir {fs : FS} {p : Path} (h : fs.isFile p = true) : fs.isDir p = false := by
  unfold FS.isFile at h
  unfold FS.isDir
  cases hk : fs.kind p with
  | none => simp
  | some k =>
    cases k with
    | link r =>
      cases r with
      | none => simp_all
      | some x => cases x <;> simp_all
    | _ => simp_all

theorem isDir_exists {fs : FS} {p : Path} (h : fs.isDir p = true) : fs.pathExists p = true := by
  unfold FS.isDir at h
  unfold FS.pathExists
  cases hk : fs.kind p with
  | none => simp_all
  | some k =>
    cases k with
    | link r =>
      cases r with
      | none => simp_all
      | some x => cases x <;> simp_all
    | _ => simp_all

theorem not_exists_not_isDir {fs : FS} {p : Path} (h : fs.pathExists p = false) : fs.isDir p = false := by
  cases hd : fs.isDir p
  · rfl
  · rw [isDir_exists hd] at h; exact absurd h (by decide)

theorem removeExisting_spec (fs : FS) (p : Path) :
    (fs.isFile p = true ∧ removeExisting fs p = (fs.remove p, .ok ())) ∨
    (fs.isFile p = false ∧ fs.isDir p = true ∧ removeExisting fs p = (fs, .error .transferRejected)) ∨
    (fs.isFile p = false ∧ fs.isDir p = false ∧ removeExisting fs p = (fs, .ok ())) := by
  unfold removeExisting
  by_cases h : fs.isFile p = true
  · left
    refine ⟨h, ?_⟩
    have : (fs.remove p).isDir p = false := by simp [FS.isDir, FS.remove]
    simp [h, this]
  · right
    have h' : fs.isFile p = false := by simpa using h
    by_cases hd : fs.isDir p = true
    · left; simp [h', hd]
    · right
      have hd' : fs.isDir p = false := by simpa using hd
      simp [h', hd']

theorem removeExisting_keepsDirs {fs fs' : FS} {p : Path} {r} (h : removeExisting fs p = (fs', r)) :
    KeepsDirs fs fs' := by
  rcases removeExisting_spec fs p with ⟨hf, e⟩ | ⟨_, _, e⟩ | ⟨_, _, e⟩ <;> rw [e] at h
  · have : fs' = fs.remove p := by simpa using (congrArg Prod.fst h).symm
    rw [this]; exact keepsDirs_remove_file (isFile_not_isDir hf)
  · have : fs' = fs := by simpa using (congrArg Prod.fst h).symm
    rw [this]; exact KeepsDirs.refl fs
  · have : fs' = fs := by simpa using (congrArg Prod.fst h).symm
    rw [this]; exact KeepsDirs.refl fs

/-! ### `_decide_destname` -/

theorem decideDest_no_output (fs : FS) (a : Args) (n : Path) (h : a.outputFile = []) :
    decideDest fs a n =
      if fs.pathExists (abspath a.proc (join2 a.cwd (basename n))) = true then (fs, .error .transferRejected)
      else (fs, .ok (abspath a.proc (join2 a.cwd (basename n)))) := by
  simp [decideDest, confirmOverwrite, h]

/-- what `abspath(join(x, basename(n)))` can be -/
theorem candidate_cases (proc : Path) {x : Path} (hx : x.head? = some '/')
    (hnr : normpath x ≠ ['/'] ∧ normpath x ≠ ['/', '/']) (n : Path) :
    (IsName (basename n) ∧ abspath proc (join2 x (basename n)) = normpath x ++ '/' :: basename n) ∨
    (¬ IsName (basename n) ∧ abspath proc (join2 x (basename n)) = normpath x) ∨
    (¬ IsName (basename n) ∧ basename n = dotdot) := by
  rcases name_cases (basename_noslash n) with h | h | h | h
  · exact Or.inl ⟨h, abspath_child proc hx h hnr⟩
  · exact Or.inr (Or.inl ⟨fun hn => hn.1 h, abspath_trivial proc hx (Or.inl h)⟩)
  · exact Or.inr (Or.inl ⟨fun hn => hn.2.1 h, abspath_trivial proc hx (Or.inr h)⟩)
  · exact Or.inr (Or.inr ⟨fun hn => hn.2.2.1 h, h⟩)

theorem confirmOverwrite_fst (fs : FS) (a : Args) (d : Path) (ow : Bool) :
    (confirmOverwrite fs a d ow).1 = fs ∨ (confirmOverwrite fs a d ow).1 = (removeExisting fs d).1 := by
  unfold confirmOverwrite
  split
  · split
    · split
      · right
        split <;> simp_all
      · left; rfl
    · left; rfl
  · left; rfl

theorem decideDest_eq (fs : FS) (a : Args) (n : Path) :
    ∃ d ow, decideDest fs a n = confirmOverwrite fs a d ow := by
  unfold decideDest
  simp only
  generalize (if a.outputFile ≠ [] then abspath a.proc (join2 a.cwd a.outputFile)
    else abspath a.proc (join2 a.cwd (basename n))) = abs0
  split
  · split
    · exact ⟨_, _, rfl⟩
    · exact ⟨_, _, rfl⟩
  · exact ⟨_, _, rfl⟩

theorem decideDest_fst (fs : FS) (a : Args) (n : Path) :
    (decideDest fs a n).1 = fs ∨ ∃ p, (decideDest fs a n).1 = (removeExisting fs p).1 := by
  obtain ⟨d, ow, e⟩ := decideDest_eq fs a n
  rw [e]
  rcases confirmOverwrite_fst fs a d ow with h | h
  · exact Or.inl h
  · exact Or.inr ⟨_, h⟩

theorem decideDest_keepsDirs {fs fs' : FS} {a : Args} {n : Path} {r} (h : decideDest fs a n = (fs', r)) :
    KeepsDirs fs fs' := by
  have h1 : (decideDest fs a n).1 = fs' := by rw [h]
  rcases decideDest_fst fs a n with e | ⟨p, e⟩
  · rw [← h1, e]; exact KeepsDirs.refl fs
  · rw [← h1, e]
    exact removeExisting_keepsDirs (p := p) (r := (removeExisting fs p).2) rfl

theorem askPermission_keepsDirs {fs fs' : FS} {a : Args} {d : Path} {r} (h : askPermission fs a d = (fs', r)) :
    KeepsDirs fs fs' := by
  unfold askPermission at h
  split at h
  · have : fs' = fs := by simpa using (congrArg Prod.fst h).symm
    rw [this]; exact KeepsDirs.refl fs
  · split at h
    · split at h
      · exact removeExisting_keepsDirs h
      · have : fs' = fs := by simpa using (congrArg Prod.fst h).symm
        rw [this]; exact KeepsDirs.refl fs
    · have : fs' = fs := by simpa using (congrArg Prod.fst h).symm
      rw [this]; exact KeepsDirs.refl fs

/-! ### the whole offer (`_go` → `_parse_offer`) -/

theorem keepsDirs_set_dir (fs : FS) (d : Path) : KeepsDirs fs (fs.set d .dir) := by
  intro p hp
  by_cases e : p = d
  · subst e; simp [FS.isRealDir, FS.set]
  · simpa [FS.isRealDir, FS.set, e] using hp

theorem writeFile_keepsDirs {fs fs' : FS} {d t : Path} {r} (ht : fs.isRealDir t = false)
    (h : writeFile fs d t = (fs', r)) : KeepsDirs fs fs' := by
  unfold writeFile at h
  split at h
  · have : fs' = fs := (congrArg Prod.fst h).symm
    rw [this]; exact KeepsDirs.refl fs
  · rename_i hd
    have hd' : fs.isRealDir d = false := by simpa using hd
    cases hk : fs.kind t with
    | none =>
      rw [hk] at h
      have : fs' = fs := (congrArg Prod.fst h).symm
      rw [this]; exact KeepsDirs.refl fs
    | some k =>
      rw [hk] at h
      have : fs' = (fs.remove t).set d k := (congrArg Prod.fst h).symm
      rw [this]
      refine (keepsDirs_remove_real ht).trans (keepsDirs_set_real _ ?_)
      by_cases e : d = t
      · subst e; simp [FS.isRealDir, FS.remove]
      · simpa [FS.isRealDir, FS.remove, e] using hd'

theorem openWrite_not_real (fs : FS) (t : Path) : (fs.openWrite t).isRealDir t = false := by
  unfold FS.openWrite
  split <;> simp [FS.isRealDir, FS.set]

theorem openWrite_kind_self (fs : FS) (t : Path) : ∃ k, (fs.openWrite t).kind t = some k := by
  unfold FS.openWrite
  split <;> simp [FS.set]

theorem openWrite_kind_other {fs : FS} {t d : Path} (h : d ≠ t) : (fs.openWrite t).kind d = fs.kind d := by
  unfold FS.openWrite
  split <;> simp [FS.set, h]

theorem not_exists_not_real {fs : FS} {p : Path} (h : fs.pathExists p = false) : fs.isRealDir p = false :=
  not_isDir_not_real (not_exists_not_isDir h)

/-- after a successful `_handle_file` the staging path is not a directory -/
theorem handleFile_ok_tmp {fs fs1 : FS} {a : Args} {n d t : Path} (h : handleFile fs a n = (fs1, .ok (d, t))) :
    fs1.isRealDir t = false := by
  unfold handleFile at h
  cases hd : decideDest fs a n with
  | mk f1 r1 =>
    rw [hd] at h
    cases r1 with
    | error e => simp at h
    | ok dest =>
      simp only at h
      cases hf : freeSpaceProbe f1 a dest with
      | error e => rw [hf] at h; simp at h
      | ok u =>
        rw [hf] at h
        simp only at h
        cases ha : askPermission f1 a dest with
        | mk f2 r2 =>
          rw [ha] at h
          cases r2 with
          | error e => simp at h
          | ok u2 =>
            simp only at h
            split at h
            · simp at h
            · simp only [Prod.mk.injEq, Except.ok.injEq] at h
              obtain ⟨h1, _, h3⟩ := h
              rw [← h1, ← h3]
              exact openWrite_not_real f2 _

/-! ### a refusal touches nothing -/

theorem removeExisting_error {fs fs' : FS} {p : Path} {e : Err} (h : removeExisting fs p = (fs', .error e)) :
    fs' = fs := by
  rcases removeExisting_spec fs p with ⟨_, e1⟩ | ⟨_, _, e1⟩ | ⟨_, _, e1⟩ <;> rw [e1] at h
  · simp at h
  · exact (congrArg Prod.fst h).symm
  · simp at h

theorem confirmOverwrite_error {fs fs' : FS} {a : Args} {d : Path} {ow : Bool} {e : Err}
    (h : confirmOverwrite fs a d ow = (fs', .error e)) : fs' = fs := by
  unfold confirmOverwrite at h
  split at h
  · split at h
    · split at h
      · cases hr : removeExisting fs d with
        | mk f1 r1 =>
          rw [hr] at h
          cases r1 with
          | error e1 =>
            simp only at h
            have : fs' = f1 := (congrArg Prod.fst h).symm
            rw [this]; exact removeExisting_error hr
          | ok u => simp at h
      · simp at h
    · exact (congrArg Prod.fst h).symm
  · simp at h

theorem confirmOverwrite_noaccept {fs : FS} {a : Args} (d : Path) (ow : Bool) (hacc : a.acceptFile = false) :
    (confirmOverwrite fs a d ow).1 = fs := by
  unfold confirmOverwrite
  split
  · split
    · simp [hacc]
    · rfl
  · rfl

theorem decideDest_error {fs fs' : FS} {a : Args} {n : Path} {e : Err} (h : decideDest fs a n = (fs', .error e)) :
    fs' = fs := by
  obtain ⟨d, ow, hd⟩ := decideDest_eq fs a n
  rw [hd] at h
  exact confirmOverwrite_error h

theorem decideDest_noaccept {fs : FS} {a : Args} (n : Path) (hacc : a.acceptFile = false) :
    (decideDest fs a n).1 = fs := by
  obtain ⟨d, ow, hd⟩ := decideDest_eq fs a n
  rw [hd]
  exact confirmOverwrite_noaccept d ow hacc

theorem askPermission_error {fs fs' : FS} {a : Args} {d : Path} {e : Err} (h : askPermission fs a d = (fs', .error e)) :
    fs' = fs ∧ a.acceptFile = false := by
  unfold askPermission at h
  split at h
  · simp at h
  · rename_i hacc
    have hacc' : a.acceptFile = false := by simpa using hacc
    split at h
    · split at h
      · exact ⟨removeExisting_error h, hacc'⟩
      · simp at h
    · exact ⟨(congrArg Prod.fst h).symm, hacc'⟩

/-! ### an accepted destination was not a directory (whatever the configuration, whatever the answer at the prompt) -/

/-- `_ask_permission` without `--accept-file`, destination an existing directory: refused for EVERY answer -/
theorem askPermission_dir {fs : FS} {a : Args} {d : Path} (hacc : a.acceptFile = false) (hd : fs.isDir d = true) :
    askPermission fs a d = (fs, .error .transferRejected) := by
  have hex : fs.pathExists d = true := isDir_exists hd
  unfold askPermission
  by_cases h2 : answerYes a.answer = true
  · rcases removeExisting_spec fs d with ⟨hf, _⟩ | ⟨_, _, e⟩ | ⟨_, hdd, _⟩
    · rw [isFile_not_isDir hf] at hd; exact absurd hd (by decide)
    · simp [hacc, h2, hex, e]
    · rw [hdd] at hd; exact absurd hd (by decide)
  · simp [hacc, h2]

/-- second half of `_decide_destname` with `--accept-file`: what it returns was not a directory when it was called -/
theorem confirmOverwrite_ok_accept {fs fs' : FS} {a : Args} {d d' : Path} {ow : Bool} (hacc : a.acceptFile = true)
    (h : confirmOverwrite fs a d ow = (fs', .ok d')) : d' = d ∧ fs.isDir d = false := by
  unfold confirmOverwrite at h
  by_cases hex : fs.pathExists d = true
  · rw [if_pos hex] at h
    by_cases how : ow = true
    · rw [if_pos how, if_pos hacc] at h
      rcases removeExisting_spec fs d with ⟨hf, e⟩ | ⟨_, _, e⟩ | ⟨_, hdD, e⟩
      · rw [e] at h
        simp only [Prod.mk.injEq, Except.ok.injEq] at h
        exact ⟨h.2.symm, isFile_not_isDir hf⟩
      · rw [e] at h; simp at h
      · rw [e] at h
        simp only [Prod.mk.injEq, Except.ok.injEq] at h
        exact ⟨h.2.symm, hdD⟩
    · rw [if_neg how] at h; simp at h
  · rw [if_neg hex] at h
    simp only [Prod.mk.injEq, Except.ok.injEq] at h
    exact ⟨h.2.symm, not_exists_not_isDir (by simpa using hex)⟩

theorem decideDest_ok_accept {fs fs' : FS} {a : Args} {n d : Path} (hacc : a.acceptFile = true)
    (h : decideDest fs a n = (fs', .ok d)) : fs.isDir d = false := by
  obtain ⟨d0, ow, e⟩ := decideDest_eq fs a n
  rw [e] at h
  obtain ⟨h1, h2⟩ := confirmOverwrite_ok_accept hacc h
  rw [h1]; exact h2

/-- `_decide_destname` followed by `_ask_permission`, both agreeing: the destination was not a directory —
    with `--accept-file` `_decide_destname` found out, without it the prompt did (for every answer) -/
theorem decide_ask_ok_not_dir {fs f1 f2 : FS} {a : Args} {n dest : Path} {u : Unit}
    (hd : decideDest fs a n = (f1, .ok dest)) (ha : askPermission f1 a dest = (f2, .ok u)) : fs.isDir dest = false := by
  by_cases hacc : a.acceptFile = true
  · exact decideDest_ok_accept hacc hd
  · have hacc' : a.acceptFile = false := by simpa using hacc
    have h1 : f1 = fs := by
      have := decideDest_noaccept (fs := fs) n hacc'
      rw [hd] at this; exact this
    rw [h1] at ha
    cases hdd : fs.isDir dest
    · rfl
    · rw [askPermission_dir hacc' hdd] at ha; simp at ha

theorem handleFile_ok_not_dir {fs fs1 : FS} {a : Args} {n d t : Path} (h : handleFile fs a n = (fs1, .ok (d, t))) :
    fs.isDir d = false := by
  unfold handleFile at h
  cases hd : decideDest fs a n with
  | mk f1 r1 =>
    rw [hd] at h
    cases r1 with
    | error e => simp at h
    | ok dest =>
      simp only at h
      cases hf : freeSpaceProbe f1 a dest with
      | error e => rw [hf] at h; simp at h
      | ok u =>
        rw [hf] at h
        simp only at h
        cases ha : askPermission f1 a dest with
        | mk f2 r2 =>
          rw [ha] at h
          cases r2 with
          | error e => simp at h
          | ok u2 =>
            simp only at h
            split at h
            · simp at h
            · simp only [Prod.mk.injEq, Except.ok.injEq] at h
              obtain ⟨_, h2, _⟩ := h
              rw [← h2]
              exact decide_ask_ok_not_dir hd ha

theorem handleDirectory_ok_not_dir {fs fs1 : FS} {a : Args} {m n d : Path} (h : handleDirectory fs a m n = (fs1, .ok d)) :
    fs.isDir d = false := by
  unfold handleDirectory at h
  split at h
  · simp at h
  · cases hd : decideDest fs a n with
    | mk f1 r1 =>
      rw [hd] at h
      cases r1 with
      | error e => simp at h
      | ok dest =>
        simp only at h
        cases hf : freeSpaceProbe f1 a dest with
        | error e => rw [hf] at h; simp at h
        | ok u =>
          rw [hf] at h
          simp only at h
          cases ha : askPermission f1 a dest with
          | mk f2 r2 =>
            rw [ha] at h
            cases r2 with
            | error e => simp at h
            | ok u2 =>
              simp only [Prod.mk.injEq, Except.ok.injEq] at h
              rw [← h.2]
              exact decide_ask_ok_not_dir hd ha

/-! ### more than one receive with the same `args` object -/

theorem receive_args (a : Args) (fs : FS) (s : Step) : (receive a fs s).1 = a := by
  unfold receive
  cases s.offer <;> rfl

theorem recvStep_args (st : Args × FS × List (Except Err Path)) (s : Step) : (recvStep st s).1 = st.1 :=
  receive_args st.1 st.2.1 s

theorem foldl_recvStep_args : ∀ (steps : List Step) (st : Args × FS × List (Except Err Path)),
    (steps.foldl recvStep st).1 = st.1
  | [], _ => rfl
  | s :: rest, st => by
    rw [List.foldl_cons, foldl_recvStep_args rest, recvStep_args]

theorem receives_snoc (a : Args) (fs : FS) (hist : List Step) (s : Step) :
    receives a fs (hist ++ [s]) = recvStep (receives a fs hist) s := by
  simp [receives, List.foldl_append]

theorem isRealDir_exists {fs : FS} {p : Path} (h : fs.isRealDir p = true) : fs.pathExists p = true := by
  unfold FS.isRealDir at h
  have hk : fs.kind p = some .dir := by simpa using h
  simp [FS.pathExists, hk]

/-- a file offer that ends well went through `_handle_file` with that destination -/
theorem offerFile_ok {fs : FS} {a : Args} {n d : Path} {dr : Bool} (h : (offerFile fs a n dr).2 = .ok d) :
    ∃ fs1 t, handleFile fs a n = (fs1, .ok (d, t)) := by
  unfold offerFile at h
  cases hh : handleFile fs a n with
  | mk fs1 r1 =>
    rw [hh] at h
    cases r1 with
    | error e => simp at h
    | ok dt =>
      obtain ⟨d', t⟩ := dt
      simp only at h
      split at h
      · simp at h
      · cases hw : writeFile fs1 d' t with
        | mk fs2 r2 =>
          rw [hw] at h
          cases r2 with
          | error e => simp at h
          | ok u =>
            simp only [Except.ok.injEq] at h
            exact ⟨fs1, t, by rw [h]⟩

/-- a directory offer that ends well went through `_handle_directory` with that destination -/
theorem offerDirectory_ok {fs : FS} {a : Args} {m n d : Path} {dr ex : Bool}
    (h : (offerDirectory fs a m n dr ex).2 = .ok d) : ∃ fs1, handleDirectory fs a m n = (fs1, .ok d) := by
  unfold offerDirectory at h
  cases hh : handleDirectory fs a m n with
  | mk fs1 r1 =>
    rw [hh] at h
    cases r1 with
    | error e => simp at h
    | ok d' =>
      simp only at h
      split at h
      · simp at h
      · simp only [Except.ok.injEq] at h
        exact ⟨fs1, by rw [h]⟩

end WV.C05
