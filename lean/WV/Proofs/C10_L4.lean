import WV.Model.C10

/-! C10, receiving side above the ARQ: per-subchannel queues and late listeners.
Helper lemmas: a record or a listener registration touches only the subchannel(s) it addresses;
what a subchannel has queued reaches its own protocol, completely and in order. -/
namespace WV.Proofs.C10
open WV WV.C10 WV.Gen

theorem runOut_frame (arg : Bytes) (s : Sub) (o : SubChannel.Output) :
    (runOut arg s o).scid = s.scid ∧ (runOut arg s o).name = s.name ∧ (runOut arg s o).st = s.st := by
  cases o <;> simp [runOut]

theorem foldl_runOut_frame (arg : Bytes) (outs : List SubChannel.Output) : ∀ (s : Sub),
    (outs.foldl (runOut arg) s).scid = s.scid ∧ (outs.foldl (runOut arg) s).name = s.name ∧
    (outs.foldl (runOut arg) s).st = s.st := by
  induction outs with
  | nil => intro s; simp
  | cons o outs ih =>
    intro s
    obtain ⟨a, b, c⟩ := ih (runOut arg s o)
    obtain ⟨a', b', c'⟩ := runOut_frame arg s o
    simp only [List.foldl_cons]
    exact ⟨by rw [a, a'], by rw [b, b'], by rw [c, c']⟩

theorem subInput_frame {s s' : Sub} {i : SubChannel.Input} {arg : Bytes} (h : subInput s i arg = some s') :
    s'.scid = s.scid ∧ s'.name = s.name := by
  unfold subInput at h
  split at h
  · cases h
  · next st' outs _ =>
    simp only [Option.some.injEq] at h
    subst h
    obtain ⟨a, b, _⟩ := foldl_runOut_frame arg outs { s with st := st' }
    exact ⟨a, b⟩

theorem replayData_frame (ds : List Bytes) : ∀ {s s' : Sub}, replayData s ds = some s' →
    s'.scid = s.scid ∧ s'.name = s.name := by
  induction ds with
  | nil => intro s s' h; simp only [replayData, Option.some.injEq] at h; subst h; exact ⟨rfl, rfl⟩
  | cons d ds ih =>
    intro s s' h
    simp only [replayData] at h
    split at h
    · cases h
    · next s1 h1 =>
      obtain ⟨a, b⟩ := subInput_frame h1
      obtain ⟨a', b'⟩ := ih h
      exact ⟨by rw [a', a], by rw [b', b]⟩

theorem connectSub_frame {s s' : Sub} (h : connectSub s = some s') : s'.scid = s.scid ∧ s'.name = s.name := by
  unfold connectSub at h
  split at h
  · cases h
  · next s1 h1 =>
    obtain ⟨a1, b1⟩ := subInput_frame h1
    split at h
    · cases h
    · next s3 h3 =>
      obtain ⟨a3, b3⟩ := replayData_frame _ h3
      simp only at a3 b3
      dsimp only at h
      split at h
      · cases h5 : subInput { s3 with pendData := [] } .remote_close [] with
        | none => rw [h5] at h; cases h
        | some s5 =>
          rw [h5] at h
          simp only [Option.map_some, Option.some.injEq] at h
          subst h
          obtain ⟨a5, b5⟩ := subInput_frame h5
          exact ⟨by simp only; rw [a5]; simp only; rw [a3, a1], by simp only; rw [b5]; simp only; rw [b3, b1]⟩
      · simp only [Option.some.injEq] at h
        subst h
        exact ⟨by simp only; rw [a3, a1], by simp only; rw [b3, b1]⟩

/-! ### isolation -/

theorem findSub_append_ne (subs : List Sub) (x : Sub) (c' : Nat) (h : x.scid ≠ c') :
    findSub c' (subs ++ [x]) = findSub c' subs := by
  induction subs with
  | nil => simp [findSub, h]
  | cons s rest ih => simp only [List.cons_append, findSub, ih]

theorem updSub_find_ne (c c' : Nat) (f : Sub → Option Sub)
    (hf : ∀ s s', f s = some s' → s'.scid = s.scid) (hne : c ≠ c') :
    ∀ (subs subs' : List Sub), updSub c f subs = some subs' → findSub c' subs' = findSub c' subs := by
  intro subs
  induction subs with
  | nil => intro subs' h; simp only [updSub, Option.some.injEq] at h; subst h; rfl
  | cons s rest ih =>
    intro subs' h
    simp only [updSub] at h
    split at h
    · next hs =>
      cases hfs : f s with
      | none => rw [hfs] at h; cases h
      | some s' =>
        rw [hfs] at h
        simp only [Option.map_some, Option.some.injEq] at h
        subst h
        have := hf s s' hfs
        simp only [findSub, this, hs, hne, ↓reduceIte]
    · next hs =>
      cases hr : updSub c f rest with
      | none => rw [hr] at h; cases h
      | some r' =>
        rw [hr] at h
        simp only [Option.map_some, Option.some.injEq] at h
        subst h
        simp only [findSub, ih r' hr]

theorem upd_find_ne (t : L4) (c c' : Nat) (f : Sub → Option Sub)
    (hf : ∀ s s', f s = some s' → s'.scid = s.scid) (hne : c ≠ c') :
    findSub c' (t.upd c f).subs = findSub c' t.subs := by
  unfold L4.upd
  split
  · next subs' h => exact updSub_find_ne c c' f hf hne _ _ h
  · rfl

def bodyScid : Body → Nat
  | .opn c _ => c
  | .data c _ => c
  | .close c => c

/-- a dispatched record changes nothing — neither what was shown nor what is queued — for any
    subchannel other than the one it names: pending data is per subchannel -/
theorem l4Dispatch_isolated (t : L4) (r : Rec) (c' : Nat) (h : bodyScid r.body ≠ c') :
    findSub c' (l4Dispatch t r).subs = findSub c' t.subs := by
  unfold l4Dispatch
  cases hb : r.body with
  | opn c name =>
    rw [hb] at h
    simp only [handleOpen]
    split
    · rfl
    · split
      · rw [upd_find_ne _ c c' _ (fun s s' hs => (connectSub_frame hs).1) h]
        exact findSub_append_ne _ _ _ h
      · exact findSub_append_ne _ _ _ h
  | data c d =>
    rw [hb] at h
    simp only [handleData]
    split
    · rfl
    · exact upd_find_ne _ c c' _ (fun s s' hs => (subInput_frame hs).1) h
  | close c =>
    rw [hb] at h
    simp only [handleClose]
    split
    · rfl
    · exact upd_find_ne _ c c' _ (fun s s' hs => (subInput_frame hs).1) h

theorem connectPending_find (name : Bytes) (c' : Nat) : ∀ (po : List (Bytes × Nat)) (t : L4),
    (∀ p ∈ po, p.1 = name → p.2 ≠ c') →
    findSub c' (connectPending name t po).subs = findSub c' t.subs := by
  intro po
  induction po with
  | nil => intro t _; rfl
  | cons p rest ih =>
    intro t h
    obtain ⟨n, c⟩ := p
    simp only [connectPending]
    split
    · next hn =>
      rw [ih _ (fun q hq => h q (by simp [hq]))]
      exact upd_find_ne _ c c' _ (fun s s' hs => (connectSub_frame hs).1) (h (n, c) (by simp) hn)
    · exact ih _ (fun q hq => h q (by simp [hq]))

/-- registering a listener touches only the subchannels that are pending for that name -/
theorem l4Listen_isolated (t : L4) (name : Bytes) (c' : Nat)
    (h : ∀ p ∈ t.pendOpens, p.1 = name → p.2 ≠ c') :
    findSub c' (l4Listen t name).subs = findSub c' t.subs := by
  unfold l4Listen
  exact connectPending_find name c' _ _ h

/-! ### one subchannel: nothing queued is lost, duplicated or reordered -/

/-- everything this subchannel's protocol has been told, followed by everything it will be told
    when it gets its protocol -/
def subTotal (s : Sub) : List AppEv :=
  s.shown ++ (if s.st = .unconnected then
    [.made] ++ s.pendData.map .data ++ (if s.pendClose then [.rclosed] else []) else [])

theorem replayData_spec (ds : List Bytes) : ∀ (s : Sub), s.st = .open_half →
    replayData s ds = some { s with shown := s.shown ++ ds.map .data } := by
  induction ds with
  | nil => intro s _; simp [replayData]
  | cons d ds ih =>
    intro s hs
    have e : subInput s .remote_data d = some { s with shown := s.shown ++ [.data d] } := by
      simp [subInput, hs, SubChannel.table, runOut]
    simp only [replayData, e]
    rw [ih { s with shown := s.shown ++ [.data d] } hs]
    simp

/-- late registration: the protocol of a pending subchannel is told `made`, then exactly the data
    queued on THIS subchannel, oldest first, then the close if one was queued; the queue is empty
    afterwards.  In particular `total` does not change. -/
theorem connectSub_spec (s : Sub) (hs : s.st = .unconnected) :
    ∃ s', connectSub s = some s' ∧
      s'.shown = s.shown ++ [.made] ++ s.pendData.map .data ++ (if s.pendClose then [.rclosed] else []) ∧
      s'.pendData = [] ∧ s'.pendClose = false ∧
      s'.st = (if s.pendClose then .read_closed else .open_half) := by
  have e1 : subInput s .connect_protocol_half [] = some { s with st := .open_half } := by
    simp [subInput, hs, SubChannel.table]
  unfold connectSub
  simp only [e1]
  rw [replayData_spec _ _ rfl]
  cases hc : s.pendClose
  · simp
  · simp [subInput, SubChannel.table, runOut]

theorem connectSub_total (s : Sub) (hs : s.st = .unconnected) :
    ∃ s', connectSub s = some s' ∧ subTotal s' = subTotal s := by
  obtain ⟨s', h1, h2, h3, h4, h5⟩ := connectSub_spec s hs
  refine ⟨s', h1, ?_⟩
  unfold subTotal
  rw [h2, h5, hs]
  cases s.pendClose <;> simp

/-- a DATA record for a subchannel that has not been closed by the peer: appended to what its
    protocol is (or will be) told -/
theorem remote_data_total (s : Sub) (d : Bytes)
    (hs : s.st = .open_half ∨ (s.st = .unconnected ∧ s.pendClose = false)) :
    ∃ s', subInput s .remote_data d = some s' ∧ subTotal s' = subTotal s ++ [AppEv.data d] := by
  rcases hs with hs | ⟨hs, hc⟩
  · refine ⟨{ s with shown := s.shown ++ [.data d] }, ?_, ?_⟩
    · simp [subInput, hs, SubChannel.table, runOut]
    · simp [subTotal, hs]
  · refine ⟨{ s with pendData := s.pendData ++ [d] }, ?_, ?_⟩
    · simp [subInput, hs, SubChannel.table, runOut]
    · simp [subTotal, hs, hc]

theorem remote_close_total (s : Sub)
    (hs : s.st = .open_half ∨ (s.st = .unconnected ∧ s.pendClose = false)) :
    ∃ s', subInput s .remote_close [] = some s' ∧ subTotal s' = subTotal s ++ [AppEv.rclosed] := by
  rcases hs with hs | ⟨hs, hc⟩
  · refine ⟨{ s with st := .read_closed, shown := s.shown ++ [.rclosed] }, ?_, ?_⟩
    · simp [subInput, hs, SubChannel.table, runOut]
    · simp [subTotal, hs]
  · refine ⟨{ s with pendClose := true }, ?_, ?_⟩
    · simp [subInput, hs, SubChannel.table, runOut]
    · simp [subTotal, hs, hc]

end WV.Proofs.C10
