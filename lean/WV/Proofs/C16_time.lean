import WV.Proofs.C16
import WV.Proofs.C16_mgr
import WV.Proofs.C16_pong
import WV.Proofs.C16_lost
import WV.Proofs.C16_made
import WV.Proofs.C16_tick

/-! C16: reachability ⇒ invariant; who can drop; what silence does. -/
namespace WV.Proofs.C16
open WV WV.Gen WV.C16

theorem inv_step {T : Nat} {s s' : St} {o : Op} (hT : 1 ≤ T) (hi : Inv T s)
    (h : step (Cfg.real T) s o = (s', none)) : Inv T s' := by
  cases o with
  | tick => exact inv_tick hT hi h
  | start => exact inv_start hi h
  | please b => exact inv_please hi h
  | made => exact inv_made hT hi h
  | lost => exact inv_lost hi h
  | stop => exact inv_stop hi h
  | reconnecting => exact inv_reconnecting hi h
  | reconnect => exact inv_reconnect hi h
  | pong id => exact inv_pong hi h
  | pause => simp only [step, Prod.mk.injEq, and_true] at h; subst h; exact inv_flow true hi
  | resume => simp only [step, Prod.mk.injEq, and_true] at h; subst h; exact inv_flow false hi
  | stall n => exact inv_stall hT hi h
  | cpause k => simp only [step, Prod.mk.injEq, and_true] at h; subst h; exact inv_subPause k hi
  | cresume k => simp only [step, Prod.mk.injEq, and_true] at h; subst h; exact inv_subResume k hi
  | rnd ids => simp only [step, Prod.mk.injEq, and_true] at h; subst h; exact inv_draws _ hi

theorem reach_inv {T : Nat} {s : St} (hT : 1 ≤ T) (hr : Reach (Cfg.real T) s) : Inv T s := by
  induction hr with
  | init => exact inv_init T
  | step _ h ih => exact inv_step hT ih h

theorem reach_run {cfg : Cfg} {s s' : St} (hr : Reach cfg s) (ops : List Op)
    (h : run cfg s ops = (s', none)) : Reach cfg s' := by
  induction ops generalizing s with
  | nil => simp [run] at h; subst h; exact hr
  | cons o os ih =>
    simp only [run] at h
    cases hs : step cfg s o with
    | mk s1 e =>
      cases e with
      | some e => simp [hs] at h
      | none => simp [hs] at h; exact ih (Reach.step hr hs) h

/-! ### only a timer expiry drops the connection -/

@[simp] theorem mgrOutputs_drops (b : Bool) (outs : List Manager.Output) (s : St) :
    (mgrOutputs b outs s).1.drops = s.drops := by
  induction outs generalizing s with
  | nil => rfl
  | cons o r ih =>
    simp only [mgrOutputs]
    cases o <;> simp [mgrOutput, ih]
    case abandon_connection =>
      cases hc : s.conn <;> simp [ih]

theorem mgrInput_drops (b : Bool) (i : Manager.Input) (s : St) : (mgrInput b i s).1.drops = s.drops := by
  simp only [mgrInput]
  split <;> simp

@[simp] theorem sendPingResetTimer_drops (cfg : Cfg) (s : St) : (sendPingResetTimer cfg s).1.drops = s.drops := by
  simp only [sendPingResetTimer, sendPing_eq]
  split
  · simp only [andThen_ok]
    split
    · rfl
    · split
      · rfl
      · split <;> rfl
  · rfl

/-- with the generated table, no input other than `interval_elapsed` runs `signal_reconnect` -/
theorem ttInput_drops (T : Nat) (i : TrafficTimer.Input) (hi : i ≠ .interval_elapsed) (s : St) :
    (ttInput (Cfg.real T) i s).1.drops = s.drops := by
  simp only [ttInput, real_tbl]
  cases htr : s.traffic with
  | none => rfl
  | some st =>
    cases st <;> cases i <;> simp [TrafficTimer.table, ttOutputs] at hi ⊢

theorem step_drops {T : Nat} {s : St} {o : Op} (ho : o.clock = none) :
    (step (Cfg.real T) s o).1.drops = s.drops := by
  cases o with
  | tick => simp [Op.clock] at ho
  | stall n => simp [Op.clock] at ho
  | start => exact mgrInput_drops _ _ _
  | please b => exact mgrInput_drops _ _ _
  | stop => exact mgrInput_drops _ _ _
  | reconnecting => exact mgrInput_drops _ _ _
  | reconnect => exact mgrInput_drops _ _ _
  | pause => rfl
  | resume => rfl
  | cpause k => simp [step]
  | cresume k => simp [step]
  | rnd ids => rfl
  | pong id =>
    simp only [step, gotPong]
    split
    · rw [ttInput_drops T _ (by simp)]
    · rfl
  | made =>
    simp only [step, connMade]
    split
    · generalize hx : (if s.traffic.isNone = true then _ else _ : St) = x
      have hxd : x.drops = s.drops := by rw [← hx]; split <;> rfl
      have := ttInput_drops T .got_connection (by simp) x
      generalize ttInput (Cfg.real T) .got_connection x = r at this
      obtain ⟨s2, e⟩ := r
      cases e with
      | some e => simp at this ⊢; rw [this, hxd]
      | none =>
        simp only [andThen_ok]
        have h2 := mgrInput_drops false .connection_made s2
        generalize mgrInput false .connection_made s2 = r2 at h2
        obtain ⟨s3, e3⟩ := r2
        cases e3 <;> simp at h2 this ⊢ <;> rw [h2, this, hxd]
    · simp only [andThen_ok]
      have h2 := mgrInput_drops false .connection_made { s with nextConn := s.nextConn + 1 }
      generalize mgrInput false .connection_made { s with nextConn := s.nextConn + 1 } = r2 at h2
      obtain ⟨s3, e3⟩ := r2
      cases e3 <;> simp at h2 ⊢ <;> rw [h2]
  | lost =>
    simp only [step, connLost]
    have h1 : ((if s.traffic.isSome = true then ttInput (Cfg.real T) .lost_connection s else (s, none)) : Res).1.drops
        = s.drops := by
      split
      · exact ttInput_drops T _ (by simp) s
      · rfl
    generalize (if s.traffic.isSome = true then ttInput (Cfg.real T) .lost_connection s else (s, none) : Res) = r at h1
    obtain ⟨s1, e⟩ := r
    cases e with
    | some e => simpa using h1
    | none =>
      simp only [andThen_ok]
      simp at h1
      cases ho : s1.outConn with
      | none => simpa using h1
      | some c =>
        simp only
        split <;> rw [mgrInput_drops] <;> simpa using h1

/-- a clock step (on time or late) either leaves `drops` alone or is the expiry, in state
    `idle_traffic`, of the timer armed when a Ping was handed to the connection in use — at least one
    full interval ago — and that Ping is still unanswered -/
theorem stall_drop {T n : Nat} {s s' : St} (hi : Inv T s)
    (h : step (Cfg.real T) s (.stall n) = (s', none)) :
    s'.drops = s.drops ∨
    ∃ c p, s.conn = some c ∧ p ∈ s.pings ∧ p ∈ s'.pings ∧ p.wire = some c ∧ s.timer = some (p.sent + T) ∧
      p.sent + T ≤ s'.now ∧ s'.now = s.now + n ∧ s'.drops = s.drops ++ [(c, s'.now)] := by
  obtain ⟨h1, h2, h3, h4, h5, h6, h7, h8, h9, h10, h11, h12, h13⟩ := hi
  simp only [step, stall] at h
  cases htm : s.timer with
  | none => simp [htm] at h; subst h; exact Or.inl rfl
  | some d =>
    obtain ⟨hm, hdr, hd, hnow⟩ := h6 d htm
    obtain ⟨c, hc, ho, htr⟩ := h4 (by simp [hm, inUse])
    have hl : s.role = some true := by
      cases hr : s.role with
      | none => simp_all
      | some b => cases b <;> simp_all
    simp only [htm] at h
    by_cases hdue : (d ≤ s.now + n)
    case pos =>
      simp only [hdue, if_true, timerExpired, ttInput, real_tbl] at h
      rcases htr hl with htr | htr
      · simp [htr, TrafficTimer.table, ttOutputs] at h
        obtain ⟨_, he⟩ := sprt_ok rfl h
        subst he
        exact Or.inl rfl
      · simp [htr, TrafficTimer.table, ttOutputs, signalReconnect, hc] at h
        subst h
        obtain ⟨p, hp, hps, hpw⟩ := h11 htr (by simp [htm])
        refine Or.inr ⟨c, p, hc, hp, hp, ?_, ?_, ?_, rfl, rfl⟩
        · rw [hpw, hc]
        · rw [hps, hd]
        · simp; omega
    case neg =>
      simp [hdue] at h
      subst h
      exact Or.inl rfl

/-! ### every Ping generated while a connection is in use is written to it -/

@[simp] theorem mgrOutputs_pings (b : Bool) (outs : List Manager.Output) (s : St) :
    (mgrOutputs b outs s).1.pings = s.pings := by
  induction outs generalizing s with
  | nil => rfl
  | cons o r ih =>
    simp only [mgrOutputs]
    cases o <;> simp [mgrOutput, ih]
    case abandon_connection =>
      cases hc : s.conn <;> simp [ih]

theorem mgrInput_pings (b : Bool) (i : Manager.Input) (s : St) : (mgrInput b i s).1.pings = s.pings := by
  simp only [mgrInput]
  split <;> simp

theorem step_pings {T : Nat} {s s' : St} {o : Op} {c : Nat} (hi : Inv T s) (hc : s.conn = some c)
    (h : step (Cfg.real T) s o = (s', none)) :
    ∀ p ∈ s'.pings, p ∈ s.pings ∨ (p.wire = some c ∧ p.sent = s'.now ∧ o.clock ≠ none) := by
  have hmg : ∀ b i, step (Cfg.real T) s o = mgrInput b i s → ∀ p ∈ s'.pings, p ∈ s.pings ∨ (p.wire = some c ∧ p.sent = s'.now ∧ o.clock ≠ none) := by
    intro b i he p hp
    have := mgrInput_pings b i s
    rw [← he, h] at this
    exact Or.inl (this ▸ hp)
  have hst : ∀ n, step (Cfg.real T) s (.stall n) = (s', none) →
      ∀ p ∈ s'.pings, p ∈ s.pings ∨ (p.wire = some c ∧ p.sent = s'.now) := by
    intro n h
    have hi := hi
    obtain ⟨h1, h2, h3, h4, h5, h6, h7, h8, h9, h10, h11, h12, h13⟩ := hi
    simp only [step, stall] at h
    cases htm : s.timer with
    | none => simp [htm] at h; subst h; exact fun p hp => Or.inl hp
    | some d =>
      obtain ⟨hm, hdr, hd, hnow⟩ := h6 d htm
      obtain ⟨c', hc', ho, htr⟩ := h4 (by simp [hm, inUse])
      have hl : s.role = some true := by
        cases hr : s.role with
        | none => simp_all
        | some b => cases b <;> simp_all
      simp only [htm] at h
      by_cases hdue : (d ≤ s.now + n)
      case pos =>
        simp only [hdue, if_true, timerExpired, ttInput, real_tbl] at h
        rcases htr hl with htr | htr
        · simp [htr, TrafficTimer.table, ttOutputs] at h
          obtain ⟨_, he⟩ := sprt_ok rfl h
          subst he
          intro p hp
          simp [pinged, ho] at hp
          rcases hp with hp | hp
          · exact Or.inl hp
          · subst hp; refine Or.inr ⟨?_, rfl⟩; simp; rw [hc'] at hc; exact Option.some.inj hc
        · simp [htr, TrafficTimer.table, ttOutputs, signalReconnect, hc'] at h
          subst h
          exact fun p hp => Or.inl hp
      case neg =>
        simp [hdue] at h
        subst h
        exact fun p hp => Or.inl hp
  cases o with
  | start => exact hmg _ _ rfl
  | please b => exact hmg _ _ rfl
  | reconnecting => exact hmg _ _ rfl
  | reconnect => exact hmg _ _ rfl
  | stop =>
    intro p hp
    have := mgrInput_pings false .k_stop { s with stopCalled := true }
    simp only [step] at h
    rw [h] at this
    exact Or.inl (this ▸ hp)
  | pause => simp only [step, Prod.mk.injEq, and_true] at h; subst h; exact fun p hp => Or.inl hp
  | resume => simp only [step, Prod.mk.injEq, and_true] at h; subst h; exact fun p hp => Or.inl hp
  | cpause k => simp only [step, Prod.mk.injEq, and_true] at h; subst h; intro p hp; simp at hp; exact Or.inl hp
  | cresume k => simp only [step, Prod.mk.injEq, and_true] at h; subst h; intro p hp; simp at hp; exact Or.inl hp
  | rnd ids => simp only [step, Prod.mk.injEq, and_true] at h; subst h; exact fun p hp => Or.inl hp
  | pong id =>
    obtain ⟨h1, h2, h3, h4, h5, h6, h7, h8, h9, h10, h11, h12, h13⟩ := hi
    simp only [step, gotPong] at h
    split at h
    · simp only [ttInput, real_tbl] at h
      cases htr : s.traffic with
      | none => simp [htr] at h
      | some st =>
        cases st <;> simp [htr, TrafficTimer.table, ttOutputs] at h
        all_goals (subst h; intro p hp; simp at hp; exact Or.inl hp.1)
    · simp at h; subst h; exact fun p hp => Or.inl hp
  | made =>
    by_cases hl : s.role = some true
    · obtain ⟨_, _, hcn, _, _⟩ := made_leader hi hl h
      rw [hcn] at hc; cases hc
    · simp only [step, connMade, hl, if_false, andThen_ok] at h
      have := mgrInput_pings false .connection_made { s with nextConn := s.nextConn + 1 }
      generalize mgrInput false .connection_made { s with nextConn := s.nextConn + 1 } = r at h this
      obtain ⟨s3, e3⟩ := r
      cases e3 with
      | some e => simp at h
      | none => simp at h this; subst h; intro p hp; exact Or.inl (this ▸ hp)
  | lost =>
    obtain ⟨h1, h2, h3, h4, h5, h6, h7, h8, h9, h10, h11, h12, h13⟩ := hi
    simp only [step, connLost, ttInput, real_tbl, mgrInput] at h
    cases htr : s.traffic with
    | none =>
      simp [htr] at h
      cases ho : s.outConn <;> simp [ho] at h
      cases hr : s.role with
      | none =>
        simp [hr] at h
        cases hm : s.mgr <;> simp [hm, Manager.table, mgrOutputs, mgrOutput] at h
        all_goals (subst h; exact fun p hp => Or.inl hp)
      | some b =>
        cases b <;> simp [hr] at h
        all_goals (cases hm : s.mgr <;> simp [hm, Manager.table, mgrOutputs, mgrOutput] at h)
        all_goals (subst h; exact fun p hp => Or.inl hp)
    | some st =>
      have hl : s.role = some true := by
        cases hr : s.role with
        | none => simp_all
        | some b => cases b <;> simp_all
      cases st <;> simp [htr, TrafficTimer.table, ttOutputs] at h
      all_goals (cases ho : s.outConn <;> simp [ho] at h)
      all_goals (simp [hl] at h)
      all_goals (cases hm : s.mgr <;> simp [hm, Manager.table, mgrOutputs, mgrOutput] at h)
      all_goals (subst h; exact fun p hp => Or.inl hp)
  | tick =>
    intro p hp
    rcases hst 1 (by rw [← tick_eq_stall]; exact h) p hp with h' | h'
    · exact Or.inl h'
    · exact Or.inr ⟨h'.1, h'.2, by simp [Op.clock]⟩
  | stall n =>
    intro p hp
    rcases hst n h p hp with h' | h'
    · exact Or.inl h'
    · exact Or.inr ⟨h'.1, h'.2, by simp [Op.clock]⟩

/-! ### nothing but `tick` moves the clock; the TrafficTimer never does -/

@[simp] theorem sendPingResetTimer_now (cfg : Cfg) (s : St) : (sendPingResetTimer cfg s).1.now = s.now := by
  simp only [sendPingResetTimer, sendPing_eq]
  split
  · simp only [andThen_ok]
    split
    · rfl
    · split
      · rfl
      · split <;> rfl
  · rfl

@[simp] theorem signalReconnect_now (s : St) : (signalReconnect s).now = s.now := by
  simp only [signalReconnect]; split <;> rfl

@[simp] theorem ttOutputs_now (cfg : Cfg) (outs : List TrafficTimer.Output) (s : St) :
    (ttOutputs cfg outs s).1.now = s.now := by
  induction outs generalizing s with
  | nil => rfl
  | cons o r ih =>
    cases o
    · simp only [ttOutputs]
      have h1 := sendPingResetTimer_now cfg s
      generalize sendPingResetTimer cfg s = r1 at h1
      obtain ⟨s1, e⟩ := r1
      cases e with
      | none => simp only [andThen_ok]; rw [ih]; exact h1
      | some e => exact h1
    · simp [ttOutputs, ih]

theorem ttInput_now (cfg : Cfg) (i : TrafficTimer.Input) (s : St) : (ttInput cfg i s).1.now = s.now := by
  simp only [ttInput]
  split
  · rfl
  · split
    · rfl
    · simp

/-! ### silence: only the clock moves -/

/-- the three phases of a silent connection `c` whose drop is due at `D`.  Only the first one still has a
    Ping to send (at the expiry that takes it to `idle_traffic`), so only there does the id the random source
    will return matter: it must not be outstanding (`freshNext`; nothing in a silent stretch changes it). -/
def Phase (T c D : Nat) (dr : List (Nat × Nat)) (s : St) : Prop :=
  s.conn = some c ∧
  ( (s.traffic = some .connected ∧ freshNext s = true ∧ s.drops = dr ∧ ∃ d, s.timer = some d ∧ s.now < d ∧ d + T = D)
  ∨ (s.traffic = some .idle_traffic ∧ s.drops = dr ∧ s.timer = some D ∧ s.now < D)
  ∨ (s.timer = none ∧ D ≤ s.now ∧ s.drops = dr ++ [(c, D)] ∧ s.dropped = true) )

theorem phase_tick {T c D : Nat} {dr : List (Nat × Nat)} {s : St} (hT : 1 ≤ T) (hp : Phase T c D dr s) :
    (tick (Cfg.real T) s).2 = none ∧ Phase T c D dr (tick (Cfg.real T) s).1 ∧
      (tick (Cfg.real T) s).1.now = s.now + 1 := by
  obtain ⟨hc, hp⟩ := hp
  rcases hp with ⟨htr, hf, hdr, d, htm, hlt, hD⟩ | ⟨htr, hdr, htm, hlt⟩ | ⟨htm, hle, hdr, hdd⟩
  · simp at hf
    by_cases hdue : d ≤ s.now + 1
    · have hde : d = s.now + 1 := by omega
      simp [tick, htm, hdue, timerExpired, ttInput, htr, TrafficTimer.table, ttOutputs, sprt_none, hf, pinged,
        Phase, hc, hdr]
      omega
    · simp [tick, htm, hdue, Phase, hc, hdr, htr, hf]
      omega
  · by_cases hdue : D ≤ s.now + 1
    · have hde : D = s.now + 1 := by omega
      simp [tick, htm, hdue, timerExpired, ttInput, htr, TrafficTimer.table, ttOutputs, signalReconnect,
        Phase, hc, hdr]
      omega
    · simp [tick, htm, hdue, Phase, hc, hdr, htr]
      omega
  · simp [tick, htm, Phase, hc, hdr, hdd]
    omega

theorem phase_advance {T c D : Nat} {dr : List (Nat × Nat)} (hT : 1 ≤ T) (n : Nat) :
    ∀ {s : St}, Phase T c D dr s →
      ∃ s', advance (Cfg.real T) n s = (s', none) ∧ Phase T c D dr s' ∧ s'.now = s.now + n := by
  induction n with
  | zero => intro s hp; exact ⟨s, rfl, hp, rfl⟩
  | succ n ih =>
    intro s hp
    obtain ⟨h1, hp1, hn1⟩ := phase_tick hT hp
    obtain ⟨s2, h2, hp2, hn2⟩ := ih hp1
    refine ⟨s2, ?_, hp2, by omega⟩
    have ht : tick (Cfg.real T) s = ((tick (Cfg.real T) s).1, none) := by rw [← h1]
    simp only [advance]
    rw [ht]
    simp only [h2]

/-! ### witnesses used by the `example`s and the sensitivity theorem in `Props.C16` -/

/-- the TrafficTimer table as it was before commit c0a7617: in `connected`, `traffic_seen`
    re-ran `begin_timing` -/
def oldTable : Table := fun st i =>
  match st, i with
  | .connected, .traffic_seen => some (.connected, [.begin_timing])
  | st, i => TrafficTimer.table st i

def oldCfg (T : Nat) : Cfg := { T := T, tbl := oldTable }

/-- Leader, connected at t = 0 -/
def connectedLeader : List Op := [.start, .please true, .made]

/-- T = 2: three expiries, each Ping answered one tick after it was sent -/
def responsiveTrace : List Op :=
  connectedLeader ++ [.tick, .tick, .tick, .pong 1, .tick, .tick, .pong 2, .tick, .tick, .pong 3, .tick]

/-- T = 2: nobody answers -/
def silentTrace : List Op := connectedLeader ++ [.tick, .tick, .tick, .tick, .tick]

end WV.Proofs.C16
