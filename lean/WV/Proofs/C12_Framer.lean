import WV.Proofs.C12_Codec

/-! C12 helper lemmas: `_Framer` — `parse_frame`, `_get_expected`, one loop turn, the loop. -/
namespace WV.Proofs.C12
open WV WV.C12 WV.Gen

/-! ### parse_frame -/

theorem parseFrame_frame {body fr rest : Bytes} (h : frameBytes body = some fr) :
    parseFrame (fr ++ rest) = some (body, rest) := by
  unfold frameBytes at h
  cases hl : toBe4 body.length with
  | none => simp [hl] at h
  | some l =>
    simp [hl] at h
    obtain ⟨hlt, rfl⟩ := toBe4_eq_some hl
    subst h
    have hv := be4_value body.length hlt
    simp [parseFrame, fromBe4, hv]
    refine ⟨by omega, ?_⟩
    rw [Nat.add_comm 4]
    simp

theorem parseFrame_append {buf f rest : Bytes} (d : Bytes) (h : parseFrame buf = some (f, rest)) :
    parseFrame (buf ++ d) = some (f, rest ++ d) := by
  unfold parseFrame at h ⊢
  by_cases h4 : buf.length < 4
  · simp [h4] at h
  · simp only [h4, if_false] at h
    have h4' : ¬ (buf ++ d).length < 4 := by simp; omega
    have ht : (buf ++ d).take 4 = buf.take 4 := by
      rw [List.take_append_of_le_length (by omega)]
    simp only [h4', if_false, ht]
    cases hb : fromBe4 (buf.take 4) with
    | none => simp [hb] at h
    | some n =>
      simp only [hb] at h ⊢
      by_cases hn : buf.length < 4 + n
      · simp [hn] at h
      · simp only [hn, if_false, Option.some.injEq, Prod.mk.injEq] at h
        have hn' : ¬ (buf ++ d).length < 4 + n := by simp; omega
        simp only [hn', if_false, Option.some.injEq, Prod.mk.injEq]
        obtain ⟨h1, h2⟩ := h
        constructor
        · rw [← h1, List.drop_append_of_le_length (by omega), List.take_append_of_le_length (by simp; omega)]
        · rw [← h2, List.drop_append_of_le_length (by omega)]

theorem parseFrame_length {buf f rest : Bytes} (h : parseFrame buf = some (f, rest)) :
    rest.length + 4 ≤ buf.length := by
  unfold parseFrame at h
  by_cases h4 : buf.length < 4
  · simp [h4] at h
  · simp only [h4, if_false] at h
    cases hb : fromBe4 (buf.take 4) with
    | none => simp [hb] at h
    | some n =>
      simp only [hb] at h
      by_cases hn : buf.length < 4 + n
      · simp [hn] at h
      · simp only [hn, if_false, Option.some.injEq, Prod.mk.injEq] at h
        rw [← h.2]; simp; omega

/-! ### _get_expected -/

theorem getExpected_prefix (e rest : Bytes) : getExpected (e ++ rest) e = .ok (true, rest) := by
  have : e.isPrefixOf (e ++ rest) = true := by
    rw [List.isPrefixOf_iff_prefix]; exact List.prefix_append _ _
  simp [getExpected, this]

theorem getExpected_ok_true {buf e rest : Bytes} (h : getExpected buf e = .ok (true, rest)) :
    buf = e ++ rest := by
  unfold getExpected at h
  by_cases hp : e.isPrefixOf buf = true
  · simp [hp] at h
    rw [List.isPrefixOf_iff_prefix] at hp
    obtain ⟨t, rfl⟩ := hp
    simp at h; rw [h]
  · simp [hp] at h
    split at h
    · split at h <;> simp at h
    · simp at h

theorem getExpected_append_ok {buf e rest : Bytes} (d : Bytes) (h : getExpected buf e = .ok (true, rest)) :
    getExpected (buf ++ d) e = .ok (true, rest ++ d) := by
  have := getExpected_ok_true h
  subst this
  rw [List.append_assoc]; exact getExpected_prefix _ _

theorem getExpected_length {buf e rest : Bytes} {b : Bool} (h : getExpected buf e = .ok (b, rest)) :
    rest.length ≤ buf.length := by
  unfold getExpected at h
  split at h
  · simp at h; rw [← h.2]; simp
  · split at h
    · split at h <;> simp at h
      rw [h.2]; exact Nat.le_refl _
    · simp at h; rw [h.2]; exact Nat.le_refl _

theorem diverges_append {buf e : Bytes} (d : Bytes) (h : Diverges buf e) : Diverges (buf ++ d) e := by
  obtain ⟨h1, h2⟩ := h
  constructor
  · intro hp
    -- e <+: buf ++ d and buf <+: buf ++ d, so they are comparable
    rcases Nat.le_total e.length buf.length with hl | hl
    · exact h1 (List.prefix_of_prefix_length_le hp (List.prefix_append _ _) hl)
    · exact h2 (List.prefix_of_prefix_length_le (List.prefix_append _ _) hp hl)
  · intro hp
    exact h2 ((List.prefix_append _ _).trans hp)

theorem getExpected_error_iff {buf e : Bytes} {x : Err} :
    getExpected buf e = .error x ↔ (x = .disconnect ∧ Diverges buf e ∧ (10 ∈ buf ∨ e.length ≤ buf.length)) := by
  unfold getExpected Diverges
  by_cases hp : e.isPrefixOf buf = true
  · have hp' := hp; rw [List.isPrefixOf_iff_prefix] at hp'
    simp [hp, hp']
  · have hp' := hp; rw [List.isPrefixOf_iff_prefix] at hp'
    by_cases hq : buf.isPrefixOf e = true
    · have hq' := hq; rw [List.isPrefixOf_iff_prefix] at hq'
      simp [hp, hq, hq']
    · have hq' := hq; rw [List.isPrefixOf_iff_prefix] at hq'
      simp only [hp, hq, hp', hq']
      by_cases hc : (buf.contains 10 || decide (e.length ≤ buf.length)) = true
      · have hc' := hc
        simp only [Bool.or_eq_true, List.contains_iff_mem, decide_eq_true_eq] at hc'
        simp [hc']
        exact eq_comm
      · have hc' := hc
        simp only [Bool.or_eq_true, List.contains_iff_mem, decide_eq_true_eq] at hc'
        simp [hc']

theorem getExpected_append_error {buf e : Bytes} {x : Err} (d : Bytes) (h : getExpected buf e = .error x) :
    getExpected (buf ++ d) e = .error x := by
  rw [getExpected_error_iff] at h ⊢
  obtain ⟨hx, hd, hc⟩ := h
  refine ⟨hx, diverges_append d hd, ?_⟩
  rcases hc with hc | hc
  · left; simp [hc]
  · right; simp; omega

/-! ### one loop turn -/

/-- append received bytes to the framer's buffer -/
def addBuf (fr : FramerSt) (d : Bytes) : FramerSt := { fr with buf := fr.buf ++ d }

@[simp] theorem addBuf_nil (fr : FramerSt) : addBuf fr [] = fr := by simp [addBuf]
@[simp] theorem addBuf_addBuf (fr : FramerSt) (a b : Bytes) : addBuf (addBuf fr a) b = addBuf fr (a ++ b) := by
  simp [addBuf]
@[simp] theorem addBuf_st (fr : FramerSt) (a : Bytes) : (addBuf fr a).st = fr.st := rfl
@[simp] theorem addBuf_buf (fr : FramerSt) (a : Bytes) : (addBuf fr a).buf = fr.buf ++ a := rfl

/-- termination measure of the loop: bytes buffered + how many `want_*` stages are left -/
def rank : Framer.State → Nat
  | .want_relay => 2 | .want_prologue => 1 | .want_frame => 0

def mu (fr : FramerSt) : Nat := fr.buf.length + rank fr.st

theorem mu_le (fr : FramerSt) : mu fr < fr.buf.length + 3 := by
  unfold mu; cases fr.st <;> simp [rank]

/-- what one turn of the loop does, by framer state (derived from the generated table) -/
theorem parseTurn_relay (cfg : FramerCfg) (buf : Bytes) :
    parseTurn cfg ⟨.want_relay, buf⟩ =
      (getExpected buf cfg.relayExpected).bind fun (ok, rest) =>
        if ok then .ok (some (⟨.want_prologue, rest⟩, none)) else .ok none := by
  simp [parseTurn, Framer.table]

theorem parseTurn_prologue (cfg : FramerCfg) (buf : Bytes) :
    parseTurn cfg ⟨.want_prologue, buf⟩ =
      (getExpected buf cfg.inboundPrologue).bind fun (ok, rest) =>
        if ok then .ok (some (⟨.want_frame, rest⟩, some .prologue)) else .ok none := by
  simp [parseTurn, Framer.table]

theorem parseTurn_frame (cfg : FramerCfg) (buf : Bytes) :
    parseTurn cfg ⟨.want_frame, buf⟩ =
      match parseFrame buf with
      | some (f, rest) => .ok (some (⟨.want_frame, rest⟩, some (.frame f)))
      | none => .ok none := by
  simp [parseTurn, Framer.table]
  cases parseFrame buf with
  | none => rfl
  | some p => rfl

/-- every continuing turn makes progress -/
theorem parseTurn_decreases {cfg : FramerCfg} {fr fr' : FramerSt} {t : Option Token}
    (h : parseTurn cfg fr = .ok (some (fr', t))) : mu fr' < mu fr := by
  obtain ⟨st, buf⟩ := fr
  cases st with
  | want_relay =>
    rw [parseTurn_relay] at h
    cases hg : getExpected buf cfg.relayExpected with
    | error e => simp [hg, Except.bind] at h
    | ok p =>
      obtain ⟨ok, rest⟩ := p
      have := getExpected_length hg
      cases ok <;> simp [hg, Except.bind] at h
      obtain ⟨rfl, _⟩ := h
      simp [mu, rank]; omega
  | want_prologue =>
    rw [parseTurn_prologue] at h
    cases hg : getExpected buf cfg.inboundPrologue with
    | error e => simp [hg, Except.bind] at h
    | ok p =>
      obtain ⟨ok, rest⟩ := p
      have := getExpected_length hg
      cases ok <;> simp [hg, Except.bind] at h
      obtain ⟨rfl, _⟩ := h
      simp [mu, rank]; omega
  | want_frame =>
    rw [parseTurn_frame] at h
    cases hg : parseFrame buf with
    | none => simp [hg] at h
    | some p =>
      obtain ⟨f, rest⟩ := p
      have := parseFrame_length hg
      simp [hg] at h
      obtain ⟨rfl, _⟩ := h
      simp [mu, rank]; omega

/-- a continuing turn is unaffected by bytes that arrive later -/
theorem parseTurn_append_some {cfg : FramerCfg} {fr fr' : FramerSt} {t : Option Token} (d : Bytes)
    (h : parseTurn cfg fr = .ok (some (fr', t))) :
    parseTurn cfg (addBuf fr d) = .ok (some (addBuf fr' d, t)) := by
  obtain ⟨st, buf⟩ := fr
  cases st with
  | want_relay =>
    simp only [addBuf]
    rw [parseTurn_relay] at h ⊢
    cases hg : getExpected buf cfg.relayExpected with
    | error e => simp [hg, Except.bind] at h
    | ok p =>
      obtain ⟨ok, rest⟩ := p
      cases ok <;> simp [hg, Except.bind] at h
      obtain ⟨rfl, rfl⟩ := h
      simp [getExpected_append_ok d hg, Except.bind]
  | want_prologue =>
    simp only [addBuf]
    rw [parseTurn_prologue] at h ⊢
    cases hg : getExpected buf cfg.inboundPrologue with
    | error e => simp [hg, Except.bind] at h
    | ok p =>
      obtain ⟨ok, rest⟩ := p
      cases ok <;> simp [hg, Except.bind] at h
      obtain ⟨rfl, rfl⟩ := h
      simp [getExpected_append_ok d hg, Except.bind]
  | want_frame =>
    simp only [addBuf]
    rw [parseTurn_frame] at h ⊢
    cases hg : parseFrame buf with
    | none => simp [hg] at h
    | some p =>
      obtain ⟨f, rest⟩ := p
      simp [hg] at h
      obtain ⟨rfl, rfl⟩ := h
      simp [parseFrame_append d hg]

/-- a failing turn fails the same way whatever arrives later -/
theorem parseTurn_append_error {cfg : FramerCfg} {fr : FramerSt} {e : Err} (d : Bytes)
    (h : parseTurn cfg fr = .error e) : parseTurn cfg (addBuf fr d) = .error e := by
  obtain ⟨st, buf⟩ := fr
  cases st with
  | want_relay =>
    simp only [addBuf]
    rw [parseTurn_relay] at h ⊢
    cases hg : getExpected buf cfg.relayExpected with
    | error e' =>
      simp [hg, Except.bind] at h; subst h
      simp [getExpected_append_error d hg, Except.bind]
    | ok p => obtain ⟨ok, rest⟩ := p; cases ok <;> simp [hg, Except.bind] at h
  | want_prologue =>
    simp only [addBuf]
    rw [parseTurn_prologue] at h ⊢
    cases hg : getExpected buf cfg.inboundPrologue with
    | error e' =>
      simp [hg, Except.bind] at h; subst h
      simp [getExpected_append_error d hg, Except.bind]
    | ok p => obtain ⟨ok, rest⟩ := p; cases ok <;> simp [hg, Except.bind] at h
  | want_frame =>
    rw [parseTurn_frame] at h
    cases hg : parseFrame buf with
    | none => simp [hg] at h
    | some p => simp [hg] at h

end WV.Proofs.C12
