import WV.Model.C16

/-! Helper lemmas for C16: the reachable-state invariant of the monitor. -/
namespace WV.Proofs.C16
open WV WV.Gen WV.C16

@[simp] theorem andThen_ok (s : St) (f : St → Res) : Res.andThen (s, none) f = f s := rfl
@[simp] theorem andThen_err (s : St) (e : Err) (f : St → Res) : Res.andThen (s, some e) f = (s, some e) := rfl

@[simp] theorem real_T (T : Nat) : (Cfg.real T).T = T := rfl
@[simp] theorem real_tbl (T : Nat) : (Cfg.real T).tbl = TrafficTimer.table := rfl

/-- on this tree `send_if_connected` is guarded by the connection only: a paused Outbound still
    writes the un-queued records (breaks — and with it every theorem on Pings — if the guard changes) -/
@[simp] theorem sendIfConnected_eq (s : St) : sendIfConnected s = s.outConn := by
  simp [sendIfConnected, Flags.send_if_connected_ignores_pause]

@[simp] theorem andThen_pure (r : Res) : (r.andThen fun x => (x, none)) = r := by
  obtain ⟨s, e⟩ := r; cases e <;> rfl

/-! ### `send_ping` / `_send_ping_reset_timer`: either the drawn id is not outstanding and the ping is
    registered, or `AssertionError` and nothing but the random source has changed -/

/-- simp normal form: in terms of the three fields the random source and the assert read, so that the
    record updates of the other fields fall away -/
@[simp] theorem pingId_eq (s : St) : pingId s = drawOf s.draws s.nextPing := rfl
@[simp] theorem freshNext_eq (s : St) : freshNext s = !hasId s.pings (drawOf s.draws s.nextPing) := rfl
@[simp] theorem outstanding_eq (s : St) (id : Nat) : outstanding s id = hasId s.pings id := rfl

/-- the state after `send_ping` has registered (and `send_if_connected` perhaps written) the ping -/
def pinged (s : St) : St :=
  { s with draws := s.draws.tail, nextPing := max s.nextPing (pingId s + 1),
           pings := s.pings ++ [{ id := pingId s, sent := s.now, wire := s.outConn }],
           lastPing := s.now,
           wireLog := match s.outConn with
             | some c => s.wireLog ++ [(c, pingId s, s.now)]
             | none => s.wireLog }

theorem sendPing_eq (s : St) :
    sendPing s = if freshNext s = true then (pinged s, none) else (afterDraw s, some .assertionError) := by
  have e : outstanding (afterDraw s) (pingId s) = hasId s.pings (drawOf s.draws s.nextPing) := rfl
  simp only [sendPing, e, freshNext_eq]
  by_cases h : hasId s.pings (drawOf s.draws s.nextPing) = true
  · simp [h]
  · simp [h, pinged, afterDraw]
    cases s.outConn <;> rfl

/-- `_send_ping_reset_timer` when no timer is pending (the expiry callback has just cleared it / a new
    connection): a fresh id ⇒ ping registered and the timer armed one interval ahead; a duplicate id ⇒
    `AssertionError` and NO timer -/
theorem sprt_none {T : Nat} {s : St} (htm : s.timer = none) :
    sendPingResetTimer (Cfg.real T) s =
      if freshNext s = true then ({ pinged s with timer := some (s.now + T) }, none)
      else (afterDraw s, some .assertionError) := by
  simp only [sendPingResetTimer, sendPing_eq]
  split
  · simp [pinged, htm]
  · rfl

theorem sprt_ok {T : Nat} {s s' : St} (htm : s.timer = none)
    (h : sendPingResetTimer (Cfg.real T) s = (s', none)) :
    freshNext s = true ∧ s' = { pinged s with timer := some (s.now + T) } := by
  rw [sprt_none htm] at h
  split at h
  · rename_i hf; simp at h; exact ⟨hf, h.symm⟩
  · simp at h

/-- Manager states in which a connection is in use (`_connection` set) -/
def inUse : Manager.State → Bool
  | .CONNECTED | .ABANDONING | .STOPPING => true
  | _ => false

/-- invariant of every state reached without an exception -/
structure Inv (T : Nat) (s : St) : Prop where
  early : (s.mgr = .WAITING ∨ s.mgr = .WANTING) → s.traffic = none
  fol : s.role ≠ some true → s.traffic = none
  notr : s.traffic = none → s.timer = none ∧ s.pings = [] ∧ s.drops = [] ∧ s.wireLog = []
  used : inUse s.mgr = true → ∃ c, s.conn = some c ∧ s.outConn = some c ∧
            (s.role = some true → s.traffic = some .connected ∨ s.traffic = some .idle_traffic)
  unused : inUse s.mgr = false → s.conn = none ∧ s.outConn = none ∧ s.timer = none ∧
            (s.traffic = none ∨ s.traffic = some .no_connection)
  tim : ∀ d, s.timer = some d → s.mgr = .CONNECTED ∧ s.dropped = false ∧ d = s.lastPing + T ∧ s.now < d
  mon : s.mgr = .CONNECTED → s.role = some true → s.dropped = false → s.timer ≠ none
  stp : s.stopCalled = true → s.mgr = .STOPPING ∨ s.mgr = .STOPPED
  lastLe : s.lastPing ≤ s.now
  sentLe : ∀ p ∈ s.pings, p.sent ≤ s.lastPing
  idleW : s.traffic = some .idle_traffic → s.timer ≠ none →
            ∃ p ∈ s.pings, p.sent = s.lastPing ∧ p.wire = s.conn
  madeLe : inUse s.mgr = true → s.role = some true → s.madeAt ≤ s.lastPing
  spacing : ∀ p ∈ s.pings, s.madeAt ≤ p.sent → p.sent = s.lastPing ∨ p.sent + T ≤ s.lastPing

theorem inv_init (T : Nat) : Inv T init := by
  constructor <;> simp [init, inUse, Manager.init]

theorem inv_flow {T : Nat} {s : St} (b : Bool) (hi : Inv T s) : Inv T { s with outPaused := b } := by
  obtain ⟨h1, h2, h3, h4, h5, h6, h7, h8, h9, h10, h11, h12, h13⟩ := hi
  constructor <;> assumption

/-- the monitor's invariant does not mention the random source -/
theorem inv_draws {T : Nat} {s : St} (l : List Nat) (hi : Inv T s) : Inv T { s with draws := l } := by
  obtain ⟨h1, h2, h3, h4, h5, h6, h7, h8, h9, h10, h11, h12, h13⟩ := hi
  constructor <;> assumption

/-- the monitor's invariant does not mention inbound flow control -/
theorem inv_inflow {T : Nat} {s : St} (l : List Nat) (b : Bool) (hi : Inv T s) :
    Inv T { s with inPaused := l, readPaused := b } := by
  obtain ⟨h1, h2, h3, h4, h5, h6, h7, h8, h9, h10, h11, h12, h13⟩ := hi
  constructor <;> assumption

theorem inv_subPause {T : Nat} {s : St} (k : Nat) (hi : Inv T s) : Inv T (subPause k s) := by
  simp only [subPause]
  split
  · exact inv_inflow _ _ hi
  · exact inv_inflow _ s.readPaused hi

theorem inv_subResume {T : Nat} {s : St} (k : Nat) (hi : Inv T s) : Inv T (subResume k s) := by
  simp only [subResume]
  split
  · exact inv_inflow _ _ hi
  · exact inv_inflow _ s.readPaused hi

@[simp] theorem subPause_drops (k : Nat) (s : St) : (subPause k s).drops = s.drops := by
  simp only [subPause]; split <;> rfl
@[simp] theorem subResume_drops (k : Nat) (s : St) : (subResume k s).drops = s.drops := by
  simp only [subResume]; split <;> rfl
@[simp] theorem subPause_pings (k : Nat) (s : St) : (subPause k s).pings = s.pings := by
  simp only [subPause]; split <;> rfl
@[simp] theorem subResume_pings (k : Nat) (s : St) : (subResume k s).pings = s.pings := by
  simp only [subResume]; split <;> rfl

end WV.Proofs.C16
