import WV.Proofs.C07

/-! Liveness half of `handshake_prefix_exact`: a connection that is fed, in any chunking, a stream
that starts with the whole expected string, and that nobody cancels, is accepted. -/
namespace WV.Proofs.C07
open WV WV.C07

/-! ### what `dataReceived` does exactly, case by case -/

theorem dr_wait_wait {cfg : Cfg} {w : Option Nat} {i : Nat} {c : Conn} {d r : Bytes}
    (hst : c.state = .waitForDecision)
    (hc : checkAndRemove (c.buf ++ d) Gen.Transit.GO_EXPECTED = some (false, r)) :
    dataRecv cfg w i c d =
      ({ winner := w, c := { c with buf := c.buf ++ d, rx := c.rx ++ d }, fired := none }, none) := by
  rw [dataRecv_eq]
  simp [arms_eq, runArms, runArm, hst, hc, wrap]

theorem dr_wait_done {cfg : Cfg} {w : Option Nat} {i : Nat} {c : Conn} {d r : Bytes}
    (hst : c.state = .waitForDecision) (hn : c.negD = .pending)
    (hc : checkAndRemove (c.buf ++ d) Gen.Transit.GO_EXPECTED = some (true, r)) :
    (dataRecv cfg w i c d).1.c.negD = .ok := by
  rw [dataRecv_eq]
  simp [arms_eq, runArms, runArm, hst, hc, negotiationSuccessful, hn]
  cases cfg.recLayer r <;> simp [wrap]

theorem dr_hs_wait {cfg : Cfg} {w : Option Nat} {i : Nat} {c : Conn} {d r : Bytes}
    (hst : c.state = .handshake)
    (hc : checkAndRemove (c.buf ++ d) cfg.expectThis = some (false, r)) :
    dataRecv cfg w i c d =
      ({ winner := w, c := { c with buf := c.buf ++ d, rx := c.rx ++ d }, fired := none }, none) := by
  rw [dataRecv_eq]
  simp [arms_eq, runArms, runArm, hst, hc, wrap]

theorem dr_hs_done_sender {cfg : Cfg} {i : Nat} {c : Conn} {d r : Bytes}
    (hst : c.state = .handshake) (hs : cfg.isSender = true) (hn : c.negD = .pending)
    (hc : checkAndRemove (c.buf ++ d) cfg.expectThis = some (true, r)) :
    (dataRecv cfg none i c d).1.c.negD = .ok := by
  rw [dataRecv_eq]
  simp [arms_eq, runArms, runArm, hst, hc, connectionReady, Gen.Transit.connection_ready_checks_winner, hs,
    negotiationSuccessful, hn]
  cases cfg.recLayer r <;> simp [wrap]

theorem dr_hs_done_recv_wait {cfg : Cfg} {w : Option Nat} {i : Nat} {c : Conn} {d r r' : Bytes}
    (hst : c.state = .handshake) (hs : cfg.isSender = false)
    (hc : checkAndRemove (c.buf ++ d) cfg.expectThis = some (true, r))
    (hc' : checkAndRemove r Gen.Transit.GO_EXPECTED = some (false, r')) :
    dataRecv cfg w i c d =
      ({ winner := w, c := { c with buf := r, rx := c.rx ++ d, state := .waitForDecision }, fired := none }, none) := by
  rw [dataRecv_eq]
  simp [arms_eq, runArms, runArm, hst, hc, hc', connectionReady, hs, wrap]

theorem dr_hs_done_recv_done {cfg : Cfg} {w : Option Nat} {i : Nat} {c : Conn} {d r r' : Bytes}
    (hst : c.state = .handshake) (hs : cfg.isSender = false) (hn : c.negD = .pending)
    (hc : checkAndRemove (c.buf ++ d) cfg.expectThis = some (true, r))
    (hc' : checkAndRemove r Gen.Transit.GO_EXPECTED = some (true, r')) :
    (dataRecv cfg w i c d).1.c.negD = .ok := by
  rw [dataRecv_eq]
  simp [arms_eq, runArms, runArm, hst, hc, hc', connectionReady, hs, negotiationSuccessful, hn]
  cases cfg.recLayer r' <;> simp [wrap]


/-! ### feeding chunks -/

/-- one step of the fold in `full_statement` -/
def feedStep (cfg : Cfg) (i : Nat) (p : Option Nat × Conn) (d : Bytes) : Option Nat × Conn :=
  ((dataRecv cfg p.1 i p.2 d).1.winner, (dataRecv cfg p.1 i p.2 d).1.c)

theorem cmp_cases {s E F : Bytes} (h : E <+: s ++ F) : E <+: s ∨ (s <+: E ∧ s.length < E.length) := by
  rcases List.prefix_or_prefix_of_prefix h (List.prefix_append s F) with h1 | h1
  · exact Or.inl h1
  · by_cases hl : s.length < E.length
    · exact Or.inr ⟨h1, hl⟩
    · have : s = E := List.IsPrefix.eq_of_length h1 (by have := h1.length_le; omega)
      exact Or.inl (by rw [this]; exact List.prefix_refl _)

theorem feed_ok_absorb {cfg : Cfg} {i : Nat} (chunks : List Bytes) :
    ∀ (w : Option Nat) (c : Conn), CInv cfg w i c → c.negD = .ok →
      (chunks.foldl (feedStep cfg i) (w, c)).2.negD = .ok := by
  induction chunks with
  | nil => intro w c _ h; exact h
  | cons d rest ih =>
    intro w c hc hok
    simp only [List.foldl_cons]
    have ht := dataRecv_ok (cfg := cfg) (w0 := w) (i := i) d hc
    apply ih _ _ ht.inv
    show (dataRecv cfg w i c d).1.c.negD = .ok
    cases hf : (dataRecv cfg w i c d).1.fired with
    | none => rw [ht.keep hf]; exact hok
    | some r =>
      cases r with
      | none => exact (ht.firedOk hf).1
      | some e => exact absurd hf (ht.firedNo e)

theorem feed_wait {cfg : Cfg} {i : Nat} (chunks : List Bytes) :
    ∀ (w : Option Nat) (c : Conn), CInv cfg w i c → c.state = .waitForDecision → c.negD = .pending →
      Gen.Transit.GO_EXPECTED <+: c.buf ++ chunks.flatten →
      (chunks.foldl (feedStep cfg i) (w, c)).2.negD = .ok := by
  induction chunks with
  | nil =>
    intro w c hc hst _ hp
    exfalso
    have := (hc.wait hst).2.2.2.2
    have h2 := hp.length_le
    simp at h2; omega
  | cons d rest ih =>
    intro w c hc hst hn hp
    simp only [List.foldl_cons]
    have ht := dataRecv_ok (cfg := cfg) (w0 := w) (i := i) d hc
    have hp' : Gen.Transit.GO_EXPECTED <+: (c.buf ++ d) ++ rest.flatten := by
      simpa [List.append_assoc] using hp
    rcases cmp_cases hp' with h1 | ⟨h1, h2⟩
    · have hcar := car_of_prefix h1
      apply feed_ok_absorb rest _ _ ht.inv
      exact dr_wait_done hst hn hcar
    · have hcar := car_of_strict h1 h2
      have hE := dr_wait_wait (cfg := cfg) (w := w) (i := i) hst hcar
      have hinv := ht.inv
      unfold feedStep
      simp only []
      rw [hE] at hinv ⊢
      exact ih _ _ hinv hst hn hp'

theorem feed_hs {cfg : Cfg} {i : Nat} (chunks : List Bytes) :
    ∀ (w : Option Nat) (c : Conn), CInv cfg w i c → c.state = .handshake → c.negD = .pending →
      (cfg.isSender = true → w = none) →
      (cfg.expectThis ++ (if cfg.isSender then [] else Gen.Transit.GO_EXPECTED)) <+: c.buf ++ chunks.flatten →
      (chunks.foldl (feedStep cfg i) (w, c)).2.negD = .ok := by
  induction chunks with
  | nil =>
    intro w c hc hst _ _ hp
    exfalso
    have := (hc.hs hst).2.2.2
    have h2 := hp.length_le
    simp at h2; omega
  | cons d rest ih =>
    intro w c hc hst hn hw hp
    simp only [List.foldl_cons]
    have ht := dataRecv_ok (cfg := cfg) (w0 := w) (i := i) d hc
    have hp' : (cfg.expectThis ++ (if cfg.isSender then [] else Gen.Transit.GO_EXPECTED)) <+:
        (c.buf ++ d) ++ rest.flatten := by
      simpa [List.append_assoc] using hp
    have hpE : cfg.expectThis <+: (c.buf ++ d) ++ rest.flatten := (List.prefix_append _ _).trans hp'
    rcases cmp_cases hpE with h1 | ⟨h1, h2⟩
    · have hcar := car_of_prefix h1
      cases hs : cfg.isSender with
      | true =>
        apply feed_ok_absorb rest _ _ ht.inv
        show (dataRecv cfg w i c d).1.c.negD = .ok
        rw [hw hs]
        exact dr_hs_done_sender hst hs hn hcar
      | false =>
        obtain ⟨r, hr⟩ := h1
        have hdrop : (c.buf ++ d).drop cfg.expectThis.length = r := by rw [← hr]; simp
        rw [hdrop] at hcar
        have hpG : Gen.Transit.GO_EXPECTED <+: r ++ rest.flatten := by
          rw [hs, ← hr] at hp'
          simp only [Bool.false_eq_true, if_false, List.append_assoc] at hp'
          exact (List.prefix_append_right_inj _).mp hp'
        rcases cmp_cases hpG with g1 | ⟨g1, g2⟩
        · apply feed_ok_absorb rest _ _ ht.inv
          exact dr_hs_done_recv_done hst hs hn hcar (car_of_prefix g1)
        · have hE := dr_hs_done_recv_wait (cfg := cfg) (w := w) (i := i) hst hs hcar (car_of_strict g1 g2)
          have hinv := ht.inv
          unfold feedStep
          simp only []
          rw [hE] at hinv ⊢
          exact feed_wait rest _ _ hinv rfl hn hpG
    · have hcar := car_of_strict h1 h2
      have hE := dr_hs_wait (cfg := cfg) (w := w) (i := i) hst hcar
      have hinv := ht.inv
      unfold feedStep
      simp only []
      rw [hE] at hinv ⊢
      exact ih _ _ hinv hst hn hw hp'


theorem feed_inv {cfg : Cfg} {i : Nat} (chunks : List Bytes) :
    ∀ (w : Option Nat) (c : Conn), CInv cfg w i c →
      CInv cfg (chunks.foldl (feedStep cfg i) (w, c)).1 i (chunks.foldl (feedStep cfg i) (w, c)).2 ∧
      (chunks.foldl (feedStep cfg i) (w, c)).2.rx = c.rx ++ chunks.flatten ∧
      (chunks.foldl (feedStep cfg i) (w, c)).2.relayHs = c.relayHs := by
  induction chunks with
  | nil => intro w c h; exact ⟨h, by simp, rfl⟩
  | cons d rest ih =>
    intro w c hc
    simp only [List.foldl_cons]
    have ht := dataRecv_ok (cfg := cfg) (w0 := w) (i := i) d hc
    obtain ⟨h1, h2, h3⟩ := ih (feedStep cfg i (w, c) d).1 (feedStep cfg i (w, c) d).2 ht.inv
    refine ⟨h1, ?_, ?_⟩
    · rw [h2]; show (dataRecv cfg w i c d).1.c.rx ++ rest.flatten = _
      rw [ht.rx]; simp
    · rw [h3]; exact ht.rel

end WV.Proofs.C07
