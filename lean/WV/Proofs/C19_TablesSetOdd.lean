import WV.Model.C19
/-! C19: the word *set* `get_completions` iterates (odd) is the set of words `choose_words` draws from. -/
namespace WV.Proofs.C19
open WV.Gen
theorem oddSet_sub : ∀ w ∈ Words.oddSetCP, w ∈ Words.oddCP := by decide +kernel
theorem odd_sub_set : ∀ w ∈ Words.oddCP, w ∈ Words.oddSetCP := by decide +kernel
end WV.Proofs.C19
