import WV.Proofs.Cert

/-!
`close_always_possible` as a certificate: backward fixpoint `iter` of "can reach a state where
`closed` was notified using only cooperative environment events", proved sound (`canClose_of_good`).
-/
namespace WV.Closable
open WV.Client WV.ClientEnv WV.Cert

/-- what a cooperative environment does: (re)connect — which may mean dropping a connection on
    which an answer was lost —, deliver the welcome and every owed answer, complete stopService -/
def coopEvents : List Event :=
  [.wsOpen, .wsClose, .welcome false, .claimed, .released, .closedResp, .allocated, .nameplates, .svcStopped]

def done (s : Sys) : Bool := decide (s.mon.closedCount ≥ 1)

/-- there is a finite cooperative run from `s` to a state where `closed` has been notified -/
inductive CanClose : Sys → Prop
  | here {s} : done s = true → CanClose s
  | step {s} (e : Event) : e ∈ coopEvents → enabled s e = true → CanClose (sysStep s e).1 → CanClose s

def grow (L : List Sys) (G : Std.HashSet Sys) : Std.HashSet Sys :=
  L.foldl (fun g s =>
    if g.contains s then g
    else if coopEvents.any (fun e => enabled s e && G.contains (sysStep s e).1) then g.insert s else g) G

def iter : Nat → List Sys → Std.HashSet Sys → Std.HashSet Sys
  | 0, _, G => G
  | n + 1, L, G => iter n L (grow L G)

def closableCert (n : Nat) (L : List Sys) : Bool :=
  let G := iter n L (Std.HashSet.ofList (L.filter done))
  L.all (fun s => !s.env.appClosed || G.contains s)

def Good (G : Std.HashSet Sys) : Prop := ∀ s, G.contains s = true → CanClose s

theorem good_grow (L : List Sys) (G : Std.HashSet Sys) (hG : Good G) : Good (grow L G) := by
  unfold grow
  -- generalise the accumulator
  suffices h : ∀ (l : List Sys) (g : Std.HashSet Sys), Good g →
      Good (l.foldl (fun g s =>
        if g.contains s then g
        else if coopEvents.any (fun e => enabled s e && G.contains (sysStep s e).1) then g.insert s else g) g) from
    h L G hG
  intro l
  induction l with
  | nil => intro g hg; simpa using hg
  | cons a l ih =>
    intro g hg
    simp only [List.foldl_cons]
    apply ih
    split
    · exact hg
    · split
      · rename_i hany
        intro s hs
        rw [Std.HashSet.contains_insert] at hs
        simp only [Bool.or_eq_true, beq_iff_eq] at hs
        rcases hs with rfl | hs
        · simp only [List.any_eq_true, Bool.and_eq_true] at hany
          obtain ⟨e, hmem, hen, hin⟩ := hany
          exact CanClose.step e hmem hen (hG _ hin)
        · exact hg s hs
      · exact hg

theorem good_iter (n : Nat) (L : List Sys) (G : Std.HashSet Sys) (hG : Good G) : Good (iter n L G) := by
  induction n generalizing G with
  | zero => simpa [iter] using hG
  | succ n ih => simp only [iter]; exact ih _ (good_grow L G hG)

theorem good_init (L : List Sys) : Good (Std.HashSet.ofList (L.filter done)) := by
  intro s hs
  have := Cert.contains_ofList hs
  simp only [List.mem_filter] at this
  exact CanClose.here this.2

theorem closable_sound {n : Nat} {L : List Sys} (h : closableCert n L = true) :
    ∀ s, s ∈ L → s.env.appClosed = true → CanClose s := by
  intro s hs hc
  unfold closableCert at h
  simp only [List.all_eq_true] at h
  have := h s hs
  simp only [hc, Bool.not_true, Bool.false_or] at this
  exact good_iter n L _ (good_init L) s this

end WV.Closable
