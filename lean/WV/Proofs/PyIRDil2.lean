import WV.Proofs.PyIR_Dil

set_option linter.unusedSimpArgs false
set_option linter.unusedVariables false

/-!
Translation validation of the Dilation data path, second part (`WV.Gen.PyIRDil` bodies that had no agreement theorem):
lemmas.  Outbound's producer bookkeeping against `WV.C15` (`checkInv`, `opReg`, `opUnreg`, `opClose`, `loopStep`/`nextTurn`),
Inbound's open-subchannel map against `WV.C10.L4` / `WV.C15.Inb`.
-/
namespace WV.Proofs.PyIRDil2
open WV WV.PyIR WV.Gen.PyIRDil WV.Proofs.PyIRC03 WV.Proofs.PyIRDil

/-! the same encoder lemmas with the key written as the constructor (after `simp only [encP]` on a local) -/
theorem listRemove1_P (cls : Nat → String) (l : List Nat) (k : Nat) :
    listRemove1 (.ref (cls k) k) (l.map (encP cls)) = .ok (if k ∈ l then some ((l.erase k).map (encP cls)) else none) :=
  listRemove1_enc (keyEnc_P cls) l k
theorem setDel_P (cls : Nat → String) (l : List Nat) (k : Nat) :
    setDel (.ref (cls k) k) (l.map (encP cls)) = .ok ((C15.sDel k l).map (encP cls)) := setDel_enc (keyEnc_P cls) l k
theorem memKeys_P (cls : Nat → String) (l : List Nat) (k : Nat) :
    memKeys (.ref (cls k) k) (l.map (encP cls)) = .ok (decide (k ∈ l)) := memKeys_enc (keyEnc_P cls) l k
theorem dictSet_P (cls : Nat → String) (d : List (Nat × Nat)) (k v : Nat) :
    dictSet (encSc k) (.ref (cls v) v) (encDict encSc (encP cls) d) = .ok (encDict encSc (encP cls) (C03.dset d k v)) :=
  dictSet_enc keyEnc_sc (encP cls) d k v

/-- `dil_eval15` without unfolding sibling calls (`exec`/`callM`): they are rewritten with a lemma about the callee -/
macro "dil2_nc" "[" ts:Lean.Parser.Tactic.simpLemma,* "]" : tactic =>
  `(tactic| simp [execB, execS, andThen, withVal, evalE, evalEs, readAttr, readVar, bindParams, doEmit,
      forLoop, bindPat, iterElems, valIn, valAdd, valLen, valIndex, valItems, isInstance, pyEq, scalarEq,
      hashable_none, hashable_bool, hashable_int, hashable_str, hashable_ref,
      truthy_none, truthy_bool, truthy_int, truthy_str, truthy_bytes, truthy_tuple, truthy_list,
      truthy_dict, truthy_set, truthy_obj, truthy_ref, truthy_nint, St.setAttr, St.setLocal, St.bindOpt, Store.get,
      Store.set, Store.del, get_set, bind, Res.bind, pure, unsupported,
      valLe, valMax, valField, setElems, valGetD, starElems, doEmitR, runReenter,
      $ts,*])

/-! ## `_check_invariants` -/

/-- the Boolean the two `assert`s of `_check_invariants` compute on the heap's representatives equals the model's
    `checkInv` (sets through membership only) -/
theorem checkInv_congr (o : C15.Out) (lp lu : List Nat) (hmp : ∀ x, x ∈ lp ↔ x ∈ o.pausedSet)
    (hmu : ∀ x, x ∈ lu ↔ x ∈ o.unpausedSet) :
    ((lu.all fun x => !lp.contains x) &&
      (((lp ++ lu.filter fun x => !lp.contains x).all fun x => o.allp.contains x) &&
       (o.allp.all fun x => (lp ++ lu.filter fun x => !lp.contains x).contains x))) = C15.checkInv o := by
  unfold C15.checkInv
  rw [Bool.eq_iff_iff]
  simp only [Bool.and_eq_true, List.all_eq_true, List.contains_iff_mem, Bool.not_eq_true', decide_eq_false_iff_not,
    List.mem_append, List.mem_filter, Bool.or_eq_true, decide_eq_true_eq, Bool.not_eq_eq_eq_not, Bool.not_true,
    List.contains_eq_mem]
  constructor
  · rintro ⟨h1, h2, h3⟩
    refine ⟨fun x hx => ?_, fun x hx => ?_, fun x hx => ?_⟩
    · have := h1 x ((hmu x).2 hx); rwa [hmp] at this
    · rcases hx with hx | hx
      · exact h2 x (Or.inl ((hmp x).2 hx))
      · by_cases hp : x ∈ lp
        · exact h2 x (Or.inl hp)
        · exact h2 x (Or.inr ⟨(hmu x).2 hx, hp⟩)
    · rcases h3 x hx with hp | ⟨hu, _⟩
      · exact Or.inl ((hmp x).1 hp)
      · exact Or.inr ((hmu x).1 hu)
  · rintro ⟨h1, h2, h3⟩
    refine ⟨fun x hx => ?_, fun x hx => ?_, fun x hx => ?_⟩
    · have := h1 x ((hmu x).1 hx); rwa [← hmp] at this
    · rcases hx with hx | ⟨hx, _⟩
      · exact h2 x (Or.inl ((hmp x).1 hx))
      · exact h2 x (Or.inr ((hmu x).1 hx))
    · rcases h3 x hx with hp | hu
      · exact Or.inl ((hmp x).2 hp)
      · by_cases hp : x ∈ lp
        · exact Or.inl hp
        · exact Or.inr ⟨(hmu x).2 hu, hp⟩

/-- `self._check_invariants()` as a sibling call from any point of a run: the heap and the calls are untouched, it
    raises `AssertionError` exactly when the model's `checkInv` is false -/
theorem checkInv_callM (cls : Nat → String) (f : Nat) (env : Env) (h : Store) (o : C15.Out)
    (R : RelProd cls h o) (cs : List Call) :
    callM env tbl_Outbound (f + 1) "_check_invariants" [] h cs =
      (h, cs, if C15.checkInv o then .ok .none else .exc "AssertionError") := by
  obtain ⟨hp, hall, ⟨vp, hvp, lp, rfl, hmp⟩, ⟨vu, hvu, lu, rfl, hmu⟩, hscp⟩ := R
  rw [← checkInv_congr o lp lu hmp hmu]
  have e1 := allNotIn_enc (keyEnc_P cls) lu lp
  have e0 := notInOf_enc (keyEnc_P cls) lp lu
  have e2 : allIn (o.allp.map (encP cls)) (lp.map (encP cls) ++ (lu.filter fun x => !lp.contains x).map (encP cls)) =
      .ok ((lp ++ lu.filter fun x => !lp.contains x).all fun x => o.allp.contains x) := by
    rw [← List.map_append]; exact allIn_enc (keyEnc_P cls) _ _
  have e3 : allIn (lp.map (encP cls) ++ (lu.filter fun x => !lp.contains x).map (encP cls)) (o.allp.map (encP cls)) =
      .ok (o.allp.all fun x => (lp ++ lu.filter fun x => !lp.contains x).contains x) := by
    rw [← List.map_append]; exact allIn_enc (keyEnc_P cls) _ _
  have eh : allHashable (lp.map (encP cls) ++ (lu.filter fun x => !lp.contains x).map (encP cls)) = true := by
    rw [← List.map_append]; exact allHashable_enc (keyEnc_P cls) _
  generalize (lu.all fun x => !lp.contains x) = b1 at e1 ⊢
  generalize (lu.filter fun x => !lp.contains x) = X at e0 e2 e3 eh ⊢
  generalize ((lp ++ X).all fun x => o.allp.contains x) = b2 at e2 ⊢
  generalize (o.allp.all fun x => (lp ++ X).contains x) = b3 at e3 ⊢
  cases b1 <;> cases b2 <;> cases b3 <;>
    dil_eval15 [tbl_Outbound, m_Outbound__check_invariants, hvp, hvu, hall, allHashable_enc (keyEnc_P cls),
      e0, e1, e2, e3, eh]

/-! ## the model's log against the recorded calls -/

def mkResume (cls : Nat → String) (p : Nat) : Call := ⟨"$v", "resumeProducing", [encP cls p]⟩
def mkStop (cls : Nat → String) (p : Nat) : Call := ⟨"$v", "stopStreaming", [encP cls p]⟩

/-- the call on a producer object that a log entry of the C15 model stands for (`reg`/`unreg` are ghost markers) -/
def callOf (cls : Nat → String) : C15.Ev → Option Call
  | .pause p => some (mkPause cls p)
  | .resume p => some (mkResume cls p)
  | .stop p => some (mkStop cls p)
  | _ => none

def exnOf : C15.Ev → Option C15.Exn
  | .exc e => some e
  | _ => none

/-- how the method ends, read off the model's new log entries (oldest first) -/
def resOf (evs : List C15.Ev) : Res Val :=
  match evs.filterMap exnOf with
  | [] => .ok .none
  | e :: _ => .exc e.name

theorem dget_eq_lookup (d : List (Nat × Nat)) (k : Nat) : C03.dget d k = d.lookup k := by
  induction d with
  | nil => rfl
  | cons e r ih =>
    obtain ⟨a, b⟩ := e
    by_cases h : a = k
    · subst h; simp [C03.dget, List.lookup]
    · have h' : (k == a) = false := by simp; exact fun e => h e.symm
      simp [C03.dget, List.lookup, h, h', ih]

theorem dpop_eq_filter (d : List (Nat × Nat)) (k : Nat) : C03.dpop d k = d.filter (fun e => e.1 != k) := by
  unfold C03.dpop
  congr 1

theorem scpHas_eq (d : List (Nat × Nat)) (k : Nat) : C15.scpHas k d = (d.lookup k).isSome := by
  induction d with
  | nil => rfl
  | cons e r ih =>
    obtain ⟨a, b⟩ := e
    by_cases h : a = k
    · subst h; simp [C15.scpHas, List.lookup]
    · have h' : (k == a) = false := by simp; exact fun e => h e.symm
      have h'' : (a == k) = false := by simp [h]
      simp [C15.scpHas, List.lookup, h', h''] at ih ⊢
      first | exact ih | (rw [← ih]; simp [C15.scpHas, h])

theorem dset_absent (d : List (Nat × Nat)) (k v : Nat) (h : d.lookup k = none) : C03.dset d k v = d ++ [(k, v)] := by
  induction d with
  | nil => rfl
  | cons e r ih =>
    obtain ⟨a, b⟩ := e
    by_cases hk : a = k
    · subst hk; simp [List.lookup] at h
    · have h' : (k == a) = false := by simp; exact fun e => hk e.symm
      have h2 : List.lookup k r = none := by simpa [List.lookup, h'] using h
      simp [C03.dset, hk, ih h2]

theorem scp_dict (cls : Nat → String) (l : List (Nat × Nat)) :
    (l.map fun e => (encSc e.1, encP cls e.2)) = encDict encSc (encP cls) l := rfl

theorem unregDrop_o (c : C15.Cfg) (sc p : Nat) :
    (C15.unregDrop (C15.unregPop c sc p) p).o =
      { c.o with scp := c.o.scp.filter (fun e => e.1 != sc), allp := c.o.allp.erase p,
                 pausedSet := C15.sDel p c.o.pausedSet, unpausedSet := C15.sDel p c.o.unpausedSet,
                 pulls := if p ∈ c.o.pulls then C15.sDel p c.o.pulls else c.o.pulls } := by
  unfold C15.unregDrop C15.unregPop
  split <;> simp [*]

theorem unregPop_o (c : C15.Cfg) (sc p : Nat) :
    (C15.unregPop c sc p).o =
      { c.o with scp := c.o.scp.filter (fun e => e.1 != sc),
                 pulls := if p ∈ c.o.pulls then C15.sDel p c.o.pulls else c.o.pulls } := by
  unfold C15.unregPop
  split <;> simp [*]

/-- `subchannel_unregisterProducer(sc)` as a sibling call = `C15.opUnreg`; `hP`: the class of the producer object found
    is `PullToPush` exactly when the model lists it as a live adapter -/
theorem unregister_callM (cls : Nat → String) (f : Nat) (env : Env) (hra : env.raises = fun _ => none)
    (hre : env.reenter = fun _ => []) (h : Store) (c : C15.Cfg) (R : RelProd cls h c.o) (sc : Nat)
    (hP : ∀ p, c.o.scp.lookup sc = some p → (cls p = "PullToPush" ↔ p ∈ c.o.pulls)) (cs : List Call) :
    ∃ (h' : Store) (evs : List C15.Ev),
      callM env tbl_Outbound (f + 2) "subchannel_unregisterProducer" [encSc sc] h cs =
        (h', cs ++ evs.filterMap (callOf cls), resOf evs) ∧
      RelProd cls h' (C15.opUnreg c sc).o ∧ (C15.opUnreg c sc).log = evs.reverse ++ c.log := by
  have R' := R
  obtain ⟨hp, hall, ⟨vp, hvp, lp, rfl, hmp⟩, ⟨vu, hvu, lu, rfl, hmu⟩, hscp⟩ := R
  rw [scp_dict] at hscp
  cases hl : c.o.scp.lookup sc with
  | none =>
    refine ⟨h, [.exc .noProducer], ?_, ?_, ?_⟩
    · dil_eval15 [tbl_Outbound, m_Outbound_subchannel_unregisterProducer, hscp, dictGet_enc keyEnc_sc, dget_eq_lookup, hl,
        resOf, exnOf, callOf, C15.Exn.name]
    · simpa [C15.opUnreg, hl, C15.Cfg.raiseOp, C15.Cfg.emit] using R'
    · simp [C15.opUnreg, hl, C15.Cfg.raiseOp, C15.Cfg.emit]
  | some p =>
    have hPp := hP p hl
    have hisinst : isInstanceAny (.ref (cls p) p) ["PullToPush"] = .ok (decide (p ∈ c.o.pulls)) := by
      by_cases hpl : p ∈ c.o.pulls
      · simp [isInstanceAny, encP, hPp.2 hpl, hpl]
      · have : ¬ cls p = "PullToPush" := fun e => hpl (hPp.1 e)
        simp [isInstanceAny, encP, this, hpl]
    by_cases hin : p ∈ c.o.allp
    · have R1 : RelProd cls
          ((((h.set "_subchannel_producers" (.dict (encDict encSc (encP cls) (C03.dpop c.o.scp sc)))).set "_all_producers"
            (.list ((c.o.allp.erase p).map (encP cls)))).set "_paused_producers" (.set ((C15.sDel p lp).map (encP cls)))).set
            "_unpaused_producers" (.set ((C15.sDel p lu).map (encP cls))))
          (C15.unregDrop (C15.unregPop c sc p) p).o := by
        rw [unregDrop_o]
        refine ⟨?_, ?_, ⟨_, ?_, SetRel.del (kf := encP cls) hmp p⟩, ⟨_, ?_, SetRel.del (kf := encP cls) hmu p⟩, ?_⟩ <;>
          simp [get_set, hp, dpop_eq_filter, encDict]
      have hci := fun cs' => checkInv_callM cls f env _ _ R1 cs'
      cases hck : C15.checkInv (C15.unregDrop (C15.unregPop c sc p) p).o with
      | true =>
        have eo : C15.opUnreg c sc = C15.unregDrop (C15.unregPop c sc p) p := by simp [C15.opUnreg, hl, hin, hck]
        rw [eo]
        refine ⟨_, (if p ∈ c.o.pulls then [.stop p] else []) ++ [.unreg p], ?_, R1, ?_⟩
        · rw [callM]
          by_cases hpl : p ∈ c.o.pulls <;>
          dil2_nc [tbl_Outbound, m_Outbound_subchannel_unregisterProducer, hscp, dictGet_enc keyEnc_sc, dictDel_enc keyEnc_sc,
            dget_eq_lookup, hl, hisinst, hpl, hin, hall, hvp, hvu, listRemove1_enc (keyEnc_P cls), setDel_enc (keyEnc_P cls),
            hra, hre, hci, encP, listRemove1_P, setDel_P, memKeys_P, hck, callOf, resOf, exnOf, mkStop]
          all_goals first | rfl | simp [List.filterMap, exnOf, C15.Exn.name]
        · by_cases hpl : p ∈ c.o.pulls <;> simp [C15.unregDrop, C15.unregPop, hpl]
      | false =>
        have eo : C15.opUnreg c sc = (C15.unregDrop (C15.unregPop c sc p) p).raiseOp .assertion := by
          simp [C15.opUnreg, hl, hin, hck]
        rw [eo]
        refine ⟨_, (if p ∈ c.o.pulls then [.stop p] else []) ++ [.unreg p, .exc .assertion], ?_, R1, ?_⟩
        · rw [callM]
          by_cases hpl : p ∈ c.o.pulls <;>
          dil2_nc [tbl_Outbound, m_Outbound_subchannel_unregisterProducer, hscp, dictGet_enc keyEnc_sc, dictDel_enc keyEnc_sc,
            dget_eq_lookup, hl, hisinst, hpl, hin, hall, hvp, hvu, listRemove1_enc (keyEnc_P cls), setDel_enc (keyEnc_P cls),
            hra, hre, hci, encP, listRemove1_P, setDel_P, memKeys_P, hck, callOf, resOf, exnOf, mkStop,
            C15.Exn.name]
          all_goals first | rfl | simp [List.filterMap, exnOf, C15.Exn.name]
        · by_cases hpl : p ∈ c.o.pulls <;> simp [C15.unregDrop, C15.unregPop, hpl, C15.Cfg.raiseOp, C15.Cfg.emit]
    · have R2 : RelProd cls (h.set "_subchannel_producers" (.dict (encDict encSc (encP cls) (C03.dpop c.o.scp sc))))
          (C15.unregPop c sc p).o := by
        rw [unregPop_o]
        refine ⟨?_, ?_, ⟨_, ?_, ⟨lp, rfl, hmp⟩⟩, ⟨_, ?_, ⟨lu, rfl, hmu⟩⟩, ?_⟩ <;>
          simp [get_set, hp, hall, hvp, hvu, dpop_eq_filter, encDict]
      have eo : C15.opUnreg c sc = (C15.unregPop c sc p).raiseOp .dequeRemove := by simp [C15.opUnreg, hl, hin]
      rw [eo]
      refine ⟨_, (if p ∈ c.o.pulls then [.stop p] else []) ++ [.exc .dequeRemove], ?_, R2, ?_⟩
      · rw [callM]
        by_cases hpl : p ∈ c.o.pulls <;>
        dil2_nc [tbl_Outbound, m_Outbound_subchannel_unregisterProducer, hscp, dictGet_enc keyEnc_sc, dictDel_enc keyEnc_sc,
          dget_eq_lookup, hl, hisinst, hpl, hin, hall, hvp, hvu, listRemove1_enc (keyEnc_P cls), setDel_enc (keyEnc_P cls),
          hra, hre, encP, listRemove1_P, setDel_P, memKeys_P, callOf, resOf, exnOf, mkStop,
          C15.Exn.name]
        all_goals first | rfl | simp [List.filterMap, exnOf, C15.Exn.name]
      · by_cases hpl : p ∈ c.o.pulls <;> simp [C15.unregPop, hpl, C15.Cfg.raiseOp, C15.Cfg.emit]

/-! ## agreement of a run with a model operation -/

def excOf (evs : List C15.Ev) : Option String :=
  match evs.filterMap exnOf with
  | [] => none
  | e :: _ => some e.name

/-- the run `o` of a method body agrees with a model operation that took configuration `c` to `c'`: the heap is related
    to the new bookkeeping, the calls on producer objects are exactly the new `pause`/`resume`/`stop` entries of the model's
    log, in order, and the exception (if any) is the one the model logged -/
def AgreeOut (cls : Nat → String) (o : Outcome) (c c' : C15.Cfg) : Prop :=
  ∃ evs : List C15.Ev, c'.log = evs.reverse ++ c.log ∧ RelProd cls o.heap c'.o ∧
    o.calls = evs.filterMap (callOf cls) ∧ o.exc = excOf evs

theorem agree_of_callM {cls : Nat → String} {env : Env} {tbl : MethodTable} {fuel : Nat} {meth : String} {args : List Val}
    {h h' : Store} {c c' : C15.Cfg} {evs : List C15.Ev}
    (e : callM env tbl fuel meth args h [] = (h', [] ++ evs.filterMap (callOf cls), resOf evs))
    (R : RelProd cls h' c'.o) (hl : c'.log = evs.reverse ++ c.log) : AgreeOut cls (exec fuel env tbl meth args h) c c' := by
  refine ⟨evs, hl, ?_⟩
  unfold exec
  rw [e]
  unfold resOf excOf
  cases evs.filterMap exnOf <;> simp [R]

/-- `subchannel_closed(scid, sc)` as a sibling call = `C15.opClose` -/
theorem closed_callM (cls : Nat → String) (f : Nat) (env : Env) (hra : env.raises = fun _ => none)
    (hre : env.reenter = fun _ => []) (h : Store) (c : C15.Cfg) (R : RelProd cls h c.o) (sc : Nat) (scid : Val)
    (hP : ∀ p, c.o.scp.lookup sc = some p → (cls p = "PullToPush" ↔ p ∈ c.o.pulls)) (cs : List Call) :
    ∃ (h' : Store) (evs : List C15.Ev),
      callM env tbl_Outbound (f + 3) "subchannel_closed" [scid, encSc sc] h cs =
        (h', cs ++ evs.filterMap (callOf cls), resOf evs) ∧
      RelProd cls h' (C15.opClose c sc).o ∧ (C15.opClose c sc).log = evs.reverse ++ c.log := by
  have R' := R
  obtain ⟨hp, hall, ⟨vp, hvp, lp, rfl, hmp⟩, ⟨vu, hvu, lu, rfl, hmu⟩, hscp⟩ := R
  rw [scp_dict] at hscp
  have hci := fun cs' => checkInv_callM cls (f + 1) env h c.o R' cs'
  cases hck : C15.checkInv c.o with
  | false =>
    refine ⟨h, [.exc .assertion], ?_, ?_, ?_⟩
    · rw [callM]
      dil2_nc [tbl_Outbound, m_Outbound_subchannel_closed, hci, hck, resOf, exnOf, callOf, C15.Exn.name]
      all_goals first | rfl | simp [List.filterMap, exnOf, C15.Exn.name]
    · simpa [C15.opClose, hck, C15.Cfg.raiseOp, C15.Cfg.emit] using R'
    · simp [C15.opClose, hck, C15.Cfg.raiseOp, C15.Cfg.emit]
  | true =>
    cases hl : c.o.scp.lookup sc with
    | none =>
      have hh : C15.scpHas sc c.o.scp = false := by rw [scpHas_eq, hl]; rfl
      refine ⟨h, [], ?_, ?_, ?_⟩
      · rw [callM]
        dil2_nc [tbl_Outbound, m_Outbound_subchannel_closed, hci, hck, resOf, exnOf, callOf, hscp, dictGet_enc keyEnc_sc,
          dget_eq_lookup, hl]
        all_goals first | rfl | simp [List.filterMap, exnOf, C15.Exn.name]
      · simpa [C15.opClose, hck, hh] using R'
      · simp [C15.opClose, hck, hh]
    | some p =>
      have hh : C15.scpHas sc c.o.scp = true := by rw [scpHas_eq, hl]; rfl
      obtain ⟨h', evs, e, hR, hlog⟩ := unregister_callM cls f env hra hre h c R' sc hP cs
      refine ⟨h', evs, ?_, ?_, ?_⟩
      · rw [callM]
        dil2_nc [tbl_Outbound, m_Outbound_subchannel_closed, hci, hck, hscp, dictGet_enc keyEnc_sc,
          dget_eq_lookup, hl, e]
        unfold resOf
        cases evs.filterMap exnOf <;> simp
      · simpa [C15.opClose, hck, hh] using hR
      · simpa [C15.opClose, hck, hh] using hlog

/-! ## `subchannel_registerProducer` -/

/-- closes the goals "these calls / this result are what the listed model events stand for" -/
macro "fin_evs" : tactic =>
  `(tactic| all_goals first
      | rfl
      | exact ⟨rfl, rfl⟩
      | simp [List.filterMap, callOf, exnOf, resOf, mkPause, mkStop, mkResume, encP, C15.Exn.name]
      | simp [List.filterMap, pullCalls, mkStart, exnOf, resOf, encP, C15.Exn.name])

theorem regState_paused (o : C15.Out) (sc p : Nat) (streaming : Bool) (hps : o.paused = true) :
    C15.regState o sc p streaming =
      { o with scp := o.scp ++ [(sc, p)], allp := o.allp ++ [p],
               pulls := if streaming then o.pulls else C15.sAdd p o.pulls, pausedSet := C15.sAdd p o.pausedSet } := by
  simp [C15.regState, hps]

theorem regState_unpaused (o : C15.Out) (sc p : Nat) (streaming : Bool) (hps : o.paused = false) :
    C15.regState o sc p streaming =
      { o with scp := o.scp ++ [(sc, p)], allp := o.allp ++ [p],
               pulls := if streaming then o.pulls else C15.sAdd p o.pulls, unpausedSet := C15.sAdd p o.unpausedSet } := by
  simp [C15.regState, hps]

/-- the heap after the bookkeeping part of `subchannel_registerProducer` is related to `regState` -/
theorem rel_regState (cls : Nat → String) (h : Store) (o : C15.Out) (sc p : Nat) (streaming : Bool)
    (hp : h.get "_paused" = some (.bool o.paused)) (hall : h.get "_all_producers" = some (.list (o.allp.map (encP cls))))
    (lp lu : List Nat) (hmp : ∀ x, x ∈ lp ↔ x ∈ o.pausedSet) (hmu : ∀ x, x ∈ lu ↔ x ∈ o.unpausedSet)
    (hvp : h.get "_paused_producers" = some (.set (lp.map (encP cls))))
    (hvu : h.get "_unpaused_producers" = some (.set (lu.map (encP cls))))
    (hl : o.scp.lookup sc = none) :
    RelProd cls
      (((h.set "_subchannel_producers" (.dict (encDict encSc (encP cls) (C03.dset o.scp sc p)))).set "_all_producers"
          (.list (o.allp.map (encP cls) ++ [.ref (cls p) p]))).set
        (if o.paused then "_paused_producers" else "_unpaused_producers")
        (.set (if o.paused then (if p ∈ lp then lp.map (encP cls) else lp.map (encP cls) ++ [.ref (cls p) p])
               else (if p ∈ lu then lu.map (encP cls) else lu.map (encP cls) ++ [.ref (cls p) p]))))
      (C15.regState o sc p streaming) := by
  cases hps : o.paused with
  | true =>
    rw [regState_paused o sc p streaming hps]
    refine ⟨?_, ?_, ⟨_, ?_, SetRel.add (keyEnc_P cls) hmp p⟩, ⟨_, ?_, ⟨lu, rfl, hmu⟩⟩, ?_⟩ <;>
      simp [get_set, hp, hps, hall, hvp, hvu, dset_absent _ _ _ hl, encDict, encP]
  | false =>
    rw [regState_unpaused o sc p streaming hps]
    refine ⟨?_, ?_, ⟨_, ?_, ⟨lp, rfl, hmp⟩⟩, ⟨_, ?_, SetRel.add (keyEnc_P cls) hmu p⟩, ?_⟩ <;>
      simp [get_set, hp, hps, hall, hvp, hvu, dset_absent _ _ _ hl, encDict, encP]

/-- `subchannel_registerProducer(sc, producer, True)` (a push producer) as a sibling call = `C15.opReg c sc p true` -/
theorem register_push_callM (cls : Nat → String) (f : Nat) (env : Env) (hra : env.raises = fun _ => none)
    (hre : env.reenter = fun _ => []) (hfmt : ∀ vs, env.ext "str%" vs = .ok (.str ""))
    (h : Store) (c : C15.Cfg) (R : RelProd cls h c.o) (sc p : Nat) (cs : List Call) :
    ∃ (h' : Store) (evs : List C15.Ev),
      callM env tbl_Outbound (f + 2) "subchannel_registerProducer" [encSc sc, encP cls p, .bool true] h cs =
        (h', cs ++ evs.filterMap (callOf cls), resOf evs) ∧
      RelProd cls h' (C15.opReg c sc p true).o ∧ (C15.opReg c sc p true).log = evs.reverse ++ c.log := by
  have R' := R
  obtain ⟨hp, hall, ⟨vp, hvp, lp, rfl, hmp⟩, ⟨vu, hvu, lu, rfl, hmu⟩, hscp⟩ := R
  rw [scp_dict] at hscp
  cases hl : c.o.scp.lookup sc with
  | some q =>
    have hh : C15.scpHas sc c.o.scp = true := by rw [scpHas_eq, hl]; rfl
    refine ⟨h, [.exc .dupRegister], ?_, ?_, ?_⟩
    · rw [callM]
      dil2_nc [tbl_Outbound, m_Outbound_subchannel_registerProducer, hscp, dictGet_enc keyEnc_sc, dget_eq_lookup, hl, hfmt,
        encP]
      fin_evs
    · simpa [C15.opReg, hh, C15.Cfg.raiseOp, C15.Cfg.emit] using R'
    · simp [C15.opReg, hh, C15.Cfg.raiseOp, C15.Cfg.emit]
  | none =>
    have hh : C15.scpHas sc c.o.scp = false := by rw [scpHas_eq, hl]; rfl
    have R1 := rel_regState cls h c.o sc p true hp hall lp lu hmp hmu hvp hvu hl
    cases hps : c.o.paused with
    | true =>
      rw [hps] at hp
      simp only [hps, if_true] at R1
      have hci := fun cs' => checkInv_callM cls f env _ _ R1 cs'
      cases hck : C15.checkInv (C15.regState c.o sc p true) with
      | true =>
        have eo : C15.opReg c sc p true =
            { c with o := C15.regState c.o sc p true, log := .pause p :: .reg p :: c.log } := by
          simp [C15.opReg, hh, hck, hps]
        rw [eo]
        refine ⟨_, [.reg p, .pause p], ?_, R1, by simp⟩
        rw [callM]
        dil2_nc [tbl_Outbound, m_Outbound_subchannel_registerProducer, hscp, dictGet_enc keyEnc_sc, dget_eq_lookup, hl,
          encP, dictSet_P, hall, hp, hvp, hvu, memKeys_P, hci, hck, hra, hre]
        fin_evs
      | false =>
        have eo : C15.opReg c sc p true =
            { c with o := C15.regState c.o sc p true, log := .exc .assertion :: .reg p :: c.log } := by
          simp [C15.opReg, hh, hck, hps, C15.Cfg.raiseOp, C15.Cfg.emit]
        rw [eo]
        refine ⟨_, [.reg p, .exc .assertion], ?_, R1, by simp⟩
        rw [callM]
        dil2_nc [tbl_Outbound, m_Outbound_subchannel_registerProducer, hscp, dictGet_enc keyEnc_sc, dget_eq_lookup, hl,
          encP, dictSet_P, hall, hp, hvp, hvu, memKeys_P, hci, hck, hra, hre]
        fin_evs
    | false =>
      rw [hps] at hp
      simp only [hps, Bool.false_eq_true, if_false] at R1
      have hci := fun cs' => checkInv_callM cls f env _ _ R1 cs'
      cases hck : C15.checkInv (C15.regState c.o sc p true) with
      | true =>
        have eo : C15.opReg c sc p true =
            { c with o := C15.regState c.o sc p true, log := .reg p :: c.log } := by
          simp [C15.opReg, hh, hck, hps]
        rw [eo]
        refine ⟨_, [.reg p], ?_, R1, by simp⟩
        rw [callM]
        dil2_nc [tbl_Outbound, m_Outbound_subchannel_registerProducer, hscp, dictGet_enc keyEnc_sc, dget_eq_lookup, hl,
          encP, dictSet_P, hall, hp, hvp, hvu, memKeys_P, hci, hck, hra, hre]
        fin_evs
      | false =>
        have eo : C15.opReg c sc p true =
            { c with o := C15.regState c.o sc p true, log := .exc .assertion :: .reg p :: c.log } := by
          simp [C15.opReg, hh, hck, hps, C15.Cfg.raiseOp, C15.Cfg.emit]
        rw [eo]
        refine ⟨_, [.reg p, .exc .assertion], ?_, R1, by simp⟩
        rw [callM]
        dil2_nc [tbl_Outbound, m_Outbound_subchannel_registerProducer, hscp, dictGet_enc keyEnc_sc, dget_eq_lookup, hl,
          encP, dictSet_P, hall, hp, hvp, hvu, memKeys_P, hci, hck, hra, hre]
        fin_evs

def mkStart (cls : Nat → String) (a : Nat) (paused : Bool) : Call := ⟨"$v", "startStreaming", [encP cls a, .bool paused]⟩

/-- the call of a pull registration: `adapter.startStreaming(paused)` stands for the model's `reg a` (followed by
    `pause a` when `paused`: the body of the generator-based `PullToPush.startStreaming` is `if paused: self.pauseProducing()`) -/
def pullCalls (cls : Nat → String) : List C15.Ev → List Call
  | [.reg a] => [mkStart cls a false]
  | [.reg a, .pause _] => [mkStart cls a true]
  | _ => []

/-- `subchannel_registerProducer(sc, producer, False)` (a pull producer `raw`, wrapped into the new `PullToPush` object
    number `p`) as a sibling call = `C15.opReg c sc p false` -/
theorem register_pull_callM (cls : Nat → String) (f : Nat) (env : Env) (hra : env.raises = fun _ => none)
    (hre : env.reenter = fun _ => []) (hfmt : ∀ vs, env.ext "str%" vs = .ok (.str ""))
    (h : Store) (c : C15.Cfg) (R : RelProd cls h c.o) (sc p : Nat) (cs : List Call) (raw clo coop : Val)
    (hcls : cls p = "PullToPush") (hcoop : h.get "_cooperator" = some coop)
    (hcl : env.ext "closure" [.str "subchannel_unregisterProducer", encSc sc] = .ok clo)
    (hpp : env.ext "PullToPush" [raw, clo, coop] = .ok (.ref "PullToPush" p)) :
    ∃ (h' : Store) (evs : List C15.Ev),
      callM env tbl_Outbound (f + 2) "subchannel_registerProducer" [encSc sc, raw, .bool false] h cs =
        (h', cs ++ pullCalls cls evs, resOf evs) ∧
      RelProd cls h' (C15.opReg c sc p false).o ∧ (C15.opReg c sc p false).log = evs.reverse ++ c.log := by
  have R' := R
  have hpp' : env.ext "PullToPush" [raw, clo, coop] = .ok (.ref (cls p) p) := by rw [hpp, hcls]
  obtain ⟨hp, hall, ⟨vp, hvp, lp, rfl, hmp⟩, ⟨vu, hvu, lu, rfl, hmu⟩, hscp⟩ := R
  rw [scp_dict] at hscp
  cases hl : c.o.scp.lookup sc with
  | some q =>
    have hh : C15.scpHas sc c.o.scp = true := by rw [scpHas_eq, hl]; rfl
    refine ⟨h, [.exc .dupRegister], ?_, ?_, ?_⟩
    · rw [callM]
      dil2_nc [tbl_Outbound, m_Outbound_subchannel_registerProducer, hscp, dictGet_enc keyEnc_sc, dget_eq_lookup, hl, hfmt,
        encP]
      fin_evs
    · simpa [C15.opReg, hh, C15.Cfg.raiseOp, C15.Cfg.emit] using R'
    · simp [C15.opReg, hh, C15.Cfg.raiseOp, C15.Cfg.emit]
  | none =>
    have hh : C15.scpHas sc c.o.scp = false := by rw [scpHas_eq, hl]; rfl
    have R1 := rel_regState cls h c.o sc p false hp hall lp lu hmp hmu hvp hvu hl
    cases hps : c.o.paused with
    | true =>
      rw [hps] at hp
      simp only [hps, if_true] at R1
      have hci := fun cs' => checkInv_callM cls f env _ _ R1 cs'
      cases hck : C15.checkInv (C15.regState c.o sc p false) with
      | true =>
        have eo : C15.opReg c sc p false =
            { c with o := C15.regState c.o sc p false, log := .pause p :: .reg p :: c.log } := by
          simp [C15.opReg, hh, hck, hps]
        rw [eo]
        refine ⟨_, [.reg p, .pause p], ?_, R1, by simp⟩
        rw [callM]
        dil2_nc [tbl_Outbound, m_Outbound_subchannel_registerProducer, hscp, dictGet_enc keyEnc_sc, dget_eq_lookup, hl,
          encP, dictSet_P, hall, hp, hvp, hvu, memKeys_P, hci, hck, hra, hre, hcl, hpp', hcoop]
        fin_evs
      | false =>
        have eo : C15.opReg c sc p false =
            { c with o := C15.regState c.o sc p false, log := .exc .assertion :: .reg p :: c.log } := by
          simp [C15.opReg, hh, hck, hps, C15.Cfg.raiseOp, C15.Cfg.emit]
        rw [eo]
        refine ⟨_, [.reg p, .exc .assertion], ?_, R1, by simp⟩
        rw [callM]
        dil2_nc [tbl_Outbound, m_Outbound_subchannel_registerProducer, hscp, dictGet_enc keyEnc_sc, dget_eq_lookup, hl,
          encP, dictSet_P, hall, hp, hvp, hvu, memKeys_P, hci, hck, hra, hre, hcl, hpp', hcoop]
        fin_evs
    | false =>
      rw [hps] at hp
      simp only [hps, Bool.false_eq_true, if_false] at R1
      have hci := fun cs' => checkInv_callM cls f env _ _ R1 cs'
      cases hck : C15.checkInv (C15.regState c.o sc p false) with
      | true =>
        have eo : C15.opReg c sc p false =
            { c with o := C15.regState c.o sc p false, log := .reg p :: c.log } := by
          simp [C15.opReg, hh, hck, hps]
        rw [eo]
        refine ⟨_, [.reg p], ?_, R1, by simp⟩
        rw [callM]
        dil2_nc [tbl_Outbound, m_Outbound_subchannel_registerProducer, hscp, dictGet_enc keyEnc_sc, dget_eq_lookup, hl,
          encP, dictSet_P, hall, hp, hvp, hvu, memKeys_P, hci, hck, hra, hre, hcl, hpp', hcoop]
        fin_evs
      | false =>
        have eo : C15.opReg c sc p false =
            { c with o := C15.regState c.o sc p false, log := .exc .assertion :: .reg p :: c.log } := by
          simp [C15.opReg, hh, hck, hps, C15.Cfg.raiseOp, C15.Cfg.emit]
        rw [eo]
        refine ⟨_, [.reg p, .exc .assertion], ?_, R1, by simp⟩
        rw [callM]
        dil2_nc [tbl_Outbound, m_Outbound_subchannel_registerProducer, hscp, dictGet_enc keyEnc_sc, dget_eq_lookup, hl,
          encP, dictSet_P, hall, hp, hvp, hvu, memKeys_P, hci, hck, hra, hre, hcl, hpp', hcoop]
        fin_evs

/-- the environment of a registration: `"... %s ..." % (…)` formats anything, the nested `def unregister()` is a closure
    value, `PullToPush(producer, unregister, cooperator)` returns the new object number `a` -/
def envP (a : Nat) : Env :=
  { envD noRe with
    ext := fun f args =>
      match f, args with
      | "str%", _ => .ok (.str "")
      | "closure", [.str m, x] => .ok (.obj "closure" [.str m, x])
      | "PullToPush", [_, .obj "closure" _, _] => .ok (.ref "PullToPush" a)
      | f, args => (envD noRe).ext f args }

/-- a pull registration's run agrees with the model (`pullCalls`: `startStreaming(paused)` ⟷ `reg`/`pause`) -/
def AgreePull (cls : Nat → String) (o : Outcome) (c c' : C15.Cfg) : Prop :=
  ∃ evs : List C15.Ev, c'.log = evs.reverse ++ c.log ∧ RelProd cls o.heap c'.o ∧
    o.calls = pullCalls cls evs ∧ o.exc = excOf evs

theorem agreePull_of_callM {cls : Nat → String} {env : Env} {tbl : MethodTable} {fuel : Nat} {meth : String} {args : List Val}
    {h h' : Store} {c c' : C15.Cfg} {evs : List C15.Ev}
    (e : callM env tbl fuel meth args h [] = (h', [] ++ pullCalls cls evs, resOf evs))
    (R : RelProd cls h' c'.o) (hl : c'.log = evs.reverse ++ c.log) : AgreePull cls (exec fuel env tbl meth args h) c c' := by
  refine ⟨evs, hl, ?_⟩
  unfold exec
  rw [e]
  unfold resOf excOf
  cases evs.filterMap exnOf <;> simp [R]

/-! ## `_get_next_unpaused_producer` and the producer branch of `resumeProducing` -/

/-- what `_get_next_unpaused_producer()` does to the bookkeeping and returns, written after the model's `loopStep`
    (its part below `match c.o.unsent with | [] =>`) and `nextTurn` (its test) -/
def getNextRes (cls : Nat → String) (o : C15.Out) : C15.Out × Res Val :=
  if !C15.checkInv o then (o, .exc "AssertionError")
  else if o.pausedSet.isEmpty then (o, .ok .none)
  else match o.allp with
    | [] => (o, .exc "IndexError")
    | p :: rest =>
      ({ o with allp := rest ++ [p] }, if p ∈ o.pausedSet then .ok (encP cls p) else .exc "AssertionError")

theorem getNext_callM (cls : Nat → String) (f : Nat) (env : Env) (h : Store) (o : C15.Out) (R : RelProd cls h o)
    (cs : List Call) :
    ∃ h', callM env tbl_Outbound (f + 2) "_get_next_unpaused_producer" [] h cs = (h', cs, (getNextRes cls o).2) ∧
      RelProd cls h' (getNextRes cls o).1 ∧ (∀ a, a ≠ "_all_producers" → h'.get a = h.get a) := by
  have R' := R
  obtain ⟨hp, hall, ⟨vp, hvp, lp, rfl, hmp⟩, ⟨vu, hvu, lu, rfl, hmu⟩, hscp⟩ := R
  have hci := fun cs' => checkInv_callM cls f env h o R' cs'
  have hemp : lp.isEmpty = o.pausedSet.isEmpty := by
    have := SetRel.isEmpty (enc := encP cls) ⟨lp, rfl, hmp⟩
    simpa [truthy_set] using this
  unfold getNextRes
  cases hck : C15.checkInv o with
  | false =>
    refine ⟨h, ?_, by simpa using R', fun _ _ => rfl⟩
    rw [callM]
    dil2_nc [tbl_Outbound, m_Outbound__get_next_unpaused_producer, hci, hck]
  | true =>
    cases he : o.pausedSet.isEmpty with
    | true =>
      rw [he] at hemp
      refine ⟨h, ?_, by simpa using R', fun _ _ => rfl⟩
      rw [callM]
      dil2_nc [tbl_Outbound, m_Outbound__get_next_unpaused_producer, hci, hck, hvp, hemp]
    | false =>
      rw [he] at hemp
      cases hal : o.allp with
      | nil =>
        rw [hal] at hall
        refine ⟨h, ?_, by simpa [hal] using R', fun _ _ => rfl⟩
        rw [callM]
        dil2_nc [tbl_Outbound, m_Outbound__get_next_unpaused_producer, hci, hck, hvp, hemp, hall, whileLoop]
      | cons p rest =>
        rw [hal] at hall
        refine ⟨h.set "_all_producers" (.list ((rest ++ [p]).map (encP cls))), ?_, ?_, ?_⟩
        · rw [callM]
          by_cases hin : p ∈ o.pausedSet
          · have hin' : p ∈ lp := (hmp p).2 hin
            dil2_nc [tbl_Outbound, m_Outbound__get_next_unpaused_producer, hci, hck, hvp, hemp, hall, whileLoop, encP, memKeys_P,
              hin, hin']
          · have hin' : p ∉ lp := fun hx => hin ((hmp p).1 hx)
            dil2_nc [tbl_Outbound, m_Outbound__get_next_unpaused_producer, hci, hck, hvp, hemp, hall, whileLoop, encP, memKeys_P,
              hin, hin']
        · refine ⟨?_, ?_, ⟨_, ?_, ⟨lp, rfl, hmp⟩⟩, ⟨_, ?_, ⟨lu, rfl, hmu⟩⟩, ?_⟩ <;> simp [get_set, *]
        · intro a ha
          simp [get_set, Ne.symm ha]

end WV.Proofs.PyIRDil2
