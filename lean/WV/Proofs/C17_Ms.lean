import WV.Proofs.C17_Keep

/-!
C17 helper lemmas: how the Manager state can move — outputs never touch it, STOPPED is terminal,
STOPPING can only go to STOPPED (facts decided on the generated table, lifted to every building
block of the model).
-/
namespace WV.Proofs.C17
open WV WV.Gen WV.C17

/-! ## the two table facts -/

theorem stopped_terminal : ∀ i : Manager.Input, Manager.table .STOPPED i = none := by
  intro i; cases i <;> rfl

theorem stopping_only_stops : ∀ (i : Manager.Input) (s' : Manager.State) (outs : List Manager.Output),
    Manager.table .STOPPING i = some (s', outs) → s' = .STOPPING ∨ s' = .STOPPED := by
  intro i s' outs h
  cases i <;> simp [Manager.table] at h <;> simp [h.1.symm]

/-! ## outputs do not touch the Manager state -/

theorem ms_dcpSelect (c : Nat) (w : World) : (dcpSelect c w).1.ms = w.ms := by
  unfold dcpSelect
  split
  · rfl
  · split
    · rfl
    · dsimp only
      split
      · split <;> rfl
      · rfl

theorem ms_andThen {w : World} {r : Res} {f : World → Res} (h1 : r.1.ms = w.ms) (h2 : ∀ v, (f v).1.ms = v.ms) :
    (andThen r f).1.ms = w.ms := by
  obtain ⟨v, e⟩ := r
  cases e
  · exact (h2 v).trans h1
  · exact h1

theorem ms_cOut (g a : Nat) (o : Connector.Output) (w : World) : (cOut noMade g a o w).1.ms = w.ms := by
  cases o
  · rfl
  · rfl
  · simp only [cOut]
    refine ms_andThen ?_ (fun v => rfl)
    rw [ms_dcpSelect]
    rfl
  · rfl
  · rfl

theorem ms_cOuts (g a : Nat) (os : List Connector.Output) (w : World) : (cOuts noMade g a os w).1.ms = w.ms := by
  induction os generalizing w with
  | nil => rfl
  | cons o os ih => exact ms_andThen (ms_cOut g a o w) (fun v => ih v)

theorem ms_cInput (g : Nat) (i : Connector.Input) (a : Nat) (w : World) : (cInput noMade g i a w).1.ms = w.ms := by
  unfold cInput
  split
  · rfl
  · split
    · rfl
    · rw [ms_cOuts]

theorem ms_logged {w : World} {r : Res} (h : r.1.ms = w.ms) : (logged r).ms = w.ms := by
  obtain ⟨v, e⟩ := r
  cases e <;> exact h

theorem ms_connectorStart (g : Nat) (w : World) : (connectorStart g w).ms = w.ms := by
  unfold connectorStart
  split
  · rfl
  · dsimp only
    split
    · exact ms_logged (by rw [ms_cInput])
    · rfl

theorem ms_startConnecting (w : World) : (startConnecting w).1.ms = w.ms := by
  unfold startConnecting
  split
  · rfl
  · split
    · rfl
    · dsimp only; rw [ms_connectorStart]

theorem ms_mOut (s : String) (n : Nat) (o : Manager.Output) (w : World) : (mOut s n o w).1.ms = w.ms := by
  cases o <;> simp only [mOut]
  · refine ms_andThen ?_ ?_
    · obtain ⟨t, e⟩ := cancelTimer_same Flags.abandon_checks_active w
      rw [e]
    · intro v; split <;> rfl
  · split
    · rfl
    · split <;> rfl
  · unfold notifyStopped; split <;> rfl
  · rfl
  · rfl
  · rfl
  · exact ms_startConnecting w
  · exact ms_startConnecting w
  · unfold withConnector; split
    · rfl
    · exact ms_cInput _ _ _ _
  · unfold withConnector; split
    · rfl
    · exact ms_cInput _ _ _ _

theorem ms_mOuts (s : String) (n : Nat) (os : List Manager.Output) (w : World) : (mOuts s n os w).1.ms = w.ms := by
  induction os generalizing w with
  | nil => rfl
  | cons o os ih => exact ms_andThen (ms_mOut s n o w) (fun v => ih v)

/-! ## STOPPED is terminal, STOPPING only stops -/

structure MsOk (w w' : World) : Prop where
  stopped : w.ms = .STOPPED → w'.ms = .STOPPED
  stopping : w.ms = .STOPPING → w'.ms = .STOPPING ∨ w'.ms = .STOPPED

theorem MsOk.of_eq {w w' : World} (h : w'.ms = w.ms) : MsOk w w' :=
  ⟨fun a => h.trans a, fun a => Or.inl (h.trans a)⟩

theorem MsOk.refl (w : World) : MsOk w w := MsOk.of_eq rfl

theorem MsOk.trans {a b c : World} (h1 : MsOk a b) (h2 : MsOk b c) : MsOk a c := by
  refine ⟨fun h => h2.stopped (h1.stopped h), fun h => ?_⟩
  rcases h1.stopping h with h | h
  · exact h2.stopping h
  · exact Or.inr (h2.stopped h)

theorem msok_andThen {w : World} {r : Res} {f : World → Res} (h1 : MsOk w r.1) (h2 : ∀ v, MsOk v (f v).1) :
    MsOk w (andThen r f).1 := by
  obtain ⟨v, e⟩ := r
  cases e
  · exact h1.trans (h2 v)
  · exact h1

theorem msok_mInput (i : Manager.Input) (s : String) (n : Nat) (w : World) : MsOk w (mInput i s n w).1 := by
  unfold mInput
  split
  · exact MsOk.refl _
  · rename_i s' outs htab
    refine ⟨?_, ?_⟩
    · intro h
      rw [h, stopped_terminal] at htab
      simp at htab
    · intro h
      rw [h] at htab
      rw [ms_mOuts]
      exact stopping_only_stops _ _ _ htab

theorem msok_connectionMade (c : Nat) (w : World) : MsOk w (connectionMade c w).1 := by
  unfold connectionMade
  refine msok_andThen (MsOk.of_eq ?_) ?_
  · obtain ⟨t, tt, e⟩ := startPingTimer_same w
    rw [e]
  intro u
  refine msok_andThen (msok_mInput _ _ _ _) ?_
  · intro v
    unfold useConnection
    refine msok_andThen (MsOk.of_eq ?_) ?_
    · obtain ⟨op, ps, e⟩ := resumeAll_same { v with conn := some c }
      rw [e]
    · intro x
      split
      · exact MsOk.refl _
      · unfold mainFire; split <;> exact MsOk.of_eq rfl

theorem msok_connectionLost (w : World) : MsOk w (connectionLost w).1 := by
  unfold connectionLost
  dsimp only
  refine msok_andThen (MsOk.of_eq ?_) ?_
  · obtain ⟨t, e⟩ := cancelTimer_same Flags.stop_using_checks_active
      { w with tt := w.tt.map fun _ => TrafficTimer.State.no_connection }
    rw [e]
  intro v
  split
  · exact MsOk.of_eq rfl
  · refine msok_andThen (MsOk.of_eq ?_) ?_
    · obtain ⟨op, ps, e⟩ := pauseAll_same { v with conn := none }
      rw [e]
    · intro x
      split
      · exact msok_mInput _ _ _ _
      · exact msok_mInput _ _ _ _

theorem msok_cOut (made : Nat → World → Res) (hm : ∀ c v, MsOk v (made c v).1) (g a : Nat) (o : Connector.Output)
    (w : World) : MsOk w (cOut made g a o w).1 := by
  cases o
  · exact MsOk.of_eq rfl
  · exact MsOk.of_eq rfl
  · simp only [cOut]
    refine msok_andThen (MsOk.of_eq ?_) (hm a)
    rw [ms_dcpSelect]; rfl
  · exact MsOk.of_eq rfl
  · exact MsOk.of_eq rfl

theorem msok_cOuts (made : Nat → World → Res) (hm : ∀ c v, MsOk v (made c v).1) (g a : Nat)
    (os : List Connector.Output) (w : World) : MsOk w (cOuts made g a os w).1 := by
  induction os generalizing w with
  | nil => exact MsOk.refl _
  | cons o os ih => exact msok_andThen (msok_cOut made hm g a o w) (fun v => ih v)

theorem msok_cInput (made : Nat → World → Res) (hm : ∀ c v, MsOk v (made c v).1) (g : Nat) (i : Connector.Input)
    (a : Nat) (w : World) : MsOk w (cInput made g i a w).1 := by
  unfold cInput
  split
  · exact MsOk.refl _
  · split
    · exact MsOk.refl _
    · refine MsOk.trans ?_ (msok_cOuts made hm g a _ _)
      exact MsOk.of_eq rfl

theorem msok_logged {w : World} {r : Res} (h : MsOk w r.1) : MsOk w (logged r) := by
  obtain ⟨v, e⟩ := r
  cases e
  · exact h
  · exact h.trans (MsOk.of_eq rfl)

theorem msok_tOuts (k : Terminator.Output → World → Res) (hk : ∀ o v, MsOk v (k o v).1)
    (os : List Terminator.Output) (v : World) : MsOk v (tOuts k os v).1 := by
  induction os generalizing v with
  | nil => exact MsOk.refl _
  | cons o os ih => exact msok_andThen (hk o v) (fun u => ih u)

theorem msok_tInput (fuel : Nat) : ∀ (i : Terminator.Input) (v : World), MsOk v (tInput fuel i v).1 := by
  induction fuel with
  | zero => intro i v; exact MsOk.refl _
  | succ f ih =>
    intro i v
    simp only [tInput]
    split
    · exact MsOk.refl _
    · refine MsOk.trans ?_ (msok_tOuts _ ?hk _ _)
      case hk =>
        intro o u
        cases o
        · exact MsOk.of_eq rfl
        · exact MsOk.of_eq rfl
        · exact MsOk.of_eq rfl
        · exact MsOk.of_eq rfl
        · exact MsOk.of_eq rfl
        · show MsOk u (if (stopCoop u).hasMgr = true then andThen (mInput .k_stop "" 0 (stopCoop u)) (fun w1 => (whenStopped w1, none))
                  else tInput f .stoppedD (stopCoop u)).1
          obtain ⟨b, e⟩ := stopCoop_same u
          rw [e]
          refine MsOk.trans (b := { u with coopStopped := b }) (MsOk.of_eq rfl) ?_
          split
          · refine msok_andThen (msok_mInput _ _ _ _) ?_
            intro x
            unfold whenStopped
            split <;> exact MsOk.of_eq rfl
          · exact ih _ _
      exact MsOk.of_eq rfl

theorem msok_runThunk (t : Thunk) (v : World) : MsOk v (runThunk t v) := by
  cases t with
  | accept g c => exact msok_logged (msok_cInput connectionMade msok_connectionMade g .accept c v)
  | discard c => exact MsOk.of_eq rfl
  | mgrLost => exact msok_connectionLost v
  | stoppedD => exact msok_tInput _ _ _
  | waiter id ok =>
    obtain ⟨ws, rg, e⟩ := resolveWaiter_same id ok v
    show MsOk v (resolveWaiter id ok v)
    rw [e]; exact MsOk.of_eq rfl

theorem msok_runThunks (l : List Thunk) (v : World) : MsOk v (runThunks l v) := by
  induction l generalizing v with
  | nil => exact MsOk.refl _
  | cons t rest ih => exact (msok_runThunk t v).trans (ih _)

end WV.Proofs.C17
