import WV.Proofs.C13

/-! C13: exact effect of connecting pending OPENs (any number, each with its own queued DATA and
    optional queued CLOSE), and the structural invariant behind `open_exactly_once`. -/
namespace WV.C13
open WV WV.Gen

/-- fields no SubChannel operation touches -/
structure Same (s s' : Side) : Prop where
  leader : s'.leader = s.leader
  expected : s'.expected = s.expected
  nextScid : s'.nextScid = s.nextScid
  highestAcked : s'.highestAcked = s.highestAcked
  factories : s'.factories = s.factories
  pendingOpens : s'.pendingOpens = s.pendingOpens
  parked : s'.parked = s.parked

theorem Same.rfl' {s : Side} : Same s s := ⟨rfl, rfl, rfl, rfl, rfl, rfl, rfl⟩
theorem Same.trans {a b c : Side} (h1 : Same a b) (h2 : Same b c) : Same a c :=
  ⟨h2.1.trans h1.1, h2.2.trans h1.2, h2.3.trans h1.3, h2.4.trans h1.4, h2.5.trans h1.5, h2.6.trans h1.6, h2.7.trans h1.7⟩

/-- what `remote_close` on a just-connected SubChannel tells the protocol / the peer -/
def closeEffs (k : PKind) (pid seq scid : Nat) : List Eff :=
  match k with
  | .full => [.txClose seq scid, .lost pid]
  | .half => [.readLost pid]

/-- everything connecting one pending OPEN does, in order: buildProtocol, connectionMade, *its own*
    queued DATA in arrival order, then (if a CLOSE was queued) the close -/
def pendEffs (k : PKind) (pid seq : Nat) (c : SC) (ds : List Bytes) (b : Bool) : List Eff :=
  [.build pid c.name, .made pid] ++ ds.map (fun d => Eff.data pid d) ++ (if b then closeEffs k pid seq c.scid else [])

theorem feedData_open' (uid p : Nat) (k' : PKind) : ∀ (ds : List Bytes) (s : Side) (c : SC),
    s.subs[uid]? = some c → (c.st = .open_full ∨ c.st = .open_half) → c.proto = some (p, k') →
    ∃ (s' : Side) (c' : SC), feedData uid ds s = (s', none) ∧ s'.log = s.log ++ ds.map (fun d => Eff.data p d) ∧
      s'.subs[uid]? = some c' ∧ c'.st = c.st ∧ c'.proto = c.proto ∧ c'.pendingData = c.pendingData ∧
      c'.pendingClose = c.pendingClose ∧ c'.scid = c.scid ∧ c'.name = c.name ∧
      s'.protoCount = s.protoCount ∧ s'.open_ = s.open_ ∧ s'.nextSeq = s.nextSeq ∧ Same s s' ∧
      (∀ u : Nat, u ≠ uid → s'.subs[u]? = s.subs[u]?)
  | [], s, c, hs, _, _ => ⟨s, c, rfl, by simp, hs, rfl, rfl, rfl, rfl, rfl, rfl, rfl, rfl, rfl, Same.rfl', fun _ _ => rfl⟩
  | d :: r, s, c, hs, hst, hp => by
    have ht : SubChannel.table c.st .remote_data = some (c.st, [.signal_dataReceived]) := by
      rcases hst with h | h <;> rw [h] <;> rfl
    have hc1 : (updSC uid (fun c0 => { c0 with st := c.st }) s).subs[uid]? = some { c with st := c.st } := by
      simp [updSC, getElem?_modifyAt, hs]
    have hstep : scInput uid .remote_data d s =
        (emit (.data p d) (updSC uid (fun c0 => { c0 with st := c.st }) s), none) := by
      rw [scInput_eq_row d hs ht]
      simp only [runOuts]
      have : runOut uid d .signal_dataReceived (updSC uid (fun c0 => { c0 with st := c.st }) s) =
          (emit (.data p d) (updSC uid (fun c0 => { c0 with st := c.st }) s), none) := by
        unfold runOut; rw [hc1]; simp only [hp]
      rw [this]; rfl
    have hc2 : (emit (.data p d) (updSC uid (fun c0 => { c0 with st := c.st }) s)).subs[uid]? = some { c with st := c.st } := hc1
    obtain ⟨s', c', h1, h2, h3, h4, h5, h6, h7, h8, h9, h10, h11, h12, h13, h14⟩ :=
      feedData_open' uid p k' r _ _ hc2 hst hp
    refine ⟨s', c', ?_, ?_, h3, h4, h5, h6, h7, h8, h9, h10, h11, h12, ?_, ?_⟩
    · unfold feedData; rw [hstep, andThen_none]; exact h1
    · rw [h2]; simp [emit, updSC]
    · exact ⟨h13.1, h13.2, h13.3, h13.4, h13.5, h13.6, h13.7⟩
    · intro u hu; rw [h14 u hu]; simp [emit, updSC, getElem?_modifyAt, hu]

structure ConnRes (s s' : Side) (uid : Nat) (c : SC) (k : PKind) (ds : List Bytes) (b : Bool) : Prop where
  log : s'.log = s.log ++ pendEffs k s.protoCount s.nextSeq c ds b
  pc : s'.protoCount = s.protoCount + 1
  seq : s'.nextSeq = s.nextSeq + (if b && k == .full then 1 else 0)
  same : Same s s'
  others : ∀ u : Nat, u ≠ uid → s'.subs[u]? = s.subs[u]?
  open_ : s'.open_ = if b && k == .full then eraseKey c.scid s.open_ else s.open_
  self : ∃ c' : SC, s'.subs[uid]? = some c' ∧ c'.proto = some (s.protoCount, k) ∧ c'.scid = c.scid ∧
    c'.name = c.name ∧ c'.st ≠ .unconnected ∧ (c'.st = .closed ↔ (b = true ∧ k = .full))
  st : ∀ c' : SC, s'.subs[uid]? = some c' →
    c'.st = (if b then (if k = .half then .read_closed else .closed) else (if k = .half then .open_half else .open_full))

/-- the state right after buildProtocol, _set_protocol, makeConnection and the queued DATA,
    with `_pending_remote_data` deleted -/
theorem connect_prefix (s : Side) (uid : Nat) (c : SC) (k : PKind) (ds : List Bytes)
    (hc : s.subs[uid]? = some c) (hst : c.st = .unconnected) (hp : c.proto = none)
    (hd : c.pendingData = some ds) :
    ∃ (s5 : Side) (c5 : SC),
      connectSC k uid s =
        (if c5.pendingClose then
            andThen (scInput uid .remote_close [] s5) fun s3 =>
              (updSC uid (fun c => { c with pendingClose := false }) s3, none)
          else (s5, none)) ∧
      s5.subs[uid]? = some c5 ∧ c5.st = (if k = .half then .open_half else .open_full) ∧
      c5.proto = some (s.protoCount, k) ∧ c5.scid = c.scid ∧ c5.name = c.name ∧ c5.pendingClose = c.pendingClose ∧
      s5.log = s.log ++ [.build s.protoCount c.name, .made s.protoCount] ++ ds.map (fun d => Eff.data s.protoCount d) ∧
      s5.protoCount = s.protoCount + 1 ∧ s5.nextSeq = s.nextSeq ∧ s5.open_ = s.open_ ∧ Same s s5 ∧
      (∀ u : Nat, u ≠ uid → s5.subs[u]? = s.subs[u]?) := by
  let st' : SubChannel.State := if k = .half then .open_half else .open_full
  let i : SubChannel.Input := if k = .half then .connect_protocol_half else .connect_protocol_full
  have ht : SubChannel.table .unconnected i = some (st', []) := by
    cases k <;> rfl
  have hst' : st' = .open_full ∨ st' = .open_half := by
    cases k
    · exact Or.inl rfl
    · exact Or.inr rfl
  let s1 := updSC uid (fun c0 => { c0 with proto := some (s.protoCount, k) }) (buildProtocol c.name s)
  have hc1 : s1.subs[uid]? = some { c with proto := some (s.protoCount, k) } := by
    simp [s1, updSC, buildProtocol, emit, getElem?_modifyAt, hc]
  have hset : setProtocol uid s.protoCount k (buildProtocol c.name s) =
      (updSC uid (fun c0 => { c0 with st := st' }) s1, none) := by
    unfold setProtocol
    have : (buildProtocol c.name s).subs[uid]? = some c := hc
    rw [this]
    simp only [hp, Option.isSome, Bool.false_eq_true, if_false]
    rw [scInput_eq_row [] hc1 (by simpa [hst] using ht)]
    rfl
  let s3 := emit (.made s.protoCount) (updSC uid (fun c0 => { c0 with st := st' }) s1)
  have hc3 : s3.subs[uid]? = some { c with proto := some (s.protoCount, k), st := st' } := by
    simp [s3, emit, updSC, getElem?_modifyAt, hc1]
  have hoth3 : ∀ u : Nat, u ≠ uid → s3.subs[u]? = s.subs[u]? := by
    intro u hu; simp [s3, s1, emit, updSC, buildProtocol, getElem?_modifyAt, hu]
  obtain ⟨s4, c4, f1, f2, f3, f4, f5, f6, f7, f8, f9, f10, f11, f12, f13, f14⟩ :=
    feedData_open' uid s.protoCount k ds s3 _ hc3 hst' rfl
  have hc5 : (updSC uid (fun c0 => { c0 with pendingData := none }) s4).subs[uid]? = some { c4 with pendingData := none } := by
    simp [updSC, getElem?_modifyAt, f3]
  refine ⟨updSC uid (fun c0 => { c0 with pendingData := none }) s4, { c4 with pendingData := none }, ?_, hc5, f4, f5, f8, f9, f7,
    ?_, ?_, ?_, ?_, ?_, ?_⟩
  · unfold connectSC
    rw [hc]
    simp only [hset, andThen_none]
    show deliverQueued uid s3 = _
    unfold deliverQueued
    rw [hc3]
    simp only [hd, f1, andThen_none]
    rw [hc5]
  · show s4.log = _
    rw [f2]; simp [s3, s1, emit, updSC, buildProtocol]
  · show s4.protoCount = _
    rw [f10]; rfl
  · show s4.nextSeq = _
    rw [f12]; rfl
  · show s4.open_ = _
    rw [f11]; rfl
  · exact ⟨f13.1, f13.2, f13.3, f13.4, f13.5, f13.6, f13.7⟩
  · intro u hu
    show (updSC uid (fun c0 => { c0 with pendingData := none }) s4).subs[u]? = _
    simp only [updSC, getElem?_modifyAt, hu, if_false]
    rw [f14 u hu, hoth3 u hu]

theorem connectSC_spec (s : Side) (uid : Nat) (c : SC) (k : PKind) (ds : List Bytes) (b : Bool)
    (hc : s.subs[uid]? = some c) (hst : c.st = .unconnected) (hp : c.proto = none)
    (hd : c.pendingData = some ds) (hcl : c.pendingClose = b)
    (hopen : b = true → k = .full → lookup c.scid s.open_ = some uid) :
    ∃ s' : Side, connectSC k uid s = (s', none) ∧ ConnRes s s' uid c k ds b := by
  obtain ⟨s5, c5, heq, h5, hst5, hp5, hscid5, hname5, hpc5, hlog5, hcount5, hseq5, hopen5, hsame5, hoth5⟩ :=
    connect_prefix s uid c k ds hc hst hp hd
  rw [hcl] at hpc5
  cases b with
  | false =>
    rw [hpc5] at heq
    simp only [Bool.false_eq_true, if_false] at heq
    refine ⟨s5, heq, ?_, hcount5, by simpa using hseq5, hsame5, hoth5, by simpa using hopen5, ?_, ?_⟩
    · rw [hlog5]; simp [pendEffs]
    · refine ⟨c5, h5, hp5, hscid5, hname5, ?_, ?_⟩
      · rw [hst5]; cases k <;> simp
      · rw [hst5]; cases k <;> simp
    · intro c' hc'
      rw [h5] at hc'; cases hc'
      simpa using hst5
  | true =>
    rw [hpc5] at heq
    simp only [if_true] at heq
    cases k with
    | half =>
      have ht : SubChannel.table c5.st .remote_close = some (.read_closed, [.signal_readConnectionLost]) := by
        rw [hst5]; rfl
      have hc6 : (updSC uid (fun c0 => { c0 with st := .read_closed }) s5).subs[uid]? = some { c5 with st := .read_closed } := by
        simp [updSC, getElem?_modifyAt, h5]
      have hin : scInput uid .remote_close [] s5 =
          (emit (.readLost s.protoCount) (updSC uid (fun c0 => { c0 with st := .read_closed }) s5), none) := by
        rw [scInput_eq_row [] h5 ht]
        simp only [runOuts]
        have : runOut uid [] .signal_readConnectionLost (updSC uid (fun c0 => { c0 with st := .read_closed }) s5) =
            (emit (.readLost s.protoCount) (updSC uid (fun c0 => { c0 with st := .read_closed }) s5), none) := by
          unfold runOut; rw [hc6]; simp only [hp5]
        rw [this]; rfl
      rw [hin, andThen_none] at heq
      refine ⟨_, heq, ?_, ?_, ?_, ?_, ?_, ?_, ?_, ?_⟩
      rotate_right
      · intro c' hc'
        simp [emit, updSC, getElem?_modifyAt, h5] at hc'
        subst hc'; rfl
      · simp [emit, updSC, hlog5, pendEffs, closeEffs]
      · simp [emit, updSC, hcount5]
      · simp [emit, updSC, hseq5]
      · exact ⟨hsame5.1, hsame5.2, hsame5.3, hsame5.4, hsame5.5, hsame5.6, hsame5.7⟩
      · intro u hu; simp [emit, updSC, getElem?_modifyAt, hu]; exact hoth5 u hu
      · simp [emit, updSC, hopen5]
      · refine ⟨{ c5 with st := .read_closed, pendingClose := false }, ?_, hp5, hscid5, hname5, by simp, by simp⟩
        simp [emit, updSC, getElem?_modifyAt, h5]
    | full =>
      have hlk : lookup c.scid s.open_ = some uid := hopen rfl rfl
      have ht : SubChannel.table c5.st .remote_close =
          some (.closed, [.send_close, .close_subchannel, .signal_connectionLost]) := by
        rw [hst5]; rfl
      let s6 := updSC uid (fun c0 => { c0 with st := .closed }) s5
      have hc6 : s6.subs[uid]? = some { c5 with st := .closed } := by
        simp [s6, updSC, getElem?_modifyAt, h5]
      let s7 := sendRec (fun q => Eff.txClose q c5.scid) s6
      have h7 : runOut uid [] .send_close s6 = (s7, none) := by
        unfold runOut; rw [hc6]
      have hc7 : s7.subs[uid]? = some { c5 with st := .closed } := hc6
      have hopen7 : s7.open_ = s.open_ := hopen5
      let s8 : Side := { s7 with open_ := eraseKey c5.scid s7.open_ }
      have h8 : runOut uid [] .close_subchannel s7 = (s8, none) := by
        have hlk7 : lookup c5.scid s7.open_ = some uid := by rw [hopen7, hscid5]; exact hlk
        unfold runOut; rw [hc7]
        simp only [hlk7, if_true]
        rfl
      have hc8 : s8.subs[uid]? = some { c5 with st := .closed } := hc6
      have h9 : runOut uid [] .signal_connectionLost s8 = (emit (.lost s.protoCount) s8, none) := by
        unfold runOut; rw [hc8]; simp only [hp5]
      have hin : scInput uid .remote_close [] s5 = (emit (.lost s.protoCount) s8, none) := by
        rw [scInput_eq_row [] h5 ht]
        simp only [runOuts]
        rw [show updSC uid (fun c0 => { c0 with st := SubChannel.State.closed }) s5 = s6 from rfl, h7, andThen_none, h8,
          andThen_none, h9]
        rfl
      rw [hin, andThen_none] at heq
      refine ⟨_, heq, ?_, ?_, ?_, ?_, ?_, ?_, ?_, ?_⟩
      rotate_right
      · intro c' hc'
        simp [emit, updSC, s8, s7, s6, sendRec, getElem?_modifyAt, h5] at hc'
        subst hc'; rfl
      · simp [emit, updSC, s8, s7, s6, sendRec, hlog5, pendEffs, closeEffs, hseq5, hscid5]
      · simp [emit, updSC, s8, s7, s6, sendRec, hcount5]
      · simp [emit, updSC, s8, s7, s6, sendRec, hseq5]
      · exact ⟨hsame5.1, hsame5.2, hsame5.3, hsame5.4, hsame5.5, hsame5.6, hsame5.7⟩
      · intro u hu
        simp [emit, updSC, s8, s7, s6, sendRec, getElem?_modifyAt, hu]; exact hoth5 u hu
      · simp [emit, updSC, s8, s7, s6, sendRec, hopen5, hscid5]
      · refine ⟨{ c5 with st := .closed, pendingClose := false }, ?_, hp5, hscid5, hname5, by simp, by simp⟩
        simp [emit, updSC, s8, s7, s6, sendRec, getElem?_modifyAt, h5]

theorem lookup_eraseKey_ne {α β : Type} [DecidableEq α] (k k' : α) (hne : k' ≠ k) :
    ∀ (l : List (α × β)), lookup k' (eraseKey k l) = lookup k' l
  | [] => rfl
  | (k0, v0) :: r => by
    by_cases h : k0 = k
    · subst h
      have : ¬ k0 = k' := fun h => hne h.symm
      simp [eraseKey, lookup, this]
    · by_cases h2 : k0 = k'
      · subst h2; simp [eraseKey, lookup, h]
      · simp [eraseKey, lookup, h, h2, lookup_eraseKey_ne k k' hne r]

theorem eraseKey_sublist {α β : Type} [DecidableEq α] (k : α) : ∀ (l : List (α × β)), (eraseKey k l).Sublist l
  | [] => List.Sublist.slnil
  | (k0, v0) :: r => by
    by_cases h : k0 = k
    · simp [eraseKey, h]
    · simp [eraseKey, h, eraseKey_sublist k r]

/-- a pending OPEN as `listen` finds it: uid, the SubChannel object, the DATA queued on it, and
    whether a CLOSE is queued -/
abbrev Pend := Nat × SC × List Bytes × Bool

def PendOK (s : Side) (p : Pend) : Prop :=
  s.subs[p.1]? = some p.2.1 ∧ p.2.1.st = .unconnected ∧ p.2.1.proto = none ∧ p.2.1.pendingData = some p.2.2.1 ∧
  p.2.1.pendingClose = p.2.2.2 ∧ lookup p.2.1.scid s.open_ = some p.1

/-- what `listen` does for a queue of pending OPENs: one after the other in arrival order, each
    with its own protocol number, its own data, its own close -/
def listenEffs (k : PKind) : Nat → Nat → List Pend → List Eff
  | _, _, [] => []
  | pid, seq, (_, c, ds, b) :: r =>
    pendEffs k pid seq c ds b ++ listenEffs k (pid + 1) (seq + (if b && k == .full then 1 else 0)) r

theorem connectAll_spec (k : PKind) : ∀ (ps : List Pend) (s : Side),
    (ps.map (·.1)).Nodup → (∀ p ∈ ps, PendOK s p) →
    ∃ s' : Side, connectAll k (ps.map (·.1)) s = (s', none) ∧
      s'.log = s.log ++ listenEffs k s.protoCount s.nextSeq ps ∧
      s'.protoCount = s.protoCount + ps.length ∧ Same s s' ∧ s'.open_.Sublist s.open_ ∧
      (∀ u : Nat, u ∉ ps.map (·.1) → s'.subs[u]? = s.subs[u]?) ∧
      (∀ scid : Nat, (∀ p ∈ ps, p.2.1.scid ≠ scid) → lookup scid s'.open_ = lookup scid s.open_) ∧
      (∀ p ∈ ps, ∃ c' : SC, s'.subs[p.1]? = some c' ∧ c'.scid = p.2.1.scid ∧ c'.name = p.2.1.name ∧
        c'.st ≠ .unconnected ∧ ∃ q, c'.proto = some (q, k) ∧ s.protoCount ≤ q ∧ q < s.protoCount + ps.length)
  | [], s, _, _ => ⟨s, rfl, by simp [listenEffs], rfl, Same.rfl', List.Sublist.refl _, fun _ _ => rfl, fun _ _ => rfl,
      fun _ h => by simp at h⟩
  | (uid, c, ds, b) :: ps, s, hnd, hok => by
    have hnd' : uid ∉ ps.map (·.1) ∧ (ps.map (·.1)).Nodup := by simpa using hnd
    obtain ⟨h1, h2, h3, h4, h5, h6⟩ := hok (uid, c, ds, b) (by simp)
    simp only [] at h1 h2 h3 h4 h5 h6
    obtain ⟨s1, hs1, r⟩ := connectSC_spec s uid c k ds b h1 h2 h3 h4 h5 (fun _ _ => h6)
    have hok1 : ∀ p ∈ ps, PendOK s1 p := by
      intro p hp
      obtain ⟨g1, g2, g3, g4, g5, g6⟩ := hok p (by simp [hp])
      have hne : p.1 ≠ uid := by
        intro h
        exact hnd'.1 (by rw [← h]; exact List.mem_map_of_mem hp)
      refine ⟨by rw [r.others p.1 hne]; exact g1, g2, g3, g4, g5, ?_⟩
      rw [r.open_]
      split
      · have hsc : p.2.1.scid ≠ c.scid := by
          intro h; rw [h, h6] at g6; exact hne (Option.some.inj g6).symm
        rw [lookup_eraseKey_ne _ _ hsc]; exact g6
      · exact g6
    obtain ⟨s', hs', hlog, hpc, hsame, hsub, hoth, hlk, hself⟩ := connectAll_spec k ps s1 hnd'.2 hok1
    refine ⟨s', ?_, ?_, ?_, r.same.trans hsame, ?_, ?_, ?_, ?_⟩
    · simp only [List.map_cons, connectAll, hs1, andThen_none]; exact hs'
    · rw [hlog, r.log, r.pc, r.seq]; simp [listenEffs]
    · rw [hpc, r.pc]; simp; omega
    · refine hsub.trans ?_
      rw [r.open_]
      split
      · exact eraseKey_sublist _ _
      · exact List.Sublist.refl _
    · intro u hu
      have hu' : u ≠ uid ∧ u ∉ ps.map (·.1) := by simpa using hu
      rw [hoth u hu'.2, r.others u hu'.1]
    · intro scid hsc
      rw [hlk scid (fun p hp => hsc p (by simp [hp])), r.open_]
      split
      · exact lookup_eraseKey_ne _ _ (fun h => hsc (uid, c, ds, b) (by simp) h.symm) _
      · rfl
    · intro p hp
      rcases List.mem_cons.mp hp with rfl | hp
      · obtain ⟨c1, hc1, hp1, hsc1, hn1, hst1, _⟩ := r.self
        have hkeep : s'.subs[uid]? = s1.subs[uid]? := hoth uid hnd'.1
        exact ⟨c1, by simpa [hkeep] using hc1, hsc1, hn1, hst1, s.protoCount, hp1, Nat.le_refl _, by simp⟩
      · obtain ⟨c', g1, g2, g3, g4, q, g5, g6, g7⟩ := hself p hp
        exact ⟨c', g1, g2, g3, g4, q, g5, by rw [r.pc] at g6; omega, by rw [r.pc] at g7; simp; omega⟩

/-- the payloads handed to `dataReceived` of protocol `pid`, in order -/
def dataOf (pid : Nat) : List Eff → List Bytes
  | [] => []
  | .data q d :: r => if q = pid then d :: dataOf pid r else dataOf pid r
  | _ :: r => dataOf pid r

theorem dataOf_append (pid : Nat) (a b : List Eff) : dataOf pid (a ++ b) = dataOf pid a ++ dataOf pid b := by
  induction a with
  | nil => rfl
  | cons e r ih =>
    cases e <;> simp [dataOf, ih]
    split <;> simp

theorem dataOf_map_data (pid q : Nat) (ds : List Bytes) :
    dataOf pid (ds.map (fun d => Eff.data q d)) = if q = pid then ds else [] := by
  induction ds with
  | nil => simp [dataOf]
  | cons d r ih =>
    by_cases h : q = pid
    · simp [dataOf, h] at ih ⊢; exact ih
    · simp [dataOf, h] at ih ⊢; exact ih

theorem dataOf_pendEffs (pid q seq : Nat) (k : PKind) (c : SC) (ds : List Bytes) (b : Bool) :
    dataOf pid (pendEffs k q seq c ds b) = if q = pid then ds else [] := by
  unfold pendEffs
  rw [dataOf_append, dataOf_append, dataOf_map_data]
  have h1 : dataOf pid [Eff.build q c.name, Eff.made q] = [] := rfl
  have h2 : dataOf pid (if b = true then closeEffs k q seq c.scid else []) = [] := by
    cases b <;> cases k <;> rfl
  rw [h1, h2]; simp

theorem dataOf_listenEffs (k : PKind) : ∀ (ps : List Pend) (pc seq i : Nat) (p : Pend),
    ps[i]? = some p → dataOf (pc + i) (listenEffs k pc seq ps) = p.2.2.1
  | [], _, _, _, _, h => by simp at h
  | (u, c, ds, b) :: r, pc, seq, i, p, h => by
    simp only [listenEffs, dataOf_append, dataOf_pendEffs]
    cases i with
    | zero =>
      simp at h; subst h
      simp only [Nat.add_zero, if_true]
      -- later protocols have larger numbers
      have : ∀ (ps : List Pend) (pc' seq' : Nat), pc < pc' → dataOf pc (listenEffs k pc' seq' ps) = [] := by
        intro ps
        induction ps with
        | nil => intros; rfl
        | cons x xs ih =>
          intro pc' seq' hlt
          obtain ⟨u', c', ds', b'⟩ := x
          simp only [listenEffs, dataOf_append, dataOf_pendEffs]
          rw [ih (pc' + 1) _ (by omega)]
          have : ¬ pc' = pc := by omega
          simp [this]
      rw [this r (pc + 1) _ (by omega)]; simp
    | succ j =>
      have h' : r[j]? = some p := by simpa using h
      have := dataOf_listenEffs k r (pc + 1) (seq + (if b && k == .full then 1 else 0)) j p h'
      have hne : ¬ pc = pc + (j + 1) := by omega
      rw [show pc + (j + 1) = pc + 1 + j by omega] at hne ⊢
      simp only [hne, if_false, List.nil_append]
      exact this

/-! ## structural invariant: every SubChannel without a protocol is pending or was refused;
    every protocol was built exactly once, for exactly one SubChannel -/

def isBuild (p : Nat) : Eff → Bool
  | .build q _ => q == p
  | _ => false

/-- number of `buildProtocol` calls that produced protocol `p` -/
def buildCount (p : Nat) (l : List Eff) : Nat := (l.filter (isBuild p)).length

theorem buildCount_append (p : Nat) (a b : List Eff) : buildCount p (a ++ b) = buildCount p a + buildCount p b := by
  simp [buildCount]

theorem lookup_mem_keys {α β : Type} [DecidableEq α] (k : α) (v : β) :
    ∀ (l : List (α × β)), lookup k l = some v → k ∈ l.map Prod.fst
  | [], h => by simp [lookup] at h
  | (k0, v0) :: r, h => by
    by_cases hk : k0 = k
    · simp [hk]
    · simp [lookup, hk] at h
      simp [lookup_mem_keys k v r h]

theorem lookup_of_sublist {α β : Type} [DecidableEq α] (k : α) (v : β) :
    ∀ (l' l : List (α × β)), l'.Sublist l → (l.map Prod.fst).Nodup → lookup k l' = some v → lookup k l = some v
  | _, _, .slnil, _, h => h
  | l', (k0, v0) :: r, .cons _ hs, hnd, h => by
    have hnd' : k0 ∉ r.map Prod.fst ∧ (r.map Prod.fst).Nodup := by simpa using hnd
    have ih := lookup_of_sublist k v l' r hs hnd'.2 h
    by_cases hk : k0 = k
    · subst hk; exact absurd (lookup_mem_keys _ _ _ ih) hnd'.1
    · simp [lookup, hk, ih]
  | (_ :: l'), (k0, v0) :: r, .cons₂ _ hs, hnd, h => by
    have hnd' : k0 ∉ r.map Prod.fst ∧ (r.map Prod.fst).Nodup := by simpa using hnd
    by_cases hk : k0 = k
    · simpa [lookup, hk] using h
    · simp [lookup, hk] at h ⊢
      exact lookup_of_sublist k v l' r hs hnd'.2 h

theorem keys_nodup_of_sublist {α β : Type} {l' l : List (α × β)} (hs : l'.Sublist l)
    (h : (l.map Prod.fst).Nodup) : (l'.map Prod.fst).Nodup :=
  (hs.map Prod.fst).nodup h

theorem lookup_eraseKey_self {α β : Type} [DecidableEq α] (k : α) :
    ∀ (l : List (α × β)), (l.map Prod.fst).Nodup → lookup k (eraseKey k l) = none
  | [], _ => rfl
  | (k0, v0) :: r, hnd => by
    have hnd' : k0 ∉ r.map Prod.fst ∧ (r.map Prod.fst).Nodup := by simpa using hnd
    by_cases hk : k0 = k
    · subst hk
      simp only [eraseKey, if_true]
      cases h : lookup k0 r with
      | none => rfl
      | some v => exact absurd (lookup_mem_keys _ _ _ h) hnd'.1
    · simp [eraseKey, lookup, hk, lookup_eraseKey_self k r hnd'.2]

/-- the application may refuse `name`: a set was declared, reaches the demultiplexer, and lacks it -/
def Refusable (s : Side) (name : String) : Prop :=
  ∃ ex : List String, wired s.expected = some ex ∧ ex.contains name = false

/-- `X` = SubChannels that `_got_open`/`register` are connecting right now -/
structure SInvX (X : List Nat) (s : Side) : Prop where
  wf : WF s
  openKeys : (s.open_.map Prod.fst).Nodup
  openOK : ∀ (scid u : Nat), lookup scid s.open_ = some u → ∃ c : SC, s.subs[u]? = some c ∧ c.scid = scid
  pendKeys : (s.pendingOpens.map Prod.fst).Nodup
  pendOK : ∀ (name : String) (us : List Nat), lookup name s.pendingOpens = some us →
    lookup name s.factories = none ∧ us.Nodup ∧
    ∀ u ∈ us, u ∉ X ∧ ∃ c : SC, s.subs[u]? = some c ∧ c.name = name ∧ c.proto = none ∧ lookup c.scid s.open_ = some u
  unconn : ∀ (u : Nat) (c : SC), s.subs[u]? = some c → c.proto = none → c.st = .unconnected ∧ c.pendingData.isSome = true
  fate : ∀ (u : Nat) (c : SC), s.subs[u]? = some c → c.proto = none →
    u ∈ X ∨ u ∈ pendingFor c.name s.pendingOpens ∨
    ((∀ scid : Nat, lookup scid s.open_ ≠ some u) ∧ (Refusable s c.name ∨ c.scid ∈ openIds s.log))
  inflight : ∀ u ∈ X, ∃ c : SC, s.subs[u]? = some c ∧ c.proto = none ∧ lookup c.scid s.open_ = some u
  built : ∀ p : Nat, p < s.protoCount →
    ∃ (u : Nat) (c : SC) (k : PKind), s.subs[u]? = some c ∧ c.proto = some (p, k) ∧ Eff.build p c.name ∈ s.log
  buildOnce : ∀ p : Nat, buildCount p s.log = if p < s.protoCount then 1 else 0

abbrev SInv (s : Side) : Prop := SInvX [] s

/-- what a row's outputs do to the rest of the side -/
structure Extra (uid : Nat) (c : SC) (s s' : Side) : Prop where
  same : Same s s'
  openSub : s'.open_.Sublist s.open_
  openOther : ∀ k : Nat, k ≠ c.scid → lookup k s'.open_ = lookup k s.open_
  openChanged : s'.open_ ≠ s.open_ → lookup c.scid s.open_ = some uid
  builds : ∀ p, buildCount p s'.log = buildCount p s.log
  opens : openIds s'.log = openIds s.log
  logMono : ∀ e, e ∈ s.log → e ∈ s'.log
  pdata : ∀ c' : SC, s'.subs[uid]? = some c' → c.pendingData.isSome = true → c'.pendingData.isSome = true

theorem Extra.refl' {uid : Nat} {c : SC} {s : Side} (hc : s.subs[uid]? = some c) : Extra uid c s s :=
  ⟨Same.rfl', List.Sublist.refl _, fun _ _ => rfl, fun h => absurd rfl h, fun _ => rfl, rfl, fun _ h => h,
    fun c' h hp => by rw [hc] at h; cases h; exact hp⟩

theorem runOut_extra (uid : Nat) (arg : Bytes) (o : SubChannel.Output) (s : Side) (c : SC)
    (hc : s.subs[uid]? = some c) :
    Extra uid c s (runOut uid arg o s).1 ∧ (o ≠ .close_subchannel → (runOut uid arg o s).1.open_ = s.open_) := by
  have noB : ∀ (e : Eff), (∀ q n, e ≠ .build q n) → ∀ p, buildCount p (s.log ++ [e]) = buildCount p s.log := by
    intro e he p
    rw [buildCount_append]
    have : buildCount p [e] = 0 := by
      cases e <;> simp [buildCount, isBuild]
      exact absurd rfl (he _ _)
    omega
  have noO : ∀ (e : Eff), (∀ q c n, e ≠ .txOpen q c n) → openIds (s.log ++ [e]) = openIds s.log := by
    intro e he
    rw [openIds_append]
    have : openIds [e] = [] := by
      cases e <;> simp [openIds]
      exact absurd rfl (he _ _ _)
    rw [this, List.append_nil]
  have emitCase : ∀ (e : Eff) (s' : Side), (∀ q n, e ≠ .build q n) → (∀ q c n, e ≠ .txOpen q c n) →
      s'.subs = s.subs → s'.open_ = s.open_ → s'.log = s.log ++ [e] → Same s s' → Extra uid c s s' := by
    intro e s' h1 h2 hsub hop hlog hsame
    refine ⟨hsame, by rw [hop]; exact List.Sublist.refl _, fun _ _ => by rw [hop], fun h => absurd hop h, fun p => by rw [hlog]; exact noB e h1 p,
      by rw [hlog]; exact noO e h2, fun x hx => by rw [hlog]; exact List.mem_append_left _ hx, ?_⟩
    intro c' h hp; rw [hsub, hc] at h; cases h; exact hp
  cases o
  case queue_remote_data =>
    simp only [runOut, hc]
    cases hp : c.pendingData with
    | none => exact ⟨Extra.refl' hc, fun _ => rfl⟩
    | some l0 =>
      refine ⟨⟨⟨rfl, rfl, rfl, rfl, rfl, rfl, rfl⟩, List.Sublist.refl _, fun _ _ => rfl, fun h => absurd rfl h, fun _ => rfl, rfl, fun _ h => h, ?_⟩,
        fun _ => rfl⟩
      intro c' h _
      simp [updSC, getElem?_modifyAt, hc] at h
      subst h; rfl
  case queue_remote_close =>
    simp only [runOut, hc]
    refine ⟨⟨⟨rfl, rfl, rfl, rfl, rfl, rfl, rfl⟩, List.Sublist.refl _, fun _ _ => rfl, fun h => absurd rfl h, fun _ => rfl, rfl, fun _ h => h, ?_⟩,
      fun _ => rfl⟩
    intro c' h hp
    simp [updSC, getElem?_modifyAt, hc] at h
    subst h; exact hp
  case send_data =>
    simp only [runOut, hc]
    exact ⟨emitCase (.txData s.nextSeq c.scid arg) _ (fun _ _ h => by cases h) (fun _ _ _ h => by cases h) rfl rfl rfl
      ⟨rfl, rfl, rfl, rfl, rfl, rfl, rfl⟩, fun _ => rfl⟩
  case send_close =>
    simp only [runOut, hc]
    exact ⟨emitCase (.txClose s.nextSeq c.scid) _ (fun _ _ h => by cases h) (fun _ _ _ h => by cases h) rfl rfl rfl
      ⟨rfl, rfl, rfl, rfl, rfl, rfl, rfl⟩, fun _ => rfl⟩
  case signal_dataReceived =>
    simp only [runOut, hc]
    cases hp : c.proto with
    | none => exact ⟨Extra.refl' hc, fun _ => rfl⟩
    | some x =>
      obtain ⟨q, k⟩ := x
      exact ⟨emitCase (.data q arg) _ (fun _ _ h => by cases h) (fun _ _ _ h => by cases h) rfl rfl rfl
        ⟨rfl, rfl, rfl, rfl, rfl, rfl, rfl⟩, fun _ => rfl⟩
  case signal_readConnectionLost =>
    simp only [runOut, hc]
    cases hp : c.proto with
    | none => exact ⟨Extra.refl' hc, fun _ => rfl⟩
    | some x =>
      obtain ⟨q, k⟩ := x
      cases k with
      | full => exact ⟨Extra.refl' hc, fun _ => rfl⟩
      | half =>
        exact ⟨emitCase (.readLost q) _ (fun _ _ h => by cases h) (fun _ _ _ h => by cases h) rfl rfl rfl
          ⟨rfl, rfl, rfl, rfl, rfl, rfl, rfl⟩, fun _ => rfl⟩
  case signal_writeConnectionLost =>
    simp only [runOut, hc]
    cases hp : c.proto with
    | none => exact ⟨Extra.refl' hc, fun _ => rfl⟩
    | some x =>
      obtain ⟨q, k⟩ := x
      cases k with
      | full => exact ⟨Extra.refl' hc, fun _ => rfl⟩
      | half =>
        exact ⟨emitCase (.writeLost q) _ (fun _ _ h => by cases h) (fun _ _ _ h => by cases h) rfl rfl rfl
          ⟨rfl, rfl, rfl, rfl, rfl, rfl, rfl⟩, fun _ => rfl⟩
  case signal_connectionLost =>
    simp only [runOut, hc]
    cases hp : c.proto with
    | none => exact ⟨Extra.refl' hc, fun _ => rfl⟩
    | some x =>
      obtain ⟨q, k⟩ := x
      exact ⟨emitCase (.lost q) _ (fun _ _ h => by cases h) (fun _ _ _ h => by cases h) rfl rfl rfl
        ⟨rfl, rfl, rfl, rfl, rfl, rfl, rfl⟩, fun _ => rfl⟩
  case close_subchannel =>
    simp only [runOut, hc]
    cases hlk : lookup c.scid s.open_ with
    | none => exact ⟨Extra.refl' hc, fun h => absurd rfl h⟩
    | some u0 =>
      by_cases hu : u0 = uid
      · simp only [hu, if_true]
        refine ⟨⟨⟨rfl, rfl, rfl, rfl, rfl, rfl, rfl⟩, eraseKey_sublist _ _, fun k hk => lookup_eraseKey_ne _ _ hk _,
          fun _ => by rw [hlk, hu], fun _ => rfl, rfl, fun _ h => h, ?_⟩, fun h => absurd rfl h⟩
        intro c' h hp
        have : ({ s with open_ := eraseKey c.scid s.open_ } : Side).subs[uid]? = s.subs[uid]? := rfl
        rw [this, hc] at h; cases h; exact hp
      · simp only [hu, if_false]
        exact ⟨Extra.refl' hc, fun h => absurd rfl h⟩
  case error_closed_write =>
    have : runOut uid arg .error_closed_write s = (s, some .alreadyClosed) := by simp only [runOut, hc]
    rw [this]; exact ⟨Extra.refl' hc, fun _ => rfl⟩
  case error_closed_close =>
    have : runOut uid arg .error_closed_close s = (s, some .alreadyClosed) := by simp only [runOut, hc]
    rw [this]; exact ⟨Extra.refl' hc, fun _ => rfl⟩

theorem Extra.trans {uid : Nat} {c c' : SC} {s s' s'' : Side} (h1 : Extra uid c s s')
    (hc' : s'.subs[uid]? = some c') (hscid : c'.scid = c.scid) (h2 : Extra uid c' s' s'') : Extra uid c s s'' := by
  refine ⟨h1.same.trans h2.same, h2.openSub.trans h1.openSub, ?_, ?_, fun p => (h2.builds p).trans (h1.builds p),
    h2.opens.trans h1.opens, fun e he => h2.logMono e (h1.logMono e he), ?_⟩
  · intro k hk; rw [h2.openOther k (by rw [hscid]; exact hk), h1.openOther k hk]
  · intro hne
    by_cases h : s'.open_ = s.open_
    · have := h2.openChanged (by rw [h]; exact hne)
      rw [hscid, h] at this; exact this
    · exact h1.openChanged h
  · intro c'' h'' hp
    exact h2.pdata c'' h'' (h1.pdata c' hc' hp)

theorem runOuts_extra (uid : Nat) (arg : Bytes) : ∀ (outs : List SubChannel.Output) (s : Side) (c : SC),
    s.subs[uid]? = some c →
    Extra uid c s (runOuts uid arg outs s).1 ∧
    ((∀ o ∈ outs, o ≠ .close_subchannel) → (runOuts uid arg outs s).1.open_ = s.open_)
  | [], s, c, hc => ⟨Extra.refl' hc, fun _ => rfl⟩
  | o :: os, s, c, hc => by
    obtain ⟨e1, o1⟩ := runOut_extra uid arg o s c hc
    obtain ⟨l1, ro1, _⟩ := runOut_spec uid arg o s c hc
    cases hr : runOut uid arg o s with
    | mk s1 err =>
      rw [hr] at e1 o1 ro1
      cases err with
      | some err =>
        simp only [runOuts, hr, andThen_some]
        exact ⟨e1, fun h => o1 (h o (by simp))⟩
      | none =>
        simp only [runOuts, hr, andThen_none]
        obtain ⟨c1, hc1, hs1, _⟩ := ro1.self
        obtain ⟨e2, o2⟩ := runOuts_extra uid arg os s1 c1 hc1
        exact ⟨e1.trans hc1 hs1 e2, fun h => by
          rw [o2 (fun o' ho' => h o' (by simp [ho'])), o1 (h o (by simp))]⟩

theorem unconnected_no_close : ∀ (i : SubChannel.Input) (st' : SubChannel.State) (outs : List SubChannel.Output),
    SubChannel.table .unconnected i = some (st', outs) → ∀ o ∈ outs, o ≠ .close_subchannel := by
  intro i st' outs h
  cases i <;> simp [SubChannel.table] at h <;> obtain ⟨_, rfl⟩ := h <;> simp

/-- `scInput` (one Automat input): the generic description, plus what it leaves alone -/
theorem scInput_extra {s : Side} (uid : Nat) (i : SubChannel.Input) (arg : Bytes) (c : SC)
    (hc : s.subs[uid]? = some c) :
    Extra uid c s (scInput uid i arg s).1 ∧ (c.st = .unconnected → (scInput uid i arg s).1.open_ = s.open_) ∧
    (∀ u : Nat, u ≠ uid → (scInput uid i arg s).1.subs[u]? = s.subs[u]?) ∧
    (scInput uid i arg s).1.protoCount = s.protoCount ∧
    ∃ c' : SC, (scInput uid i arg s).1.subs[uid]? = some c' ∧ c'.scid = c.scid ∧ c'.name = c.name ∧ c'.proto = c.proto ∧
      (c'.st = c.st ∨ ∃ outs, SubChannel.table c.st i = some (c'.st, outs)) := by
  cases ht : SubChannel.table c.st i with
  | none =>
    rw [scInput_eq_norow arg hc ht]
    exact ⟨Extra.refl' hc, fun _ => rfl, fun _ _ => rfl, rfl, c, hc, rfl, rfl, rfl, Or.inl rfl⟩
  | some row =>
    obtain ⟨st', outs⟩ := row
    rw [scInput_eq_row arg hc ht]
    have hc1 : (updSC uid (fun c => { c with st := st' }) s).subs[uid]? = some { c with st := st' } := by
      simp [updSC, getElem?_modifyAt, hc]
    obtain ⟨e, o⟩ := runOuts_extra uid arg outs _ _ hc1
    obtain ⟨l, ro, _⟩ := runOuts_spec uid arg outs _ _ hc1
    obtain ⟨c', hc', g1, g2, g3, g4⟩ := ro.self
    refine ⟨?_, ?_, ?_, ro.pc, c', hc', g1, g2, g4, Or.inr ⟨outs, by rw [g3]⟩⟩
    · exact ⟨⟨e.same.1, e.same.2, e.same.3, e.same.4, e.same.5, e.same.6, e.same.7⟩, e.openSub, e.openOther, e.openChanged, e.builds, e.opens, e.logMono, e.pdata⟩
    · intro hst
      rw [hst] at ht
      exact o (unconnected_no_close i st' outs ht)
    · intro u hu
      rw [ro.others u hu]; simp [updSC, getElem?_modifyAt, hu]

def isConnect (i : SubChannel.Input) : Bool :=
  i == .connect_protocol_full || i == .connect_protocol_half

theorem scInput_sinv {X : List Nat} {s : Side} (h : SInvX X s) (uid : Nat) (i : SubChannel.Input) (arg : Bytes)
    (hi : isConnect i = false) : SInvX X (scInput uid i arg s).1 := by
  cases hs : s.subs[uid]? with
  | none => rw [scInput_eq_none i arg hs]; exact h
  | some c =>
    obtain ⟨e, hunc, hoth, hpc, c', hc', hscid, hname, hproto, hst⟩ := scInput_extra uid i arg c hs
    have hwf := (scInput_evo h.wf uid i arg).wf
    generalize (scInput uid i arg s).1 = s' at *
    have hnotconn : ¬ (i = .connect_protocol_full ∨ i = .connect_protocol_half) := by
      intro hh; rcases hh with rfl | rfl <;> simp [isConnect] at hi
    -- an unconnected SubChannel stays unconnected and keeps its registration
    have hstay : c.proto = none → c'.st = .unconnected ∧ s'.open_ = s.open_ := by
      intro hp
      have hu := (h.unconn uid c hs hp).1
      refine ⟨?_, hunc hu⟩
      rcases hst with h1 | ⟨outs, h1⟩
      · rw [h1]; exact hu
      · rw [hu] at h1
        exact ((row_facts h1).unconnected rfl hnotconn).1
    have back : ∀ (u : Nat) (x : SC), s'.subs[u]? = some x →
        ∃ x0 : SC, s.subs[u]? = some x0 ∧ x0.proto = x.proto ∧ x0.scid = x.scid ∧ x0.name = x.name := by
      intro u x hu
      by_cases hh : u = uid
      · subst hh; rw [hc'] at hu; cases hu
        exact ⟨c, hs, hproto.symm, hscid.symm, hname.symm⟩
      · rw [hoth u hh] at hu; exact ⟨x, hu, rfl, rfl, rfl⟩
    have fwd : ∀ (u : Nat) (x0 : SC), s.subs[u]? = some x0 →
        ∃ x : SC, s'.subs[u]? = some x ∧ x.proto = x0.proto ∧ x.scid = x0.scid ∧ x.name = x0.name := by
      intro u x0 hu
      by_cases hh : u = uid
      · subst hh; rw [hs] at hu; cases hu
        exact ⟨c', hc', hproto, hscid, hname⟩
      · exact ⟨x0, by rw [hoth u hh]; exact hu, rfl, rfl, rfl⟩
    -- registrations of SubChannels without a protocol survive
    have keepReg : ∀ (u : Nat) (x0 : SC), s.subs[u]? = some x0 → x0.proto = none → lookup x0.scid s.open_ = some u →
        lookup x0.scid s'.open_ = some u := by
      intro u x0 hu hp hl
      by_cases hch : s'.open_ = s.open_
      · rw [hch]; exact hl
      · have hl2 := e.openChanged hch
        have hne : x0.scid ≠ c.scid := by
          intro heq
          rw [heq, hl2] at hl
          have : uid = u := Option.some.inj hl
          subst this
          rw [hs] at hu; cases hu
          exact hch (hstay hp).2
        rw [e.openOther _ hne]; exact hl
    have noReg : ∀ u : Nat, (∀ k : Nat, lookup k s.open_ ≠ some u) → ∀ k : Nat, lookup k s'.open_ ≠ some u :=
      fun u hno k hk => hno k (lookup_of_sublist k u _ _ e.openSub h.openKeys hk)
    refine ⟨hwf, keys_nodup_of_sublist e.openSub h.openKeys, ?_, by rw [e.same.pendingOpens]; exact h.pendKeys, ?_, ?_, ?_, ?_, ?_, ?_⟩
    · intro scid u hl
      obtain ⟨x0, hx0, hsc⟩ := h.openOK scid u (lookup_of_sublist scid u _ _ e.openSub h.openKeys hl)
      obtain ⟨x, hx, _, hxs, _⟩ := fwd u x0 hx0
      exact ⟨x, hx, hxs.trans hsc⟩
    · intro name us hl
      rw [e.same.pendingOpens] at hl
      obtain ⟨g1, g2, g3⟩ := h.pendOK name us hl
      refine ⟨by rw [e.same.factories]; exact g1, g2, ?_⟩
      intro u hu
      obtain ⟨gx, x0, hx0, hn0, hp0, hl0⟩ := g3 u hu
      obtain ⟨x, hx, hxp, hxs, hxn⟩ := fwd u x0 hx0
      exact ⟨gx, x, hx, hxn.trans hn0, hxp.trans hp0, by rw [hxs]; exact keepReg u x0 hx0 hp0 hl0⟩
    · intro u x hu hp
      by_cases hh : u = uid
      · subst hh; rw [hc'] at hu; cases hu
        have hp0 : c.proto = none := by rw [← hproto]; exact hp
        exact ⟨(hstay hp0).1, e.pdata _ hc' (h.unconn u c hs hp0).2⟩
      · rw [hoth u hh] at hu; exact h.unconn u x hu hp
    · intro u x hu hp
      obtain ⟨x0, hx0, hp0, hs0, hn0⟩ := back u x hu
      rcases h.fate u x0 hx0 (by rw [hp0]; exact hp) with g | g | ⟨g1, g2⟩
      · exact Or.inl g
      · exact Or.inr (Or.inl (by rw [e.same.pendingOpens, ← hn0]; exact g))
      · refine Or.inr (Or.inr ⟨noReg u g1, ?_⟩)
        rcases g2 with g2 | g2
        · left
          obtain ⟨ex, h1, h2⟩ := g2
          exact ⟨ex, by rw [e.same.expected]; exact h1, by rw [← hn0]; exact h2⟩
        · right; rw [e.opens, ← hs0]; exact g2
    · intro u hu
      obtain ⟨x0, hx0, hp0, hl0⟩ := h.inflight u hu
      obtain ⟨x, hx, hxp, hxs, _⟩ := fwd u x0 hx0
      exact ⟨x, hx, hxp.trans hp0, by rw [hxs]; exact keepReg u x0 hx0 hp0 hl0⟩
    · intro p hp
      rw [hpc] at hp
      obtain ⟨u, x0, k, hx0, hp0, hb⟩ := h.built p hp
      obtain ⟨x, hx, hxp, _, hxn⟩ := fwd u x0 hx0
      exact ⟨u, x, k, hx, hxp.trans hp0, by rw [hxn]; exact e.logMono _ hb⟩
    · intro p; rw [e.builds p, hpc]; exact h.buildOnce p

theorem openIds_pendEffs (k : PKind) (pid seq : Nat) (c : SC) (ds : List Bytes) (b : Bool) :
    openIds (pendEffs k pid seq c ds b) = [] := by
  unfold pendEffs
  rw [openIds_append, openIds_append]
  have h1 : openIds [Eff.build pid c.name, Eff.made pid] = [] := rfl
  have h2 : openIds (ds.map (fun d => Eff.data pid d)) = [] := by
    induction ds with
    | nil => rfl
    | cons d r ih => simpa [openIds] using ih
  have h3 : openIds (if b = true then closeEffs k pid seq c.scid else []) = [] := by
    cases b <;> cases k <;> rfl
  rw [h1, h2, h3]; rfl

theorem buildCount_pendEffs (p : Nat) (k : PKind) (pid seq : Nat) (c : SC) (ds : List Bytes) (b : Bool) :
    buildCount p (pendEffs k pid seq c ds b) = if pid = p then 1 else 0 := by
  unfold pendEffs
  rw [buildCount_append, buildCount_append]
  have h2 : buildCount p (ds.map (fun d => Eff.data pid d)) = 0 := by
    induction ds with
    | nil => rfl
    | cons d r ih => simpa [buildCount, isBuild] using ih
  have h3 : buildCount p (if b = true then closeEffs k pid seq c.scid else []) = 0 := by
    cases b <;> cases k <;> rfl
  rw [h2, h3]
  by_cases h : pid = p <;> simp [buildCount, isBuild, h]

/-- connecting an in-flight SubChannel (result described by `ConnRes`) re-establishes the
    invariant with that SubChannel no longer in flight -/
theorem sinv_of_connRes {X : List Nat} {s s' : Side} (h : SInvX X s) (uid : Nat) (huid : uid ∈ X)
    (c : SC) (k : PKind) (ds : List Bytes) (b : Bool) (hc : s.subs[uid]? = some c) (hpn : c.proto = none)
    (r : ConnRes s s' uid c k ds b) (hwf : WF s') : SInvX (X.filter (fun v => v != uid)) s' := by
  have hsub : s'.open_.Sublist s.open_ := by
    rw [r.open_]; split
    · exact eraseKey_sublist _ _
    · exact List.Sublist.refl _
  obtain ⟨c', hc', hp', hscid', hname', _, _⟩ := r.self
  have hreg : lookup c.scid s.open_ = some uid := by
    obtain ⟨x, hx, _, hl⟩ := h.inflight uid huid
    rw [hc] at hx; cases hx; exact hl
  have fwd : ∀ (u : Nat) (x0 : SC), s.subs[u]? = some x0 → u ≠ uid → s'.subs[u]? = some x0 :=
    fun u x0 hu hne => by rw [r.others u hne]; exact hu
  have keepReg : ∀ (u : Nat) (x0 : SC), u ≠ uid → lookup x0.scid s.open_ = some u → lookup x0.scid s'.open_ = some u := by
    intro u x0 hne hl
    rw [r.open_]; split
    · have : x0.scid ≠ c.scid := by
        intro heq; rw [heq, hreg] at hl; exact hne (Option.some.inj hl).symm
      rw [lookup_eraseKey_ne _ _ this]; exact hl
    · exact hl
  have noReg : ∀ u : Nat, (∀ k : Nat, lookup k s.open_ ≠ some u) → ∀ k : Nat, lookup k s'.open_ ≠ some u :=
    fun u hno k hk => hno k (lookup_of_sublist k u _ _ hsub h.openKeys hk)
  have memX : ∀ v : Nat, v ∈ X → v ≠ uid → v ∈ X.filter (fun v => v != uid) := by
    intro v hv hne; simp [hv, hne]
  refine ⟨hwf, keys_nodup_of_sublist hsub h.openKeys, ?_, by rw [r.same.pendingOpens]; exact h.pendKeys, ?_, ?_, ?_, ?_, ?_, ?_⟩
  · intro scid u hl
    obtain ⟨x0, hx0, hsc⟩ := h.openOK scid u (lookup_of_sublist scid u _ _ hsub h.openKeys hl)
    by_cases hh : u = uid
    · subst hh; rw [hc] at hx0; cases hx0
      exact ⟨c', hc', hscid'.trans hsc⟩
    · exact ⟨x0, fwd u x0 hx0 hh, hsc⟩
  · intro name us hl
    rw [r.same.pendingOpens] at hl
    obtain ⟨g1, g2, g3⟩ := h.pendOK name us hl
    refine ⟨by rw [r.same.factories]; exact g1, g2, ?_⟩
    intro u hu
    obtain ⟨gx, x0, hx0, hn0, hp0, hl0⟩ := g3 u hu
    have hne : u ≠ uid := fun hh => gx (hh ▸ huid)
    refine ⟨fun hm => gx (List.mem_filter.mp hm).1, x0, fwd u x0 hx0 hne, hn0, hp0, keepReg u x0 hne hl0⟩
  · intro u x hu hp
    by_cases hh : u = uid
    · subst hh; rw [hc'] at hu; cases hu; rw [hp'] at hp; cases hp
    · rw [r.others u hh] at hu; exact h.unconn u x hu hp
  · intro u x hu hp
    by_cases hh : u = uid
    · subst hh; rw [hc'] at hu; cases hu; rw [hp'] at hp; cases hp
    · rw [r.others u hh] at hu
      rcases h.fate u x hu hp with g | g | ⟨g1, g2⟩
      · exact Or.inl (memX u g hh)
      · exact Or.inr (Or.inl (by rw [r.same.pendingOpens]; exact g))
      · refine Or.inr (Or.inr ⟨noReg u g1, ?_⟩)
        rcases g2 with g2 | g2
        · left
          obtain ⟨ex, h1, h2⟩ := g2
          exact ⟨ex, by rw [r.same.expected]; exact h1, h2⟩
        · right; rw [r.log, openIds_append, openIds_pendEffs, List.append_nil]; exact g2
  · intro u hu
    obtain ⟨hux, hne⟩ := List.mem_filter.mp hu
    have hne : u ≠ uid := by simpa using hne
    obtain ⟨x0, hx0, hp0, hl0⟩ := h.inflight u hux
    exact ⟨x0, fwd u x0 hx0 hne, hp0, keepReg u x0 hne hl0⟩
  · intro p hp
    rw [r.pc] at hp
    by_cases hlt : p < s.protoCount
    · obtain ⟨u, x0, k0, hx0, hp0, hb⟩ := h.built p hlt
      have hne : u ≠ uid := by
        intro hh; subst hh; rw [hc] at hx0; cases hx0; rw [hpn] at hp0; cases hp0
      exact ⟨u, x0, k0, fwd u x0 hx0 hne, hp0, by rw [r.log]; exact List.mem_append_left _ hb⟩
    · have : p = s.protoCount := by omega
      subst this
      refine ⟨uid, c', k, hc', hp', ?_⟩
      rw [r.log, hname']; simp [pendEffs]
  · intro p
    rw [r.log, buildCount_append, buildCount_pendEffs, h.buildOnce p, r.pc]
    by_cases h1 : p < s.protoCount
    · have : ¬ s.protoCount = p := by omega
      have h2 : p < s.protoCount + 1 := by omega
      simp [h1, this, h2]
    · by_cases h2 : s.protoCount = p
      · have h3 : p < s.protoCount + 1 := by omega
        simp [h2]
      · have h3 : ¬ p < s.protoCount + 1 := by omega
        simp [h1, h2, h3]

theorem connectSC_sinv {X : List Nat} {s : Side} (h : SInvX X s) (uid : Nat) (huid : uid ∈ X) (k : PKind) :
    ∃ s' : Side, connectSC k uid s = (s', none) ∧ SInvX (X.filter (fun v => v != uid)) s' := by
  obtain ⟨c, hc, hp, hl⟩ := h.inflight uid huid
  obtain ⟨hst, hpd⟩ := h.unconn uid c hc hp
  cases hd : c.pendingData with
  | none => rw [hd] at hpd; cases hpd
  | some ds =>
    obtain ⟨s', hs', r⟩ := connectSC_spec s uid c k ds c.pendingClose hc hst hp hd rfl (fun _ _ => hl)
    have hwf : WF s' := by
      have := (connectSC_evo h.wf k uid).wf
      rw [hs'] at this; exact this
    exact ⟨s', hs', sinv_of_connRes h uid huid c k ds _ hc hp r hwf⟩

theorem lookup_append_left {α β : Type} [DecidableEq α] (k : α) (v : β) (r : List (α × β)) :
    ∀ (l : List (α × β)), lookup k l = some v → lookup k (l ++ r) = some v
  | [], h => by simp [lookup] at h
  | (k0, v0) :: l, h => by
    by_cases hk : k0 = k
    · simpa [lookup, hk] using h
    · simp [lookup, hk] at h ⊢; exact lookup_append_left k v r l h

theorem lookup_append_none {α β : Type} [DecidableEq α] (k : α) (r : List (α × β)) :
    ∀ (l : List (α × β)), lookup k l = none → lookup k (l ++ r) = lookup k r
  | [], _ => rfl
  | (k0, v0) :: l, h => by
    by_cases hk : k0 = k
    · simp [lookup, hk] at h
    · simp [lookup, hk] at h ⊢; exact lookup_append_none k r l h

theorem lookup_none_not_mem {α β : Type} [DecidableEq α] (k : α) :
    ∀ (l : List (α × β)), lookup k l = none → k ∉ l.map Prod.fst
  | [], _ => by simp
  | (k0, v0) :: l, h => by
    by_cases hk : k0 = k
    · simp [lookup, hk] at h
    · simp [lookup, hk] at h
      have := lookup_none_not_mem k l h
      simp at this ⊢
      exact ⟨fun hh => hk hh.symm, this⟩

theorem lookup_appendAt_ne (k k' : String) (v : Nat) (hne : k' ≠ k) : ∀ (l : List (String × List Nat)),
    lookup k' (appendAt k v l) = lookup k' l
  | [] => by
    have : ¬ k = k' := fun h => hne h.symm
    simp [appendAt, lookup, this]
  | (k0, us) :: r => by
    by_cases h : k0 = k
    · subst h
      have : ¬ k0 = k' := fun h => hne h.symm
      simp [appendAt, lookup, this]
    · by_cases h2 : k0 = k'
      · subst h2; simp [appendAt, lookup, h]
      · simp [appendAt, lookup, h, h2, lookup_appendAt_ne k k' v hne r]

theorem keys_appendAt (k : String) (v : Nat) : ∀ (l : List (String × List Nat)),
    (appendAt k v l).map Prod.fst = if k ∈ l.map Prod.fst then l.map Prod.fst else l.map Prod.fst ++ [k]
  | [] => by simp [appendAt]
  | (k0, us) :: r => by
    by_cases h : k0 = k
    · simp [appendAt, h]
    · have ih := keys_appendAt k v r
      have hne : ¬ k = k0 := fun hh => h hh.symm
      by_cases hm : k ∈ r.map Prod.fst
      · simp [appendAt, h, ih, hm]
      · simp only [hm, if_false] at ih
        have hm' : ∀ (x : List Nat), (k, x) ∉ r := by
          intro x hx; exact hm (List.mem_map_of_mem (f := Prod.fst) hx)
        simp [appendAt, h, ih, hne, hm']

theorem keys_nodup_appendAt (k : String) (v : Nat) (l : List (String × List Nat))
    (h : (l.map Prod.fst).Nodup) : ((appendAt k v l).map Prod.fst).Nodup := by
  rw [keys_appendAt]
  split
  · exact h
  · rename_i hm
    exact List.nodup_append.mpr ⟨h, by simp, by intro a ha b hb; simp at hb; subst hb; intro hab; subst hab; exact hm ha⟩

theorem pendingFor_of_lookup {name : String} {l : List (String × List Nat)} {us : List Nat}
    (h : lookup name l = some us) : pendingFor name l = us := by simp [pendingFor, h]

theorem mem_pendingFor {name : String} {l : List (String × List Nat)} {u : Nat} (h : u ∈ pendingFor name l) :
    ∃ us, lookup name l = some us ∧ u ∈ us := by
  unfold pendingFor at h
  cases hl : lookup name l with
  | none => rw [hl] at h; simp at h
  | some us => rw [hl] at h; exact ⟨us, rfl, h⟩

/-- only the log (no build, no OPEN), sequence counters and the ack watermark change -/
theorem sinv_quiet {X : List Nat} {s s' : Side} (h : SInvX X s) (hsubs : s'.subs = s.subs)
    (hopen : s'.open_ = s.open_) (hfac : s'.factories = s.factories) (hpend : s'.pendingOpens = s.pendingOpens)
    (hexp : s'.expected = s.expected) (hpc : s'.protoCount = s.protoCount) (l : List Eff)
    (hlog : s'.log = s.log ++ l) (hb : ∀ p, buildCount p l = 0) : SInvX X s' := by
  refine ⟨⟨?_, ?_⟩, by rw [hopen]; exact h.openKeys, ?_, by rw [hpend]; exact h.pendKeys, ?_, ?_, ?_, ?_, ?_, ?_⟩
  · intro u c q k hu hp; rw [hsubs] at hu; rw [hpc]; exact h.wf.bound u c q k hu hp
  · intro u u' c c' q k k' hu hu'; rw [hsubs] at hu hu'; exact h.wf.uniq u u' c c' q k k' hu hu'
  · intro scid u hl; rw [hopen] at hl; rw [hsubs]; exact h.openOK scid u hl
  · intro name us hl; rw [hpend] at hl; rw [hfac, hsubs, hopen]; exact h.pendOK name us hl
  · intro u c hu hp; rw [hsubs] at hu; exact h.unconn u c hu hp
  · intro u c hu hp
    rw [hsubs] at hu
    rcases h.fate u c hu hp with g | g | ⟨g1, g2⟩
    · exact Or.inl g
    · exact Or.inr (Or.inl (by rw [hpend]; exact g))
    · refine Or.inr (Or.inr ⟨by rw [hopen]; exact g1, ?_⟩)
      rcases g2 with ⟨ex, h1, h2⟩ | g2
      · exact Or.inl ⟨ex, by rw [hexp]; exact h1, h2⟩
      · exact Or.inr (by rw [hlog, openIds_append]; exact List.mem_append_left _ g2)
  · intro u hu; rw [hsubs, hopen]; exact h.inflight u hu
  · intro p hp
    rw [hpc] at hp
    obtain ⟨u, c, k, hc, hpr, hb'⟩ := h.built p hp
    exact ⟨u, c, k, by rw [hsubs]; exact hc, hpr, by rw [hlog]; exact List.mem_append_left _ hb'⟩
  · intro p; rw [hlog, buildCount_append, hb p, hpc, Nat.add_zero]; exact h.buildOnce p

theorem connectAll_sinv (k : PKind) : ∀ (us : List Nat) (X : List Nat) (s : Side), SInvX X s → us.Nodup →
    (∀ u ∈ us, u ∈ X) →
    ∃ s' : Side, connectAll k us s = (s', none) ∧ SInvX (X.filter (fun v => !us.contains v)) s'
  | [], X, s, h, _, _ => ⟨s, rfl, by
      have : X.filter (fun v => !([] : List Nat).contains v) = X := by simp
      rw [this]; exact h⟩
  | u :: us, X, s, h, hnd, hsub => by
    have hnd' : u ∉ us ∧ us.Nodup := by simpa using hnd
    obtain ⟨s1, hs1, h1⟩ := connectSC_sinv h u (hsub u (by simp)) k
    have hsub1 : ∀ v ∈ us, v ∈ X.filter (fun v => v != u) := by
      intro v hv
      have hne : v ≠ u := fun hh => hnd'.1 (hh ▸ hv)
      simp [hsub v (by simp [hv]), hne]
    obtain ⟨s', hs', h'⟩ := connectAll_sinv k us _ s1 h1 hnd'.2 hsub1
    refine ⟨s', by simp only [connectAll, hs1, andThen_none]; exact hs', ?_⟩
    have : (X.filter (fun v => v != u)).filter (fun v => !us.contains v) = X.filter (fun v => !(u :: us).contains v) := by
      rw [List.filter_filter]
      congr 1
      funext v
      by_cases hvu : v = u <;> simp [hvu]
    rw [← this]; exact h'

theorem filter_not_contains_self (us : List Nat) : us.filter (fun v => !us.contains v) = [] := by
  apply List.filter_eq_nil_iff.mpr
  intro a ha
  simp [ha]

/-- `register` after its first two statements -/
def regStart (name : String) (k : PKind) (s : Side) : Side :=
  { s with factories := s.factories ++ [(name, k)], pendingOpens := eraseKey name s.pendingOpens }

theorem register_sinv {s : Side} (h : SInv s) (name : String) (k : PKind) : SInv (register name k s).1 := by
  unfold register
  split
  · exact h
  · rename_i hfac
    have hfac' : lookup name s.factories = none := by
      cases hl : lookup name s.factories with
      | none => rfl
      | some x => rw [hl] at hfac; simp at hfac
    -- the queue for `name`
    have key : ∀ us : List Nat, (∀ us', lookup name s.pendingOpens = some us' → us = us') →
        (lookup name s.pendingOpens = none → us = []) →
        SInv (connectAll k us (regStart name k s)).1 := by
      intro us hsome hnone
      have hmem : ∀ u ∈ us, lookup name s.pendingOpens = some us := by
        intro u hu
        cases hl : lookup name s.pendingOpens with
        | none => rw [hnone hl] at hu; simp at hu
        | some us' => rw [hsome us' hl]
      have hnd : us.Nodup := by
        cases hl : lookup name s.pendingOpens with
        | none => rw [hnone hl]; simp
        | some us' => rw [hsome us' hl]; exact (h.pendOK name us' hl).2.1
      have h0 : SInvX us (regStart name k s) := by
        refine ⟨⟨h.wf.bound, h.wf.uniq⟩, h.openKeys, h.openOK,
          keys_nodup_of_sublist (eraseKey_sublist _ _) h.pendKeys, ?_, h.unconn, ?_, ?_, h.built, h.buildOnce⟩
        · intro name' us' hl
          have hne : name' ≠ name := by
            intro heq; subst heq
            have hl0 : lookup name' (eraseKey name' s.pendingOpens) = none := lookup_eraseKey_self name' _ h.pendKeys
            have hl1 : lookup name' (eraseKey name' s.pendingOpens) = some us' := hl
            rw [hl0] at hl1; cases hl1
          have hl' : lookup name' s.pendingOpens = some us' := by
            have hl0 : lookup name' (eraseKey name s.pendingOpens) = some us' := hl
            rw [lookup_eraseKey_ne _ _ hne] at hl0; exact hl0
          obtain ⟨g1, g2, g3⟩ := h.pendOK name' us' hl'
          refine ⟨?_, g2, ?_⟩
          · show lookup name' (s.factories ++ [(name, k)]) = none
            rw [lookup_append_none _ _ _ g1]
            have : ¬ name = name' := fun hh => hne hh.symm
            simp [lookup, this]
          · intro u hu
            obtain ⟨_, c, hc, hn, hp, hlk⟩ := g3 u hu
            refine ⟨?_, c, hc, hn, hp, hlk⟩
            intro hux
            obtain ⟨_, _, g3'⟩ := h.pendOK name us (hmem u hux)
            obtain ⟨_, c2, hc2, hn2, _⟩ := g3' u hux
            rw [hc] at hc2; cases hc2
            exact hne (hn.symm.trans hn2)
        · intro u c hu hp
          rcases h.fate u c hu hp with g | g | g
          · simp at g
          · by_cases hcn : c.name = name
            · left
              obtain ⟨us', hl', hm⟩ := mem_pendingFor g
              rw [hcn] at hl'
              rw [hsome us' hl']; exact hm
            · right; left
              show u ∈ pendingFor c.name (eraseKey name s.pendingOpens)
              unfold pendingFor at g ⊢
              rw [lookup_eraseKey_ne _ _ hcn]; exact g
          · exact Or.inr (Or.inr g)
        · intro u hu
          obtain ⟨_, _, g3⟩ := h.pendOK name us (hmem u hu)
          obtain ⟨_, c, hc, _, hp, hlk⟩ := g3 u hu
          exact ⟨c, hc, hp, hlk⟩
      obtain ⟨s', hs', h'⟩ := connectAll_sinv k us us _ h0 hnd (fun _ hu => hu)
      rw [hs']
      rw [filter_not_contains_self] at h'
      exact h'
    simp only []
    cases hl : lookup name s.pendingOpens with
    | none => exact key [] (fun us' h' => by rw [hl] at h'; cases h') (fun _ => rfl)
    | some us => exact key us (fun us' h' => by rw [hl] at h'; exact Option.some.inj h') (fun h' => by rw [hl] at h'; cases h')

theorem wf_push {s s' : Side} (h : WF s) (scid : Nat) (name : String)
    (hsubs : s'.subs = s.subs ++ [SC.new scid name]) (hpc : s'.protoCount = s.protoCount) : WF s' := by
  have split : ∀ (u : Nat) (c : SC), s'.subs[u]? = some c → s.subs[u]? = some c ∨ c.proto = none := by
    intro u c hu
    rw [hsubs, getElem?_push] at hu
    by_cases h1 : u < s.subs.length
    · rw [if_pos h1] at hu; exact Or.inl hu
    · rw [if_neg h1] at hu
      by_cases h2 : u = s.subs.length
      · rw [if_pos h2] at hu; cases hu; exact Or.inr rfl
      · rw [if_neg h2] at hu; cases hu
  refine ⟨?_, ?_⟩
  · intro u c q k hu hp
    rcases split u c hu with g | g
    · rw [hpc]; exact h.bound u c q k g hp
    · rw [g] at hp; cases hp
  · intro u u' c c' q k k' hu hu' hp hp'
    rcases split u c hu with g | g
    · rcases split u' c' hu' with g' | g'
      · exact h.uniq u u' c c' q k k' g g' hp hp'
      · rw [g'] at hp'; cases hp'
    · rw [g] at hp; cases hp

/-- `handle_open` after creating the SubChannel object and registering it -/
def pushOpen (scid : Nat) (name : String) (s : Side) : Side :=
  { s with subs := s.subs ++ [SC.new scid name], open_ := s.open_ ++ [(scid, s.subs.length)] }

theorem sub_lt_of_some {s : Side} {u : Nat} {c : SC} (h : s.subs[u]? = some c) : u < s.subs.length := by
  rcases Nat.lt_or_ge u s.subs.length with hlt | hge
  · exact hlt
  · rw [List.getElem?_eq_none hge] at h; cases h

theorem pushOpen_sinv {s : Side} (h : SInv s) (scid : Nat) (name : String) (hnew : lookup scid s.open_ = none) :
    SInvX [s.subs.length] (pushOpen scid name s) := by
  have hwf : WF (pushOpen scid name s) := wf_push h.wf scid name rfl rfl
  have hget : ∀ u : Nat, (pushOpen scid name s).subs[u]? =
      if u < s.subs.length then s.subs[u]? else if u = s.subs.length then some (SC.new scid name) else none :=
    fun u => getElem?_push _ _ u
  have old : ∀ (u : Nat) (c : SC), s.subs[u]? = some c → (pushOpen scid name s).subs[u]? = some c := by
    intro u c hu; rw [hget, if_pos (sub_lt_of_some hu)]; exact hu
  have split : ∀ (u : Nat) (c : SC), (pushOpen scid name s).subs[u]? = some c →
      s.subs[u]? = some c ∨ (u = s.subs.length ∧ c = SC.new scid name) := by
    intro u c hu
    rw [hget] at hu
    by_cases h1 : u < s.subs.length
    · rw [if_pos h1] at hu; exact Or.inl hu
    · rw [if_neg h1] at hu
      by_cases h2 : u = s.subs.length
      · rw [if_pos h2] at hu; exact Or.inr ⟨h2, (Option.some.inj hu).symm⟩
      · rw [if_neg h2] at hu; cases hu
  have hopen : (pushOpen scid name s).open_ = s.open_ ++ [(scid, s.subs.length)] := rfl
  have lk : ∀ (k v : Nat), lookup k (s.open_ ++ [(scid, s.subs.length)]) = some v →
      lookup k s.open_ = some v ∨ (lookup k s.open_ = none ∧ k = scid ∧ v = s.subs.length) := by
    intro k v hl
    cases hk : lookup k s.open_ with
    | some v0 => rw [lookup_append_left k v0 _ _ hk] at hl; exact Or.inl hl
    | none =>
      rw [lookup_append_none k _ _ hk] at hl
      by_cases hks : scid = k
      · simp [lookup, hks] at hl; exact Or.inr ⟨rfl, hks.symm, hl.symm⟩
      · simp [lookup, hks] at hl
  refine ⟨hwf, ?_, ?_, h.pendKeys, ?_, ?_, ?_, ?_, ?_, h.buildOnce⟩
  · rw [hopen, List.map_append]
    refine List.nodup_append.mpr ⟨h.openKeys, by simp, ?_⟩
    intro a ha b hb
    simp at hb; subst hb
    intro hab; subst hab
    exact lookup_none_not_mem _ _ hnew ha
  · intro k v hl
    rcases lk k v hl with g | ⟨_, rfl, rfl⟩
    · obtain ⟨c, hc, hs⟩ := h.openOK k v g
      exact ⟨c, old v c hc, hs⟩
    · exact ⟨SC.new k name, by rw [hget]; simp, rfl⟩
  · intro n us hl
    obtain ⟨g1, g2, g3⟩ := h.pendOK n us hl
    refine ⟨g1, g2, ?_⟩
    intro u hu
    obtain ⟨_, c, hc, hn, hp, hlk⟩ := g3 u hu
    refine ⟨?_, c, old u c hc, hn, hp, lookup_append_left _ _ _ _ hlk⟩
    have := sub_lt_of_some hc
    simp; omega
  · intro u c hu hp
    rcases split u c hu with g | ⟨_, rfl⟩
    · exact h.unconn u c g hp
    · exact ⟨rfl, rfl⟩
  · intro u c hu hp
    rcases split u c hu with g | ⟨rfl, _⟩
    · rcases h.fate u c g hp with g' | g' | ⟨g1, g2⟩
      · simp at g'
      · exact Or.inr (Or.inl g')
      · refine Or.inr (Or.inr ⟨?_, g2⟩)
        intro k hk
        rcases lk k u hk with g'' | ⟨_, _, rfl⟩
        · exact g1 k g''
        · exact absurd (sub_lt_of_some g) (Nat.lt_irrefl _)
    · exact Or.inl (by simp)
  · intro u hu
    simp at hu; subst hu
    exact ⟨SC.new scid name, by rw [hget]; simp, rfl, lookup_append_new' _ _ _ hnew⟩
  · intro p hp
    obtain ⟨u, c, k, hc, hpr, hb⟩ := h.built p hp
    exact ⟨u, c, k, old u c hc, hpr, hb⟩

/-- a SubChannel object that nobody will ever reach (refused OPEN, or a `connect()` whose id was
    already taken) is added; the log gets no `buildProtocol` -/
theorem sinv_push_dropped {s s' : Side} (h : SInv s) (scid : Nat) (name : String)
    (hsubs : s'.subs = s.subs ++ [SC.new scid name]) (hopen : s'.open_ = s.open_) (hfac : s'.factories = s.factories)
    (hpend : s'.pendingOpens = s.pendingOpens) (hexp : s'.expected = s.expected) (hpc : s'.protoCount = s.protoCount)
    (hl : s'.leader = s.leader) (l : List Eff) (hlog : s'.log = s.log ++ l) (hb : ∀ p, buildCount p l = 0)
    (hwhy : Refusable s name ∨ scid ∈ openIds s'.log) : SInv s' := by
  have hwf : WF s' := wf_push h.wf scid name hsubs hpc
  have hget : ∀ u : Nat, s'.subs[u]? =
      if u < s.subs.length then s.subs[u]? else if u = s.subs.length then some (SC.new scid name) else none := by
    intro u; rw [hsubs]; exact getElem?_push _ _ u
  have old : ∀ (u : Nat) (c : SC), s.subs[u]? = some c → s'.subs[u]? = some c := by
    intro u c hu; rw [hget, if_pos (sub_lt_of_some hu)]; exact hu
  have split : ∀ (u : Nat) (c : SC), s'.subs[u]? = some c →
      s.subs[u]? = some c ∨ (u = s.subs.length ∧ c = SC.new scid name) := by
    intro u c hu
    rw [hget] at hu
    by_cases h1 : u < s.subs.length
    · rw [if_pos h1] at hu; exact Or.inl hu
    · rw [if_neg h1] at hu
      by_cases h2 : u = s.subs.length
      · rw [if_pos h2] at hu; exact Or.inr ⟨h2, (Option.some.inj hu).symm⟩
      · rw [if_neg h2] at hu; cases hu
  refine ⟨hwf, by rw [hopen]; exact h.openKeys, ?_, by rw [hpend]; exact h.pendKeys, ?_, ?_, ?_, fun u hu => by simp at hu, ?_, ?_⟩
  · intro k v hlk
    rw [hopen] at hlk
    obtain ⟨c, hc, hs⟩ := h.openOK k v hlk
    exact ⟨c, old v c hc, hs⟩
  · intro n us hlk
    rw [hpend] at hlk
    obtain ⟨g1, g2, g3⟩ := h.pendOK n us hlk
    refine ⟨by rw [hfac]; exact g1, g2, ?_⟩
    intro u hu
    obtain ⟨gx, c, hc, hn, hp, hlk'⟩ := g3 u hu
    exact ⟨gx, c, old u c hc, hn, hp, by rw [hopen]; exact hlk'⟩
  · intro u c hu hp
    rcases split u c hu with g | ⟨_, rfl⟩
    · exact h.unconn u c g hp
    · exact ⟨rfl, rfl⟩
  · intro u c hu hp
    rcases split u c hu with g | ⟨rfl, rfl⟩
    · rcases h.fate u c g hp with g' | g' | ⟨g1, g2⟩
      · simp at g'
      · exact Or.inr (Or.inl (by rw [hpend]; exact g'))
      · refine Or.inr (Or.inr ⟨by rw [hopen]; exact g1, ?_⟩)
        rcases g2 with ⟨ex, h1, h2⟩ | g2
        · exact Or.inl ⟨ex, by rw [hexp]; exact h1, h2⟩
        · exact Or.inr (by rw [hlog, openIds_append]; exact List.mem_append_left _ g2)
    · refine Or.inr (Or.inr ⟨?_, ?_⟩)
      · intro k hk
        rw [hopen] at hk
        obtain ⟨c, hc, _⟩ := h.openOK k _ hk
        exact absurd (sub_lt_of_some hc) (Nat.lt_irrefl _)
      · rcases hwhy with ⟨ex, h1, h2⟩ | g2
        · exact Or.inl ⟨ex, by rw [hexp]; exact h1, h2⟩
        · exact Or.inr g2
  · intro p hp
    rw [hpc] at hp
    obtain ⟨u, c, k, hc, hpr, hb'⟩ := h.built p hp
    exact ⟨u, c, k, old u c hc, hpr, by rw [hlog]; exact List.mem_append_left _ hb'⟩
  · intro p; rw [hlog, buildCount_append, hb p, hpc, Nat.add_zero]; exact h.buildOnce p

/-- `_pending_opens[name].append(…)` for the SubChannel in flight -/
theorem pend_sinv {s1 : Side} (uid : Nat) (name : String) (h : SInvX [uid] s1) (c : SC)
    (hc : s1.subs[uid]? = some c) (hname : c.name = name) (hfac : lookup name s1.factories = none) :
    SInv ({ s1 with pendingOpens := appendAt name uid s1.pendingOpens } : Side) := by
  obtain ⟨c0, hc0, hp0, hl0⟩ := h.inflight uid (by simp)
  rw [hc] at hc0; cases hc0
  have hla : lookup name (appendAt name uid s1.pendingOpens) = some (pendingFor name s1.pendingOpens ++ [uid]) :=
    lookup_appendAt name uid _
  refine ⟨⟨h.wf.bound, h.wf.uniq⟩, h.openKeys, h.openOK, keys_nodup_appendAt _ _ _ h.pendKeys, ?_, h.unconn, ?_,
    fun u hu => by simp at hu, h.built, h.buildOnce⟩
  · intro n us hl
    by_cases hn : n = name
    · subst hn
      have hl' : lookup n (appendAt n uid s1.pendingOpens) = some us := hl
      rw [hla] at hl'
      have hus := (Option.some.inj hl').symm
      subst hus
      have oldm : ∀ u ∈ pendingFor n s1.pendingOpens, u ≠ uid ∧ ∃ c : SC, s1.subs[u]? = some c ∧ c.name = n ∧
          c.proto = none ∧ lookup c.scid s1.open_ = some u := by
        intro u hu
        obtain ⟨us0, hl0', hm⟩ := mem_pendingFor hu
        obtain ⟨_, _, g3⟩ := h.pendOK n us0 hl0'
        obtain ⟨gx, g⟩ := g3 u hm
        exact ⟨fun hh => gx (by simp [hh]), g⟩
      have oldnd : (pendingFor n s1.pendingOpens).Nodup := by
        unfold pendingFor
        cases hl0' : lookup n s1.pendingOpens with
        | none => simp
        | some us0 => exact (h.pendOK n us0 hl0').2.1
      refine ⟨hfac, ?_, ?_⟩
      · refine List.nodup_append.mpr ⟨oldnd, by simp, ?_⟩
        intro a ha b hb
        simp at hb; subst hb
        exact (oldm a ha).1
      · intro u hu
        rcases List.mem_append.mp hu with hu | hu
        · exact ⟨by simp, (oldm u hu).2⟩
        · simp at hu; subst hu
          exact ⟨by simp, c, hc, hname, hp0, hl0⟩
    · have hl' : lookup n s1.pendingOpens = some us := by
        have : lookup n (appendAt name uid s1.pendingOpens) = some us := hl
        rw [lookup_appendAt_ne _ _ _ hn] at this; exact this
      obtain ⟨g1, g2, g3⟩ := h.pendOK n us hl'
      exact ⟨g1, g2, fun u hu => ⟨by simp, (g3 u hu).2⟩⟩
  · intro u x hu hp
    have goal : ∀ (hm : u ∈ pendingFor x.name s1.pendingOpens), u ∈ pendingFor x.name (appendAt name uid s1.pendingOpens) := by
      intro hm
      by_cases hn : x.name = name
      · rw [hn] at hm ⊢
        unfold pendingFor at hm ⊢
        rw [hla]
        exact List.mem_append_left _ hm
      · unfold pendingFor at hm ⊢
        rw [lookup_appendAt_ne _ _ _ hn]; exact hm
    rcases h.fate u x hu hp with g | g | g
    · have hu' : u = uid := by simpa using g
      rw [hu', hc] at hu
      cases hu
      refine Or.inr (Or.inl ?_)
      rw [hu']
      show uid ∈ pendingFor c.name (appendAt name uid s1.pendingOpens)
      rw [hname]
      unfold pendingFor
      rw [hla]; simp
    · exact Or.inr (Or.inl (goal g))
    · exact Or.inr (Or.inr g)

theorem handleOpen_refused (s s2 : Side) (scid : Nat) (name : String) (hnew : lookup scid s.open_ = none)
    (h : gotOpen s.subs.length name (pushOpen scid name s) = (s2, some .unexpectedSubprotocol)) :
    handleOpen scid name s =
      (let s3 := sendRec (fun q => Eff.txClose q scid) s2
       if (lookup scid s3.open_).isSome then ({ s3 with open_ := eraseKey scid s3.open_ }, none)
       else (s3, some .keyError)) := by
  unfold handleOpen
  simp only [hnew, Option.isSome, Bool.false_eq_true, if_false]
  have : gotOpen s.subs.length name
      { s with subs := s.subs ++ [SC.new scid name], open_ := s.open_ ++ [(scid, s.subs.length)] } =
      (s2, some .unexpectedSubprotocol) := h
  rw [this]

theorem handleOpen_sinv {s : Side} (h : SInv s) (scid : Nat) (name : String) : SInv (handleOpen scid name s).1 := by
  cases hnew : lookup scid s.open_ with
  | some v =>
    have : handleOpen scid name s = (emit (.logErr "DuplicateOpenError") s, none) := by
      unfold handleOpen; simp [hnew]
    rw [this]
    exact sinv_quiet h rfl rfl rfl rfl rfl rfl [_] rfl (fun _ => rfl)
  | none =>
    have h1 := pushOpen_sinv h scid name hnew
    have hc1 : (pushOpen scid name s).subs[s.subs.length]? = some (SC.new scid name) := by simp [pushOpen]
    cases hfac : lookup name s.factories with
    | some k =>
      obtain ⟨s', hs', h'⟩ := connectSC_sinv h1 s.subs.length (by simp) k
      have hgo : gotOpen s.subs.length name (pushOpen scid name s) = (s', none) := by
        unfold gotOpen
        have : (pushOpen scid name s).factories = s.factories := rfl
        rw [this, hfac]; exact hs'
      rw [handleOpen_of_gotOpen_ok s s' scid name hnew hgo]
      simpa using h'
    | none =>
      have hfac1 : lookup name (pushOpen scid name s).factories = none := hfac
      by_cases hall : ∀ ex, wired s.expected = some ex → ex.contains name = true
      · have hgo : gotOpen s.subs.length name (pushOpen scid name s) =
            ({ pushOpen scid name s with pendingOpens := appendAt name s.subs.length (pushOpen scid name s).pendingOpens }, none) := by
          unfold gotOpen
          rw [hfac1]
          simp only [Side.demuxExpected]
          have : (pushOpen scid name s).expected = s.expected := rfl
          rw [this]
          cases hw : wired s.expected with
          | none => rfl
          | some ex => simp only [hall ex hw, if_true]
        rw [handleOpen_of_gotOpen_ok s _ scid name hnew hgo]
        exact pend_sinv s.subs.length name h1 _ hc1 rfl hfac1
      · have hex : ∃ ex, wired s.expected = some ex ∧ ex.contains name = false := by
          cases hw : wired s.expected with
          | none => exact absurd (fun ex hh => by rw [hw] at hh; cases hh) hall
          | some ex =>
            refine ⟨ex, rfl, ?_⟩
            cases hcn : ex.contains name with
            | false => rfl
            | true => exact absurd (fun ex' hh => by rw [hw] at hh; cases hh; exact hcn) hall
        obtain ⟨ex, hw, hcn⟩ := hex
        have hgo : gotOpen s.subs.length name (pushOpen scid name s) =
            (pushOpen scid name s, some .unexpectedSubprotocol) := by
          unfold gotOpen
          rw [hfac1]
          simp only [Side.demuxExpected]
          have : (pushOpen scid name s).expected = s.expected := rfl
          rw [this, hw]
          simp only [hcn, Bool.false_eq_true, if_false]
        rw [handleOpen_refused s _ scid name hnew hgo]
        have hlk : (lookup scid (sendRec (fun q => Eff.txClose q scid) (pushOpen scid name s)).open_).isSome = true :=
          lookup_append_new scid s.subs.length s.open_
        simp only [hlk, if_true]
        refine sinv_push_dropped h scid name rfl ?_ rfl rfl rfl rfl rfl [.txClose s.nextSeq scid] rfl (fun _ => rfl)
          (Or.inl ⟨ex, hw, hcn⟩)
        exact eraseKey_append_new scid s.subs.length s.open_ hnew

theorem handleData_sinv {s : Side} (h : SInv s) (scid : Nat) (d : Bytes) : SInv (handleData scid d s).1 := by
  unfold handleData
  split
  · exact sinv_quiet h rfl rfl rfl rfl rfl rfl [_] rfl (fun _ => rfl)
  · exact scInput_sinv h _ _ _ rfl

theorem handleClose_sinv {s : Side} (h : SInv s) (scid : Nat) : SInv (handleClose scid s).1 := by
  unfold handleClose
  split
  · exact sinv_quiet h rfl rfl rfl rfl rfl rfl [_] rfl (fun _ => rfl)
  · exact scInput_sinv h _ _ _ rfl

theorem gotRecord_sinv {s : Side} (h : SInv s) (seq : Nat) (handle : Side → Res)
    (hh : ∀ s1, SInv s1 → SInv (handle s1).1) : SInv (gotRecord seq handle s).1 := by
  have h1 : SInv (emit (.ack seq) s) := sinv_quiet h rfl rfl rfl rfl rfl rfl [_] rfl (fun _ => rfl)
  have key : ∀ (b : Bool) (h' : Option Nat),
      SInv (if b = true then (emit (.ack seq) s, none) else handle { emit (.ack seq) s with highestAcked := h' }).1 := by
    intro b h'
    cases b with
    | true => exact h1
    | false =>
      simp only [Bool.false_eq_true, if_false]
      exact hh _ (sinv_quiet h1 rfl rfl rfl rfl rfl rfl [] (by simp) (fun _ => rfl))
  unfold gotRecord
  exact key _ _

theorem connectTail_spec (s : Side) (uid : Nat) (c : SC) (name : String) (k : PKind)
    (hc : s.subs[uid]? = some c) (hst : c.st = .unconnected) (hp : c.proto = none) (hname : c.name = name) :
    ∃ s' : Side, connectTail name k uid s = (s', none) ∧ ConnRes s s' uid c k [] false := by
  let st' : SubChannel.State := if k = .half then .open_half else .open_full
  let i : SubChannel.Input := if k = .half then .connect_protocol_half else .connect_protocol_full
  have ht : SubChannel.table .unconnected i = some (st', []) := by
    cases k <;> rfl
  let s1 := updSC uid (fun c0 => { c0 with proto := some (s.protoCount, k) }) (buildProtocol name s)
  have hc1 : s1.subs[uid]? = some { c with proto := some (s.protoCount, k) } := by
    simp [s1, updSC, buildProtocol, emit, getElem?_modifyAt, hc]
  have hset : setProtocol uid s.protoCount k (buildProtocol name s) =
      (updSC uid (fun c0 => { c0 with st := st' }) s1, none) := by
    unfold setProtocol
    have : (buildProtocol name s).subs[uid]? = some c := hc
    rw [this]
    simp only [hp, Option.isSome, Bool.false_eq_true, if_false]
    rw [scInput_eq_row [] hc1 (by simpa [hst] using ht)]
    rfl
  refine ⟨emit (.made s.protoCount) (updSC uid (fun c0 => { c0 with st := st' }) s1), ?_, ?_, rfl, by simp [emit, updSC, s1, buildProtocol],
    ⟨rfl, rfl, rfl, rfl, rfl, rfl, rfl⟩, ?_, by simp [emit, updSC, s1, buildProtocol], ?_, ?_⟩
  rotate_right
  · intro c' hc'
    simp [emit, updSC, getElem?_modifyAt, hc1] at hc'
    subst hc'
    simp [st']
  · unfold connectTail
    simp only [hset, andThen_none]
  · simp [emit, updSC, s1, buildProtocol, pendEffs, hname]
  · intro u hu; simp [emit, updSC, s1, buildProtocol, getElem?_modifyAt, hu]
  · refine ⟨{ c with proto := some (s.protoCount, k), st := st' }, ?_, rfl, rfl, rfl, ?_, ?_⟩
    · simp [emit, updSC, getElem?_modifyAt, hc1]
    · cases k <;> simp [st']
    · cases k <;> simp [st']

theorem connect_sinv {s : Side} (h : SInv s) (name : String) (k : PKind) : SInv (connect name k s).1 := by
  unfold connect
  split
  · exact h
  · simp only []
    split
    · -- the id is already taken (by a protocol-violating inbound OPEN): AssertionError, the object is garbage
      refine sinv_push_dropped h s.nextScid name rfl rfl rfl rfl rfl rfl rfl [.txOpen s.nextSeq s.nextScid name] rfl
        (fun _ => rfl) (Or.inr ?_)
      show s.nextScid ∈ openIds (s.log ++ [Eff.txOpen s.nextSeq s.nextScid name])
      rw [openIds_append]; simp [openIds]
    · rename_i hnew
      have h0 : SInv (sendRec (fun q => Eff.txOpen q s.nextScid name) { s with nextScid := s.nextScid + 2 }) :=
        sinv_quiet h rfl rfl rfl rfl rfl rfl [_] rfl (fun _ => rfl)
      have hnew' : lookup s.nextScid s.open_ = none := by
        cases hl : lookup s.nextScid s.open_ with
        | none => rfl
        | some v =>
          have : (lookup s.nextScid s.open_).isSome = true := by rw [hl]; rfl
          exact absurd this hnew
      have h1 := pushOpen_sinv h0 s.nextScid name hnew'
      have hc1 : (pushOpen s.nextScid name
          (sendRec (fun q => Eff.txOpen q s.nextScid name) { s with nextScid := s.nextScid + 2 })).subs[s.subs.length]? =
          some (SC.new s.nextScid name) := by simp [pushOpen, sendRec, emit]
      obtain ⟨s', hs', r⟩ := connectTail_spec _ s.subs.length _ name k hc1 rfl rfl rfl
      have hwf : WF s' := by
        have := (connectTail_evo h1.wf name s.subs.length k).wf
        rw [hs'] at this; exact this
      have := sinv_of_connRes h1 s.subs.length (by simp [sendRec, emit]) _ k [] false hc1 rfl r hwf
      have hs'' : connectTail name k s.subs.length (pushOpen s.nextScid name
          (sendRec (fun q => Eff.txOpen q s.nextScid name) { s with nextScid := s.nextScid + 2 })) = (s', none) := hs'
      show SInv (connectTail name k s.subs.length (pushOpen s.nextScid name
          (sendRec (fun q => Eff.txOpen q s.nextScid name) { s with nextScid := s.nextScid + 2 }))).1
      rw [hs'']
      simpa [sendRec, emit] using this

theorem gotRecordNoAck_sinv {s : Side} (h : SInv s) (seq : Nat) (handle : Side → Res)
    (hh : ∀ s1, SInv s1 → SInv (handle s1).1) : SInv (gotRecordNoAck seq handle s).1 := by
  have key : ∀ (b : Bool) (h' : Option Nat),
      SInv (if b = true then (s, none) else handle { s with highestAcked := h' }).1 := by
    intro b h'
    cases b with
    | true => exact h
    | false =>
      simp only [Bool.false_eq_true, if_false]
      exact hh _ (sinv_quiet h rfl rfl rfl rfl rfl rfl [] (by simp) (fun _ => rfl))
  unfold gotRecordNoAck
  exact key _ _

theorem Rx.handler_sinv (r : Rx) {s : Side} (h : SInv s) : SInv (r.handler s).1 := by
  cases r with
  | opn q scid name => exact handleOpen_sinv h scid name
  | data q scid d => exact handleData_sinv h scid d
  | close q scid => exact handleClose_sinv h scid

theorem selectRun_sinv : ∀ (rs : List Rx) (s : Side), SInv s → SInv (selectRun rs s).1
  | [], _, h => h
  | r :: rs, s, h => by
    have h1 := gotRecordNoAck_sinv h r.seq r.handler (fun _ h' => r.handler_sinv h')
    unfold selectRun
    cases hr : gotRecordNoAck r.seq r.handler s with
    | mk s' e =>
      rw [hr] at h1
      cases e with
      | none => exact selectRun_sinv rs s' h1
      | some err => exact sinv_quiet h1 rfl rfl rfl rfl rfl rfl [] (by simp) (fun _ => rfl)

theorem step_sinv {s : Side} (h : SInv s) (o : Op) : SInv (step s o).1 := by
  cases o with
  | connect name k => exact connect_sinv h name k
  | listen name k => exact register_sinv h name k
  | write pid d =>
    simp only [step]
    split
    · exact h
    · exact scInput_sinv h _ _ _ rfl
  | lose pid =>
    simp only [step]
    split
    · exact h
    · split
      · exact h
      · exact scInput_sinv h _ _ _ rfl
  | loseWrite pid =>
    simp only [step]
    split
    · exact h
    · split
      · exact scInput_sinv h _ _ _ rfl
      · exact h
  | rxOpen seq scid name => exact gotRecord_sinv h seq _ (fun _ h1 => handleOpen_sinv h1 scid name)
  | rxData seq scid d => exact gotRecord_sinv h seq _ (fun _ h1 => handleData_sinv h1 scid d)
  | rxClose seq scid => exact gotRecord_sinv h seq _ (fun _ h1 => handleClose_sinv h1 scid)
  | park r => exact sinv_quiet h rfl rfl rfl rfl rfl rfl [] (by simp [step]) (fun _ => rfl)
  | select =>
    exact selectRun_sinv s.parked _ (sinv_quiet h rfl rfl rfl rfl rfl rfl [] (by simp) (fun _ => rfl))
  | lost => exact sinv_quiet h rfl rfl rfl rfl rfl rfl [] (by simp [step]) (fun _ => rfl)

theorem run_sinv : ∀ (ops : List Op) (s : Side), SInv s → SInv (run s ops)
  | [], _, h => h
  | o :: os, _, h => run_sinv os _ (step_sinv h o)

theorem SInv_init (l : Bool) (f : Nat) (ex : Option (List String)) : SInv (Side.init l f ex) := by
  refine ⟨WF_init l f ex, by simp [Side.init], ?_, by simp [Side.init], ?_, ?_, ?_, fun u hu => by simp at hu, ?_, ?_⟩
  · intro k v h; simp [Side.init, lookup] at h
  · intro n us h; simp [Side.init, lookup] at h
  · intro u c h; simp [Side.init] at h
  · intro u c h; simp [Side.init] at h
  · intro p hp; simp [Side.init] at hp
  · intro p; simp [Side.init, buildCount]

/-! ## what one inbound DATA / CLOSE record does to the SubChannel it is routed to -/

def reading (st : SubChannel.State) : Bool :=
  st == .open_full || st == .closing || st == .open_half || st == .write_closed

theorem handleData_connected (s : Side) (scid uid : Nat) (d : Bytes) (c : SC) (pb : Nat) (k : PKind)
    (hl : lookup scid s.open_ = some uid) (hc : s.subs[uid]? = some c) (hp : c.proto = some (pb, k))
    (hst : reading c.st = true) :
    ∃ s' : Side, handleData scid d s = (s', none) ∧ s'.log = s.log ++ [.data pb d] ∧ s'.open_ = s.open_ ∧
      s'.subs[uid]? = some c ∧ (∀ u : Nat, u ≠ uid → s'.subs[u]? = s.subs[u]?) ∧ Same s s' ∧
      s'.nextSeq = s.nextSeq ∧ s'.protoCount = s.protoCount ∧ s'.parked = s.parked := by
  have ht : SubChannel.table c.st .remote_data = some (c.st, [.signal_dataReceived]) := by
    cases hcs : c.st <;> rw [hcs] at hst <;> simp [reading] at hst <;> rfl
  have hc1 : (updSC uid (fun c0 => { c0 with st := c.st }) s).subs[uid]? = some { c with st := c.st } := by
    simp [updSC, getElem?_modifyAt, hc]
  have hstep : scInput uid .remote_data d s =
      (emit (.data pb d) (updSC uid (fun c0 => { c0 with st := c.st }) s), none) := by
    rw [scInput_eq_row d hc ht]
    simp only [runOuts]
    have : runOut uid d .signal_dataReceived (updSC uid (fun c0 => { c0 with st := c.st }) s) =
        (emit (.data pb d) (updSC uid (fun c0 => { c0 with st := c.st }) s), none) := by
      unfold runOut; rw [hc1]; simp only [hp]
    rw [this]; rfl
  refine ⟨emit (.data pb d) (updSC uid (fun c0 => { c0 with st := c.st }) s),
    by unfold handleData; rw [hl]; exact hstep, rfl, rfl, hc1, ?_, ⟨rfl, rfl, rfl, rfl, rfl, rfl, rfl⟩, rfl, rfl, rfl⟩
  intro u hu; simp [emit, updSC, getElem?_modifyAt, hu]

theorem handleData_queued (s : Side) (scid uid : Nat) (d : Bytes) (c : SC) (l : List Bytes)
    (hl : lookup scid s.open_ = some uid) (hc : s.subs[uid]? = some c) (hst : c.st = .unconnected)
    (hd : c.pendingData = some l) :
    ∃ s' : Side, handleData scid d s = (s', none) ∧ s'.log = s.log ∧ s'.open_ = s.open_ ∧
      s'.subs[uid]? = some { c with pendingData := some (l ++ [d]) } ∧ (∀ u : Nat, u ≠ uid → s'.subs[u]? = s.subs[u]?) := by
  have ht : SubChannel.table c.st .remote_data = some (.unconnected, [.queue_remote_data]) := by rw [hst]; rfl
  have hc1 : (updSC uid (fun c0 => { c0 with st := .unconnected }) s).subs[uid]? = some { c with st := .unconnected } := by
    simp [updSC, getElem?_modifyAt, hc]
  have hstep : scInput uid .remote_data d s =
      (updSC uid (fun c0 => { c0 with pendingData := some (l ++ [d]) }) (updSC uid (fun c0 => { c0 with st := .unconnected }) s), none) := by
    rw [scInput_eq_row d hc ht]
    simp only [runOuts]
    have : runOut uid d .queue_remote_data (updSC uid (fun c0 => { c0 with st := .unconnected }) s) =
        (updSC uid (fun c0 => { c0 with pendingData := some (l ++ [d]) }) (updSC uid (fun c0 => { c0 with st := .unconnected }) s), none) := by
      unfold runOut; rw [hc1]; simp only [hd]
    rw [this]; rfl
  refine ⟨updSC uid (fun c0 => { c0 with pendingData := some (l ++ [d]) }) (updSC uid (fun c0 => { c0 with st := .unconnected }) s),
    by unfold handleData; rw [hl]; exact hstep, rfl, rfl, ?_, ?_⟩
  · simp [updSC, getElem?_modifyAt, hc, ← hst]
  · intro u hu; simp [updSC, getElem?_modifyAt, hu]

/-- operations of an honest world: application calls and in-order delivery only — no record is
    injected from outside -/
def WOp.honest : WOp → Bool
  | .onA (.rxOpen ..) | .onA (.rxData ..) | .onA (.rxClose ..) => false
  | .onB (.rxOpen ..) | .onB (.rxData ..) | .onB (.rxClose ..) => false
  | _ => true

/-! ## records parked between the KCM and `select()`; connection loss -/

theorem gotRecordNoAck_fresh (s : Side) (seq : Nat) (handle : Side → Res)
    (hseq : ∀ h, s.highestAcked = some h → h < seq) :
    ∃ hi : Nat, seq ≤ hi ∧ gotRecordNoAck seq handle s = handle { s with highestAcked := some hi } := by
  cases hh : s.highestAcked with
  | none => exact ⟨seq, Nat.le_refl _, by simp [gotRecordNoAck, hh]⟩
  | some h =>
    have hlt : ¬ seq ≤ h := by have := hseq h hh; omega
    exact ⟨max h seq, Nat.le_max_right _ _, by simp [gotRecordNoAck, hh, hlt]⟩

theorem gotRecordNoAck_fresh' (s : Side) (seq : Nat) (handle : Side → Res)
    (hseq : ∀ h, s.highestAcked = some h → h < seq) :
    gotRecordNoAck seq handle s = handle { s with highestAcked := some seq } := by
  cases hh : s.highestAcked with
  | none => simp [gotRecordNoAck, hh]
  | some h =>
    have hlt := hseq h hh
    have h1 : ¬ seq ≤ h := by omega
    have h2 : max h seq = seq := Nat.max_eq_right (by omega)
    simp [gotRecordNoAck, hh, h1, h2]

theorem gotRecordNoAck_old (s : Side) (seq h : Nat) (handle : Side → Res)
    (hw : s.highestAcked = some h) (hold : seq ≤ h) : gotRecordNoAck seq handle s = (s, none) := by
  simp [gotRecordNoAck, hw, hold]

theorem gotRecord_old (s : Side) (seq h : Nat) (handle : Side → Res)
    (hw : s.highestAcked = some h) (hold : seq ≤ h) : gotRecord seq handle s = (emit (.ack seq) s, none) := by
  simp [gotRecord, emit, hw, hold]

/-- a burst consisting only of records that were already processed is dropped whole -/
theorem selectRun_old (h : Nat) : ∀ (rs : List Rx) (s : Side), s.highestAcked = some h → (∀ r ∈ rs, r.seq ≤ h) →
    selectRun rs s = (s, none)
  | [], _, _, _ => rfl
  | r :: rs, s, hw, hold => by
    unfold selectRun
    rw [gotRecordNoAck_old s r.seq h r.handler hw (hold r (by simp))]
    exact selectRun_old h rs s hw (fun x hx => hold x (by simp [hx]))

theorem run_parks (rs : List Rx) : ∀ (s : Side), run s (rs.map Op.park) = { s with parked := s.parked ++ rs } := by
  induction rs with
  | nil => intro s; simp [run]
  | cons r rs ih =>
    intro s
    simp only [List.map_cons, run, step]
    rw [ih]
    simp

/-- `handle_open` for a name somebody listens for, on a free id -/
theorem handleOpen_listener (s : Side) (k : PKind) (scid : Nat) (name : String)
    (hfac : lookup name s.factories = some k) (hnew : lookup scid s.open_ = none) :
    ∃ s' : Side, handleOpen scid name s = (s', none) ∧
      ConnRes (pushOpen scid name s) s' s.subs.length (SC.new scid name) k [] false := by
  have hc : (pushOpen scid name s).subs[s.subs.length]? = some (SC.new scid name) := by simp [pushOpen]
  obtain ⟨s', hs', r⟩ := connectSC_spec (pushOpen scid name s) s.subs.length (SC.new scid name) k [] false hc rfl rfl rfl rfl
    (fun h => by cases h)
  have hgo : gotOpen s.subs.length name (pushOpen scid name s) = (s', none) := by
    unfold gotOpen
    have : (pushOpen scid name s).factories = s.factories := rfl
    rw [this, hfac]; exact hs'
  exact ⟨s', handleOpen_of_gotOpen_ok s s' scid name hnew hgo, r⟩

/-- CLOSE for a registered SubChannel whose normal protocol is connected and has not closed
    locally: CLOSE is answered, the SubChannel is unregistered, the protocol gets connectionLost -/
theorem handleClose_openFull (s : Side) (scid uid : Nat) (c : SC) (pb : Nat)
    (hl : lookup scid s.open_ = some uid) (hc : s.subs[uid]? = some c) (hsc : c.scid = scid)
    (hp : c.proto = some (pb, .full)) (hst : c.st = .open_full) :
    ∃ s' : Side, handleClose scid s = (s', none) ∧ s'.log = s.log ++ [.txClose s.nextSeq scid, .lost pb] ∧
      s'.open_ = eraseKey scid s.open_ ∧ s'.pendingOpens = s.pendingOpens ∧ s'.protoCount = s.protoCount := by
  have ht : SubChannel.table c.st .remote_close =
      some (.closed, [.send_close, .close_subchannel, .signal_connectionLost]) := by rw [hst]; rfl
  let s6 := updSC uid (fun c0 => { c0 with st := .closed }) s
  have hc6 : s6.subs[uid]? = some { c with st := .closed } := by
    simp [s6, updSC, getElem?_modifyAt, hc]
  let s7 := sendRec (fun q => Eff.txClose q c.scid) s6
  have h7 : runOut uid [] .send_close s6 = (s7, none) := by
    unfold runOut; rw [hc6]
  have hc7 : s7.subs[uid]? = some { c with st := .closed } := hc6
  let s8 : Side := { s7 with open_ := eraseKey c.scid s7.open_ }
  have h8 : runOut uid [] .close_subchannel s7 = (s8, none) := by
    have hlk7 : lookup c.scid s7.open_ = some uid := by rw [hsc]; exact hl
    unfold runOut; rw [hc7]
    simp only [hlk7, if_true]
    rfl
  have hc8 : s8.subs[uid]? = some { c with st := .closed } := hc6
  have h9 : runOut uid [] .signal_connectionLost s8 = (emit (.lost pb) s8, none) := by
    unfold runOut; rw [hc8]; simp only [hp]
  have hin : scInput uid .remote_close [] s = (emit (.lost pb) s8, none) := by
    rw [scInput_eq_row [] hc ht]
    simp only [runOuts]
    rw [show updSC uid (fun c0 => { c0 with st := SubChannel.State.closed }) s = s6 from rfl, h7, andThen_none, h8,
      andThen_none, h9]
    rfl
  refine ⟨emit (.lost pb) s8, by unfold handleClose; rw [hl]; exact hin, ?_, ?_, rfl, rfl⟩
  · simp [emit, s8, s7, s6, sendRec, updSC, hsc]
  · simp [emit, s8, s7, s6, sendRec, updSC, hsc]

/-- `handle_open` with a listener for a normal protocol: the new SubChannel ends up connected, in `open_full` -/
theorem handleOpen_listener_full (s : Side) (scid : Nat) (name : String)
    (hfac : lookup name s.factories = some .full) (hnew : lookup scid s.open_ = none) :
    ∃ (s' : Side) (c' : SC), handleOpen scid name s = (s', none) ∧
      s'.log = s.log ++ [.build s.protoCount name, .made s.protoCount] ∧
      s'.subs[s.subs.length]? = some c' ∧ c'.st = .open_full ∧ c'.proto = some (s.protoCount, .full) ∧ c'.scid = scid ∧
      lookup scid s'.open_ = some s.subs.length ∧ s'.open_ = s.open_ ++ [(scid, s.subs.length)] ∧
      s'.protoCount = s.protoCount + 1 ∧ s'.nextSeq = s.nextSeq ∧ s'.highestAcked = s.highestAcked ∧
      s'.pendingOpens = s.pendingOpens := by
  have hc : (pushOpen scid name s).subs[s.subs.length]? = some (SC.new scid name) := by simp [pushOpen]
  obtain ⟨s5, c5, heq, h5, hst5, hp5, hscid5, _, hpc5, hlog5, hcount5, hseq5, hopen5, hsame5, _⟩ :=
    connect_prefix (pushOpen scid name s) s.subs.length (SC.new scid name) .full [] hc rfl rfl rfl
  have hpcf : c5.pendingClose = false := hpc5
  rw [hpcf] at heq
  simp only [Bool.false_eq_true, if_false] at heq
  have hgo : gotOpen s.subs.length name (pushOpen scid name s) = (s5, none) := by
    unfold gotOpen
    have : (pushOpen scid name s).factories = s.factories := rfl
    rw [this, hfac]; exact heq
  have hop : s5.open_ = s.open_ ++ [(scid, s.subs.length)] := hopen5
  refine ⟨s5, c5, handleOpen_of_gotOpen_ok s s5 scid name hnew hgo, ?_, h5, by simpa using hst5, hp5, hscid5, ?_, hop,
    hcount5, hseq5, hsame5.highestAcked, hsame5.pendingOpens⟩
  · rw [hlog5]; simp [pushOpen, SC.new]
  · rw [hop]; exact lookup_append_new' _ _ _ hnew

end WV.C13
