import WV.Proofs.C12_E2E

/-! C12 helper lemmas: `select` commutes with receiving; truncation. -/
namespace WV.Proofs.C12
open WV WV.C12 WV.Gen

/-- what `select` does to a connection in `selecting` -/
def sel (u : UpSt) : UpSt := { u with dcp := .selected, toManager := u.toManager ++ u.queued, queued := [] }

theorem upSelect_ok {u u' : UpSt} (h : upSelect u = .ok u') : u.dcp = .selecting ∧ u' = sel u := by
  obtain ⟨rcd, dcp, rx, hsS, kS, q, tm, cand⟩ := u
  cases dcp <;> simp [upSelect, DCP.table] at h
  exact ⟨rfl, h.symm⟩

theorem upSelect_selecting {u : UpSt} (h : u.dcp = .selecting) : upSelect u = .ok (sel u) := by
  obtain ⟨rcd, dcp, rx, hsS, kS, q, tm, cand⟩ := u
  simp only at h; subst h
  simp [upSelect, DCP.table, sel]

def mapU {U : Type} (g : U → U) : FramerSt × U × Option Err → FramerSt × U × Option Err
  | (fr, u, e) => (fr, g u, e)

def mapEx (g : UpSt → UpSt) : Except (Err × UpSt) UpSt → Except (Err × UpSt) UpSt
  | .ok u => .ok (g u)
  | .error (e, u) => .error (e, g u)

/-- handling a token after `select` = handling it before and selecting afterwards -/
theorem l2Token_sel (cfg : L2Cfg) (u : UpSt) (t : Token) (hd : u.dcp = .selecting) :
    l2Token cfg (sel u) t = mapEx sel (l2Token cfg u t) ∧
    ∀ u', l2Token cfg u t = .ok u' → u'.dcp = .selecting := by
  obtain ⟨rcd, dcp, rx, hsS, kS, q, tm, cand⟩ := u
  simp only at hd; subst hd
  cases t with
  | relayOK => simp [l2Token, sel, mapEx]
  | prologue =>
    cases rcd <;> simp [l2Token, sel, mapEx, Record.table]
  | frame f =>
    cases rcd with
    | no_role_set => simp [l2Token, recordGotFrame, Record.table, mapEx, sel]
    | want_prologue_follower => simp [l2Token, recordGotFrame, Record.table, mapEx, sel]
    | want_prologue_leader => simp [l2Token, recordGotFrame, Record.table, mapEx, sel]
    | want_handshake_follower =>
      cases hok : cfg.handshakeOK f <;> cases hl : cfg.leader <;>
        simp [l2Token, recordGotFrame, Record.table, mapEx, sel, hok, hl]
    | want_handshake_leader =>
      cases hok : cfg.handshakeOK f <;> cases hl : cfg.leader <;>
        simp [l2Token, recordGotFrame, Record.table, mapEx, sel, hok, hl]
    | want_message =>
      cases ho : openMessage cfg.noise rx f with
      | none => simp [l2Token, recordGotFrame, Record.table, ho, mapEx, sel]
      | some p =>
        obtain ⟨pt, n'⟩ := p
        cases hp : parseRecord cfg.validUtf8 pt with
        | error e => simp [l2Token, recordGotFrame, Record.table, ho, hp, mapEx, sel]
        | ok r =>
          cases r <;> simp [l2Token, recordGotFrame, Record.table, ho, hp, mapEx, sel, DCP.table]

theorem pump_sel (cfg : L2Cfg) : ∀ (f : Nat) (fr : FramerSt) (u : UpSt), u.dcp = .selecting →
    pump cfg.framer (l2Token cfg) f fr (sel u) = mapU sel (pump cfg.framer (l2Token cfg) f fr u) ∧
    (pump cfg.framer (l2Token cfg) f fr u).2.1.dcp = .selecting := by
  intro f
  induction f with
  | zero => intro fr u hd; exact ⟨rfl, hd⟩
  | succ f ih =>
    intro fr u hd
    rw [pump_succ, pump_succ]
    cases parseTurn cfg.framer fr with
    | error e => exact ⟨rfl, hd⟩
    | ok o =>
      cases o with
      | none => exact ⟨rfl, hd⟩
      | some p =>
        obtain ⟨fr', t⟩ := p
        cases t with
        | none => exact ih fr' u hd
        | some t =>
          simp only
          obtain ⟨h1, h2⟩ := l2Token_sel cfg u t hd
          rw [h1]
          cases hh : l2Token cfg u t with
          | error e =>
            obtain ⟨e, u1⟩ := e
            exact ⟨rfl, (l2Token_error_effect cfg u t e u1 hh).1.trans hd⟩
          | ok u' => exact ih fr' u' (h2 u' hh)

theorem feed_sel (cfg : L2Cfg) : ∀ (cs : List Bytes) (fr : FramerSt) (u : UpSt), u.dcp = .selecting →
    feed cfg.framer (l2Token cfg) fr (sel u) cs = mapU sel (feed cfg.framer (l2Token cfg) fr u cs) := by
  intro cs
  induction cs with
  | nil => intro fr u _; rfl
  | cons c cs ih =>
    intro fr u hd
    simp only [feed, pumpData]
    obtain ⟨h1, h2⟩ := pump_sel cfg ((fr.buf ++ c).length + 3) { fr with buf := fr.buf ++ c } u hd
    rw [h1]
    rcases hr : pump cfg.framer (l2Token cfg) ((fr.buf ++ c).length + 3) { fr with buf := fr.buf ++ c } u
      with ⟨fr1, u1, e⟩
    rw [hr] at h2
    cases e with
    | none => exact ih fr1 u1 h2
    | some e => rfl

theorem feed_append {U : Type} (cfg : FramerCfg) (h : U → Token → Except (Err × U) U) :
    ∀ (cs1 cs2 : List Bytes) (fr : FramerSt) (u : U) (fr1 : FramerSt) (u1 : U),
      feed cfg h fr u cs1 = (fr1, u1, none) → feed cfg h fr u (cs1 ++ cs2) = feed cfg h fr1 u1 cs2 := by
  intro cs1
  induction cs1 with
  | nil => intro cs2 fr u fr1 u1 h1; simp [feed] at h1; obtain ⟨rfl, rfl⟩ := h1; rfl
  | cons c cs ih =>
    intro cs2 fr u fr1 u1 h1
    simp only [List.cons_append, feed] at h1 ⊢
    rcases hr : pumpData cfg h fr u c with ⟨fr2, u2, e⟩
    rw [hr] at h1
    cases e with
    | none => exact ih cs2 fr2 u2 fr1 u1 h1
    | some e => simp at h1

/-- generic: a reflexive-transitive relation on the consumer state respected by every handled
    token is respected by the loop (exceptions leave the consumer state alone) -/
theorem pump_rel {U : Type} (cfg : FramerCfg) (h : U → Token → Except (Err × U) U) (R : U → U → Prop)
    (hrefl : ∀ u, R u u) (htrans : ∀ a b c, R a b → R b c → R a c)
    (hR : ∀ u t u', h u t = .ok u' → R u u') (hRe : ∀ u t e u', h u t = .error (e, u') → R u u') :
    ∀ f fr u, R u (pump cfg h f fr u).2.1 := by
  intro f
  induction f with
  | zero => intro fr u; exact hrefl u
  | succ f ih =>
    intro fr u
    rw [pump_succ]
    cases parseTurn cfg fr with
    | error e => exact hrefl u
    | ok o =>
      cases o with
      | none => exact hrefl u
      | some p =>
        obtain ⟨fr', t⟩ := p
        cases t with
        | none => exact ih fr' u
        | some t =>
          simp only
          cases hh : h u t with
          | error e => obtain ⟨e, u1⟩ := e; exact hRe u t e u1 hh
          | ok u' => exact htrans _ _ _ (hR u t u' hh) (ih fr' u')

/-- received data only ever appends to the inbound queue -/
theorem l2Token_queued_prefix (cfg : L2Cfg) (u u' : UpSt) (t : Token) (h : l2Token cfg u t = .ok u') :
    u.queued <+: u'.queued := by
  cases l2Token_effect cfg u t u' h with
  | neutral _ _ hq => rw [hq]; exact List.prefix_refl _
  | kcm _ _ _ _ _ _ _ _ _ hq => rw [hq]; exact List.prefix_refl _
  | queued _ _ _ _ _ _ _ _ _ _ _ hq => rw [hq]; exact List.prefix_append _ _
  | delivered _ _ _ _ _ _ _ _ _ _ _ hq => rw [hq]; exact List.prefix_refl _

end WV.Proofs.C12
