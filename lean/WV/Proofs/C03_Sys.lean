import WV.Proofs.C03

/-! C03 — composition: two `Client`s + a storing / duplicating / reordering / replaying server. -/
set_option linter.unusedSimpArgs false
set_option linter.unusedVariables false

namespace WV.Proofs.C03
open WV WV.C03 WV.Gen

/-! ## `"%d" % n` read back by `^\d+$` / `int()` -/

theorem digitChar_toNat (n : Nat) : (digitChar n).toNat = 48 + n % 10 := by
  have h : ∀ k, k < 10 → (Char.ofNat (48 + k)).toNat = 48 + k := by decide
  exact h (n % 10) (Nat.mod_lt _ (by omega))

theorem digitChar_isDigit (n : Nat) : isAsciiDigit (digitChar n) = true := by
  have := digitChar_toNat n
  have h2 := Nat.mod_lt n (show 10 > 0 by omega)
  simp [isAsciiDigit, this]; omega

theorem digitsVal_snoc (ds : List Char) (c : Char) : digitsVal (ds ++ [c]) = digitsVal ds * 10 + (c.toNat - 48) := by
  simp [digitsVal, List.foldl_append]

theorem digitsAux_spec (fuel n : Nat) (acc : List Char) (h : n < fuel) :
    ∃ ds, digitsAux fuel n acc = ds ++ acc ∧ ds ≠ [] ∧ ds.all isAsciiDigit = true ∧ digitsVal ds = n := by
  induction fuel generalizing n acc with
  | zero => omega
  | succ f ih =>
    unfold digitsAux
    by_cases hn : n < 10
    · simp only [hn, if_true]
      refine ⟨[digitChar n], rfl, by simp, by simp [digitChar_isDigit], ?_⟩
      simp [digitsVal, digitChar_toNat]; omega
    · simp only [hn, if_false]
      obtain ⟨ds, h1, h2, h3, h4⟩ := ih (n / 10) (digitChar n :: acc) (by omega)
      refine ⟨ds ++ [digitChar n], by simp [h1], by simp, by simp [h3, digitChar_isDigit], ?_⟩
      rw [digitsVal_snoc, h4, digitChar_toNat]; omega

theorem showPhase_digits (n : Nat) :
    ∃ ds, (showPhase n).toList = ds ∧ ds ≠ [] ∧ ds.all isAsciiDigit = true ∧ digitsVal ds = n := by
  obtain ⟨ds, h1, h2, h3, h4⟩ := digitsAux_spec (n + 1) n [] (by omega)
  refine ⟨ds, ?_, h2, h3, h4⟩
  simp [showPhase, h1]

theorem getLast_digit_ne_nl (ds : List Char) (h : ds.all isAsciiDigit = true) : ds.getLast? ≠ some '\n' := by
  intro hl
  have hm : '\n' ∈ ds := List.mem_of_getLast? hl
  have := (List.all_eq_true.mp h) _ hm
  simp [isAsciiDigit] at this

theorem classify_showPhase (n : Nat) : classifyPhase (showPhase n) = .numeric n := by
  obtain ⟨ds, h1, h2, h3, h4⟩ := showPhase_digits n
  have hlast := getLast_digit_ne_nl ds h3
  obtain ⟨c, r, rfl⟩ := List.exists_cons_of_ne_nil h2
  have hc : isAsciiDigit c = true := by simp at h3; exact h3.1
  have hne : showPhase n ≠ "version" := by
    intro e
    have : (showPhase n).toList = "version".toList := by rw [e]
    rw [h1] at this
    have e2 : c = 'v' := by
      have := congrArg List.head? this
      simpa using this
    rw [e2] at hc; simp [isAsciiDigit] at hc
  have hd : parseDilate (showPhase n) = none := by
    unfold parseDilate
    simp only [h1]
    have hcd : c ≠ 'd' := by intro e2; rw [e2] at hc; simp [isAsciiDigit] at hc
    have : ("dilate-".toList.isPrefixOf (c :: r)) = false := by
      have e : "dilate-".toList = ['d','i','l','a','t','e','-'] := by decide
      rw [e]
      simp [List.isPrefixOf, hcd]
      intro e3; exact absurd e3.symm hcd
    rw [if_neg (by rw [this]; simp)]
  have hp : parseDigits (showPhase n) = some n := by
    unfold parseDigits parseDigitsL
    simp only [h1]
    simp [hlast, h3, h4]
  simp [classifyPhase, hne, hd, hp]


/-! ## invariants of one client inside the two-client system -/

/-- plaintexts handed to `W.received`, in order -/
def receivedOf (log : List Ev) : List Bytes :=
  log.filterMap (fun e => match e with | .received pt => some pt | _ => none)

/-- values of the Deferred callbacks (not errbacks), in order -/
def okVals (l : List (Nat × CbVal)) : List Bytes :=
  l.filterMap (fun e => match e.2 with | .ok v => some v | .err => none)

@[simp] theorem receivedOf_append (a b : List Ev) : receivedOf (a ++ b) = receivedOf a ++ receivedOf b := by
  simp [receivedOf, List.filterMap_append]
@[simp] theorem okVals_append (a b : List (Nat × CbVal)) : okVals (a ++ b) = okVals a ++ okVals b := by
  simp [okVals, List.filterMap_append]
@[simp] theorem receivedOf_nil : receivedOf [] = [] := rfl
@[simp] theorem okVals_nil : okVals [] = [] := rfl

/-- a `(phase, plaintext)` pair carries the number of the `send_message` call it came from -/
def NumOK (mine : List Bytes) (ph : String) (pt : Bytes) : Prop :=
  ∃ i, ph = showPhase i ∧ mine[i]? = some pt

/-- a `(phase, body)` pair on the wire from `side`: either not a numeric phase at all (pake, version, …),
    or phase "i" sealing exactly the i-th plaintext passed to `send_message` on that side -/
def TxOK (C : Crypto) (side : String) (mine : List Bytes) (p : String) (b : Bytes) : Prop :=
  (∀ n, classifyPhase p ≠ .numeric n) ∨ (∃ i pt, p = showPhase i ∧ mine[i]? = some pt ∧ b = C.enc side p pt)

theorem NumOK.mono {mine : List Bytes} {ph pt} (h : NumOK mine ph pt) (l : List Bytes) : NumOK (mine ++ l) ph pt := by
  obtain ⟨i, h1, h2⟩ := h; exact ⟨i, h1, getElem?_append_some _ _ _ _ h2⟩

theorem TxOK.mono {C side mine p b} (h : TxOK C side mine p b) (l : List Bytes) : TxOK C side (mine ++ l) p b := by
  rcases h with h | ⟨i, pt, h1, h2, h3⟩
  · exact Or.inl h
  · exact Or.inr ⟨i, pt, h1, getElem?_append_some _ _ _ _ h2, h3⟩

/-- `_next_tx_phase` counts the accepted `send_message` calls; once the Boss is closing it accepts none -/
def TxLive (b : BossD) (mine : List Bytes) : Prop :=
  (bossLive b.st = true ∧ b.nextTx = mine.length) ∨ (bossLive b.st = false ∧ b.nextTx ≤ mine.length)

/-- everything but the Boss -/
structure RestInv (C : Crypto) (me ps : String) (peer mine : List Bytes) (c : Client) : Prop where
  side_eq : c.side = me
  side_ne : me ≠ ps
  sq : ∀ e ∈ c.send.queue, NumOK mine e.1 e.2
  pend : ∀ e ∈ c.mbox.pending, TxOK C c.side mine e.1 e.2
  logtx : ∀ p b, Ev.txAdd p b ∈ c.log → TxOK C c.side mine p b
  oq : ∀ e ∈ c.order.queue, e.1 = ps ∧ TxOK C ps peer e.2.1 e.2.2
  obs : okVals (c.obs.fired ++ c.obs.queue) ++ c.obs.results = receivedOf c.log

/-- the Boss, with `pr` = plaintexts the Boss has already taken out of its buffer but not yet handed over -/
structure BossInv (peer mine : List Bytes) (pr : List Bytes) (c : Client) : Prop where
  tx : TxLive c.boss mine
  rx : LoopInv peer [] c.boss.rx (receivedOf c.log ++ pr)

theorem LoopInv.mono {sent : List Bytes} {b : RxBuf} {ds : List Bytes} (h : LoopInv sent [] b ds) (l : List Bytes) :
    LoopInv (sent ++ l) [] b ds := by
  constructor
  · intro q v hq; exact getElem?_append_some _ _ _ _ (h.buf q v hq)
  · rw [List.take_append_of_le_length h.le]; exact h.recv
  · simp only [List.length_append]; have := h.le; omega
  · intro q hq; simp at hq

theorem RestInv.mono_mine {C me ps peer mine c} (h : RestInv C me ps peer mine c) (l : List Bytes) :
    RestInv C me ps peer (mine ++ l) c :=
  ⟨h.side_eq, h.side_ne, fun e he => (h.sq e he).mono l, fun e he => (h.pend e he).mono l,
   fun p b hb => (h.logtx p b hb).mono l, h.oq, h.obs⟩

theorem RestInv.mono_peer {C me ps peer mine c} (h : RestInv C me ps peer mine c) (l : List Bytes) :
    RestInv C me ps (peer ++ l) mine c :=
  ⟨h.side_eq, h.side_ne, h.sq, h.pend, h.logtx, fun e he => ⟨(h.oq e he).1, (h.oq e he).2.mono l⟩, h.obs⟩

/-! ### observer -/

theorem obs_fire_vals (o : Obs) (v : Bytes) :
    okVals ((o.fire v).fired ++ (o.fire v).queue) ++ (o.fire v).results =
      okVals (o.fired ++ o.queue) ++ o.results ++ [v] := by
  obtain ⟨err, results, observers, queue, fired, nextId⟩ := o
  cases observers with
  | nil => simp [Obs.fire]
  | cons d ds =>
    cases results with
    | nil => simp [Obs.fire, okVals]
    | cons r rs => simp [Obs.fire, okVals]

theorem obs_fireError_vals (o : Obs) :
    okVals (o.fireError.fired ++ o.fireError.queue) ++ o.fireError.results =
      okVals (o.fired ++ o.queue) ++ o.results := by
  simp [Obs.fireError, okVals, List.filterMap_map, Function.comp_def]

theorem obs_get_vals (o : Obs) :
    okVals (o.get.fired ++ o.get.queue) ++ o.get.results = okVals (o.fired ++ o.queue) ++ o.results := by
  obtain ⟨err, results, observers, queue, fired, nextId⟩ := o
  cases err <;> cases results <;> simp [Obs.get, okVals]

theorem obs_turn_vals (o : Obs) :
    okVals (o.turn.fired ++ o.turn.queue) ++ o.turn.results = okVals (o.fired ++ o.queue) ++ o.results := by
  simp [Obs.turn]

/-! ### generic helpers for the call router -/

theorem runEffs_inv {ε : Type} (f : Client → ε → CRes) (I : Client → Prop) (effs : List ε) (c : Client)
    (hI : I c) (hstep : ∀ c e, e ∈ effs → I c → I (f c e).1) : I (runEffs f c effs).1 := by
  induction effs generalizing c with
  | nil => exact hI
  | cons e es ih =>
    unfold runEffs
    have h1 := hstep c e (by simp) hI
    rcases hres : f c e with ⟨c', err⟩
    rw [hres] at h1
    cases err with
    | none => exact ih c' h1 (fun c e he => hstep c e (by simp [he]))
    | some x => exact h1

@[simp] theorem thenErr_fst (r : CRes) (e : Option Err) : (thenErr r e).1 = r.1 := by
  obtain ⟨c, x⟩ := r; cases x <;> rfl

/-! ### Mailbox -/

/-- what a Mailbox step guarantees about `_pending_outbound` and its outgoing calls -/
structure MboxOK (C : Crypto) (side : String) (mine : List Bytes) (a : MArg) (r : MRes) : Prop where
  pend : ∀ e ∈ r.1.pending, TxOK C side mine e.1 e.2
  adds : ∀ p b, MEff.txAdd p b ∈ r.2.1 → TxOK C side mine p b
  ord : ∀ s p b, MEff.toOrder s p b ∈ r.2.1 → a = .theirs s p b

theorem mboxOut_ok (C : Crypto) (side : String) (mine : List Bytes) (o : Mailbox.Output) (a : MArg) (m : MboxD)
    (hp : ∀ e ∈ m.pending, TxOK C side mine e.1 e.2) (ha : ∀ p b, a = .add p b → TxOK C side mine p b) :
    MboxOK C side mine a (mboxOut o a m) := by
  have hp' : ∀ a b, (a, b) ∈ m.pending → TxOK C side mine a b := fun a b h => hp (a, b) h
  cases o <;> cases a <;> (constructor <;> simp [mboxOut, drainEffs]) <;>
    (try (first
      | exact hp'
      | exact ha _ _ rfl
      | (intro a b h; exact hp' a b (mem_dpop _ _ _ h))
      | (intro a b h; rcases mem_dset _ _ _ _ h with h | h
         · simp at h; obtain ⟨rfl, rfl⟩ := h; exact ha _ _ rfl
         · exact hp' a b h)))
  all_goals (try simp only [acceptPhase])
  all_goals (split <;> simp <;> (try exact hp'))
  intro s p b h1 h2 h3; exact ⟨h1.symm, h2.symm, h3.symm⟩


theorem mboxOuts_ok (C : Crypto) (side : String) (mine : List Bytes) (os : List Mailbox.Output) (a : MArg)
    (m : MboxD) (acc : List MEff)
    (hp : ∀ e ∈ m.pending, TxOK C side mine e.1 e.2) (ha : ∀ p b, a = .add p b → TxOK C side mine p b)
    (hacc1 : ∀ p b, MEff.txAdd p b ∈ acc → TxOK C side mine p b)
    (hacc2 : ∀ s p b, MEff.toOrder s p b ∈ acc → a = .theirs s p b) :
    MboxOK C side mine a (mboxOuts os a m acc) := by
  induction os generalizing m acc with
  | nil => exact ⟨hp, hacc1, hacc2⟩
  | cons o os ih =>
    unfold mboxOuts
    have h := mboxOut_ok C side mine o a m hp ha
    rcases hres : mboxOut o a m with ⟨m', effs, err⟩
    rw [hres] at h
    have h1 : ∀ p b, MEff.txAdd p b ∈ acc ++ effs → TxOK C side mine p b := by
      intro p b hm
      rcases List.mem_append.mp hm with hm | hm
      · exact hacc1 p b hm
      · exact h.adds p b hm
    have h2 : ∀ s p b, MEff.toOrder s p b ∈ acc ++ effs → a = .theirs s p b := by
      intro s p b hm
      rcases List.mem_append.mp hm with hm | hm
      · exact hacc2 s p b hm
      · exact h.ord s p b hm
    cases err with
    | none => exact ih m' (acc ++ effs) h.pend h1 h2
    | some e => exact ⟨h.pend, h1, h2⟩

theorem mboxStep_ok (C : Crypto) (side : String) (mine : List Bytes) (m : MboxD) (i : Mailbox.Input) (a : MArg)
    (hp : ∀ e ∈ m.pending, TxOK C side mine e.1 e.2) (ha : ∀ p b, a = .add p b → TxOK C side mine p b) :
    MboxOK C side mine a (mboxStep m i a) := by
  unfold mboxStep
  cases Mailbox.table m.st i with
  | none => exact ⟨hp, by simp, by simp⟩
  | some r => exact mboxOuts_ok C side mine _ a _ [] hp ha (by simp) (by simp)

/-- what the calls that stay outside the model leave alone -/
structure Frame (c0 c : Client) : Prop where
  side : c.side = c0.side
  boss : c.boss = c0.boss
  order : c.order = c0.order
  obs : c.obs = c0.obs
  recvd : receivedOf c.log = receivedOf c0.log

theorem Frame.refl (c : Client) : Frame c c := ⟨rfl, rfl, rfl, rfl, rfl⟩
theorem Frame.trans {a b c : Client} (h1 : Frame a b) (h2 : Frame b c) : Frame a c :=
  ⟨h2.side.trans h1.side, h2.boss.trans h1.boss, h2.order.trans h1.order, h2.obs.trans h1.obs,
   h2.recvd.trans h1.recvd⟩

theorem RestInv.of_frame {C me ps peer mine} {c0 c : Client} (h : RestInv C me ps peer mine c0) (f : Frame c0 c)
    (hsq : ∀ e ∈ c.send.queue, NumOK mine e.1 e.2)
    (hpend : ∀ e ∈ c.mbox.pending, TxOK C c.side mine e.1 e.2)
    (hlog : ∀ p b, Ev.txAdd p b ∈ c.log → TxOK C c.side mine p b) : RestInv C me ps peer mine c :=
  ⟨f.side.trans h.side_eq, h.side_ne, hsq, hpend, hlog, f.order ▸ h.oq, by rw [f.obs, f.recvd]; exact h.obs⟩

theorem BossInv.of_frame {peer mine pr} {c0 c : Client} (h : BossInv peer mine pr c0) (f : Frame c0 c) :
    BossInv peer mine pr c :=
  ⟨f.boss ▸ h.tx, by rw [f.boss, f.recvd]; exact h.rx⟩

/-- the part of the invariant the Mailbox / Send calls can touch -/
structure TxInv (C : Crypto) (mine : List Bytes) (c : Client) : Prop where
  sq : ∀ e ∈ c.send.queue, NumOK mine e.1 e.2
  pend : ∀ e ∈ c.mbox.pending, TxOK C c.side mine e.1 e.2
  logtx : ∀ p b, Ev.txAdd p b ∈ c.log → TxOK C c.side mine p b

theorem mEffSimple_inv (C : Crypto) (mine : List Bytes) (c0 c : Client) (e : MEff)
    (h : TxInv C mine c ∧ Frame c0 c) (he : ∀ p b, e = .txAdd p b → TxOK C c.side mine p b) :
    TxInv C mine (mEffSimple c e).1 ∧ Frame c0 (mEffSimple c e).1 := by
  obtain ⟨⟨h1, h2, h3⟩, f⟩ := h
  cases e <;> simp only [mEffSimple, Client.emit] <;>
    (refine ⟨⟨h1, h2, ?_⟩, ⟨f.side, f.boss, f.order, f.obs, ?_⟩⟩) <;>
    (try (simp [receivedOf, List.filterMap_append]; exact f.recvd)) <;>
    (try exact h3) <;> (try exact f.recvd)
  all_goals (intro p b hm; simp at hm)
  all_goals first
    | exact h3 p b hm
    | (rcases hm with hm | hm
       · exact h3 p b hm
       · obtain ⟨rfl, rfl⟩ := hm; exact he _ _ rfl)


theorem cMbox_inv (C : Crypto) (mine : List Bytes) (c : Client) (i : Mailbox.Input) (a : MArg)
    (h : TxInv C mine c) (ha : ∀ p b, a = .add p b → TxOK C c.side mine p b) :
    TxInv C mine (cMbox c i a).1 ∧ Frame c (cMbox c i a).1 := by
  unfold cMbox
  have hok := mboxStep_ok C c.side mine c.mbox i a h.pend ha
  rcases hres : mboxStep c.mbox i a with ⟨m', effs, err⟩
  rw [hres] at hok
  simp only [thenErr_fst]
  apply runEffs_inv mEffSimple (fun c' => TxInv C mine c' ∧ Frame c c')
  · exact ⟨⟨h.sq, hok.pend, h.logtx⟩, ⟨rfl, rfl, rfl, rfl, rfl⟩⟩
  · intro c' e he hI
    apply mEffSimple_inv C mine c c' e hI
    intro p b hpb
    rw [hI.2.side]
    exact hok.adds p b (hpb ▸ he)

/-! ### Send -/

/-- a sealed, correctly numbered message of ours -/
def SealedOK (C : Crypto) (side : String) (mine : List Bytes) (e : SEff) : Prop :=
  ∃ i pt, e.1 = showPhase i ∧ mine[i]? = some pt ∧ e.2 = C.enc side e.1 pt

theorem SealedOK.txok {C side mine} {e : SEff} (h : SealedOK C side mine e) : TxOK C side mine e.1 e.2 := by
  obtain ⟨i, pt, h1, h2, h3⟩ := h; exact Or.inr ⟨i, pt, h1, h2, h3⟩

theorem sendDrainLoop_ok (C : Crypto) (side : String) (mine : List Bytes) (s : SendD)
    (q : List (String × Bytes)) (acc : List SEff)
    (hq : ∀ e ∈ q, NumOK mine e.1 e.2) (hacc : ∀ e ∈ acc, SealedOK C side mine e) :
    ∀ e ∈ (sendDrainLoop C side s q acc).1, SealedOK C side mine e := by
  induction q generalizing acc with
  | nil => simpa [sendDrainLoop] using hacc
  | cons x r ih =>
    obtain ⟨ph, pt⟩ := x
    unfold sendDrainLoop
    unfold encryptAndSend
    by_cases hk : s.key = true
    · simp only [hk, if_true]
      apply ih
      · intro e he; exact hq e (by simp [he])
      · intro e he
        rcases List.mem_append.mp he with he | he
        · exact hacc e he
        · simp at he; subst he
          obtain ⟨i, h1, h2⟩ := hq (ph, pt) (by simp)
          exact ⟨i, pt, h1, h2, rfl⟩
    · simp only [hk]; exact hacc

structure SendOK (C : Crypto) (side : String) (mine : List Bytes) (r : SRes) : Prop where
  sq : ∀ e ∈ r.1.queue, NumOK mine e.1 e.2
  effs : ∀ e ∈ r.2.1, SealedOK C side mine e

theorem sendOut_ok (C : Crypto) (side : String) (mine : List Bytes) (o : Send.Output) (a : SArg) (s : SendD)
    (hq : ∀ e ∈ s.queue, NumOK mine e.1 e.2) (ha : ∀ ph pt, a = .send ph pt → NumOK mine ph pt) :
    SendOK C side mine (sendOut C side o a s) := by
  cases o <;> cases a <;> simp only [sendOut]
  all_goals first
    | exact ⟨hq, by simp⟩
    | skip
  · -- deliver, send
    rename_i ph pt
    unfold encryptAndSend
    by_cases hk : s.key = true
    · simp only [hk, if_true]
      refine ⟨hq, ?_⟩
      intro e he; simp at he; subst he
      obtain ⟨i, h1, h2⟩ := ha ph pt rfl
      exact ⟨i, pt, h1, h2, rfl⟩
    · simp only [hk]; exact ⟨hq, by simp⟩
  · -- drain, key
    have hl := sendDrainLoop_ok C side mine s s.queue [] hq (by simp)
    rcases hres : sendDrainLoop C side s s.queue [] with ⟨effs, err⟩
    rw [hres] at hl
    cases err with
    | none => exact ⟨by simp, hl⟩
    | some e => exact ⟨hq, hl⟩
  · -- queue, send
    rename_i ph pt
    refine ⟨?_, by simp⟩
    intro e he
    rcases List.mem_append.mp he with he | he
    · exact hq e he
    · simp at he; subst he; exact ha ph pt rfl


theorem sendOuts_ok (C : Crypto) (side : String) (mine : List Bytes) (os : List Send.Output) (a : SArg)
    (s : SendD) (acc : List SEff)
    (hq : ∀ e ∈ s.queue, NumOK mine e.1 e.2) (ha : ∀ ph pt, a = .send ph pt → NumOK mine ph pt)
    (hacc : ∀ e ∈ acc, SealedOK C side mine e) :
    SendOK C side mine (sendOuts C side os a s acc) := by
  induction os generalizing s acc with
  | nil => exact ⟨hq, hacc⟩
  | cons o os ih =>
    unfold sendOuts
    have h := sendOut_ok C side mine o a s hq ha
    rcases hres : sendOut C side o a s with ⟨s', effs, err⟩
    rw [hres] at h
    have h1 : ∀ e ∈ acc ++ effs, SealedOK C side mine e := by
      intro e he
      rcases List.mem_append.mp he with he | he
      · exact hacc e he
      · exact h.effs e he
    cases err with
    | none => exact ih s' (acc ++ effs) h.sq h1
    | some e => exact ⟨h.sq, h1⟩

theorem sendStep_ok (C : Crypto) (side : String) (mine : List Bytes) (s : SendD) (i : Send.Input) (a : SArg)
    (hq : ∀ e ∈ s.queue, NumOK mine e.1 e.2) (ha : ∀ ph pt, a = .send ph pt → NumOK mine ph pt) :
    SendOK C side mine (sendStep C side s i a) := by
  unfold sendStep
  cases Send.table s.st i with
  | none => exact ⟨hq, by simp⟩
  | some r => exact sendOuts_ok C side mine _ a _ [] hq ha (by simp)

theorem cSend_inv (C : Crypto) (mine : List Bytes) (c : Client) (i : Send.Input) (a : SArg)
    (h : TxInv C mine c) (ha : ∀ ph pt, a = .send ph pt → NumOK mine ph pt) :
    TxInv C mine (cSend C c i a).1 ∧ Frame c (cSend C c i a).1 := by
  unfold cSend
  have hok := sendStep_ok C c.side mine c.send i a h.sq ha
  rcases hres : sendStep C c.side c.send i a with ⟨s', effs, err⟩
  rw [hres] at hok
  simp only []
  have hrun := runEffs_inv (fun c (e : SEff) => cMbox c .add_message (.add e.1 e.2))
    (fun c' => TxInv C mine c' ∧ Frame c c') effs { c with send := s' }
    ⟨⟨hok.sq, h.pend, h.logtx⟩, ⟨rfl, rfl, rfl, rfl, rfl⟩⟩
    (by
      intro c' e he hI
      have := cMbox_inv C mine c' .add_message (.add e.1 e.2) hI.1
        (by
          intro p b hpb
          injection hpb with h1 h2
          subst h1 h2
          rw [hI.2.side]
          exact (hok.effs e he).txok)
      exact ⟨this.1, hI.2.trans this.2⟩)
  rcases hres2 : runEffs (fun c (e : SEff) => cMbox c .add_message (.add e.1 e.2)) { c with send := s' } effs
    with ⟨c', err2⟩
  rw [hres2] at hrun
  cases err2 with
  | none => exact hrun
  | some e =>
    simp only []
    exact ⟨⟨h.sq, hrun.1.pend, hrun.1.logtx⟩, ⟨hrun.2.side, hrun.2.boss, hrun.2.order, hrun.2.obs, hrun.2.recvd⟩⟩


/-! ### Boss -/

/-- plaintexts of the `W.received` calls in a list of Boss calls -/
def wRecvs (effs : List BEff) : List Bytes :=
  effs.filterMap (fun e => match e with | .wReceived pt => some pt | _ => none)

@[simp] theorem wRecvs_nil : wRecvs [] = [] := rfl
@[simp] theorem wRecvs_append (a b : List BEff) : wRecvs (a ++ b) = wRecvs a ++ wRecvs b := by
  simp [wRecvs, List.filterMap_append]
theorem wRecvs_cons (e : BEff) (r : List BEff) :
    wRecvs (e :: r) = (match e with | .wReceived pt => [pt] | _ => []) ++ wRecvs r := by
  cases e <;> simp [wRecvs]
@[simp] theorem wRecvs_map_wReceived (ds : List Bytes) : wRecvs (ds.map .wReceived) = ds := by
  induction ds with
  | nil => rfl
  | cons d r ih => simp [wRecvs_cons, ih]
@[simp] theorem wRecvs_map_dReceived (ds : List Bytes) : wRecvs (ds.map .dReceived) = [] := by
  induction ds with
  | nil => rfl
  | cons d r ih => simp [wRecvs_cons, ih]

theorem wReceived_loopInv (sent : List Bytes) (rx : RxBuf) (recv : List Bytes) (n : Nat) (m : Bytes)
    (h : LoopInv sent [] rx recv) (hm : sent[n]? = some m) :
    LoopInv sent [] (wReceived rx n m).1 (recv ++ (wReceived rx n m).2) := by
  unfold wReceived
  simp only []
  have key := rxLoop_sent sent [] (dset rx.phases n m).length
    { next := rx.next, phases := dset rx.phases n m } recv (Nat.le_refl _)
    (by
      constructor
      · intro q v hq
        simp only [dget_dset] at hq
        by_cases he : n = q
        · simp [he] at hq; rw [← he, ← hq]; exact hm
        · simp [he] at hq; exact h.buf q v hq
      · exact h.recv
      · exact h.le
      · intro q hq; simp at hq)
  rw [rxLoop_acc] at key
  exact key.1

structure BossOK (peer mine' recv : List Bytes) (r : BRes) : Prop where
  tx : TxLive r.1 mine'
  sends : ∀ ph pt, BEff.sSend ph pt ∈ r.2.1 → NumOK mine' ph pt
  rx : LoopInv peer [] r.1.rx (recv ++ wRecvs r.2.1)
  nomix : (∃ ph pt, BEff.sSend ph pt ∈ r.2.1) → wRecvs r.2.1 = []

theorem bossStep_send (peer mine recv : List Bytes) (b : BossD) (pt : Bytes)
    (ht : TxLive b mine) (hr : LoopInv peer [] b.rx recv) :
    BossOK peer (mine ++ [pt]) recv (bossStep b .send (.pt pt)) := by
  obtain ⟨st, ntx, rx, drx⟩ := b
  cases st <;> simp [TxLive, bossLive] at ht <;>
    simp [bossStep, Boss.table, bossOuts, bossOut, takeTxPhase] <;>
    (constructor <;> simp [TxLive, bossLive, wRecvs_cons, ht]) <;> (try exact hr) <;> (try omega)
  all_goals exact ⟨mine.length, rfl, by simp⟩

/-- arguments of the Boss inputs that carry no plaintext -/
inductive CtlArg where
  | none | one | two
  deriving DecidableEq, Repr

def CtlArg.toB : CtlArg → BArg
  | .none => .none | .one => .one | .two => .two

theorem bossStep_ctl (peer mine recv : List Bytes) (b : BossD) (i : Boss.Input) (a : CtlArg)
    (ht : TxLive b mine) (hr : LoopInv peer [] b.rx recv) :
    BossOK peer mine recv (bossStep b i a.toB) := by
  obtain ⟨st, ntx, rx, drx⟩ := b
  cases st <;> cases i <;> cases a <;> simp [TxLive, bossLive] at ht <;>
    simp [bossStep, Boss.table, bossOuts, bossOut, takeTxPhase, CtlArg.toB] <;>
    (constructor <;> simp [TxLive, bossLive, wRecvs_cons, ht]) <;> (try exact hr) <;> (try omega)

theorem bossStep_version (peer mine recv : List Bytes) (b : BossD) (m : Bytes)
    (ht : TxLive b mine) (hr : LoopInv peer [] b.rx recv) :
    BossOK peer mine recv (bossStep b .u_got_version (.pt m)) := by
  obtain ⟨st, ntx, rx, drx⟩ := b
  cases st <;> simp [TxLive, bossLive] at ht <;>
    simp [bossStep, Boss.table, bossOuts, bossOut, takeTxPhase] <;>
    (constructor <;> simp [TxLive, bossLive, wRecvs_cons, ht]) <;> (try exact hr) <;> (try omega)

theorem bossStep_dilate (peer mine recv : List Bytes) (b : BossD) (n : Nat) (m : Bytes)
    (ht : TxLive b mine) (hr : LoopInv peer [] b.rx recv) :
    BossOK peer mine recv (bossStep b .u_got_dilate (.phase n m)) := by
  obtain ⟨st, ntx, rx, drx⟩ := b
  cases st <;> simp [TxLive, bossLive] at ht <;>
    simp [bossStep, Boss.table, bossOuts, bossOut, takeTxPhase] <;>
    (constructor <;> simp [TxLive, bossLive, wRecvs_cons, ht]) <;> (try exact hr) <;> (try omega)

theorem bossStep_phase (peer mine recv : List Bytes) (b : BossD) (n : Nat) (m : Bytes)
    (ht : TxLive b mine) (hr : LoopInv peer [] b.rx recv) (hm : peer[n]? = some m) :
    BossOK peer mine recv (bossStep b .u_got_phase (.phase n m)) := by
  obtain ⟨st, ntx, rx, drx⟩ := b
  have hw := wReceived_loopInv peer rx recv n m hr hm
  cases st <;> simp [TxLive, bossLive] at ht <;>
    simp [bossStep, Boss.table, bossOuts, bossOut, takeTxPhase] <;>
    (constructor <;> simp [TxLive, bossLive, wRecvs_cons, ht]) <;> (try exact hr) <;> (try exact hw) <;> (try omega)


/-- the whole invariant of one client; `pr` = plaintexts taken out of the reorder buffer whose
    `W.received` call is still to come in the running Boss output -/
structure Mid (C : Crypto) (me ps : String) (peer mine pr : List Bytes) (c : Client) : Prop where
  rest : RestInv C me ps peer mine c
  boss : BossInv peer mine pr c

theorem Mid.txinv {C me ps peer mine pr c} (h : Mid C me ps peer mine pr c) : TxInv C mine c :=
  ⟨h.rest.sq, h.rest.pend, h.rest.logtx⟩

theorem Mid.of_frame {C me ps peer mine pr} {c c' : Client} (h : Mid C me ps peer mine pr c)
    (t : TxInv C mine c') (f : Frame c c') : Mid C me ps peer mine pr c' :=
  ⟨h.rest.of_frame f t.sq t.pend t.logtx, h.boss.of_frame f⟩

/-- events that are neither a delivery to the application nor a submission to the server -/
def Ev.plain : Ev → Bool
  | .received _ | .txAdd _ _ => false
  | _ => true

theorem Mid.emit {C me ps peer mine pr c} (h : Mid C me ps peer mine pr c) (ev : Ev) (hev : Ev.plain ev = true) :
    Mid C me ps peer mine pr (c.emit ev) := by
  have hr : receivedOf (c.log ++ [ev]) = receivedOf c.log := by
    cases ev <;> simp [receivedOf, Ev.plain] at hev ⊢
  refine ⟨⟨h.rest.side_eq, h.rest.side_ne, h.rest.sq, h.rest.pend, ?_, h.rest.oq, ?_⟩, ⟨h.boss.tx, ?_⟩⟩
  · intro p b hm
    simp only [Client.emit, List.mem_append, List.mem_singleton] at hm
    rcases hm with hm | hm
    · exact h.rest.logtx p b hm
    · subst hm; simp [Ev.plain] at hev
  · simp only [Client.emit]; rw [hr]; exact h.rest.obs
  · simp only [Client.emit]; rw [hr]; exact h.boss.rx

theorem bEff_step (C : Crypto) (me ps : String) (peer mine pr : List Bytes) (c : Client) (e : BEff)
    (h : Mid C me ps peer mine (wRecvs [e] ++ pr) c) (he : ∀ ph pt, e = .sSend ph pt → NumOK mine ph pt) :
    Mid C me ps peer mine pr (bEff C c e).1 ∧ ((bEff C c e).2 ≠ none → ∃ ph pt, e = .sSend ph pt) := by
  cases e with
  | sSend ph pt =>
    simp only [bEff]
    have hs := cSend_inv C mine c .send (.send ph pt) h.txinv
      (by intro ph' pt' e; injection e with e1 e2; subst e1 e2; exact he _ _ rfl)
    have h' : Mid C me ps peer mine pr c := by simpa [wRecvs_cons] using h
    exact ⟨h'.of_frame hs.1 hs.2, fun _ => ⟨ph, pt, rfl⟩⟩
  | wReceived pt =>
    simp only [bEff]
    refine ⟨⟨⟨h.rest.side_eq, h.rest.side_ne, h.rest.sq, h.rest.pend, ?_, h.rest.oq, ?_⟩, ⟨h.boss.tx, ?_⟩⟩, by simp⟩
    · intro p b hm
      simp only [Client.emit, List.mem_append, List.mem_singleton] at hm
      rcases hm with hm | hm
      · exact h.rest.logtx p b hm
      · cases hm
    · simp only [Client.emit]
      rw [obs_fire_vals, h.rest.obs]; simp [receivedOf]
    · have := h.boss.rx
      simp only [Client.emit]
      simpa [wRecvs_cons, receivedOf, List.append_assoc] using this
  | wClosed =>
    simp only [bEff]
    have h' : Mid C me ps peer mine pr c := by simpa [wRecvs_cons] using h
    have h2 := h'.emit .closed rfl
    refine ⟨⟨⟨h2.rest.side_eq, h2.rest.side_ne, h2.rest.sq, h2.rest.pend, h2.rest.logtx, h2.rest.oq, ?_⟩, ⟨h2.boss.tx, h2.boss.rx⟩⟩, by simp⟩
    have := h2.rest.obs
    simp only [Client.emit] at this ⊢
    rw [obs_fireError_vals]; exact this
  | dReceived pt =>
    have h' : Mid C me ps peer mine pr c := by simpa [wRecvs_cons] using h
    exact ⟨h'.emit _ rfl, by simp [bEff]⟩
  | tClose md =>
    have h' : Mid C me ps peer mine pr c := by simpa [wRecvs_cons] using h
    exact ⟨h'.emit _ rfl, by simp [bEff]⟩
  | wGotCode =>
    have h' : Mid C me ps peer mine pr c := by simpa [wRecvs_cons] using h
    exact ⟨h'.emit _ rfl, by simp [bEff]⟩
  | wGotKey =>
    have h' : Mid C me ps peer mine pr c := by simpa [wRecvs_cons] using h
    exact ⟨h'.emit _ rfl, by simp [bEff]⟩
  | dGotKey =>
    have h' : Mid C me ps peer mine pr c := by simpa [wRecvs_cons] using h
    exact ⟨h'.emit _ rfl, by simp [bEff]⟩
  | wGotVerifier =>
    have h' : Mid C me ps peer mine pr c := by simpa [wRecvs_cons] using h
    exact ⟨h'.emit _ rfl, by simp [bEff]⟩
  | dVersions =>
    have h' : Mid C me ps peer mine pr c := by simpa [wRecvs_cons] using h
    exact ⟨h'.emit _ rfl, by simp [bEff]⟩
  | wVersions =>
    have h' : Mid C me ps peer mine pr c := by simpa [wRecvs_cons] using h
    exact ⟨h'.emit _ rfl, by simp [bEff]⟩

theorem runEffs_bEff (C : Crypto) (me ps : String) (peer mine : List Bytes) (effs : List BEff) (c : Client)
    (h : Mid C me ps peer mine (wRecvs effs) c) (he : ∀ ph pt, BEff.sSend ph pt ∈ effs → NumOK mine ph pt) :
    ∃ rest, Mid C me ps peer mine (wRecvs rest) (runEffs (bEff C) c effs).1 ∧
      (rest = [] ∨ ∃ ph pt, BEff.sSend ph pt ∈ effs) ∧ (wRecvs effs = [] → wRecvs rest = []) := by
  induction effs generalizing c with
  | nil => exact ⟨[], by simpa [runEffs] using h, Or.inl rfl, fun _ => rfl⟩
  | cons e es ih =>
    unfold runEffs
    have hstep := bEff_step C me ps peer mine (wRecvs es) c e
      (by rw [← wRecvs_append]; exact h) (fun ph pt hx => he ph pt (by simp [hx]))
    rcases hres : bEff C c e with ⟨c', err⟩
    rw [hres] at hstep
    cases err with
    | none =>
      obtain ⟨rest, h1, h2, h3⟩ := ih c' hstep.1 (fun ph pt hx => he ph pt (by simp [hx]))
      refine ⟨rest, h1, ?_, ?_⟩
      · rcases h2 with h2 | ⟨ph, pt, h2⟩
        · exact Or.inl h2
        · exact Or.inr ⟨ph, pt, by simp [h2]⟩
      · intro hw
        apply h3
        rw [wRecvs_cons] at hw
        exact (List.append_eq_nil_iff.mp hw).2
    | some x =>
      obtain ⟨ph, pt, hx⟩ := hstep.2 (by simp)
      refine ⟨es, hstep.1, Or.inr ⟨ph, pt, by simp [hx]⟩, ?_⟩
      intro hw
      rw [wRecvs_cons] at hw
      exact (List.append_eq_nil_iff.mp hw).2

/-- running the calls of a Boss step that satisfies `BossOK` re-establishes the invariant -/
theorem cBossRes_inv (C : Crypto) (me ps : String) (peer mine mine' : List Bytes) (c : Client) (r : BRes)
    (hrest : RestInv C me ps peer mine' c) (hok : BossOK peer mine' (receivedOf c.log) r) :
    Mid C me ps peer mine' [] (cBossRes C c r).1 := by
  obtain ⟨b', effs, err⟩ := r
  simp only [cBossRes, thenErr_fst]
  have hmid : Mid C me ps peer mine' (wRecvs effs) { c with boss := b' } :=
    ⟨⟨hrest.side_eq, hrest.side_ne, hrest.sq, hrest.pend, hrest.logtx, hrest.oq, hrest.obs⟩, ⟨hok.tx, hok.rx⟩⟩
  obtain ⟨rest, h1, h2, h3⟩ := runEffs_bEff C me ps peer mine' effs _ hmid hok.sends
  have : wRecvs rest = [] := by
    rcases h2 with h2 | h2
    · subst h2; rfl
    · exact h3 (hok.nomix h2)
  rw [this] at h1
  exact h1


abbrev Inv (C : Crypto) (me ps : String) (peer mine : List Bytes) (c : Client) : Prop := Mid C me ps peer mine [] c

theorem Inv.loop {C me ps peer mine c} (h : Inv C me ps peer mine c) : LoopInv peer [] c.boss.rx (receivedOf c.log) := by
  simpa using h.boss.rx

theorem cBoss_ctl_inv (C : Crypto) (me ps : String) (peer mine : List Bytes) (c : Client) (i : Boss.Input) (a : CtlArg)
    (h : Inv C me ps peer mine c) : Inv C me ps peer mine (cBoss C c i a.toB).1 :=
  cBossRes_inv C me ps peer mine mine c _ h.rest (bossStep_ctl peer mine _ c.boss i a h.boss.tx h.loop)

theorem cBoss_send_inv (C : Crypto) (me ps : String) (peer mine : List Bytes) (c : Client) (pt : Bytes)
    (h : Inv C me ps peer mine c) : Inv C me ps peer (mine ++ [pt]) (cBoss C c .send (.pt pt)).1 :=
  cBossRes_inv C me ps peer mine (mine ++ [pt]) c _ (h.rest.mono_mine [pt])
    (bossStep_send peer mine _ c.boss pt h.boss.tx h.loop)

theorem cBossGotMessage_inv (C : Crypto) (me ps : String) (peer mine : List Bytes) (c : Client) (ph : String) (pt : Bytes)
    (h : Inv C me ps peer mine c) (hph : ∀ n, classifyPhase ph = .numeric n → peer[n]? = some pt) :
    Inv C me ps peer mine (cBossGotMessage C c ph pt).1 := by
  unfold cBossGotMessage bossGotMessage
  cases hc : classifyPhase ph with
  | version => exact cBossRes_inv C me ps peer mine mine c _ h.rest (bossStep_version peer mine _ c.boss pt h.boss.tx h.loop)
  | dilate n => exact cBossRes_inv C me ps peer mine mine c _ h.rest (bossStep_dilate peer mine _ c.boss n pt h.boss.tx h.loop)
  | numeric n =>
    exact cBossRes_inv C me ps peer mine mine c _ h.rest
      (bossStep_phase peer mine _ c.boss n pt h.boss.tx h.loop (hph n hc))
  | unknown => exact h.emit _ rfl

/-! ### Receive -/

/-- whatever a Receive step hands to `Boss.got_message` is the `(phase, plaintext)` of a `good` input -/
theorem recvStep_msg (r : RecvD) (i : Receive.Input) (a : RArg) (ph : String) (pt : Bytes)
    (h : REff.bGotMessage ph pt ∈ (recvStep r i a).2.1) : a = .good ph pt := by
  have hout : ∀ o r', REff.bGotMessage ph pt ∈ (recvOut o a r').2.1 → a = .good ph pt := by
    intro o r'; cases o <;> cases a <;> simp [recvOut]
    · split <;> simp
    · intro h1 h2; exact ⟨h1.symm, h2.symm⟩
  have houts : ∀ os r' acc, REff.bGotMessage ph pt ∈ (recvOuts os a r' acc).2.1 →
      REff.bGotMessage ph pt ∈ acc ∨ a = .good ph pt := by
    intro os
    induction os with
    | nil => intro r' acc h; exact Or.inl (by simpa [recvOuts] using h)
    | cons o os ih =>
      intro r' acc h
      unfold recvOuts at h
      have ho := hout o r'
      rcases hres : recvOut o a r' with ⟨r2, effs, err⟩
      rw [hres] at ho h
      cases err with
      | none =>
        rcases ih _ _ h with h1 | h1
        · rcases List.mem_append.mp h1 with h2 | h2
          · exact Or.inl h2
          · exact Or.inr (ho h2)
        · exact Or.inr h1
      | some e =>
        rcases List.mem_append.mp h with h2 | h2
        · exact Or.inl h2
        · exact Or.inr (ho h2)
  unfold recvStep at h
  cases ht : Receive.table r.st i with
  | none => rw [ht] at h; simp at h
  | some x =>
    rw [ht] at h
    rcases houts _ _ _ h with h1 | h1
    · simp at h1
    · exact h1

theorem recvGotMessage_msg (C : Crypto) (r : RecvD) (s p : String) (body : Bytes) (ph : String) (pt : Bytes)
    (h : REff.bGotMessage ph pt ∈ (recvGotMessage C r s p body).2.1) : ph = p ∧ C.dec s p body = some pt := by
  unfold recvGotMessage at h
  by_cases hk : r.key = true
  · simp only [hk, Bool.not_true] at h
    cases hd : C.dec s p body with
    | none => rw [hd] at h; have := recvStep_msg _ _ _ _ _ h; cases this
    | some m =>
      rw [hd] at h
      have := recvStep_msg _ _ _ _ _ h
      injection this with e1 e2
      subst e1 e2
      exact ⟨rfl, rfl⟩
  · simp only [hk] at h
    have := recvStep_msg _ _ _ _ _ h
    cases this

theorem rEff_inv (C : Crypto) (me ps : String) (peer mine : List Bytes) (c : Client) (e : REff)
    (h : Inv C me ps peer mine c)
    (he : ∀ ph pt, e = .bGotMessage ph pt → ∀ n, classifyPhase ph = .numeric n → peer[n]? = some pt) :
    Inv C me ps peer mine (rEff C c e).1 := by
  cases e with
  | sGotVerifiedKey =>
    have hs := cSend_inv C mine c .got_verified_key .key h.txinv (by intro ph pt e; cases e)
    exact h.of_frame hs.1 hs.2
  | bHappy => exact cBoss_ctl_inv C me ps peer mine c .happy .none h
  | bGotVerifier => exact cBoss_ctl_inv C me ps peer mine c .got_verifier .one h
  | bScared => exact cBoss_ctl_inv C me ps peer mine c .scared .none h
  | bGotMessage ph pt => exact cBossGotMessage_inv C me ps peer mine c ph pt h (he ph pt rfl)

/-- the invariant does not mention the Receive machine -/
theorem Mid.set_recv {C me ps peer mine pr c} (h : Mid C me ps peer mine pr c) (r : RecvD) :
    Mid C me ps peer mine pr { c with recv := r } :=
  ⟨⟨h.rest.side_eq, h.rest.side_ne, h.rest.sq, h.rest.pend, h.rest.logtx, h.rest.oq, h.rest.obs⟩, ⟨h.boss.tx, h.boss.rx⟩⟩

theorem cRecvRes_inv (C : Crypto) (me ps : String) (peer mine : List Bytes) (c : Client) (r : RRes)
    (h : Inv C me ps peer mine c)
    (hr : ∀ ph pt, REff.bGotMessage ph pt ∈ r.2.1 → ∀ n, classifyPhase ph = .numeric n → peer[n]? = some pt) :
    Inv C me ps peer mine (cRecvRes C c r).1 := by
  obtain ⟨r', effs, err⟩ := r
  simp only [cRecvRes, thenErr_fst]
  apply runEffs_inv (rEff C) (fun c' => Inv C me ps peer mine c')
  · exact h.set_recv r'
  · intro c' e he hI
    exact rEff_inv C me ps peer mine c' e hI (fun ph pt hx => hr ph pt (hx ▸ he))

/-- a message of the peer as the server hands it over -/
def MsgOK (C : Crypto) (ps : String) (peer : List Bytes) (e : String × String × Bytes) : Prop :=
  e.1 = ps ∧ TxOK C ps peer e.2.1 e.2.2

theorem recv_msgok (C : Crypto) (hC : C.Ideal) (ps : String) (peer : List Bytes) (r : RecvD)
    (s p : String) (body : Bytes) (hm : MsgOK C ps peer (s, p, body)) (ph : String) (pt : Bytes)
    (h : REff.bGotMessage ph pt ∈ (recvGotMessage C r s p body).2.1) :
    ∀ n, classifyPhase ph = .numeric n → peer[n]? = some pt := by
  obtain ⟨h1, h2⟩ := recvGotMessage_msg C r s p body ph pt h
  subst h1
  obtain ⟨hs, htx⟩ := hm
  simp only at hs htx
  subst hs
  intro n hn
  rcases htx with htx | ⟨i, x, e1, e2, e3⟩
  · exact absurd hn (htx n)
  · subst e1
    rw [classify_showPhase] at hn
    injection hn with hn
    subst hn
    rw [e3, hC.open_seal] at h2
    injection h2 with h2
    rw [← h2]; exact e2


/-! ### Order -/

structure OrderOK (q0 : List (String × String × Bytes)) (a : String × String × Bytes)
    (r : OrderD × List OEff) : Prop where
  q : ∀ e ∈ r.1.queue, e ∈ q0 ∨ e = a
  effs : ∀ s p b, OEff.rGotMessage s p b ∈ r.2 → (s, p, b) ∈ q0 ∨ (s, p, b) = a

theorem orderOuts_ok (q0 : List (String × String × Bytes)) (a : String × String × Bytes)
    (os : List Order.Output) (s : OrderD) (acc : List OEff)
    (hq : ∀ e ∈ s.queue, e ∈ q0 ∨ e = a)
    (hacc : ∀ s' p b, OEff.rGotMessage s' p b ∈ acc → (s', p, b) ∈ q0 ∨ (s', p, b) = a) :
    OrderOK q0 a (orderOuts os a s acc) := by
  induction os generalizing s acc with
  | nil => exact ⟨hq, hacc⟩
  | cons o os ih =>
    unfold orderOuts
    cases o <;> simp only [orderOut]
    · -- deliver
      apply ih _ _ hq
      intro s' p b hm
      rcases List.mem_append.mp hm with hm | hm
      · exact hacc s' p b hm
      · simp at hm; obtain ⟨rfl, rfl, rfl⟩ := hm; exact Or.inr rfl
    · -- drain
      apply ih
      · intro e he; simp at he
      · intro s' p b hm
        rcases List.mem_append.mp hm with hm | hm
        · exact hacc s' p b hm
        · obtain ⟨⟨x, y, z⟩, hmq, e⟩ := List.mem_map.mp hm
          simp only [OEff.rGotMessage.injEq] at e
          obtain ⟨rfl, rfl, rfl⟩ := e
          exact hq _ hmq
    · -- notify_key
      apply ih _ _ hq
      intro s' p b hm
      rcases List.mem_append.mp hm with hm | hm
      · exact hacc s' p b hm
      · simp at hm
    · -- queue
      apply ih
      · intro e he
        rcases List.mem_append.mp he with he | he
        · exact hq e he
        · simp at he; exact Or.inr he
      · simpa using hacc

theorem orderStep_ok (s : OrderD) (side phase : String) (body : Bytes) :
    OrderOK s.queue (side, phase, body) ((orderStep s side phase body).1, (orderStep s side phase body).2.1) := by
  unfold orderStep
  simp only []
  cases Order.table s.st (if phase = "pake" then Order.Input.got_pake else Order.Input.got_non_pake) with
  | none => exact ⟨fun e he => Or.inl he, by simp⟩
  | some r => exact orderOuts_ok s.queue _ _ _ [] (fun e he => Or.inl he) (by simp)

theorem Mid.set_order {C me ps peer mine pr c} (h : Mid C me ps peer mine pr c) (o : OrderD)
    (ho : ∀ e ∈ o.queue, MsgOK C ps peer e) : Mid C me ps peer mine pr { c with order := o } :=
  ⟨⟨h.rest.side_eq, h.rest.side_ne, h.rest.sq, h.rest.pend, h.rest.logtx, ho, h.rest.obs⟩, ⟨h.boss.tx, h.boss.rx⟩⟩

theorem cOrder_inv (C : Crypto) (hC : C.Ideal) (me ps : String) (peer mine : List Bytes) (c : Client)
    (side phase : String) (body : Bytes)
    (h : Inv C me ps peer mine c) (hm : MsgOK C ps peer (side, phase, body)) :
    Inv C me ps peer mine (cOrder C c side phase body).1 := by
  unfold cOrder
  have hok := orderStep_ok c.order side phase body
  rcases hres : orderStep c.order side phase body with ⟨o', effs, err⟩
  rw [hres] at hok
  simp only [] at hok ⊢
  have hall : ∀ e, e ∈ c.order.queue ∨ e = (side, phase, body) → MsgOK C ps peer e := by
    intro e he
    rcases he with he | he
    · exact h.rest.oq e he
    · subst he; exact hm
  have hrun := runEffs_inv (oEff C) (fun c' => Inv C me ps peer mine c') effs { c with order := o' }
    (h.set_order o' (fun e he => hall e (hok.q e he)))
    (by
      intro c' e he hI
      cases e with
      | kGotPake b => exact hI.emit _ rfl
      | rGotMessage s p b =>
        simp only [oEff]
        apply cRecvRes_inv C me ps peer mine c' _ hI
        exact recv_msgok C hC ps peer c'.recv s p b (hall _ (hok.effs s p b he)))
  rcases hres2 : runEffs (oEff C) { c with order := o' } effs with ⟨c', err2⟩
  rw [hres2] at hrun
  cases err2 with
  | none => exact hrun
  | some e => exact hrun.set_order _ (fun e he => h.rest.oq e he)

/-! ### Mailbox.rx_message -/

theorem Mid.set_mbox {C me ps peer mine pr c} (h : Mid C me ps peer mine pr c) (m : MboxD)
    (hm : ∀ e ∈ m.pending, TxOK C c.side mine e.1 e.2) : Mid C me ps peer mine pr { c with mbox := m } :=
  ⟨⟨h.rest.side_eq, h.rest.side_ne, h.rest.sq, hm, h.rest.logtx, h.rest.oq, h.rest.obs⟩, ⟨h.boss.tx, h.boss.rx⟩⟩

/-- what the server may hand to a client: a well-formed message of the peer, or an echo of its own -/
def DeliverOK (C : Crypto) (ps : String) (peer : List Bytes) (myside : String) (e : String × String × Bytes) : Prop :=
  e.1 = myside ∨ MsgOK C ps peer e

theorem mEffRx_plain (C : Crypto) (me ps : String) (peer mine : List Bytes) (c0 c : Client) (e : MEff)
    (h : Inv C me ps peer mine c) (hadd : ∀ p b, e = .txAdd p b → TxOK C me mine p b)
    (hord : ∀ s p b, e ≠ .toOrder s p b) : Inv C me ps peer mine (mEffRx C c e).1 := by
  cases e with
  | toOrder s p b => exact absurd rfl (hord s p b)
  | txAdd p b =>
    have := mEffSimple_inv C mine c c (.txAdd p b) ⟨h.txinv, Frame.refl c⟩
      (by intro p' b' e; injection e with e1 e2; subst e1 e2; rw [h.rest.side_eq]; exact hadd _ _ rfl)
    exact h.of_frame this.1 this.2
  | txOpen => exact h.emit _ rfl
  | txClose md => exact h.emit _ rfl
  | release => exact h.emit _ rfl
  | mailboxDone => exact h.emit _ rfl

theorem cMboxRx_inv (C : Crypto) (hC : C.Ideal) (me ps : String) (peer mine : List Bytes) (c : Client)
    (side phase : String) (body : Bytes)
    (h : Inv C me ps peer mine c) (hd : DeliverOK C ps peer c.side (side, phase, body)) :
    Inv C me ps peer mine (cMboxRx C c side phase body).1 := by
  unfold cMboxRx mboxRx
  by_cases hs : side = c.side
  · -- an echo: never reaches Order
    simp only [hs, if_true]
    have hok := mboxStep_ok C c.side mine c.mbox .rx_message_ours (.ours phase body) h.rest.pend
      (by intro p b e; cases e)
    rcases hres : mboxStep c.mbox .rx_message_ours (.ours phase body) with ⟨m', effs, err⟩
    rw [hres] at hok
    simp only [thenErr_fst]
    apply runEffs_inv (mEffRx C) (fun c' => Inv C me ps peer mine c') effs _ (h.set_mbox m' hok.pend)
    intro c' e he hI
    apply mEffRx_plain C me ps peer mine c c' e hI
    · intro p b hx; rw [← h.rest.side_eq]; exact hok.adds p b (hx ▸ he)
    · intro s p b hx; have := hok.ord s p b (hx ▸ he); cases this
  · simp only [hs, if_false]
    have hmsg : MsgOK C ps peer (side, phase, body) := by
      rcases hd with hd | hd
      · exact absurd hd hs
      · exact hd
    have hok := mboxStep_ok C c.side mine c.mbox .rx_message_theirs (.theirs side phase body) h.rest.pend
      (by intro p b e; cases e)
    rcases hres : mboxStep c.mbox .rx_message_theirs (.theirs side phase body) with ⟨m', effs, err⟩
    rw [hres] at hok
    simp only [thenErr_fst]
    apply runEffs_inv (mEffRx C) (fun c' => Inv C me ps peer mine c') effs _ (h.set_mbox m' hok.pend)
    intro c' e he hI
    by_cases hto : ∃ s p b, e = .toOrder s p b
    · obtain ⟨s, p, b, rfl⟩ := hto
      have := hok.ord s p b he
      injection this with e1 e2 e3
      subst e1 e2 e3
      exact cOrder_inv C hC me ps peer mine c' _ _ _ hI hmsg
    · apply mEffRx_plain C me ps peer mine c c' e hI
      · intro p b hx; rw [← h.rest.side_eq]; exact hok.adds p b (hx ▸ he)
      · intro s p b hx; exact hto ⟨s, p, b, hx⟩


/-! ## the two-client system -/

inductive MCtl where
  | none | mailbox | mood (m : String)
  deriving DecidableEq, Repr

def MCtl.toM : MCtl → MArg
  | .none => .none | .mailbox => .mailbox | .mood m => .mood m

/-- what can happen at one client: every operation of the driver except handing a plaintext
    straight to the Boss (`rx`, `drx`, `got_message`), which only Receive may do -/
inductive COp where
  | send (pt : Bytes)                        -- the application calls `send_message(pt)`
  | boss (i : Boss.Input) (a : CtlArg)       -- any Boss input that carries no plaintext (close, error, got_code, …)
  | key                                      -- `Receive.got_key(key)`
  | verified                                 -- `Send.got_verified_key(key)`
  | mbox (i : Mailbox.Input) (a : MCtl)      -- connected / lost / got_mailbox / rx_closed / close(mood)
  | addRaw (p : String) (b : Bytes)          -- `M.add_message(p, b)` as Key does it; ignored if `p` is a numeric phase
  | getMessage                               -- the application calls `get_message()`
  | turn                                     -- one eventual-queue turn
  deriving Repr

def clientOp (C : Crypto) (c : Client) : COp → Client
  | .send pt => (cBoss C c .send (.pt pt)).1
  | .boss i a => (cBoss C c i a.toB).1
  | .key => (cRecvRes C c (recvStep c.recv .got_key .key)).1
  | .verified => (cSend C c .got_verified_key .key).1
  | .mbox i a => (cMbox c i a.toM).1
  | .addRaw p b =>
    match classifyPhase p with
    | .numeric _ => c
    | _ => (cMbox c .add_message (.add p b)).1
  | .getMessage => { c with obs := c.obs.get }
  | .turn => { c with obs := c.obs.turn, log := c.log ++ c.obs.queue.map (fun e => .cb e.1 e.2) }

structure Sys where
  a : Client
  b : Client
  bag : List (String × String × Bytes)     -- everything the server has stored: (side, phase, body)
  sentA : List Bytes                        -- everything application A passed to `send_message`, in order
  sentB : List Bytes
  deriving Repr

def sysInit (sa sb : String) : Sys :=
  { a := clientInit sa, b := clientInit sb, bag := [], sentA := [], sentB := [] }

/-- `who = false`: client A, `who = true`: client B -/
inductive SAct where
  | op (who : Bool) (o : COp)
  | store (who : Bool) (j : Nat)      -- the server stores the j-th frame that client ever wrote (if it is an `add`), again if it likes
  | deliver (who : Bool) (k : Nat)    -- the server hands its k-th stored message to that client: any message, any time, any number of times
  deriving Repr

def storeFrom (c : Client) (j : Nat) (bag : List (String × String × Bytes)) : List (String × String × Bytes) :=
  match c.log[j]? with
  | some (.txAdd p b) => bag ++ [(c.side, p, b)]
  | _ => bag

def deliverTo (C : Crypto) (c : Client) (k : Nat) (bag : List (String × String × Bytes)) : Client :=
  match bag[k]? with
  | some (sd, p, b) => (cMboxRx C c sd p b).1
  | none => c

def Sys.step (C : Crypto) (s : Sys) : SAct → Sys
  | .op false o =>
    { s with a := clientOp C s.a o, sentA := match o with | .send pt => s.sentA ++ [pt] | _ => s.sentA }
  | .op true o =>
    { s with b := clientOp C s.b o, sentB := match o with | .send pt => s.sentB ++ [pt] | _ => s.sentB }
  | .store false j => { s with bag := storeFrom s.a j s.bag }
  | .store true j => { s with bag := storeFrom s.b j s.bag }
  | .deliver false k => { s with a := deliverTo C s.a k s.bag }
  | .deliver true k => { s with b := deliverTo C s.b k s.bag }

def Sys.run (C : Crypto) (s : Sys) (acts : List SAct) : Sys := acts.foldl (Sys.step C) s

/-! ### one client's operations keep its invariant -/

theorem Mid.mono_peer {C me ps peer mine c} (h : Inv C me ps peer mine c) (l : List Bytes) :
    Inv C me ps (peer ++ l) mine c :=
  ⟨h.rest.mono_peer l, ⟨h.boss.tx, by simpa using h.loop.mono l⟩⟩

theorem clientOp_inv (C : Crypto) (me ps : String) (peer mine : List Bytes) (c : Client) (o : COp)
    (h : Inv C me ps peer mine c) :
    Inv C me ps peer (match o with | .send pt => mine ++ [pt] | _ => mine) (clientOp C c o) := by
  cases o with
  | send pt => exact cBoss_send_inv C me ps peer mine c pt h
  | boss i a => exact cBoss_ctl_inv C me ps peer mine c i a h
  | key =>
    apply cRecvRes_inv C me ps peer mine c _ h
    intro ph pt hm
    have := recvStep_msg _ _ _ _ _ hm
    cases this
  | verified =>
    have hs := cSend_inv C mine c .got_verified_key .key h.txinv (by intro ph pt e; cases e)
    exact h.of_frame hs.1 hs.2
  | mbox i a =>
    have hs := cMbox_inv C mine c i a.toM h.txinv (by intro p b e; cases a <;> cases e)
    exact h.of_frame hs.1 hs.2
  | addRaw p b =>
    simp only [clientOp]
    cases hc : classifyPhase p with
    | numeric n => exact h
    | version =>
      have hs := cMbox_inv C mine c .add_message (.add p b) h.txinv
        (by intro p' b' e; injection e with e1 e2; subst e1 e2; exact Or.inl (by intro n hn; rw [hc] at hn; cases hn))
      exact h.of_frame hs.1 hs.2
    | dilate k =>
      have hs := cMbox_inv C mine c .add_message (.add p b) h.txinv
        (by intro p' b' e; injection e with e1 e2; subst e1 e2; exact Or.inl (by intro n hn; rw [hc] at hn; cases hn))
      exact h.of_frame hs.1 hs.2
    | unknown =>
      have hs := cMbox_inv C mine c .add_message (.add p b) h.txinv
        (by intro p' b' e; injection e with e1 e2; subst e1 e2; exact Or.inl (by intro n hn; rw [hc] at hn; cases hn))
      exact h.of_frame hs.1 hs.2
  | getMessage =>
    refine ⟨⟨h.rest.side_eq, h.rest.side_ne, h.rest.sq, h.rest.pend, h.rest.logtx, h.rest.oq, ?_⟩, ⟨h.boss.tx, h.boss.rx⟩⟩
    simp only [clientOp]; rw [obs_get_vals]; exact h.rest.obs
  | turn =>
    have hr : receivedOf (c.log ++ c.obs.queue.map (fun e => Ev.cb e.1 e.2)) = receivedOf c.log := by
      simp [receivedOf, List.filterMap_map, Function.comp_def]
    refine ⟨⟨h.rest.side_eq, h.rest.side_ne, h.rest.sq, h.rest.pend, ?_, h.rest.oq, ?_⟩, ⟨h.boss.tx, ?_⟩⟩
    · intro p b hm
      simp only [clientOp, List.mem_append, List.mem_map] at hm
      rcases hm with hm | ⟨x, _, hx⟩
      · exact h.rest.logtx p b hm
      · cases hx
    · simp only [clientOp]; rw [hr, obs_turn_vals]; exact h.rest.obs
    · simp only [clientOp]; rw [hr]; exact h.boss.rx

theorem clientInit_inv (C : Crypto) (me ps : String) (hne : me ≠ ps) : Inv C me ps [] [] (clientInit me) := by
  refine ⟨⟨rfl, hne, ?_, ?_, ?_, ?_, ?_⟩, ⟨Or.inl ⟨rfl, rfl⟩, ?_⟩⟩
  · intro e he; simp [clientInit, sendInit] at he
  · intro e he; simp [clientInit, mboxInit] at he
  · intro p b he; simp [clientInit] at he
  · intro e he; simp [clientInit, orderInit] at he
  · simp [clientInit, obsInit]
  · constructor
    · intro q v hq; simp [clientInit, bossInit, rxInit, dget] at hq
    · simp [clientInit, bossInit, rxInit]
    · simp [clientInit, bossInit, rxInit]
    · intro q hq; simp at hq

/-- everything stored on the server is a well-formed message of A or of B -/
def BagOK (C : Crypto) (sa sb : String) (sentA sentB : List Bytes) (e : String × String × Bytes) : Prop :=
  MsgOK C sa sentA e ∨ MsgOK C sb sentB e

structure SysInv (C : Crypto) (sa sb : String) (s : Sys) : Prop where
  a : Inv C sa sb s.sentB s.sentA s.a
  b : Inv C sb sa s.sentA s.sentB s.b
  bag : ∀ e ∈ s.bag, BagOK C sa sb s.sentA s.sentB e

theorem storeFrom_ok (C : Crypto) (me ps : String) (peer mine : List Bytes) (c : Client) (j : Nat)
    (bag : List (String × String × Bytes)) (h : Inv C me ps peer mine c) :
    ∀ e ∈ storeFrom c j bag, e ∈ bag ∨ MsgOK C me mine e := by
  intro e he
  unfold storeFrom at he
  cases hl : c.log[j]? with
  | none => rw [hl] at he; exact Or.inl he
  | some ev =>
    rw [hl] at he
    cases ev <;> simp only [] at he <;> (try exact Or.inl he)
    rename_i p b
    rcases List.mem_append.mp he with he | he
    · exact Or.inl he
    · simp at he; subst he
      have hm : Ev.txAdd p b ∈ c.log := List.mem_of_getElem? hl
      exact Or.inr ⟨h.rest.side_eq, h.rest.side_eq ▸ h.rest.logtx p b hm⟩

theorem deliverTo_inv (C : Crypto) (hC : C.Ideal) (me ps : String) (peer mine : List Bytes) (c : Client) (k : Nat)
    (bag : List (String × String × Bytes)) (h : Inv C me ps peer mine c)
    (hb : ∀ e ∈ bag, MsgOK C me mine e ∨ MsgOK C ps peer e) :
    Inv C me ps peer mine (deliverTo C c k bag) := by
  unfold deliverTo
  cases hk : bag[k]? with
  | none => exact h
  | some e =>
    obtain ⟨sd, p, b⟩ := e
    simp only []
    apply cMboxRx_inv C hC me ps peer mine c sd p b h
    rcases hb _ (List.mem_of_getElem? hk) with hx | hx
    · exact Or.inl (hx.1.trans h.rest.side_eq.symm)
    · exact Or.inr hx

theorem MsgOK.mono {C ps peer e} (h : MsgOK C ps peer e) (l : List Bytes) : MsgOK C ps (peer ++ l) e :=
  ⟨h.1, h.2.mono l⟩

theorem sysStep_inv (C : Crypto) (hC : C.Ideal) (sa sb : String) (s : Sys) (act : SAct)
    (h : SysInv C sa sb s) : SysInv C sa sb (Sys.step C s act) := by
  obtain ⟨ha, hb, hbag⟩ := h
  cases act with
  | op who o =>
    cases who with
    | false =>
      have h1 := clientOp_inv C sa sb s.sentB s.sentA s.a o ha
      cases o with
      | send pt =>
        exact ⟨h1, Mid.mono_peer hb [pt], fun e he => (hbag e he).imp (fun x => x.mono [pt]) id⟩
      | _ => exact ⟨h1, hb, hbag⟩
    | true =>
      have h1 := clientOp_inv C sb sa s.sentA s.sentB s.b o hb
      cases o with
      | send pt =>
        exact ⟨Mid.mono_peer ha [pt], h1, fun e he => (hbag e he).imp id (fun x => x.mono [pt])⟩
      | _ => exact ⟨ha, h1, hbag⟩
  | store who j =>
    cases who with
    | false =>
      refine ⟨ha, hb, ?_⟩
      intro e he
      rcases storeFrom_ok C sa sb s.sentB s.sentA s.a j s.bag ha e he with h1 | h1
      · exact hbag e h1
      · exact Or.inl h1
    | true =>
      refine ⟨ha, hb, ?_⟩
      intro e he
      rcases storeFrom_ok C sb sa s.sentA s.sentB s.b j s.bag hb e he with h1 | h1
      · exact hbag e h1
      · exact Or.inr h1
  | deliver who k =>
    cases who with
    | false => exact ⟨deliverTo_inv C hC sa sb s.sentB s.sentA s.a k s.bag ha hbag, hb, hbag⟩
    | true =>
      exact ⟨ha, deliverTo_inv C hC sb sa s.sentA s.sentB s.b k s.bag hb (fun e he => (hbag e he).symm), hbag⟩

theorem sysRun_inv (C : Crypto) (hC : C.Ideal) (sa sb : String) (acts : List SAct) (s : Sys)
    (h : SysInv C sa sb s) : SysInv C sa sb (Sys.run C s acts) := by
  induction acts generalizing s with
  | nil => exact h
  | cons x xs ih => exact ih _ (sysStep_inv C hC sa sb s x h)

theorem sysInit_inv (C : Crypto) (sa sb : String) (hne : sa ≠ sb) : SysInv C sa sb (sysInit sa sb) :=
  ⟨clientInit_inv C sa sb hne, clientInit_inv C sb sa (fun e => hne e.symm), by intro e he; simp [sysInit] at he⟩


/-! ## SequenceObserver with errors -/

/-- observer traces that may also contain `fire(Failure)` (the wormhole closed) -/
inductive ObsOpE where
  | op (o : ObsOp)
  | error
  deriving Repr

def obsRunE (o : Obs) : List ObsOpE → Obs
  | [] => o
  | .op x :: xs => obsRunE (o.op x) xs
  | .error :: xs => obsRunE o.fireError xs

def firesOfE : List ObsOpE → List Bytes
  | [] => []
  | .op (.fire v) :: r => v :: firesOfE r
  | _ :: r => firesOfE r

theorem obsRunE_vals (tr : List ObsOpE) (o : Obs) :
    okVals ((obsRunE o tr).fired ++ (obsRunE o tr).queue) ++ (obsRunE o tr).results =
      okVals (o.fired ++ o.queue) ++ o.results ++ firesOfE tr := by
  induction tr generalizing o with
  | nil => simp [obsRunE, firesOfE]
  | cons x xs ih =>
    cases x with
    | error => simp only [obsRunE, firesOfE]; rw [ih, obs_fireError_vals]
    | op y =>
      cases y with
      | get => simp only [obsRunE, firesOfE, Obs.op]; rw [ih, obs_get_vals]
      | turn => simp only [obsRunE, firesOfE, Obs.op]; rw [ih, obs_turn_vals]
      | fire v => simp only [obsRunE, firesOfE, Obs.op]; rw [ih, obs_fire_vals]; simp


/-! ## the two reorder buffers of the Boss are independent -/

/-- plaintexts of the `D.received_dilate` calls in a list of Boss calls -/
def dRecvs (effs : List BEff) : List Bytes :=
  effs.filterMap (fun e => match e with | .dReceived pt => some pt | _ => none)

@[simp] theorem dRecvs_nil : dRecvs [] = [] := rfl
@[simp] theorem dRecvs_append (a b : List BEff) : dRecvs (a ++ b) = dRecvs a ++ dRecvs b := by
  simp [dRecvs, List.filterMap_append]
theorem dRecvs_cons (e : BEff) (r : List BEff) :
    dRecvs (e :: r) = (match e with | .dReceived pt => [pt] | _ => []) ++ dRecvs r := by
  cases e <;> simp [dRecvs]
@[simp] theorem dRecvs_map_wReceived (ds : List Bytes) : dRecvs (ds.map .wReceived) = [] := by
  induction ds with
  | nil => rfl
  | cons d r ih => simp [dRecvs_cons, ih]
@[simp] theorem dRecvs_map_dReceived (ds : List Bytes) : dRecvs (ds.map .dReceived) = ds := by
  induction ds with
  | nil => rfl
  | cons d r ih => simp [dRecvs_cons, ih]

/-- equal up to the dilate buffer -/
def EqApp (b b' : BossD) : Prop := b.st = b'.st ∧ b.nextTx = b'.nextTx ∧ b.rx = b'.rx
/-- equal up to the application buffer -/
def EqDil (b b' : BossD) : Prop := b.st = b'.st ∧ b.nextTx = b'.nextTx ∧ b.drx = b'.drx

/-- a Boss input that is a `dilate-N` message -/
def isDilateIn : BIn → Bool
  | .gotDilate _ _ => true
  | .gotMessage ph _ => match classifyPhase ph with | .dilate _ => true | _ => false
  | _ => false

/-- a Boss input that is a numbered application message -/
def isPhaseIn : BIn → Bool
  | .gotPhase _ _ => true
  | .gotMessage ph _ => match classifyPhase ph with | .numeric _ => true | _ => false
  | _ => false

theorem bossIn_congr_app (b b' : BossD) (x : BIn) (h : EqApp b b') :
    EqApp (bossIn b x).1 (bossIn b' x).1 ∧ wRecvs (bossIn b x).2.1 = wRecvs (bossIn b' x).2.1 ∧
      sSends (bossIn b x).2.1 = sSends (bossIn b' x).2.1 := by
  obtain ⟨st, ntx, rx, drx⟩ := b
  obtain ⟨st', ntx', rx', drx'⟩ := b'
  obtain ⟨h1, h2, h3⟩ := h
  simp only at h1 h2 h3
  subst h1 h2 h3
  cases x with
  | gotMessage ph pt =>
    simp only [bossIn, bossGotMessage]
    cases classifyPhase ph <;> cases st <;>
      simp [EqApp, bossStep, Boss.table, bossOuts, bossOut, takeTxPhase, wRecvs_cons, sSends_cons]
  | _ =>
    cases st <;>
      simp [EqApp, bossIn, bossStep, Boss.table, bossOuts, bossOut, takeTxPhase, wRecvs_cons, sSends_cons]

theorem bossIn_congr_dil (b b' : BossD) (x : BIn) (h : EqDil b b') :
    EqDil (bossIn b x).1 (bossIn b' x).1 ∧ dRecvs (bossIn b x).2.1 = dRecvs (bossIn b' x).2.1 := by
  obtain ⟨st, ntx, rx, drx⟩ := b
  obtain ⟨st', ntx', rx', drx'⟩ := b'
  obtain ⟨h1, h2, h3⟩ := h
  simp only at h1 h2 h3
  subst h1 h2 h3
  cases x with
  | gotMessage ph pt =>
    simp only [bossIn, bossGotMessage]
    cases classifyPhase ph <;> cases st <;>
      simp [EqDil, bossStep, Boss.table, bossOuts, bossOut, takeTxPhase, dRecvs_cons]
  | _ =>
    cases st <;>
      simp [EqDil, bossIn, bossStep, Boss.table, bossOuts, bossOut, takeTxPhase, dRecvs_cons]

/-- a `dilate-N` input leaves the application side of the Boss alone and calls nothing of it -/
theorem bossIn_dilate_app (b : BossD) (x : BIn) (hx : isDilateIn x = true) :
    EqApp (bossIn b x).1 b ∧ wRecvs (bossIn b x).2.1 = [] ∧ sSends (bossIn b x).2.1 = [] := by
  obtain ⟨st, ntx, rx, drx⟩ := b
  cases x with
  | gotMessage ph pt =>
    simp only [isDilateIn] at hx
    simp only [bossIn, bossGotMessage]
    cases hc : classifyPhase ph <;> simp [hc] at hx
    cases st <;> simp [EqApp, bossStep, Boss.table, bossOuts, bossOut, wRecvs_cons, sSends_cons]
  | gotDilate n pt =>
    cases st <;> simp [EqApp, bossIn, bossStep, Boss.table, bossOuts, bossOut, wRecvs_cons, sSends_cons]
  | _ => simp [isDilateIn] at hx

/-- a numbered application message leaves the dilation side of the Boss alone -/
theorem bossIn_phase_dil (b : BossD) (x : BIn) (hx : isPhaseIn x = true) :
    EqDil (bossIn b x).1 b ∧ dRecvs (bossIn b x).2.1 = [] := by
  obtain ⟨st, ntx, rx, drx⟩ := b
  cases x with
  | gotMessage ph pt =>
    simp only [isPhaseIn] at hx
    simp only [bossIn, bossGotMessage]
    cases hc : classifyPhase ph <;> simp [hc] at hx
    cases st <;> simp [EqDil, bossStep, Boss.table, bossOuts, bossOut, dRecvs_cons]
  | gotPhase n pt =>
    cases st <;> simp [EqDil, bossIn, bossStep, Boss.table, bossOuts, bossOut, dRecvs_cons]
  | _ => simp [isPhaseIn] at hx

theorem bossRun_app_congr (tr : List BIn) (b b' : BossD) (acc acc' : List BEff) (h : EqApp b b')
    (hacc : wRecvs acc = wRecvs acc' ∧ sSends acc = sSends acc') :
    EqApp (bossRun b acc tr).1 (bossRun b' acc' tr).1 ∧ wRecvs (bossRun b acc tr).2 = wRecvs (bossRun b' acc' tr).2 ∧
      sSends (bossRun b acc tr).2 = sSends (bossRun b' acc' tr).2 := by
  induction tr generalizing b b' acc acc' with
  | nil => exact ⟨h, hacc⟩
  | cons x xs ih =>
    simp only [bossRun]
    have hs := bossIn_congr_app b b' x h
    exact ih _ _ _ _ hs.1 ⟨by simp [hacc.1, hs.2.1], by simp [hacc.2, hs.2.2]⟩

theorem bossRun_dil_congr (tr : List BIn) (b b' : BossD) (acc acc' : List BEff) (h : EqDil b b')
    (hacc : dRecvs acc = dRecvs acc') :
    EqDil (bossRun b acc tr).1 (bossRun b' acc' tr).1 ∧ dRecvs (bossRun b acc tr).2 = dRecvs (bossRun b' acc' tr).2 := by
  induction tr generalizing b b' acc acc' with
  | nil => exact ⟨h, hacc⟩
  | cons x xs ih =>
    simp only [bossRun]
    have hs := bossIn_congr_dil b b' x h
    exact ih _ _ _ _ hs.1 (by simp [hacc, hs.2])

theorem bossRun_append (t1 t2 : List BIn) (b : BossD) (acc : List BEff) :
    bossRun b acc (t1 ++ t2) = bossRun (bossRun b acc t1).1 (bossRun b acc t1).2 t2 := by
  induction t1 generalizing b acc with
  | nil => rfl
  | cons x xs ih => simp only [List.cons_append, bossRun]; exact ih _ _


/-! ## closing delivers nothing -/

/-- once the Boss is closing or closed, no input makes it hand anything to the application, and it
    stays closing or closed -/
theorem bossIn_closed_silent (b : BossD) (x : BIn) (h : bossLive b.st = false) :
    wRecvs (bossIn b x).2.1 = [] ∧ sSends (bossIn b x).2.1 = [] ∧ bossLive (bossIn b x).1.st = false ∧
      (bossIn b x).1.rx = b.rx := by
  obtain ⟨st, ntx, rx, drx⟩ := b
  cases x with
  | gotMessage ph pt =>
    simp only [bossIn, bossGotMessage]
    cases classifyPhase ph <;> cases st <;> simp [bossLive] at h <;>
      simp [bossStep, Boss.table, bossOuts, bossOut, bossLive, wRecvs_cons, sSends_cons]
  | _ =>
    cases st <;> simp [bossLive] at h <;>
      simp [bossIn, bossStep, Boss.table, bossOuts, bossOut, bossLive, takeTxPhase, wRecvs_cons, sSends_cons]

/-- a closing input (close, closed, error, scared, rx_error, rx_unwelcome), from ANY state, hands
    nothing to the application and leaves the reorder buffer as it is -/
theorem bossIn_closing_silent (b : BossD) (x : BIn) (hx : closingIn x = true) :
    wRecvs (bossIn b x).2.1 = [] ∧ sSends (bossIn b x).2.1 = [] ∧ (bossIn b x).1.rx = b.rx ∧
      (bossIn b x).1.nextTx = b.nextTx := by
  obtain ⟨st, ntx, rx, drx⟩ := b
  cases x <;> simp [closingIn] at hx <;> cases st <;>
    simp [bossIn, bossStep, Boss.table, bossOuts, bossOut, wRecvs_cons, sSends_cons]

/-! ## a process with several wormhole pairs

Several pairs of wormholes live in one process (and talk to one server, each pair through its own mailbox).  The
model gives every pair its own `Sys`: an action on pair `p` is `Sys.step` on the `p`-th system and nothing else —
that is what "every Boss / Mailbox / … is an object of its own" means for the composed model. -/

/-- one action of the process: `(p, act)` = `act` happens in pair `p` (an index outside the process: nothing) -/
def procStep (C : Crypto) (ps : List Sys) (x : Nat × SAct) : List Sys :=
  match ps[x.1]? with
  | some s => ps.set x.1 (Sys.step C s x.2)
  | none => ps

def procRun (C : Crypto) (ps : List Sys) (acts : List (Nat × SAct)) : List Sys := acts.foldl (procStep C) ps

/-- the actions of pair `p`, in the order they happen in the process schedule -/
def actsOf (p : Nat) (acts : List (Nat × SAct)) : List SAct :=
  acts.filterMap (fun x => if x.1 = p then some x.2 else none)

theorem procStep_proj (C : Crypto) (ps : List Sys) (x : Nat × SAct) (p : Nat) :
    (procStep C ps x)[p]? = (ps[p]?).map (fun s => if x.1 = p then Sys.step C s x.2 else s) := by
  unfold procStep
  cases hx : ps[x.1]? with
  | none =>
    by_cases hp : x.1 = p
    · subst hp; simp [hx]
    · cases hq : ps[p]? <;> simp [hp]
  | some s =>
    by_cases hp : x.1 = p
    · subst hp
      have hlt : x.1 < ps.length := by
        rcases Nat.lt_or_ge x.1 ps.length with h | h
        · exact h
        · rw [List.getElem?_eq_none h] at hx; cases hx
      simp [hx, List.getElem?_set_self hlt]
    · rw [List.getElem?_set_ne hp]
      cases hq : ps[p]? <;> simp [hp]

/-- **projection.**  Whatever the interleaving of the pairs' actions in the process schedule, the state of pair `p`
    is the state the pair reaches on its own actions alone. -/
theorem procRun_proj (C : Crypto) (acts : List (Nat × SAct)) (ps : List Sys) (p : Nat) :
    (procRun C ps acts)[p]? = (ps[p]?).map (fun s => Sys.run C s (actsOf p acts)) := by
  induction acts generalizing ps with
  | nil =>
    simp only [procRun, actsOf, Sys.run, List.foldl_nil, List.filterMap_nil]
    cases ps[p]? <;> rfl
  | cons x xs ih =>
    have := ih (procStep C ps x)
    simp only [procRun, List.foldl_cons] at this ⊢
    rw [this, procStep_proj]
    cases hq : ps[p]? with
    | none => simp
    | some s =>
      by_cases hp : x.1 = p
      · simp [hp, actsOf, Sys.run]
      · simp [hp, actsOf, Sys.run]

theorem procRun_length (C : Crypto) (acts : List (Nat × SAct)) (ps : List Sys) :
    (procRun C ps acts).length = ps.length := by
  induction acts generalizing ps with
  | nil => rfl
  | cons x xs ih =>
    simp only [procRun, List.foldl_cons] at ih ⊢
    rw [ih]
    unfold procStep
    cases ps[x.1]? <;> simp

end WV.Proofs.C03
