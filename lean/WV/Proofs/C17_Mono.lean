import WV.Proofs.C17_Step

/-!
C17 helper lemmas: two facts that survive *every* event, conformant or not —
`_main_channel` keeps the Failure once `Manager.fail` has stored it (`fire` asserts NoResult), and
the ping-timer handle is left fired-but-not-cleared only by a tree whose expiry callback does not
clear it (`TimerOk`).
-/
namespace WV.Proofs.C17
open WV WV.Gen WV.C17

theorem KeepD.mono {w w' : World} (k : KeepD w w') :
    (w.main = .failed → w'.main = .failed) ∧ (TimerOk w → TimerOk w') := ⟨k.mainMono, k.timerOk⟩

/-- `_main_channel` holds the Failure for good -/
def MainMono (w w' : World) : Prop := (w.main = .failed → w'.main = .failed) ∧ (TimerOk w → TimerOk w')

macro "mm_rfl" : tactic => `(tactic| exact ⟨fun h => h, fun h => h⟩)

theorem MainMono.refl (w : World) : MainMono w w := ⟨fun h => h, fun h => h⟩
theorem MainMono.trans {a b c : World} (h1 : MainMono a b) (h2 : MainMono b c) : MainMono a c :=
  ⟨fun h => h2.1 (h1.1 h), fun h => h2.2 (h1.2 h)⟩

theorem mm_andThen {w : World} {r : Res} {f : World → Res} (h1 : MainMono w r.1) (h2 : ∀ v, MainMono v (f v).1) :
    MainMono w (andThen r f).1 := by
  obtain ⟨v, e⟩ := r
  cases e
  · exact h1.trans (h2 v)
  · exact h1

theorem mm_tOuts (k : Terminator.Output → World → Res) (hk : ∀ o v, MainMono v (k o v).1)
    (os : List Terminator.Output) (v : World) : MainMono v (tOuts k os v).1 := by
  induction os generalizing v with
  | nil => mm_rfl
  | cons o os ih => exact mm_andThen (hk o v) (fun u => ih u)

theorem mm_tInput (fuel : Nat) : ∀ (i : Terminator.Input) (v : World), MainMono v (tInput fuel i v).1 := by
  induction fuel with
  | zero => intro i v; mm_rfl
  | succ f ih =>
    intro i v
    simp only [tInput]
    split
    · mm_rfl
    · refine MainMono.trans ?_ (mm_tOuts _ ?hk _ _)
      case hk =>
        intro o u
        cases o
        · mm_rfl
        · mm_rfl
        · mm_rfl
        · mm_rfl
        · mm_rfl
        · show MainMono u (if (stopCoop u).hasMgr = true then andThen (mInput .k_stop "" 0 (stopCoop u)) (fun w1 => (whenStopped w1, none))
                  else tInput f .stoppedD (stopCoop u)).1
          have hsc : MainMono u (stopCoop u) := by
            refine ⟨?_, stopCoop_timerOk u⟩
            obtain ⟨b, e⟩ := stopCoop_same u
            rw [e]; exact fun h => h
          refine MainMono.trans hsc ?_
          generalize stopCoop u = u'
          split
          · refine mm_andThen (keep_mInput _ _ _ _).mono ?_
            intro x
            unfold whenStopped
            split <;> mm_rfl
          · exact ih _ _
      mm_rfl

theorem mm_runThunk (t : Thunk) (v : World) : MainMono v (runThunk t v) := by
  cases t with
  | accept g c => exact (keep_logged (keep_cInput connectionMade keep_connectionMade g .accept c v)).mono
  | discard c => mm_rfl
  | mgrLost => exact (keep_connectionLost v).mono
  | stoppedD => exact mm_tInput _ _ _
  | waiter i ok =>
    obtain ⟨ws, rg, e⟩ := resolveWaiter_same i ok v
    show MainMono v (resolveWaiter i ok v)
    rw [e]; mm_rfl

theorem mm_runThunks (l : List Thunk) (v : World) : MainMono v (runThunks l v) := by
  induction l generalizing v with
  | nil => mm_rfl
  | cons t rest ih => exact (mm_runThunk t v).trans (ih _)

theorem mm_drainMsgs (l : List Msg) : ∀ x : World, MainMono x (drainMsgs l x).1 := by
  induction l with
  | nil => intro x; mm_rfl
  | cons m rest ih =>
    intro x
    simp only [drainMsgs]
    refine mm_andThen (MainMono.trans ?_ (keep_receivedMsg m _).mono) (fun u => ih u)
    mm_rfl

theorem mm_replayVersions (u : World) : MainMono u (replayVersions u).1 := by
  unfold replayVersions
  split
  · exact (keep_mgrGotVersions _ _).mono
  · mm_rfl

theorem mm_connectAs (nm : Option String) (v : World) : MainMono v (connectAs nm v) := by
  obtain ⟨ws, wn, q, mo, e, _⟩ := connectAs_same nm v
  rw [e]; mm_rfl

theorem mm_ttOuts (os : List TrafficTimer.Output) : ∀ v : World, MainMono v (ttOuts os v).1 := by
  induction os with
  | nil => intro v; exact MainMono.refl _
  | cons o os ih =>
    intro v
    cases o
    · simp only [ttOuts]
      exact mm_andThen (keep_beginTiming v).mono (fun u => ih u)
    · simp only [ttOuts]
      refine MainMono.trans ?_ (ih _)
      unfold signalReconnect
      split <;> mm_rfl

theorem mm_step (v : World) (e : Ev) : MainMono v (step v e).1 := by
  have ofres : ∀ r : Res, (ofRes r).1 = r.1 := by
    intro r; obtain ⟨a, b⟩ := r; cases b <;> rfl
  cases e with
  | dilate =>
    simp only [step, ofres, dilate]
    split
    · mm_rfl
    · split
      · mm_rfl
      · refine mm_andThen (MainMono.trans ?_ (mm_replayVersions _)) (fun u => mm_drainMsgs _ u)
        unfold replayKey; split <;> mm_rfl
  | key => simp only [step, gotKey]; split <;> mm_rfl
  | versions vv =>
    simp only [step, ofres, gotVersions]
    split
    · exact (keep_mgrGotVersions vv v).mono
    · mm_rfl
  | msg m =>
    simp only [step, ofres, receivedDilate]
    split
    · exact (keep_receivedMsg m v).mono
    · mm_rfl
  | connect =>
    simp only [step]
    split
    · exact mm_connectAs none v
    · mm_rfl
  | ep l name => simp only [step]; split <;> mm_rfl
  | econnect k =>
    simp only [step]
    split
    · mm_rfl
    · split
      · mm_rfl
      · exact mm_connectAs none v
  | elisten k =>
    simp only [step]
    split
    · mm_rfl
    · split
      · exact mm_connectAs _ v
      · mm_rfl
  | producer pull i =>
    simp only [step]
    split
    · split
      · mm_rfl
      · rw [ofres]
        unfold registerProducer
        dsimp only
        split
        · split <;> mm_rfl
        · mm_rfl
    · mm_rfl
  | term i => simp only [step, ofres]; exact mm_tInput _ _ _
  | turn =>
    simp only [step, turn]
    refine MainMono.trans ?_ (mm_runThunks _ _)
    mm_rfl
  | expire =>
    simp only [step]
    split
    · mm_rfl
    · split
      · exact ⟨fun h => h, fun ht => ⟨(fun hf => by
            simp only at hf
            split at hf
            · cases hf
            · rename_i hc; simpa using hc), ht.2⟩⟩
      · split
        · exact ⟨fun h => h, fun ht => ⟨(fun hf => by
            simp only at hf
            split at hf
            · cases hf
            · rename_i hc; simpa using hc), ht.2⟩⟩
        · rw [ofres]
          refine MainMono.trans ?_ (mm_ttOuts _ _)
          exact ⟨fun h => h, fun ht => ⟨(fun hf => by
            simp only at hf
            split at hf
            · cases hf
            · rename_i hc; simpa using hc), ht.2⟩⟩
  | lready k =>
    simp only [step]
    split
    · mm_rfl
    · split
      · mm_rfl
      · refine MainMono.trans ?_ (keep_logged (keep_cInput noMade keep_noMade _ _ _ _)).mono
        mm_rfl
  | inbound k => simp only [step]; split <;> (try split) <;> mm_rfl
  | dial j => simp only [step]; split <;> (try split) <;> mm_rfl
  | dialok j => simp only [step]; split <;> (try split) <;> mm_rfl
  | dialfail j => simp only [step]; split <;> (try split) <;> mm_rfl
  | kcm c =>
    simp only [step]
    split
    · mm_rfl
    · split
      · mm_rfl
      · split
        · mm_rfl
        · split
          · mm_rfl
          · split
            · rw [ofres]
              refine MainMono.trans ?_ (keep_cInput connectionMade keep_connectionMade _ _ _ _).mono
              mm_rfl
            · mm_rfl
  | lost c => simp only [step]; split <;> (try split) <;> mm_rfl


end WV.Proofs.C17
