import WV.Proofs.C12_Inv

/-! C12 helper lemmas: the whole honest byte stream; rejection of a diverging start. -/
namespace WV.Proofs.C12
open WV WV.C12 WV.Gen

theorem honestStream_some {cfg : L2Cfg} {relay : Bool} {hs : Bytes} {recs : List Rec} {stream : Bytes}
    (h : honestStream cfg relay hs recs = some stream) :
    ∃ hf b0 n1 bs n2, frameBytes hs = some hf ∧ sendRecord cfg.noise 0 .kcm = some (b0, n1) ∧
      sendRecords cfg.noise n1 recs = some (bs, n2) ∧
      stream = (if relay then cfg.framer.relayExpected else []) ++ (cfg.framer.inboundPrologue ++ (hf ++ (b0 ++ bs))) := by
  unfold honestStream at h
  cases h1 : frameBytes hs with
  | none => simp [h1] at h
  | some hf =>
    simp only [h1, Option.bind_eq_bind, Option.bind_some] at h
    cases h2 : sendRecords cfg.noise 0 (.kcm :: recs) with
    | none => simp [h2] at h
    | some p =>
      obtain ⟨body, n2⟩ := p
      simp [h2] at h
      obtain ⟨b0, n1, bs, h3, h4, rfl⟩ := sendRecords_cons h2
      exact ⟨hf, b0, n1, bs, n2, rfl, h3, h4, by rw [← h]⟩

theorem frameBytes_ne_nil {body fr : Bytes} (h : frameBytes body = some fr) : fr ≠ [] := by
  unfold frameBytes at h
  cases hl : toBe4 body.length with
  | none => simp [hl] at h
  | some l =>
    simp [hl] at h
    obtain ⟨_, rfl⟩ := toBe4_eq_some hl
    subst h; simp

/-- the receiver's loop over the complete honest stream, delivered in one piece -/
theorem run_honest (cfg : L2Cfg) (hN : cfg.noise.Ideal) (relay ld : Bool) (hs : Bytes)
    (hok : cfg.handshakeOK hs = true) (recs : List Rec)
    (hwf : ∀ r ∈ recs, r.wf cfg.validUtf8 ∧ r ≠ .kcm) (stream : Bytes)
    (hst : honestStream cfg relay hs recs = some stream) :
    stream ≠ [] ∧ ∃ uF, run cfg.framer (l2Token cfg) (addBuf (l2Init relay ld).fr stream) (upInit ld)
        = (⟨.want_frame, []⟩, uF, none) ∧
      uF.dcp = .selecting ∧ uF.queued = recs ∧ uF.toManager = [] ∧ uF.candidate = true := by
  obtain ⟨hf, b0, n1, bs, n2, h1, h2, h3, rfl⟩ := honestStream_some hst
  constructor
  · intro h0
    have hlen := congrArg List.length h0
    have hne := frameBytes_ne_nil h1
    have hpos : 0 < hf.length := List.length_pos_iff.mpr hne
    simp only [List.length_append, List.length_nil] at hlen
    omega
  · -- relay reply (if any)
    have hA : run cfg.framer (l2Token cfg) (addBuf (l2Init relay ld).fr
          ((if relay then cfg.framer.relayExpected else []) ++ (cfg.framer.inboundPrologue ++ (hf ++ (b0 ++ bs))))) (upInit ld)
        = run cfg.framer (l2Token cfg) ⟨.want_prologue, cfg.framer.inboundPrologue ++ (hf ++ (b0 ++ bs))⟩ (upInit ld) := by
      cases relay with
      | false => simp [l2Init, addBuf, Framer.init]
      | true =>
        simp only [l2Init, addBuf, if_true, List.nil_append]
        rw [run_unfold, parseTurn_relay, getExpected_prefix]
        simp [Except.bind]
    rw [hA]
    -- prologue
    rw [run_unfold, parseTurn_prologue, getExpected_prefix]
    simp only [Except.bind, if_true]
    rw [l2Token_prologue_init]
    simp only
    -- Noise handshake frame
    rw [run_unfold, parseTurn_frame, parseFrame_frame h1]
    simp only
    obtain ⟨u2, ht2, hr2, hd2, hn2, hq2, hm2, hc2⟩ :=
      l2Token_handshake cfg ld ({ upInit ld with
        rcd := (if ld then .want_handshake_leader else .want_handshake_follower), handshakeSent := ld }) hs rfl hok
    rw [ht2]
    simp only
    -- KCM
    have hn2' : u2.rxNonce = 0 := hn2
    have hd2' : u2.dcp = .unselected := hd2
    rw [← hn2'] at h2
    obtain ⟨fb, pt, htk, hok', hpk⟩ := honest_frame cfg hN bs (r := .kcm) trivial h2
    rw [run_unfold, htk]
    simp only
    rw [l2Token_kcm_unselected cfg u2 fb pt n1 hr2 hd2' hok' hpk]
    simp only
    -- the records
    rw [run_records cfg hN recs { u2 with rxNonce := n1, dcp := .selecting, candidate := true } bs n2 hr2 rfl hwf h3]
    refine ⟨_, rfl, rfl, ?_, ?_, rfl⟩
    · have hq2' : u2.queued = [] := hq2
      simp [hq2']
    · exact hm2

theorem padErr_none {U : Type} {rest : Bytes} {r : FramerSt × U × Option Err} {fr : FramerSt} {u : U}
    (h : padErr rest r = (fr, u, none)) : r = (fr, u, none) := by
  obtain ⟨fr1, u1, e⟩ := r
  cases e with
  | none => exact h
  | some e => simp [padErr] at h

theorem padErr_some {U : Type} {rest : Bytes} {r : FramerSt × U × Option Err} {fr : FramerSt} {u : U} {e : Err}
    (h : padErr rest r = (fr, u, some e)) : ∃ fr1, r = (fr1, u, some e) ∧ fr = addBuf fr1 rest := by
  obtain ⟨fr1, u1, e1⟩ := r
  cases e1 with
  | none => simp [padErr] at h
  | some e1 =>
    simp [padErr] at h
    obtain ⟨h1, h2, h3⟩ := h
    exact ⟨fr1, by rw [h2, h3], h1.symm⟩

/-- the initial framer state of a connection is waiting for bytes (when the expected strings
    are non-empty, as they are) -/
theorem init_idle (cfg : FramerCfg) (relay : Bool) (hr : cfg.relayExpected ≠ []) (hp : cfg.inboundPrologue ≠ []) :
    parseTurn cfg ⟨if relay then .want_relay else Framer.init, []⟩ = .ok none := by
  have key : ∀ e : Bytes, e ≠ [] → getExpected [] e = .ok (false, []) := by
    intro e he
    cases e with
    | nil => exact absurd rfl he
    | cons a l => simp [getExpected, List.isPrefixOf]
  cases relay with
  | true => simp only [if_true]; rw [parseTurn_relay, key _ hr]; rfl
  | false =>
    have : Framer.init = .want_prologue := rfl
    show parseTurn cfg ⟨.want_prologue, []⟩ = _
    rw [parseTurn_prologue, key _ hp]; rfl

/-- a start that diverges from what `_get_expected` waits for: `Disconnect`, nothing handled -/
theorem run_reject_relay {U : Type} (cfg : FramerCfg) (h : U → Token → Except (Err × U) U) (u : U) (stream : Bytes)
    (hd : Diverges stream cfg.relayExpected) (hl : 10 ∈ stream ∨ cfg.relayExpected.length ≤ stream.length) :
    run cfg h ⟨.want_relay, stream⟩ u = (⟨.want_relay, stream⟩, u, some .disconnect) := by
  rw [run_unfold, parseTurn_relay, getExpected_error_iff.mpr ⟨rfl, hd, hl⟩]
  rfl

theorem run_reject_prologue {U : Type} (cfg : FramerCfg) (h : U → Token → Except (Err × U) U) (u : U) (stream : Bytes)
    (hd : Diverges stream cfg.inboundPrologue) (hl : 10 ∈ stream ∨ cfg.inboundPrologue.length ≤ stream.length) :
    run cfg h ⟨.want_prologue, stream⟩ u = (⟨.want_prologue, stream⟩, u, some .disconnect) := by
  rw [run_unfold, parseTurn_prologue, getExpected_error_iff.mpr ⟨rfl, hd, hl⟩]
  rfl

theorem run_reject_prologue_after_relay {U : Type} (cfg : FramerCfg) (h : U → Token → Except (Err × U) U) (u : U)
    (stream : Bytes)
    (hd : Diverges stream cfg.inboundPrologue) (hl : 10 ∈ stream ∨ cfg.inboundPrologue.length ≤ stream.length) :
    run cfg h ⟨.want_relay, cfg.relayExpected ++ stream⟩ u = (⟨.want_prologue, stream⟩, u, some .disconnect) := by
  rw [run_unfold, parseTurn_relay, getExpected_prefix]
  simp only [Except.bind, if_true]
  exact run_reject_prologue cfg h u stream hd hl

/-- chunked delivery of a stream on which the one-shot run raises: same exception, consumer
    state untouched by the failing call -/
theorem feed_of_run_error {U : Type} (cfg : FramerCfg) (h : U → Token → Except (Err × U) U) (fr frE : FramerSt) (u uE : U)
    (e : Err) (cs : List Bytes) (hne : cs ≠ [])
    (hrun : run cfg h (addBuf fr cs.flatten) u = (frE, uE, some e)) :
    ∃ fr1, feed cfg h fr u cs = (fr1, uE, some e) ∧ fr1.st = frE.st := by
  obtain ⟨rest, hrest⟩ := feed_flatten cfg h cs fr u (fun h0 => absurd h0 hne)
  rw [pumpData_eq_run, hrun] at hrest
  obtain ⟨fr1, h1, h2⟩ := padErr_some hrest.symm
  exact ⟨fr1, h1, by rw [h2]; rfl⟩

theorem feed_of_run_ok {U : Type} (cfg : FramerCfg) (h : U → Token → Except (Err × U) U) (fr frE : FramerSt) (u uE : U)
    (cs : List Bytes) (hne : cs ≠ [])
    (hrun : run cfg h (addBuf fr cs.flatten) u = (frE, uE, none)) :
    feed cfg h fr u cs = (frE, uE, none) := by
  obtain ⟨rest, hrest⟩ := feed_flatten cfg h cs fr u (fun h0 => absurd h0 hne)
  rw [pumpData_eq_run, hrun] at hrest
  exact padErr_none hrest.symm

end WV.Proofs.C12
