import WV.Proofs.C19_Latch
namespace WV.Proofs.C19
open WV WV.C19 WV.Gen

def isCode : Cmd → Bool
  | .bGotCode _ => true
  | _ => false

/-- how many times `Boss.got_code` has been called -/
def nCodes (l : List Cmd) : Nat := l.countP isCode

/-- no code yet, or exactly one and the Code machine is in its final state -/
def CodeInv (s : St) : Prop := nCodes s.out = 0 ∨ (nCodes s.out = 1 ∧ s.code = .S4_known)

theorem code_S4_dead (i : Code.Input) : Code.table .S4_known i = none := by cases i <;> rfl

theorem fireCode_S4 (i : Code.Input) (f : Code.Output → St → R) (s : St) (h : s.code = .S4_known) :
    fireCode i f s = (s, some .noTransition) := by
  simp [fireCode, h, code_S4_dead]

theorem nCodes_emit (c : Cmd) (s : St) : nCodes (emit c s).out = nCodes s.out + (if isCode c then 1 else 0) := by
  simp [nCodes, emit, List.countP_append, List.countP_cons]

@[simp] theorem emit_code (c : Cmd) (s : St) : (emit c s).code = s.code := rfl

theorem codeAllocated_inv (np code : Str) (s : St) (h : CodeInv s) : CodeInv (codeAllocated np code s).1 := by
  rcases h with h | ⟨h1, h2⟩
  · cases hc : s.code <;>
      simp [codeAllocated, fireCode, Code.table, hc, runOuts, codeOutAllocated, CodeInv, h]
    by_cases hp : np ++ [45] <+: code <;> simp [hp, nCodes_emit, isCode, h]
  · rw [codeAllocated, fireCode_S4 _ _ _ h2]; exact Or.inr ⟨h1, h2⟩

theorem codeGotNameplate_inv (np : Str) (s : St) (h : CodeInv s) : CodeInv (codeGotNameplate np s).1 := by
  rcases h with h | ⟨h1, h2⟩
  · cases hc : s.code <;>
      simp [codeGotNameplate, fireCode, Code.table, hc, runOuts, codeOut1, CodeInv, h, nCodes_emit, isCode]
  · rw [codeGotNameplate, fireCode_S4 _ _ _ h2]; exact Or.inr ⟨h1, h2⟩

theorem codeFinishedInput_inv (c : Str) (s : St) (h : CodeInv s) : CodeInv (codeFinishedInput c s).1 := by
  rcases h with h | ⟨h1, h2⟩
  · cases hc : s.code <;>
      simp [codeFinishedInput, fireCode, Code.table, hc, runOuts, codeOut1, CodeInv, h, nCodes_emit, isCode]
  · rw [codeFinishedInput, fireCode_S4 _ _ _ h2]; exact Or.inr ⟨h1, h2⟩

theorem codeSetCode_inv (isD : Nat → Bool) (c : Str) (s : St) (h : CodeInv s) : CodeInv (codeSetCode isD c s).1 := by
  unfold codeSetCode
  split
  · exact h
  · rcases h with h | ⟨h1, h2⟩
    · cases hc : s.code <;>
        simp [fireCode, Code.table, hc, runOuts, codeOut1, CodeInv, h, nCodes_emit, isCode]
    · rw [fireCode_S4 _ _ _ h2]; exact Or.inr ⟨h1, h2⟩

/-- Code inputs whose outputs never call `Boss.got_code` and never touch the Code state keep the invariant -/
theorem fireCode_inv_of_quiet (i : Code.Input) (f : Code.Output → St → R)
    (hf : ∀ o s, nCodes s.out = 0 → nCodes (f o s).1.out = 0) (s : St) (h : CodeInv s) :
    CodeInv (fireCode i f s).1 := by
  rcases h with h | ⟨h1, h2⟩
  · exact Or.inl (fireCode_preserves (fun s => nCodes s.out = 0) i f (fun _ _ h => h) hf s h)
  · rw [fireCode_S4 _ _ _ h2]; exact Or.inr ⟨h1, h2⟩

theorem framed_like_inv_alloc (s : St) (st : Allocator.State) (h : CodeInv s) : CodeInv { s with alloc := st } := h
theorem framed_like_inv_inp (s : St) (st : Input.State) (h : CodeInv s) : CodeInv { s with inp := st } := h

theorem quiet_emit (c : Cmd) (hc : isCode c = false) (s : St) (h : nCodes s.out = 0) : nCodes (emit c s).out = 0 := by
  simp [nCodes_emit, hc, h]

theorem inv_emit (c : Cmd) (hc : isCode c = false) (s : St) (h : CodeInv s) : CodeInv (emit c s) := by
  unfold CodeInv at *
  simp only [nCodes_emit, hc]
  simpa [emit] using h

theorem allocOutAllocate_quiet (n : Nat) (o : Allocator.Output) (s : St) (h : nCodes s.out = 0) :
    nCodes (allocOutAllocate n o s).1.out = 0 := by
  cases o <;> simp only [allocOutAllocate] <;> first | exact h | exact quiet_emit _ rfl _ h

theorem inputOut0_quiet (o : Input.Output) (s : St) (h : nCodes s.out = 0) : nCodes (inputOut0 o s).1.out = 0 := by
  cases o <;> simp only [inputOut0] <;> first | exact h | exact quiet_emit _ rfl _ h

theorem codeOutAllocateCode_quiet (n : Nat) (o : Code.Output) (s : St) (h : nCodes s.out = 0) :
    nCodes (codeOutAllocateCode n o s).1.out = 0 := by
  cases o <;> simp only [codeOutAllocateCode] <;> try exact h
  exact fireAlloc_preserves (fun s => nCodes s.out = 0) _ _ (fun _ _ h => h) (allocOutAllocate_quiet n) s h

theorem codeOutInputCode_quiet (o : Code.Output) (s : St) (h : nCodes s.out = 0) :
    nCodes (codeOutInputCode o s).1.out = 0 := by
  cases o <;> simp only [codeOutInputCode] <;> try exact h
  exact fireInput_preserves (fun s => nCodes s.out = 0) _ _ (fun _ _ h => h) inputOut0_quiet s h

theorem allocOut0_inv (o : Allocator.Output) (s : St) (h : CodeInv s) : CodeInv (allocOut0 o s).1 := by
  cases o <;> simp only [allocOut0] <;> first | exact h | exact inv_emit _ rfl _ h

theorem allocOutRx_inv (np : Str) (rand : List Nat) (o : Allocator.Output) (s : St) (h : CodeInv s) :
    CodeInv (allocOutRx np rand o s).1 := by
  cases o <;> simp only [allocOutRx] <;> try exact h
  split
  · exact h
  · split
    · exact h
    · exact codeAllocated_inv _ _ _ h

theorem inputOut0_inv (o : Input.Output) (s : St) (h : CodeInv s) : CodeInv (inputOut0 o s).1 := by
  cases o <;> simp only [inputOut0] <;> first | exact h | exact inv_emit _ rfl _ h

theorem inputOutGotNameplates_inv (l : List Str) (o : Input.Output) (s : St) (h : CodeInv s) :
    CodeInv (inputOutGotNameplates l o s).1 := by
  cases o <;> simp only [inputOutGotNameplates] <;> exact h

theorem inputOutGotWordlist_inv (o : Input.Output) (s : St) (h : CodeInv s) : CodeInv (inputOutGotWordlist o s).1 := by
  cases o <;> simp only [inputOutGotWordlist] <;> try exact h
  split
  · exact h
  · exact inv_emit _ rfl _ h

theorem inputOut1_inv (arg : Str) (o : Input.Output) (s : St) (h : CodeInv s) : CodeInv (inputOut1 arg o s).1 := by
  cases o <;> simp only [inputOut1] <;> try exact h
  · split
    · exact h
    · exact h
  · split
    · exact h
    · exact codeFinishedInput_inv _ _ h
  · exact codeGotNameplate_inv _ _ h

/-- **at most one code is ever delivered**, whatever is called in whatever order -/
theorem step_inv (isD : Nat → Bool) (s : St) (e : Ev) (h : CodeInv s) : CodeInv (step isD s e).1 := by
  have h0 : CodeInv { s with ret := none } := h
  cases e with
  | allocate n =>
    simp only [step]
    split
    · exact h0
    · exact fireCode_inv_of_quiet _ _ (codeOutAllocateCode_quiet n) _ h0
  | setCode c =>
    simp only [step]
    split
    · exact h0
    · split
      · exact h0
      · exact codeSetCode_inv isD c _ h0
  | inputCode =>
    simp only [step]
    split
    · exact h0
    · exact fireCode_inv_of_quiet _ _ codeOutInputCode_quiet _ h0
  | connected => exact fireAlloc_preserves CodeInv _ _ framed_like_inv_alloc allocOut0_inv _ h0
  | lost => exact fireAlloc_preserves CodeInv _ _ framed_like_inv_alloc allocOut0_inv _ h0
  | rxAllocated np rand => exact fireAlloc_preserves CodeInv _ _ framed_like_inv_alloc (allocOutRx_inv np rand) _ h0
  | gotNameplates l => exact fireInput_preserves CodeInv _ _ framed_like_inv_inp (inputOutGotNameplates_inv l) _ h0
  | gotWordlist => exact fireInput_preserves CodeInv _ _ framed_like_inv_inp inputOutGotWordlist_inv _ h0
  | hRefresh => exact fireInput_preserves CodeInv _ _ framed_like_inv_inp inputOut0_inv _ h0
  | hNpCompl p => exact fireInput_preserves CodeInv _ _ framed_like_inv_inp (inputOut1_inv p) _ h0
  | hChooseNp np =>
    simp only [step]
    split
    · exact h0
    · exact fireInput_preserves CodeInv _ _ framed_like_inv_inp (inputOut1_inv np) _ h0
  | hWordCompl p => exact fireInput_preserves CodeInv _ _ framed_like_inv_inp (inputOut1_inv p) _ h0
  | hChooseWords w => exact fireInput_preserves CodeInv _ _ framed_like_inv_inp (inputOut1_inv w) _ h0
  | hWhenWordlist =>
    simp only [step]
    split <;> exact h

theorem run_inv (isD : Nat → Bool) : ∀ (evs : List Ev) (s : St), CodeInv s → CodeInv (run isD s evs)
  | [], _, h => h
  | e :: es, s, h => run_inv isD es _ (step_inv isD s e h)

end WV.Proofs.C19
