import WV.Model.C20

/-! Helper lemmas and specification-level definitions for the C20 property theorems. -/
namespace WV.C20
open WV

/-- a number that is not a `bool` -/
def IsNum (j : J) : Prop := (∃ n, j = .int n) ∨ (∃ f, j = .float f)

/-- what the guards of `parse_tcp_v1_hint` establish about a hint object -/
structure Tcp.Valid (t : Tcp) : Prop where
  host : ∃ s, t.hostname = .str s
  port : ∃ n, t.port = .int n
  prio : IsNum t.priority

/-- `t` is what `parse_tcp_v1_hint` makes of the JSON object `src`: same hostname string, same
    integer port, a supported type -/
def Accepts (src : J) (t : Tcp) : Prop :=
  ∃ kvs s n, src = .obj kvs ∧ lookup "hostname" kvs = some (.str s) ∧ lookup "port" kvs = some (.int n) ∧
    t.hostname = .str s ∧ t.port = .int n ∧ IsNum t.priority ∧
    ((lookup "type" kvs = some (.str "direct-tcp-v1") ∧ t.kind = .direct) ∨
     (lookup "type" kvs = some (.str "tor-tcp-v1") ∧ t.kind = .tor))

theorem Accepts.valid {src : J} {t : Tcp} (h : Accepts src t) : t.Valid := by
  obtain ⟨kvs, s, n, _, _, _, hh, hp, hn, _⟩ := h
  exact ⟨⟨s, hh⟩, ⟨n, hp⟩, hn⟩

theorem parseTcp_nonobj (j : J) (h : j.isDict = false) : parseTcpV1Hint j = .ok none := by
  simp [parseTcpV1Hint, h]
  rfl

theorem eqStr_true {j : J} {lit : String} (h : j.eqStr lit = true) : j = .str lit := by
  cases j <;> simp_all [J.eqStr]

theorem getD_str {o : Option J} {s : String} (h : o.getD (.str "") = .str s) (hs : s ≠ "") : o = some (.str s) := by
  cases o with
  | none => simp at h; exact (hs (by simp [h])).elim
  | some v => simp at h; simp [h]

theorem parseTcp_spec (j : J) :
    ∃ r, parseTcpV1Hint j = .ok r ∧ ∀ t, r = some t → Accepts j t := by
  cases j with
  | obj kvs =>
    simp only [parseTcpV1Hint, J.isDict, pyGet, pyContains, pyIndex]
    generalize hty : (lookup "type" kvs).getD (J.str "") = hintType
    by_cases hk : (hintType.eqStr "direct-tcp-v1" || hintType.eqStr "tor-tcp-v1") = true
    · cases hH : lookup "hostname" kvs with
      | none => exact ⟨none, by simp [hk, bind, Except.bind, pure, Except.pure], by simp⟩
      | some hv =>
        cases hv with
        | str s =>
          cases hP : lookup "port" kvs with
          | none => exact ⟨none, by simp [hk, J.isStr, bind, Except.bind, pure, Except.pure], by simp⟩
          | some pv =>
            cases pv with
            | int n =>
              generalize hpr : (lookup "priority" kvs).getD (J.float (Fl.fin 0 1)) = pr
              have hty' : (lookup "type" kvs = some (.str "direct-tcp-v1") ∧ hintType.eqStr "direct-tcp-v1" = true) ∨
                  (lookup "type" kvs = some (.str "tor-tcp-v1") ∧ hintType.eqStr "direct-tcp-v1" = false) := by
                by_cases hd : hintType.eqStr "direct-tcp-v1" = true
                · left
                  have := eqStr_true hd
                  subst this
                  exact ⟨getD_str hty (by decide), hd⟩
                · right
                  have ht : hintType.eqStr "tor-tcp-v1" = true := by simpa [hd] using hk
                  have := eqStr_true ht
                  subst this
                  exact ⟨getD_str hty (by decide), by simpa using hd⟩
              have key : ∀ (hn : IsNum pr), ∃ r,
                  (if hintType.eqStr "direct-tcp-v1" = true then
                      (pure (some { kind := Kind.direct, hostname := J.str s, port := J.int n, priority := pr }) : Except Err (Option Tcp))
                    else pure (some { kind := Kind.tor, hostname := J.str s, port := J.int n, priority := pr })) = Except.ok r ∧
                  ∀ t, r = some t → Accepts (J.obj kvs) t := by
                intro hn
                rcases hty' with ⟨h1, h2⟩ | ⟨h1, h2⟩
                · refine ⟨_, by simp [h2]; rfl, ?_⟩
                  intro t ht
                  cases ht
                  exact ⟨kvs, s, n, rfl, hH, hP, rfl, rfl, hn, Or.inl ⟨h1, rfl⟩⟩
                · refine ⟨_, by simp [h2]; rfl, ?_⟩
                  intro t ht
                  cases ht
                  exact ⟨kvs, s, n, rfl, hH, hP, rfl, rfl, hn, Or.inr ⟨h1, rfl⟩⟩
              cases pr with
              | int m =>
                simpa [hk, J.isStr, J.isInt, J.isBool, J.isIntOrFloat, bind, Except.bind, pure, Except.pure] using key (Or.inl ⟨m, rfl⟩)
              | float f =>
                simpa [hk, J.isStr, J.isInt, J.isBool, J.isIntOrFloat, bind, Except.bind, pure, Except.pure] using key (Or.inr ⟨f, rfl⟩)
              | _ => exact ⟨none, by simp [hk, J.isStr, J.isInt, J.isBool, J.isIntOrFloat, bind, Except.bind, pure, Except.pure], by simp⟩
            | _ => exact ⟨none, by simp [hk, J.isStr, J.isInt, J.isBool, bind, Except.bind, pure, Except.pure], by simp⟩
        | _ => exact ⟨none, by simp [hk, J.isStr, bind, Except.bind, pure, Except.pure], by simp⟩
    · exact ⟨none, by simp [hk, bind, Except.bind, pure, Except.pure], by simp⟩
  | _ => exact ⟨none, parseTcp_nonobj _ rfl, by simp⟩

/-- the sub-hints of a `relay-v1` object: the list under its `"hints"` key -/
def subSources : J → List J
  | .obj kvs =>
    if ((lookup "type" kvs).getD (.str "")).eqStr "relay-v1" then
      match (lookup "hints" kvs).getD (.arr []) with
      | .arr xs => xs
      | _ => []
    else []
  | _ => []

theorem parseSubHints_spec (items : List J) :
    ∃ rs, parseSubHints items = .ok rs ∧ ∀ t ∈ rs, ∃ src ∈ items, Accepts src t := by
  induction items with
  | nil => exact ⟨[], rfl, by simp⟩
  | cons x xs ih =>
    obtain ⟨rs, hrs, hmem⟩ := ih
    obtain ⟨r, hr, hacc⟩ := parseTcp_spec x
    cases r with
    | none =>
      refine ⟨rs, by simp [parseSubHints, hr, hrs, bind, Except.bind, pure, Except.pure], ?_⟩
      intro t ht
      obtain ⟨src, hs, ha⟩ := hmem t ht
      exact ⟨src, List.mem_cons_of_mem _ hs, ha⟩
    | some t0 =>
      refine ⟨t0 :: rs, by simp [parseSubHints, hr, hrs, bind, Except.bind, pure, Except.pure], ?_⟩
      intro t ht
      rcases List.mem_cons.mp ht with rfl | ht
      · exact ⟨x, List.mem_cons_self, hacc _ rfl⟩
      · obtain ⟨src, hs, ha⟩ := hmem t ht
        exact ⟨src, List.mem_cons_of_mem _ hs, ha⟩

/-- the relay branch shared by `parse_hint` and `add_connection_hints`: read `"hints"`, fall back
    to `[]` unless it is a list, iterate, parse each -/
theorem relayItems_spec (kvs : List (String × J)) (hrel : ((lookup "type" kvs).getD (.str "")).eqStr "relay-v1" = true) :
    ∃ items, pyIter (if ((lookup "hints" kvs).getD (J.arr [])).isList = false then J.arr [] else (lookup "hints" kvs).getD (J.arr [])) = .ok items ∧
      items = subSources (.obj kvs) := by
  simp only [subSources, hrel, if_true]
  generalize (lookup "hints" kvs).getD (J.arr []) = sh
  cases sh <;> simp [J.isList, pyIter]

theorem parseHint_spec (j : J) :
    ∃ r, parseHint j = .ok r ∧ (∀ t, r = some (.tcp t) → Accepts j t) ∧
      (∀ hs, r = some (.relay hs) → ∀ t ∈ hs, ∃ src ∈ subSources j, Accepts src t) := by
  cases j with
  | obj kvs =>
    simp only [parseHint, J.isDict, pyGet]
    by_cases hrel : ((lookup "type" kvs).getD (.str "")).eqStr "relay-v1" = true
    · obtain ⟨items, hit, hsub⟩ := relayItems_spec kvs hrel
      obtain ⟨rs, hrs, hmem⟩ := parseSubHints_spec items
      refine ⟨some (.relay rs), by simp [hrel, hit, hrs, bind, Except.bind, pure, Except.pure], by simp, ?_⟩
      intro hs h t ht
      cases h
      rw [← hsub]
      exact hmem t ht
    · obtain ⟨r, hr, hacc⟩ := parseTcp_spec (.obj kvs)
      refine ⟨r.map .tcp, by simp [hrel, hr, bind, Except.bind, pure, Except.pure], ?_, ?_⟩
      · intro t ht
        cases r with
        | none => simp at ht
        | some t0 => simp at ht; subst ht; exact hacc _ rfl
      · intro hs h
        cases r <;> simp at h
  | _ => exact ⟨none, by simp [parseHint, J.isDict]; rfl, by simp, by simp⟩

/-! ### `sorted` never raises when every comparison is defined, and permutes -/

theorem insertBy_ok {α : Type} (lt : α → α → Except Err Bool) (x : α) (ys : List α)
    (h : ∀ y ∈ ys, ∃ b, lt y x = .ok b) :
    ∃ r, insertBy lt x ys = .ok r ∧ ∀ z, z ∈ r ↔ z = x ∨ z ∈ ys := by
  induction ys with
  | nil => exact ⟨[x], rfl, by simp⟩
  | cons y ys ih =>
    obtain ⟨b, hb⟩ := h y List.mem_cons_self
    obtain ⟨r, hr, hm⟩ := ih (fun z hz => h z (List.mem_cons_of_mem _ hz))
    cases b with
    | true =>
      refine ⟨y :: r, by simp [insertBy, hb, hr, bind, Except.bind, pure, Except.pure], ?_⟩
      intro z; simp [hm, or_left_comm]
    | false =>
      refine ⟨x :: y :: ys, by simp [insertBy, hb, bind, Except.bind, pure, Except.pure], ?_⟩
      intro z; simp

theorem sortBy_ok {α : Type} (lt : α → α → Except Err Bool) (xs : List α)
    (h : ∀ a ∈ xs, ∀ b ∈ xs, ∃ r, lt a b = .ok r) :
    ∃ r, sortBy lt xs = .ok r ∧ ∀ z, z ∈ r ↔ z ∈ xs := by
  induction xs with
  | nil => exact ⟨[], rfl, by simp⟩
  | cons x xs ih =>
    obtain ⟨s, hs, hm⟩ := ih (fun a ha b hb => h a (List.mem_cons_of_mem _ ha) b (List.mem_cons_of_mem _ hb))
    obtain ⟨r, hr, hm'⟩ := insertBy_ok lt x s (fun y hy => h y (List.mem_cons_of_mem _ ((hm y).mp hy)) x List.mem_cons_self)
    refine ⟨r, by simp [sortBy, hs, hr, bind, Except.bind], ?_⟩
    intro z; simp [hm', hm]

theorem sortDesc_ok {α : Type} (lt : α → α → Except Err Bool) (xs : List α)
    (h : ∀ a ∈ xs, ∀ b ∈ xs, ∃ r, lt a b = .ok r) :
    ∃ r, sortDesc lt xs = .ok r ∧ ∀ z, z ∈ r ↔ z ∈ xs := by
  obtain ⟨s, hs, hm⟩ := sortBy_ok lt xs.reverse (fun a ha b hb => h a (by simpa using ha) b (by simpa using hb))
  refine ⟨s.reverse, by simp [sortDesc, hs, bind, Except.bind, pure, Except.pure], ?_⟩
  intro z; simp [hm]

/-! ### valid hint objects: every dynamic operation the code applies to them is defined -/

theorem pyLt_num {a b : J} (ha : IsNum a) (hb : IsNum b) : ∃ r, pyLt a b = .ok r := by
  rcases ha with ⟨n, rfl⟩ | ⟨f, rfl⟩ <;> rcases hb with ⟨m, rfl⟩ | ⟨g, rfl⟩ <;> simp [pyLt, J.num?]

theorem pyHash_num {a : J} (ha : IsNum a) : pyHash a = .ok () := by
  rcases ha with ⟨n, rfl⟩ | ⟨f, rfl⟩ <;> rfl

theorem tupleLt_ok {a b : Tcp} (ha : a.Valid) (hb : b.Valid) : ∃ r, tupleLt a b = .ok r := by
  obtain ⟨⟨s, hs⟩, ⟨n, hn⟩, hp⟩ := ha
  obtain ⟨⟨s', hs'⟩, ⟨n', hn'⟩, hp'⟩ := hb
  unfold tupleLt
  split
  · rw [hs, hs']; simp [pyLt, J.num?]
  · split
    · rw [hn, hn']; simp [pyLt, J.num?]
    · split
      · exact pyLt_num hp hp'
      · exact ⟨false, rfl⟩

theorem tupleHash_ok {a : Tcp} (ha : a.Valid) : tupleHash a = .ok () := by
  obtain ⟨⟨s, hs⟩, ⟨n, hn⟩, hp⟩ := ha
  rcases hp with ⟨m, hm⟩ | ⟨f, hf⟩
  · simp [tupleHash, hs, hn, hm, pyHash, bind, Except.bind]
  · simp [tupleHash, hs, hn, hf, pyHash, bind, Except.bind]

theorem hashAll_ok (l : List Tcp) (h : ∀ t ∈ l, t.Valid) : hashAll l = .ok () := by
  induction l with
  | nil => rfl
  | cons t ts ih =>
    simp [hashAll, tupleHash_ok (h t List.mem_cons_self), ih (fun t ht => h t (List.mem_cons_of_mem _ ht)), bind, Except.bind]

theorem describe_ok {t : Tcp} (ht : t.Valid) : describeHintObj t = .ok () := by
  obtain ⟨_, ⟨n, hn⟩, _⟩ := ht
  simp [describeHintObj, hn, J.num?]

/-- `endpoint_from_hint_obj` on a valid hint: defined; an endpoint is for exactly that host and
    port, and without Tor only for a `DirectTCPV1Hint` -/
theorem endpoint_ok (tor : Bool) {t : Tcp} (ht : t.Valid) :
    ∃ r, endpointFromHintObj tor t = .ok r ∧
      ∀ h p, r = some (h, p) → h = t.hostname ∧ p = t.port ∧ (tor = false → t.kind = .direct) := by
  obtain ⟨⟨s, hs⟩, _, _⟩ := ht
  unfold endpointFromHintObj
  cases tor with
  | true =>
    simp only [if_true, hs]
    split
    · exact ⟨none, rfl, by simp⟩
    · exact ⟨_, rfl, by intro h p hp; cases hp; simp⟩
  | false =>
    cases hk : t.kind with
    | direct => simp [hs]
    | tor => simp

/-! ### provenance -/

/-- where a hint object came from: one of this side's own hint objects `O`, or an object of `S`
    that passed the guards -/
def Good (O : List Tcp) (S : List J) (t : Tcp) : Prop := t ∈ O ∨ ∃ src ∈ S, Accepts src t

theorem Good.valid {O : List Tcp} {S : List J} {t : Tcp} (hO : ∀ t ∈ O, t.Valid) (h : Good O S t) : t.Valid := by
  rcases h with h | ⟨src, _, ha⟩
  · exact hO t h
  · exact ha.valid

theorem ownRelay_valid : ∀ t ∈ ownRelay, t.Valid := by
  intro t ht
  simp [ownRelay] at ht
  subst ht
  exact ⟨⟨_, rfl⟩, ⟨_, rfl⟩, Or.inr ⟨_, rfl⟩⟩

theorem mem_setAdd {α : Type} (same : α → α → Bool) (x : α) (s : List α) (r : α) (h : r ∈ setAdd same x s) : r ∈ s ∨ r = x := by
  unfold setAdd at h
  split at h
  · exact Or.inl h
  · simpa using h

/-! ### `add_connection_hints` -/

/-- `_their_direct_hints` come from top-level hints `D`; the members of `_our_relay_hints` from
    our own relay `O` or from relay sub-hints `R` -/
def Transit.Inv (O : List Tcp) (D R : List J) (st : Transit) : Prop :=
  (∀ t ∈ st.theirDirect, Good [] D t) ∧ (∀ r ∈ st.ourRelays, ∀ t ∈ r, Good O R t)

theorem addOneHint_spec {O : List Tcp} {D R : List J} (hO : ∀ t ∈ O, t.Valid) (st : Transit) (h : J)
    (inv : st.Inv O D R) (hD : h ∈ D) (hR : ∀ x ∈ subSources h, x ∈ R) :
    ∃ st', addOneHint st h = .ok st' ∧ st'.Inv O D R ∧ st'.tor = st.tor ∧ st'.listener = st.listener := by
  cases h with
  | obj kvs =>
    simp only [addOneHint, J.isDict, pyGet]
    by_cases h1 : (((lookup "type" kvs).getD (.str "")).eqStr "direct-tcp-v1" || ((lookup "type" kvs).getD (.str "")).eqStr "tor-tcp-v1") = true
    · obtain ⟨r, hr, hacc⟩ := parseTcp_spec (.obj kvs)
      cases r with
      | none => exact ⟨st, by simp [h1, hr, bind, Except.bind, pure, Except.pure], inv, rfl, rfl⟩
      | some dh =>
        refine ⟨{ st with theirDirect := st.theirDirect ++ [dh] }, by simp [h1, hr, bind, Except.bind, pure, Except.pure], ⟨?_, inv.2⟩, rfl, rfl⟩
        intro t ht
        rcases List.mem_append.mp ht with ht | ht
        · exact inv.1 t ht
        · simp at ht; subst ht
          exact Or.inr ⟨_, hD, hacc _ rfl⟩
    · by_cases hrel : ((lookup "type" kvs).getD (.str "")).eqStr "relay-v1" = true
      · obtain ⟨items, hit, hsub⟩ := relayItems_spec kvs hrel
        obtain ⟨rs, hrs, hmem⟩ := parseSubHints_spec items
        have hgood : ∀ t ∈ rs, Good O R t := by
          intro t ht
          obtain ⟨src, hs, ha⟩ := hmem t ht
          exact Or.inr ⟨src, hR src (hsub ▸ hs), ha⟩
        by_cases hemp : rs.isEmpty = true
        · exact ⟨st, by simp [h1, hrel, hit, hrs, hemp, bind, Except.bind, pure, Except.pure], inv, rfl, rfl⟩
        · have hval : ∀ t ∈ rs, t.Valid := fun t ht => (hgood t ht).valid hO
          obtain ⟨sorted, hso, hsm⟩ := sortBy_ok tupleLt rs (fun a ha b hb => tupleLt_ok (hval a ha) (hval b hb))
          have hh : hashAll sorted = .ok () := hashAll_ok sorted (fun t ht => hval t ((hsm t).mp ht))
          refine ⟨{ st with ourRelays := setAdd relaySame sorted st.ourRelays },
            by simp [h1, hrel, hit, hrs, hemp, hso, hh, bind, Except.bind, pure, Except.pure], ⟨inv.1, ?_⟩, rfl, rfl⟩
          intro r hr t ht
          rcases mem_setAdd _ _ _ _ hr with hr | rfl
          · exact inv.2 r hr t ht
          · exact hgood t ((hsm t).mp ht)
      · exact ⟨st, by simp [h1, hrel, bind, Except.bind, pure, Except.pure], inv, rfl, rfl⟩
  | _ => exact ⟨st, by simp [addOneHint, J.isDict]; rfl, inv, rfl, rfl⟩

theorem addHintList_spec {O : List Tcp} {D R : List J} (hO : ∀ t ∈ O, t.Valid) (hints : List J) :
    ∀ (st : Transit), st.Inv O D R → (∀ h ∈ hints, h ∈ D) → (∀ h ∈ hints, ∀ x ∈ subSources h, x ∈ R) →
    (addHintList st hints).2 = none ∧ (addHintList st hints).1.Inv O D R ∧
      (addHintList st hints).1.tor = st.tor ∧ (addHintList st hints).1.listener = st.listener := by
  induction hints with
  | nil => intro st inv _ _; exact ⟨rfl, inv, rfl, rfl⟩
  | cons h hs ih =>
    intro st inv hD hR
    obtain ⟨st', h1, inv', ht, hl⟩ := addOneHint_spec hO st h inv (hD h List.mem_cons_self) (hR h List.mem_cons_self)
    have := ih st' inv' (fun x hx => hD x (List.mem_cons_of_mem _ hx)) (fun x hx => hR x (List.mem_cons_of_mem _ hx))
    simp only [addHintList, h1]
    exact ⟨this.1, this.2.1, this.2.2.1.trans ht, this.2.2.2.trans hl⟩

/-! ### `_connect` -/

/-- the connection attempt `d` is the endpoint of hint object `t` -/
def DialFrom (tor : Bool) (t : Tcp) (host port : J) : Prop :=
  host = t.hostname ∧ port = t.port ∧ (tor = false → t.kind = .direct)

theorem dialDirect_spec (tor : Bool) (P : Tcp → Prop) (hP : ∀ t, P t → t.Valid) (l : List Tcp) (h : ∀ t ∈ l, P t) :
    ∃ ds, dialDirect tor l = .ok ds ∧ ∀ d ∈ ds, d.relay = false ∧ ∃ t, P t ∧ DialFrom tor t d.host d.port := by
  induction l with
  | nil => exact ⟨[], rfl, by simp⟩
  | cons t ts ih =>
    obtain ⟨ds, hds, hm⟩ := ih (fun t ht => h t (List.mem_cons_of_mem _ ht))
    have hv := hP t (h t List.mem_cons_self)
    obtain ⟨r, hr, hep⟩ := endpoint_ok tor hv
    cases r with
    | none => exact ⟨ds, by simp [dialDirect, hr, hds, bind, Except.bind], hm⟩
    | some hp =>
      obtain ⟨ho, po⟩ := hp
      refine ⟨_ :: ds, by simp [dialDirect, hr, hds, describe_ok hv, bind, Except.bind, pure, Except.pure]; rfl, ?_⟩
      intro d hd
      rcases List.mem_cons.mp hd with rfl | hd
      · exact ⟨rfl, t, h t List.mem_cons_self, hep ho po rfl⟩
      · exact hm d hd

theorem dialBucket_spec (tor : Bool) (delay : Nat) (P : Tcp → Prop) (hP : ∀ t, P t → t.Valid) (l : List Tcp) (h : ∀ t ∈ l, P t) :
    ∃ ds, dialBucket tor delay l = .ok ds ∧ ∀ d ∈ ds, d.relay = true ∧ ∃ t, P t ∧ DialFrom tor t d.host d.port := by
  induction l with
  | nil => exact ⟨[], rfl, by simp⟩
  | cons t ts ih =>
    obtain ⟨ds, hds, hm⟩ := ih (fun t ht => h t (List.mem_cons_of_mem _ ht))
    have hv := hP t (h t List.mem_cons_self)
    obtain ⟨r, hr, hep⟩ := endpoint_ok tor hv
    cases r with
    | none => exact ⟨ds, by simp [dialBucket, hr, hds, bind, Except.bind], hm⟩
    | some hp =>
      obtain ⟨ho, po⟩ := hp
      refine ⟨_ :: ds, by simp [dialBucket, hr, hds, describe_ok hv, bind, Except.bind, pure, Except.pure]; rfl, ?_⟩
      intro d hd
      rcases List.mem_cons.mp hd with rfl | hd
      · exact ⟨rfl, t, h t List.mem_cons_self, hep ho po rfl⟩
      · exact hm d hd

/-- every key of the priority dict is a real number, every member satisfies `P` -/
def BInv (P : Tcp → Prop) (b : Buckets) : Prop := ∀ kv ∈ b, IsNum kv.1 ∧ ∀ x ∈ kv.2, P x

theorem bucketAdd_inv (P : Tcp → Prop) (hP : ∀ t, P t → t.Valid) (t : Tcp) (ht : P t) (b : Buckets) (hb : BInv P b) :
    BInv P (bucketAdd t b) := by
  induction b with
  | nil =>
    intro kv hkv
    simp [bucketAdd] at hkv
    subst hkv
    exact ⟨(hP t ht).prio, by simp [ht]⟩
  | cons kv0 rest ih =>
    obtain ⟨k, s⟩ := kv0
    have hrest : BInv P rest := fun kv hkv => hb kv (List.mem_cons_of_mem _ hkv)
    have h0 := hb (k, s) List.mem_cons_self
    unfold bucketAdd
    split
    · intro kv hkv
      rcases List.mem_cons.mp hkv with rfl | hkv
      · refine ⟨h0.1, ?_⟩
        intro x hx
        rcases mem_setAdd _ _ _ _ hx with hx | rfl
        · exact h0.2 x hx
        · exact ht
      · exact hrest kv hkv
    · intro kv hkv
      rcases List.mem_cons.mp hkv with rfl | hkv
      · exact h0
      · exact ih hrest kv hkv

theorem bucketRelay_spec (P : Tcp → Prop) (hP : ∀ t, P t → t.Valid) (r : List Tcp) :
    ∀ b, BInv P b → (∀ t ∈ r, P t) → ∃ b', bucketRelay b r = .ok b' ∧ BInv P b' := by
  induction r with
  | nil => intro b hb _; exact ⟨b, rfl, hb⟩
  | cons t ts ih =>
    intro b hb h
    have ht := h t List.mem_cons_self
    have hv := hP t ht
    obtain ⟨b', hb', inv'⟩ := ih (bucketAdd t b) (bucketAdd_inv P hP t ht b hb) (fun t ht => h t (List.mem_cons_of_mem _ ht))
    exact ⟨b', by simp [bucketRelay, pyHash_num hv.prio, tupleHash_ok hv, hb', bind, Except.bind], inv'⟩

theorem bucketAll_spec (P : Tcp → Prop) (hP : ∀ t, P t → t.Valid) (rs : List (List Tcp)) :
    ∀ b, BInv P b → (∀ r ∈ rs, ∀ t ∈ r, P t) → ∃ b', bucketAll b rs = .ok b' ∧ BInv P b' := by
  induction rs with
  | nil => intro b hb _; exact ⟨b, rfl, hb⟩
  | cons r rest ih =>
    intro b hb h
    obtain ⟨b1, h1, inv1⟩ := bucketRelay_spec P hP r b hb (h r List.mem_cons_self)
    obtain ⟨b2, h2, inv2⟩ := ih b1 inv1 (fun r hr => h r (List.mem_cons_of_mem _ hr))
    exact ⟨b2, by simp [bucketAll, h1, h2, bind, Except.bind], inv2⟩

theorem find_mem {α : Type} (p : α → Bool) (l : List α) (x : α) (h : l.find? p = some x) : x ∈ l := by
  induction l with
  | nil => simp at h
  | cons y ys ih =>
    simp only [List.find?] at h
    split at h
    · cases h; exact List.mem_cons_self
    · exact List.mem_cons_of_mem _ (ih h)

theorem bucket_elems (P : Tcp → Prop) (b : Buckets) (hb : BInv P b) (k : J) :
    ∀ x ∈ bucketLookup b k, P x := by
  intro x hx
  unfold bucketLookup at hx
  cases hf : b.find? (fun kv => pySame kv.1 k) with
  | none => simp [hf] at hx
  | some kv =>
    simp [hf] at hx
    exact (hb kv (find_mem _ _ _ hf)).2 x hx

theorem dialBuckets_spec (tor : Bool) (P : Tcp → Prop) (hP : ∀ t, P t → t.Valid) (b : Buckets) (hb : BInv P b) (keys : List J) :
    ∀ delay, ∃ ds, dialBuckets tor b delay keys = .ok ds ∧ ∀ d ∈ ds, d.relay = true ∧ ∃ t, P t ∧ DialFrom tor t d.host d.port := by
  induction keys with
  | nil => intro _; exact ⟨[], rfl, by simp⟩
  | cons k ks ih =>
    intro delay
    obtain ⟨ds1, h1, m1⟩ := dialBucket_spec tor delay P hP _ (bucket_elems P b hb k)
    obtain ⟨ds2, h2, m2⟩ := ih (delay + 1)
    refine ⟨ds1 ++ ds2, by unfold dialBuckets; simp only [bind, Except.bind]; rw [h1, h2]; rfl, ?_⟩
    intro d hd
    rcases List.mem_append.mp hd with hd | hd
    · exact m1 d hd
    · exact m2 d hd

/-- `_connect` on a state built from untrusted hints: the only exception is the designed
    `TransitError` (nothing to try, no listener); every attempt is the endpoint of an accepted hint -/
theorem connect_spec {O : List Tcp} {D R : List J} (hO : ∀ t ∈ O, t.Valid) (st : Transit) (inv : st.Inv O D R) :
    (∃ ds, connect st = .ok ds ∧ ∀ d ∈ ds,
        (d.relay = false ∧ ∃ t, Good [] D t ∧ DialFrom st.tor t d.host d.port) ∨
        (d.relay = true ∧ ∃ t, Good O R t ∧ DialFrom st.tor t d.host d.port)) ∨
    (connect st = .error .transitError ∧ st.listener = false) := by
  have hP1 : ∀ t, Good [] D t → t.Valid := fun t h => h.valid (by simp)
  have hP2 : ∀ t, Good O R t → t.Valid := fun t h => h.valid hO
  obtain ⟨direct, hd, md⟩ := dialDirect_spec st.tor _ hP1 st.theirDirect inv.1
  obtain ⟨b, hb, binv⟩ := bucketAll_spec _ hP2 st.ourRelays [] (by intro kv hkv; simp at hkv) inv.2
  obtain ⟨keys, hk, mk⟩ := sortDesc_ok pyLt (b.map (·.1)) (by
    intro a ha c hc
    simp only [List.mem_map] at ha hc
    obtain ⟨kv, hkv, rfl⟩ := ha
    obtain ⟨kv', hkv', rfl⟩ := hc
    exact pyLt_num (binv kv hkv).1 (binv kv' hkv').1)
  obtain ⟨relays, hr, mr⟩ := dialBuckets_spec st.tor _ hP2 b binv keys (if direct.isEmpty then 0 else 1)
  by_cases hnone : (!st.listener && direct.isEmpty && relays.isEmpty) = true
  · right
    refine ⟨by unfold connect; simp only [bind, Except.bind, hd, hb, hk, hr, hnone, ↓reduceIte]; rfl, ?_⟩
    simp at hnone
    exact hnone.1.1
  · left
    refine ⟨direct ++ relays, by unfold connect; simp only [bind, Except.bind, hd, hb, hk, hr, hnone]; rfl, ?_⟩
    intro d hdm
    rcases List.mem_append.mp hdm with hdm | hdm
    · exact Or.inl (md d hdm)
    · exact Or.inr (mr d hdm)

/-! ### dilation: `Manager.use_hints` → `Connector._use_hints` -/

/-- provenance of a parsed hint object: a direct/tor hint from a top-level object of `D`, a relay
    hint's members from our own relay `O` or from sub-hints `R` -/
def HGood (O : List Tcp) (D R : List J) : HintObj → Prop
  | .tcp t => Good [] D t
  | .relay l => ∀ t ∈ l, Good O R t

theorem parseHintList_spec {O : List Tcp} {D R : List J} (items : List J)
    (hD : ∀ x ∈ items, x ∈ D) (hR : ∀ x ∈ items, ∀ y ∈ subSources x, y ∈ R) :
    ∃ hs, parseHintList items = .ok hs ∧ ∀ h ∈ hs, HGood O D R h := by
  induction items with
  | nil => exact ⟨[], rfl, by simp⟩
  | cons x xs ih =>
    obtain ⟨hs, hhs, hm⟩ := ih (fun y hy => hD y (List.mem_cons_of_mem _ hy)) (fun y hy => hR y (List.mem_cons_of_mem _ hy))
    obtain ⟨r, hr, ht, hl⟩ := parseHint_spec x
    cases r with
    | none => exact ⟨hs, by simp [parseHintList, hr, hhs, bind, Except.bind, pure, Except.pure], hm⟩
    | some h0 =>
      refine ⟨h0 :: hs, by simp [parseHintList, hr, hhs, bind, Except.bind, pure, Except.pure], ?_⟩
      intro h hh
      rcases List.mem_cons.mp hh with rfl | hh
      · cases h with
        | tcp t => exact Or.inr ⟨x, hD x List.mem_cons_self, ht t rfl⟩
        | relay l =>
          intro t htl
          obtain ⟨src, hsrc, ha⟩ := hl l rfl t htl
          exact Or.inr ⟨src, hR x List.mem_cons_self src hsrc, ha⟩
      · exact hm h hh

theorem directAdd_inv (P : Tcp → Prop) (hP : ∀ t, P t → t.Valid) (t : Tcp) (ht : P t) (b : Buckets) (hb : BInv P b) :
    BInv P (directAdd t b) := by
  induction b with
  | nil =>
    intro kv hkv
    simp [directAdd] at hkv
    subst hkv
    exact ⟨(hP t ht).prio, by simp [ht]⟩
  | cons kv0 rest ih =>
    obtain ⟨k, l⟩ := kv0
    have hrest : BInv P rest := fun kv hkv => hb kv (List.mem_cons_of_mem _ hkv)
    have h0 := hb (k, l) List.mem_cons_self
    unfold directAdd
    split
    · intro kv hkv
      rcases List.mem_cons.mp hkv with rfl | hkv
      · refine ⟨h0.1, ?_⟩
        intro x hx
        rcases List.mem_append.mp hx with hx | hx
        · exact h0.2 x hx
        · simp at hx; subst hx; exact ht
      · exact hrest kv hkv
    · intro kv hkv
      rcases List.mem_cons.mp hkv with rfl | hkv
      · exact h0
      · exact ih hrest kv hkv

theorem splitHints_spec {O : List Tcp} {D R : List J} (hints : List HintObj) :
    ∀ (relays : List (List Tcp)) (direct : Buckets), (∀ h ∈ hints, HGood O D R h) →
      (∀ r ∈ relays, ∀ t ∈ r, Good O R t) → BInv (Good [] D) direct →
      ∃ rs ds, splitHints hints relays direct = .ok (rs, ds) ∧ (∀ r ∈ rs, ∀ t ∈ r, Good O R t) ∧ BInv (Good [] D) ds := by
  have hP1 : ∀ t, Good [] D t → t.Valid := fun t h => h.valid (by simp)
  induction hints with
  | nil => intro relays direct _ hr hd; exact ⟨relays, direct, rfl, hr, hd⟩
  | cons h hs ih =>
    intro relays direct hg hr hd
    have hrest := fun x hx => hg x (List.mem_cons_of_mem _ hx)
    have h0 := hg h List.mem_cons_self
    cases h with
    | relay l =>
      have : ∀ r ∈ relays ++ [l], ∀ t ∈ r, Good O R t := by
        intro r hrm
        rcases List.mem_append.mp hrm with hrm | hrm
        · exact hr r hrm
        · simp at hrm; subst hrm; exact h0
      obtain ⟨rs, ds, he, h1, h2⟩ := ih (relays ++ [l]) direct hrest this hd
      exact ⟨rs, ds, by simp only [splitHints, he], h1, h2⟩
    | tcp t =>
      have hv := hP1 t h0
      obtain ⟨rs, ds, he, h1, h2⟩ := ih relays (directAdd t direct) hrest hr (directAdd_inv _ hP1 t h0 direct hd)
      exact ⟨rs, ds, by simp only [splitHints, pyHash_num hv.prio, he, bind, Except.bind], h1, h2⟩

/-- the scheduled connection `s` is for hint object `t`; it has an endpoint only if the hint's
    class is usable (without Tor: a `DirectTCPV1Hint`) -/
def SchedFrom (tor : Bool) (t : Tcp) (s : Sched) : Prop :=
  s.host = t.hostname ∧ s.port = t.port ∧ s.kind = t.kind ∧ (s.ep = true → tor = false → t.kind = .direct)

theorem scheduleConnection_spec (tor : Bool) (delay : Nat) (relay : Bool) {t : Tcp} (hv : t.Valid) :
    ∃ s, scheduleConnection tor delay relay t = .ok s ∧ s.relay = relay ∧ SchedFrom tor t s := by
  obtain ⟨r, hr, hep⟩ := endpoint_ok tor hv
  refine ⟨_, by simp only [scheduleConnection, hr, describe_ok hv, bind, Except.bind]; rfl, rfl, rfl, rfl, rfl, ?_⟩
  intro he htor
  cases r with
  | none => simp at he
  | some hp => exact (hep hp.1 hp.2 rfl).2.2 htor

theorem schedDirectBucket_spec (tor : Bool) (P : Tcp → Prop) (hP : ∀ t, P t → t.Valid) (l : List Tcp) (h : ∀ t ∈ l, P t) :
    ∃ ss, schedDirectBucket tor l = .ok ss ∧
      ∀ s ∈ ss, s.relay = false ∧ ∃ t, P t ∧ SchedFrom tor t s ∧ (tor = false → t.kind = .direct) := by
  induction l with
  | nil => exact ⟨[], rfl, by simp⟩
  | cons t ts ih =>
    obtain ⟨ss, hss, hm⟩ := ih (fun t ht => h t (List.mem_cons_of_mem _ ht))
    by_cases hskip : (t.kind == .tor && !tor) = true
    · exact ⟨ss, by simp only [schedDirectBucket, hskip, ↓reduceIte, hss], hm⟩
    · have hv := hP t (h t List.mem_cons_self)
      obtain ⟨s, hs, hrel, hfrom⟩ := scheduleConnection_spec tor 0 false hv
      refine ⟨s :: ss, by simp only [schedDirectBucket, hskip, hs, hss, bind, Except.bind]; rfl, ?_⟩
      intro x hx
      rcases List.mem_cons.mp hx with rfl | hx
      · refine ⟨hrel, t, h t List.mem_cons_self, hfrom, ?_⟩
        intro htor
        cases hk : t.kind with
        | direct => rfl
        | tor => simp [hk, htor] at hskip
      · exact hm x hx

theorem schedDirect_spec (tor : Bool) (P : Tcp → Prop) (hP : ∀ t, P t → t.Valid) (b : Buckets) (hb : BInv P b) (ps : List J) :
    ∃ ss, schedDirect tor b ps = .ok ss ∧
      ∀ s ∈ ss, s.relay = false ∧ ∃ t, P t ∧ SchedFrom tor t s ∧ (tor = false → t.kind = .direct) := by
  induction ps with
  | nil => exact ⟨[], rfl, by simp⟩
  | cons p ps ih =>
    obtain ⟨a, ha, ma⟩ := schedDirectBucket_spec tor P hP _ (bucket_elems P b hb p)
    obtain ⟨rest, hr, mr⟩ := ih
    refine ⟨a ++ rest, by unfold schedDirect; simp only [bind, Except.bind]; rw [ha, hr]; rfl, ?_⟩
    intro s hs
    rcases List.mem_append.mp hs with hs | hs
    · exact ma s hs
    · exact mr s hs

theorem schedRelayHints_spec (tor : Bool) (delay : Nat) (P : Tcp → Prop) (hP : ∀ t, P t → t.Valid) (l : List Tcp) (h : ∀ t ∈ l, P t) :
    ∃ ss, schedRelayHints tor delay l = .ok ss ∧ ∀ s ∈ ss, s.relay = true ∧ ∃ t, P t ∧ SchedFrom tor t s := by
  induction l with
  | nil => exact ⟨[], rfl, by simp⟩
  | cons t ts ih =>
    obtain ⟨ss, hss, hm⟩ := ih (fun t ht => h t (List.mem_cons_of_mem _ ht))
    obtain ⟨s, hs, hrel, hfrom⟩ := scheduleConnection_spec tor delay true (hP t (h t List.mem_cons_self))
    refine ⟨s :: ss, by simp only [schedRelayHints, hs, hss, bind, Except.bind]; rfl, ?_⟩
    intro x hx
    rcases List.mem_cons.mp hx with rfl | hx
    · exact ⟨hrel, t, h t List.mem_cons_self, hfrom⟩
    · exact hm x hx

theorem schedRelays_spec (tor : Bool) (delay : Nat) (P : Tcp → Prop) (hP : ∀ t, P t → t.Valid) (rs : List (List Tcp))
    (h : ∀ r ∈ rs, ∀ t ∈ r, P t) :
    ∃ ss, schedRelays tor delay rs = .ok ss ∧ ∀ s ∈ ss, s.relay = true ∧ ∃ t, P t ∧ SchedFrom tor t s := by
  induction rs with
  | nil => exact ⟨[], rfl, by simp⟩
  | cons r rest ih =>
    obtain ⟨a, ha, ma⟩ := schedRelayHints_spec tor delay P hP r (h r List.mem_cons_self)
    obtain ⟨b, hb, mb⟩ := ih (fun r hr => h r (List.mem_cons_of_mem _ hr))
    refine ⟨a ++ b, by simp only [schedRelays, ha, hb, bind, Except.bind]; rfl, ?_⟩
    intro s hs
    rcases List.mem_append.mp hs with hs | hs
    · exact ma s hs
    · exact mb s hs

/-- what `_use_hints` may schedule -/
def SchedOK (tor : Bool) (O : List Tcp) (D R : List J) (s : Sched) : Prop :=
  (s.relay = false ∧ ∃ t, Good [] D t ∧ SchedFrom tor t s ∧ (tor = false → t.kind = .direct)) ∨
  (s.relay = true ∧ ∃ t, Good O R t ∧ SchedFrom tor t s)

theorem connectorUseHints_spec {O : List Tcp} {D R : List J} (hO : ∀ t ∈ O, t.Valid) (tor noListen : Bool)
    (hints : List HintObj) (hg : ∀ h ∈ hints, HGood O D R h) :
    ∃ ss, connectorUseHints tor noListen hints = .ok ss ∧ ∀ s ∈ ss, SchedOK tor O D R s := by
  have hP1 : ∀ t, Good [] D t → t.Valid := fun t h => h.valid (by simp)
  have hP2 : ∀ t, Good O R t → t.Valid := fun t h => h.valid hO
  obtain ⟨rs, ds, hsplit, hrs, hds⟩ := splitHints_spec (O := O) (D := D) (R := R) hints [] [] hg (by simp) (by intro kv hkv; simp at hkv)
  obtain ⟨prios, hk, _⟩ := sortDesc_ok pyLt (ds.map (·.1)) (by
    intro a ha c hc
    simp only [List.mem_map] at ha hc
    obtain ⟨kv, hkv, rfl⟩ := ha
    obtain ⟨kv', hkv', rfl⟩ := hc
    exact pyLt_num (hds kv hkv).1 (hds kv' hkv').1)
  obtain ⟨sd, hsd, msd⟩ := schedDirect_spec tor _ hP1 ds hds prios
  obtain ⟨sr, hsr, msr⟩ := schedRelays_spec tor (if (!sd.isEmpty && !noListen) = true then 1 else 0) _ hP2 rs hrs
  refine ⟨sd ++ sr, by unfold connectorUseHints; simp only [bind, Except.bind, hsplit, hk, hsd, hsr]; rfl, ?_⟩
  intro s hs
  rcases List.mem_append.mp hs with hs | hs
  · exact Or.inl (msd s hs)
  · exact Or.inr (msr s hs)

/-! ### `encode_hint` then `parse_hint` -/

def Tcp.asDirect (t : Tcp) : Tcp := { t with kind := .direct }

/-- a hint object this side can hold: string hostname, integer port, numeric priority -/
def HintObj.Wf : HintObj → Prop
  | .tcp t => t.Valid
  | .relay l => ∀ t ∈ l, t.Valid

/-- `encode_hint` writes every relay sub-hint as `direct-tcp-v1` -/
def HintObj.normalize : HintObj → HintObj
  | .tcp t => .tcp t
  | .relay l => .relay (l.map Tcp.asDirect)

/-- hint objects this side produces (`Connector._start_listener`, `parse_hint_argv` for the relay):
    `DirectTCPV1Hint`s, alone or inside a `RelayV1Hint` -/
def HintObj.Producible : HintObj → Prop
  | .tcp t => t.Valid ∧ t.kind = .direct
  | .relay l => ∀ t ∈ l, t.Valid ∧ t.kind = .direct

theorem parse_encodeTcp_direct {t : Tcp} (hv : t.Valid) :
    parseTcpV1Hint (encodeTcp "direct-tcp-v1" t) = .ok (some t.asDirect) := by
  obtain ⟨k, h, p, pr⟩ := t
  obtain ⟨⟨s, hs⟩, ⟨n, hn⟩, hp⟩ := hv
  simp only at hs hn hp
  subst hs hn
  rcases hp with ⟨m, rfl⟩ | ⟨f, rfl⟩ <;>
    simp [parseTcpV1Hint, encodeTcp, Tcp.asDirect, lookup, pyGet, pyContains, pyIndex, J.isDict, J.eqStr, J.isStr, J.isInt,
      J.isBool, J.isIntOrFloat, bind, Except.bind, pure, Except.pure]

theorem parse_encodeTcp_tor {t : Tcp} (hv : t.Valid) :
    parseTcpV1Hint (encodeTcp "tor-tcp-v1" t) = .ok (some { t with kind := .tor }) := by
  obtain ⟨k, h, p, pr⟩ := t
  obtain ⟨⟨s, hs⟩, ⟨n, hn⟩, hp⟩ := hv
  simp only at hs hn hp
  subst hs hn
  rcases hp with ⟨m, rfl⟩ | ⟨f, rfl⟩ <;>
    simp [parseTcpV1Hint, encodeTcp, lookup, pyGet, pyContains, pyIndex, J.isDict, J.eqStr, J.isStr, J.isInt,
      J.isBool, J.isIntOrFloat, bind, Except.bind, pure, Except.pure]

theorem parseSubHints_encode (l : List Tcp) (h : ∀ t ∈ l, t.Valid) :
    parseSubHints (l.map (encodeTcp "direct-tcp-v1")) = .ok (l.map Tcp.asDirect) := by
  induction l with
  | nil => rfl
  | cons t ts ih =>
    simp [parseSubHints, parse_encodeTcp_direct (h t List.mem_cons_self),
      ih (fun t ht => h t (List.mem_cons_of_mem _ ht)), bind, Except.bind, pure, Except.pure]

theorem parse_encode (h : HintObj) (hw : h.Wf) : parseHint (encodeHint h) = .ok (some h.normalize) := by
  cases h with
  | tcp t =>
    have hv : t.Valid := hw
    obtain ⟨k, ho, p, pr⟩ := t
    cases k with
    | direct =>
      have := parse_encodeTcp_direct hv
      simp [parseHint, encodeHint, HintObj.normalize, encodeTcp, J.isDict, pyGet, lookup, J.eqStr, bind, Except.bind,
        pure, Except.pure] at this ⊢
      simp [this, Tcp.asDirect]
    | tor =>
      have := parse_encodeTcp_tor hv
      simp [parseHint, encodeHint, HintObj.normalize, this, encodeTcp, J.isDict, pyGet, lookup, J.eqStr, bind, Except.bind,
        pure, Except.pure] at this ⊢
  | relay l =>
    have := parseSubHints_encode l hw
    simp [parseHint, encodeHint, HintObj.normalize, J.isDict, pyGet, lookup, J.eqStr, J.isList, pyIter, this, bind,
      Except.bind, pure, Except.pure]

theorem asDirect_of_direct {t : Tcp} (h : t.kind = .direct) : t.asDirect = t := by
  obtain ⟨k, ho, p, pr⟩ := t
  simp only at h
  subst h
  rfl

/-! ### `rx_HINTS` -/

theorem managerUseHints_list {O : List Tcp} {D R : List J} (kvs : List (String × J)) (hints : List J)
    (hl : lookup "hints" kvs = some (.arr hints))
    (hD : ∀ x ∈ hints, x ∈ D) (hR : ∀ x ∈ hints, ∀ y ∈ subSources x, y ∈ R) :
    ∃ hs, managerUseHints (.obj kvs) = .ok hs ∧ ∀ h ∈ hs, HGood O D R h := by
  obtain ⟨hs, h1, h2⟩ := parseHintList_spec (O := O) hints hD hR
  exact ⟨hs, by simp [managerUseHints, pyIndex, hl, pyIter, h1, bind, Except.bind], h2⟩

/-! ### statement-level vocabulary of the property theorems -/

/-- `host`/`port` are the string `"hostname"` and the (non-bool) integer `"port"` of the JSON object
    `src`, whose `"type"` is one this client can use: `direct-tcp-v1`, or `tor-tcp-v1` with Tor -/
def Supported (tor : Bool) (src : J) (host port : J) : Prop :=
  ∃ kvs s n, src = .obj kvs ∧ lookup "hostname" kvs = some (.str s) ∧ lookup "port" kvs = some (.int n) ∧
    host = .str s ∧ port = .int n ∧
    (lookup "type" kvs = some (.str "direct-tcp-v1") ∨ (tor = true ∧ lookup "type" kvs = some (.str "tor-tcp-v1")))

theorem Accepts.supported {tor : Bool} {src : J} {t : Tcp} {host port : J} (ha : Accepts src t)
    (hd : DialFrom tor t host port) : Supported tor src host port := by
  obtain ⟨kvs, s, n, rfl, hh, hp, hth, htp, _, hty⟩ := ha
  obtain ⟨h1, h2, h3⟩ := hd
  refine ⟨kvs, s, n, rfl, hh, hp, h1.trans hth, h2.trans htp, ?_⟩
  rcases hty with ⟨ht, _⟩ | ⟨ht, hk⟩
  · exact Or.inl ht
  · cases tor with
    | true => exact Or.inr ⟨rfl, ht⟩
    | false => rw [h3 rfl] at hk; cases hk

/-- a scheduled dilation connection `s` is for the JSON object `src`: a `direct-tcp-v1`/`tor-tcp-v1`
    object with string hostname and integer port; it has an endpoint only if this client can use
    that type -/
def SchedSupported (tor : Bool) (src : J) (s : Sched) : Prop :=
  ∃ kvs h n, src = .obj kvs ∧ lookup "hostname" kvs = some (.str h) ∧ lookup "port" kvs = some (.int n) ∧
    s.host = .str h ∧ s.port = .int n ∧
    ((lookup "type" kvs = some (.str "direct-tcp-v1") ∧ s.kind = .direct) ∨
     (lookup "type" kvs = some (.str "tor-tcp-v1") ∧ s.kind = .tor)) ∧
    (s.ep = true → tor = false → s.kind = .direct)

theorem Accepts.schedSupported {tor : Bool} {src : J} {t : Tcp} {s : Sched} (ha : Accepts src t)
    (hs : SchedFrom tor t s) : SchedSupported tor src s := by
  obtain ⟨kvs, h, n, rfl, hh, hp, hth, htp, _, hty⟩ := ha
  obtain ⟨h1, h2, h3, h4⟩ := hs
  refine ⟨kvs, h, n, rfl, hh, hp, h1.trans hth, h2.trans htp, ?_, ?_⟩
  · rcases hty with ⟨ht, hk⟩ | ⟨ht, hk⟩
    · exact Or.inl ⟨ht, h3.trans hk⟩
    · exact Or.inr ⟨ht, h3.trans hk⟩
  · intro he htor
    exact h3.trans (h4 he htor)

/-- `add_connection_hints` called once per list, in order; stops at the first exception -/
def runAdds : Transit → List (List J) → Transit × Option Err
  | st, [] => (st, none)
  | st, hl :: rest =>
    match addConnectionHints st (.arr hl) with
    | (st', none) => runAdds st' rest
    | (st', some e) => (st', some e)

def ownHints (own : Bool) : List Tcp := if own then ownRelay else []

theorem ownHints_valid (own : Bool) : ∀ t ∈ ownHints own, t.Valid := by
  cases own
  · intro t ht; simp [ownHints] at ht
  · exact ownRelay_valid

theorem init_inv (tor listener own : Bool) (D R : List J) : (Transit.init tor listener own).Inv (ownHints own) D R := by
  constructor
  · intro t ht; simp [Transit.init] at ht
  · intro r hr t ht
    cases own with
    | false => simp [Transit.init] at hr
    | true =>
      simp [Transit.init] at hr
      subst hr
      exact Or.inl ht

theorem runAdds_spec {O : List Tcp} {D R : List J} (hO : ∀ t ∈ O, t.Valid) (adds : List (List J)) :
    ∀ st : Transit, st.Inv O D R → (∀ hl ∈ adds, ∀ h ∈ hl, h ∈ D) → (∀ hl ∈ adds, ∀ h ∈ hl, ∀ x ∈ subSources h, x ∈ R) →
      (runAdds st adds).2 = none ∧ (runAdds st adds).1.Inv O D R ∧ (runAdds st adds).1.tor = st.tor ∧
        (runAdds st adds).1.listener = st.listener := by
  induction adds with
  | nil => intro st inv _ _; exact ⟨rfl, inv, rfl, rfl⟩
  | cons hl rest ih =>
    intro st inv hD hR
    obtain ⟨h1, h2, h3, h4⟩ := addHintList_spec hO hl st inv (hD hl List.mem_cons_self) (hR hl List.mem_cons_self)
    have := ih (addHintList st hl).1 h2 (fun l hl' => hD l (List.mem_cons_of_mem _ hl')) (fun l hl' => hR l (List.mem_cons_of_mem _ hl'))
    have he : addConnectionHints st (.arr hl) = ((addHintList st hl).1, none) := by
      simp only [addConnectionHints, pyIter]
      rw [← h1]
    simp only [runAdds, he]
    exact ⟨this.1, this.2.1, this.2.2.1.trans h3, this.2.2.2.trans h4⟩

end WV.C20
