import WV.Proofs.C16

namespace WV.Proofs.C16
open WV WV.Gen WV.C16

theorem inv_pong {T : Nat} {s s' : St} {id : Nat} (hi : Inv T s)
    (h : step (Cfg.real T) s (.pong id) = (s', none)) : Inv T s' := by
  simp only [step, gotPong] at h
  split at h
  · obtain ⟨h1, h2, h3, h4, h5, h6, h7, h8, h9, h10, h11, h12, h13⟩ := hi
    simp only [ttInput, real_tbl] at h
    cases htr : s.traffic with
    | none => simp [htr] at h
    | some st =>
      cases st <;> simp [htr, TrafficTimer.table, ttOutputs] at h
      all_goals (subst h; constructor <;> simp_all [inUse])
      all_goals grind
  · simp at h; subst h; exact hi

end WV.Proofs.C16
