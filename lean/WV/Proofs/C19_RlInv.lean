import WV.Proofs.C19_RlSteps
namespace WV.Proofs.C19
open WV WV.C19 WV.Gen

/-- `s'` still has the nameplate chosen in `s` (if one was chosen) -/
def Keeps (s s' : St) : Prop := late s.inp = true → late s'.inp = true ∧ s'.nameplate = s.nameplate

theorem Keeps.refl (s : St) : Keeps s s := fun h => ⟨h, rfl⟩

theorem Keeps.trans {a b c : St} (h1 : Keeps a b) (h2 : Keeps b c) : Keeps a c := fun h =>
  let ⟨l1, n1⟩ := h1 h
  let ⟨l2, n2⟩ := h2 l1
  ⟨l2, n2.trans n1⟩

theorem keeps_step (isD : Nat → Bool) (s : St) (e : Ev) : Keeps s (step isD s e).1 := step_late isD s e

theorem keeps_wait (isD : Nat → Bool) (s : St) : Keeps s (rlWaitWordlist isD s).1 := by
  unfold rlWaitWordlist
  have k1 := keeps_step isD s .hWhenWordlist
  split
  · next s1 e heq => rw [heq] at k1; exact k1
  · next s1 heq =>
    rw [heq] at k1
    split
    · exact k1
    · exact k1.trans (keeps_step isD s1 .gotWordlist)

/-- the front-end's committed nameplate is the one Input holds -/
def J (r : Rl) : Prop := ∀ np, committedNp r = some np → r.s.nameplate = some np ∧ late r.s.inp = true

theorem committedNp_eq {r : Rl} {np : Str} (h : committedNp r = some np) : r.committed = some np ∧ np ≠ [] := by
  unfold committedNp at h
  split at h
  · next c cs hc => simp at h; subst h; exact ⟨hc, by simp⟩
  · simp at h

theorem committedNp_of {r : Rl} {np : Str} (h : r.committed = some np) (hne : np ≠ []) : committedNp r = some np := by
  unfold committedNp
  cases np with
  | nil => exact absurd rfl hne
  | cons c cs => simp [h]

theorem J_keeps {r : Rl} {s' : St} {u : Bool} (hJ : J r) (k : Keeps r.s s') : J { r with s := s', used := u } := by
  intro np hnp
  have hnp' : committedNp r = some np := hnp
  obtain ⟨h1, h2⟩ := hJ np hnp'
  obtain ⟨k1, k2⟩ := k h2
  exact ⟨k2.trans h1, k1⟩

theorem J_used {r : Rl} {u : Bool} (hJ : J r) : J { r with used := u } := J_keeps hJ (Keeps.refl _)

/-! ### the commit step -/

theorem rlCommitTab_spec (isD : Nat → Bool) (r : Rl) (np : Str) (hJ : J r) :
    J (rlCommitTab isD r np).1 ∧
    ((rlCommitTab isD r np).2 = none → committedNp (rlCommitTab isD r np).1 = some np ∨ committedNp r = committedNp (rlCommitTab isD r np).1 ∧ (committedNp r).isSome) := by
  unfold rlCommitTab
  split
  · next hc => exact ⟨hJ, fun _ => Or.inr ⟨rfl, hc⟩⟩
  · next hc =>
    have hnone : committedNp r = none := by simpa using hc
    split
    · next s1 e heq =>
      refine ⟨?_, fun h => by simp at h⟩
      intro x hx
      have : committedNp r = some x := hx
      rw [hnone] at this; cases this
    · next s1 heq =>
      obtain ⟨hne, hn, hl, _⟩ := chooseNp_ok isD r.s s1 np heq
      have k := keeps_wait isD s1
      obtain ⟨k1, k2⟩ := k hl
      have hcom : committedNp ({ r with s := (rlWaitWordlist isD s1).1, committed := some np } : Rl) = some np :=
        committedNp_of rfl hne
      refine ⟨?_, fun _ => Or.inl hcom⟩
      intro x hx
      rw [hcom] at hx
      cases hx
      exact ⟨k2.trans hn, k1⟩

theorem rlCommitFinish_spec (isD : Nat → Bool) (r : Rl) (np : Str) :
    (committedNp r).isSome ∧ rlCommitFinish isD r np = (r, none) ∨
    committedNp r = none ∧ rlCommitFinish isD r np = ({ r with s := (step isD r.s (.hChooseNp np)).1 }, (step isD r.s (.hChooseNp np)).2) := by
  unfold rlCommitFinish
  split
  · next hc => exact Or.inl ⟨hc, rfl⟩
  · next hc => exact Or.inr ⟨by simpa using hc, rfl⟩

/-! ### J is an invariant of every session -/

theorem rlNameplates_J (isD : Nat → Bool) (r : Rl) (t : Str) (hJ : J r) : J (rlNameplates isD r t).1 := by
  unfold rlNameplates
  have k1 := keeps_step isD r.s .hRefresh
  split
  · next s1 e heq => rw [heq] at k1; exact J_keeps (u := r.used) hJ k1
  · next s1 heq =>
    rw [heq] at k1
    have k2 := k1.trans (keeps_step isD s1 (.hNpCompl t))
    split
    · next s2 e heq2 => rw [heq2] at k2; exact J_keeps (u := r.used) hJ k2
    · next s2 heq2 =>
      rw [heq2] at k2
      split <;> exact J_keeps (u := r.used) hJ k2

theorem rlWords_J (isD : Nat → Bool) (r : Rl) (np w : Str) (hJ : J r) : J (rlWords isD r np w).1 := by
  unfold rlWords
  have k1 := keeps_step isD r.s (.hWordCompl w)
  split
  · next s1 e heq => rw [heq] at k1; exact J_keeps (u := r.used) hJ k1
  · next s1 heq =>
    rw [heq] at k1
    split <;> exact J_keeps (u := r.used) hJ k1

theorem rlBuild_J (isD : Nat → Bool) (r : Rl) (t : Str) (hJ : J r) : J (rlBuild isD r t).1 := by
  unfold rlBuild
  split
  · exact hJ
  · split
    · exact rlNameplates_J isD r t hJ
    · next np words _ =>
      have hc := (rlCommitTab_spec isD r np hJ).1
      split
      · next r1 e heq => rw [heq] at hc; exact hc
      · next r1 heq => rw [heq] at hc; exact rlWords_J isD r1 np words hc

theorem rlTab_J (isD : Nat → Bool) (r : Rl) (t : Str) (hJ : J r) : J (rlTab isD r t).1 :=
  rlBuild_J isD _ t (J_used hJ)

theorem rlFinish_J (isD : Nat → Bool) (r : Rl) (t : Str) (hJ : J r) : J (rlFinish isD r t).1 := by
  unfold rlFinish
  split
  · exact hJ
  · next np words _ =>
    split
    · exact hJ
    · rcases rlCommitFinish_spec isD r np with ⟨hc, he⟩ | ⟨hc, he⟩
      · rw [he]
        simp only
        exact J_keeps (u := r.used) hJ (keeps_step isD r.s _)
      · rw [he]
        have hv : ∀ s' : St, J ({ r with s := s' } : Rl) := by
          intro s' x hx
          have : committedNp r = some x := hx
          rw [hc] at this; cases this
        split
        · next r1 e heq =>
          simp only [Prod.mk.injEq] at heq
          obtain ⟨rfl, _⟩ := heq
          exact hv _
        · next r1 heq =>
          simp only [Prod.mk.injEq] at heq
          obtain ⟨rfl, _⟩ := heq
          exact hv _

theorem rlStep_J (isD : Nat → Bool) (r : Rl) (e : RlEv) (hJ : J r) : J (rlStep isD r e) := by
  cases e with
  | tab t => exact rlTab_J isD r t hJ
  | finish t => exact rlFinish_J isD r t hJ
  | env e => exact J_keeps (u := r.used) hJ (keeps_step isD r.s e)

theorem rlRun_J (isD : Nat → Bool) : ∀ (es : List RlEv) (r : Rl), J r → J (rlRun isD r es)
  | [], _, h => h
  | e :: es, r, h => rlRun_J isD es _ (rlStep_J isD r e h)

end WV.Proofs.C19
