import WV.Proofs.C12_Codec

/-! C12 helper lemmas: `_Record.send_record` / `decrypt_message` chunk arithmetic over an ideal
    nonce-indexed AEAD; the toy instance. -/
namespace WV.Proofs.C12
open WV WV.C12 WV.Gen

theorem chunksOf_nil (k fuel : Nat) : chunksOf k fuel [] = [] := by
  cases fuel <;> simp [chunksOf]

theorem chunksOf_succ_ne (k fuel : Nat) (m : Bytes) (h : m ≠ []) :
    chunksOf k (fuel + 1) m = m.take k :: chunksOf k fuel (m.drop k) := by
  cases m with
  | nil => exact absurd rfl h
  | cons a l => simp [chunksOf]

theorem encChunks_nil (N : Noise) (n : Nat) : encChunks N n [] = ([], n) := rfl

theorem encChunks_cons_fst (N : Noise) (n : Nat) (c : Bytes) (cs : List Bytes) :
    (encChunks N n (c :: cs)).1 = N.enc n c ++ (encChunks N (n + 1) cs).1 := by
  simp only [encChunks]

theorem encChunks_cons_snd (N : Noise) (n : Nat) (c : Bytes) (cs : List Bytes) :
    (encChunks N n (c :: cs)).2 = (encChunks N (n + 1) cs).2 := by
  simp only [encChunks]

theorem decChunks_cons (N : Noise) (n : Nat) (c : Bytes) (cs : List Bytes) :
    decChunks N n (c :: cs) =
      match N.dec n c with
      | none => none
      | some p => match decChunks N (n + 1) cs with
        | none => none
        | some (r, n') => some (p ++ r, n') := by
  simp only [decChunks]
  cases N.dec n c with
  | none => rfl
  | some p =>
    cases decChunks N (n + 1) cs with
    | none => rfl
    | some q => rfl

/-- the key arithmetic: re-splitting the concatenated ciphertext at `P + 16` gives back the
    per-chunk ciphertexts, so chunk-wise decryption recovers the message -/
theorem decChunks_resplit (N : Noise) (hN : N.Ideal) (P : Nat) (hP : 0 < P) :
    ∀ (fuel : Nat) (m : Bytes) (n : Nat), m.length ≤ fuel →
      ∀ fuel2, (encChunks N n (chunksOf P fuel m)).1.length ≤ fuel2 →
        decChunks N n (chunksOf (P + 16) fuel2 (encChunks N n (chunksOf P fuel m)).1)
          = some (m, (encChunks N n (chunksOf P fuel m)).2) := by
  intro fuel
  induction fuel with
  | zero =>
    intro m n hm fuel2 _
    have : m = [] := List.eq_nil_of_length_eq_zero (by omega)
    subst this
    simp [chunksOf, encChunks, chunksOf_nil, decChunks]
  | succ fuel ih =>
    intro m n hm fuel2 hf2
    by_cases hne : m = []
    · subst hne
      simp [chunksOf, encChunks, chunksOf_nil, decChunks]
    · rw [chunksOf_succ_ne _ _ _ hne] at hf2 ⊢
      rw [encChunks_cons_fst] at hf2 ⊢
      rw [encChunks_cons_snd]
      rw [List.length_append] at hf2
      have hlen := hN.len_enc n (m.take P)
      have hmpos : 0 < m.length := List.length_pos_iff.mpr hne
      obtain ⟨f2, rfl⟩ : ∃ f2, fuel2 = f2 + 1 := ⟨fuel2 - 1, by omega⟩
      have hbne : N.enc n (m.take P) ++ (encChunks N (n + 1) (chunksOf P fuel (m.drop P))).1 ≠ [] := by
        intro h; have := congrArg List.length h
        rw [List.length_append, List.length_nil] at this; omega
      rw [chunksOf_succ_ne _ _ _ hbne]
      by_cases hle : m.length ≤ P
      · have ht : m.take P = m := List.take_of_length_le hle
        have hd : m.drop P = [] := List.drop_eq_nil_of_le hle
        rw [ht] at hlen
        simp only [ht, hd, chunksOf_nil, encChunks_nil, List.append_nil]
        rw [List.take_of_length_le (by omega), List.drop_eq_nil_of_le (by omega), chunksOf_nil,
          decChunks_cons, hN.dec_enc]
        simp [decChunks]
      · have htl : (m.take P).length = P := by simp; omega
        rw [htl] at hlen
        rw [List.take_append_of_le_length (by omega), List.take_of_length_le (by omega),
          List.drop_append_of_le_length (by omega), List.drop_eq_nil_of_le (by omega), List.nil_append,
          decChunks_cons, hN.dec_enc]
        have hih := ih (m.drop P) (n + 1) (by simp; omega) f2 (by omega)
        simp only [hih, List.take_append_drop]

theorem encChunks_length_pos (N : Noise) (hN : N.Ideal) (P : Nat) (fuel : Nat) (m : Bytes) (n : Nat)
    (hne : m ≠ []) (hf : m.length ≤ fuel) : 0 < (encChunks N n (chunksOf P fuel m)).1.length := by
  have hmpos : 0 < m.length := List.length_pos_iff.mpr hne
  obtain ⟨f, rfl⟩ : ∃ f, fuel = f + 1 := ⟨fuel - 1, by omega⟩
  rw [chunksOf_succ_ne _ _ _ hne, encChunks_cons_fst]
  have := hN.len_enc n (m.take P)
  simp; omega

theorem encChunks_length_big (N : Noise) (hN : N.Ideal) (P : Nat) (hP : 0 < P) (fuel : Nat) (m : Bytes) (n : Nat)
    (hbig : P < m.length) (hf : m.length ≤ fuel) :
    P + 16 < (encChunks N n (chunksOf P fuel m)).1.length := by
  have hne : m ≠ [] := by intro h; subst h; simp at hbig
  obtain ⟨f, rfl⟩ : ∃ f, fuel = f + 1 := ⟨fuel - 1, by omega⟩
  rw [chunksOf_succ_ne _ _ _ hne, encChunks_cons_fst]
  have h1 := hN.len_enc n (m.take P)
  have htl : (m.take P).length = P := by simp; omega
  have hdne : m.drop P ≠ [] := by
    intro h; have := congrArg List.length h; simp at this; omega
  have h2 := encChunks_length_pos N hN P f (m.drop P) (n + 1) hdne (by simp; omega)
  simp only [List.length_append]; omega

/-- `decrypt_message (send_record m) = m` for every message length -/
theorem open_seal (N : Noise) (hN : N.Ideal) (n : Nat) (m : Bytes) :
    openMessage N n (sealMessage N n m).1 = some (m, (sealMessage N n m).2) := by
  have hC : Consts.NOISE_MAX_CIPHERTEXT = Consts.NOISE_MAX_PAYLOAD + 16 := by decide
  have hP : 0 < Consts.NOISE_MAX_PAYLOAD := by decide
  unfold sealMessage
  by_cases hle : m.length ≤ Consts.NOISE_MAX_PAYLOAD
  · have hl := hN.len_enc n m
    have : (N.enc n m).length ≤ Consts.NOISE_MAX_CIPHERTEXT := by omega
    simp only [hle, if_true, openMessage, this, hN.dec_enc, Option.map]
  · simp only [hle, if_false]
    have hbig := encChunks_length_big N hN _ hP m.length m n (by omega) (Nat.le_refl _)
    have : ¬ (encChunks N n (chunksOf Consts.NOISE_MAX_PAYLOAD m.length m)).1.length ≤ Consts.NOISE_MAX_PAYLOAD + 16 := by
      omega
    simp only [openMessage, hC, this, if_false]
    exact decChunks_resplit N hN _ hP m.length m n (Nat.le_refl _) _ (Nat.le_refl _)

/-! ### what a successfully opened frame must have been -/

theorem chunksOf_flatten (k : Nat) (hk : 0 < k) : ∀ (fuel : Nat) (m : Bytes), m.length ≤ fuel →
    (chunksOf k fuel m).flatten = m := by
  intro fuel
  induction fuel with
  | zero => intro m hm; have : m = [] := List.eq_nil_of_length_eq_zero (by omega); subst this; rfl
  | succ fuel ih =>
    intro m hm
    by_cases hne : m = []
    · subst hne; simp [chunksOf]
    · have hmpos : 0 < m.length := List.length_pos_iff.mpr hne
      rw [chunksOf_succ_ne _ _ _ hne, List.flatten_cons, ih _ (by simp; omega), List.take_append_drop]

theorem decChunks_keyed (N : Noise) (hN : N.Ideal) :
    ∀ (cs : List Bytes) (n : Nat) (pt : Bytes) (n' : Nat), decChunks N n cs = some (pt, n') →
      ∃ ps : List Bytes, ps.length = cs.length ∧ cs.flatten = (encChunks N n ps).1 ∧ pt = ps.flatten
        ∧ n' = n + cs.length := by
  intro cs
  induction cs with
  | nil =>
    intro n pt n' h
    simp [decChunks] at h
    exact ⟨[], rfl, by simp [encChunks], by simp [h.1], by simp [h.2]⟩
  | cons c cs ih =>
    intro n pt n' h
    rw [decChunks_cons] at h
    cases hd : N.dec n c with
    | none => simp [hd] at h
    | some p =>
      simp only [hd] at h
      cases hr : decChunks N (n + 1) cs with
      | none => simp [hr] at h
      | some q =>
        obtain ⟨r, n1⟩ := q
        simp only [hr, Option.some.injEq, Prod.mk.injEq] at h
        obtain ⟨ps, hl, hf, hpt, hn⟩ := ih (n + 1) r n1 hr
        refine ⟨p :: ps, by simp [hl], ?_, ?_, ?_⟩
        · rw [encChunks_cons_fst, List.flatten_cons, hf, hN.auth n c p hd]
        · rw [← h.1, hpt]; rfl
        · rw [← h.2, hn]; simp; omega

/-- only frames made of ciphertexts produced with the key (for the receiver's current nonces)
    are opened; the nonce advances -/
theorem openMessage_keyed (N : Noise) (hN : N.Ideal) (n : Nat) (f pt : Bytes) (n' : Nat)
    (h : openMessage N n f = some (pt, n')) : KeyedFrame N n f ∧ n < n' := by
  unfold openMessage at h
  by_cases hle : f.length ≤ Consts.NOISE_MAX_CIPHERTEXT
  · simp only [hle, if_true] at h
    cases hd : N.dec n f with
    | none => simp [hd] at h
    | some p =>
      simp [hd] at h
      refine ⟨⟨[p], by simp, ?_⟩, by omega⟩
      simp [encChunks, hN.auth n f p hd]
  · simp only [hle, if_false] at h
    obtain ⟨ps, hl, hf, _, hn⟩ := decChunks_keyed N hN _ n pt n' h
    rw [chunksOf_flatten _ (by decide) _ _ (Nat.le_refl _)] at hf
    have hfne : f ≠ [] := by intro h0; subst h0; simp at hle
    have hcl : 0 < (chunksOf Consts.NOISE_MAX_CIPHERTEXT f.length f).length := by
      have hpos : 0 < f.length := List.length_pos_iff.mpr hfne
      obtain ⟨k, hk⟩ : ∃ k, f.length = k + 1 := ⟨f.length - 1, by omega⟩
      rw [hk, chunksOf_succ_ne _ _ _ hfne]; simp
    refine ⟨⟨ps, ?_, hf⟩, by omega⟩
    intro h0; subst h0; simp at hl; omega

/-! ### the toy AEAD used by the driver and the harness is an ideal one -/

theorem toyNoise_ideal : toyNoise.Ideal where
  dec_enc := by
    intro n m
    simp [toyNoise, toyTag]
  len_enc := by
    intro n m
    simp [toyNoise, toyTag]
  auth := by
    intro n c m h
    simp only [toyNoise] at h ⊢
    split at h
    · rename_i hc
      simp at h
      obtain ⟨_, hd⟩ := hc
      rw [← h, ← hd, List.take_append_drop]
    · simp at h

end WV.Proofs.C12
