import WV.Proofs.C20

/-! Helper lemmas for the generation-level theorems of C20: an invariant of every reachable `GDil`
(which Connector state goes with which Manager state, whose timers can still be pending, where every
scheduled connection came from) and its preservation by every `GOp`. -/
namespace WV.C20
open WV WV.Gen

theorem Good.mono {O : List Tcp} {S S' : List J} {t : Tcp} (h : Good O S t) (hs : ∀ x ∈ S, x ∈ S') : Good O S' t := by
  rcases h with h | ⟨src, hsrc, ha⟩
  · exact Or.inl h
  · exact Or.inr ⟨src, hs src hsrc, ha⟩

theorem SchedOK.mono {tor : Bool} {O : List Tcp} {D R D' R' : List J} {s : Sched} (h : SchedOK tor O D R s)
    (hD : ∀ x ∈ D, x ∈ D') (hR : ∀ x ∈ R, x ∈ R') : SchedOK tor O D' R' s := by
  rcases h with ⟨hr, t, hg, hf, hk⟩ | ⟨hr, t, hg, hf⟩
  · exact Or.inl ⟨hr, t, hg.mono hD, hf, hk⟩
  · exact Or.inr ⟨hr, t, hg.mono hR, hf⟩

/-- which Connector state goes with which Manager state -/
def ctl : Manager.State → Option Connector.State → Bool
  | .WAITING, c => c == none
  | .WANTING, c => c == none
  | .CONNECTING, c => c == some .connecting
  | .STOPPED, c => c != some .connecting
  | _, c => c == some .connected

/-- the data part of the invariant; `D`/`R`: the top-level hints / relay sub-hints the peer has sent so far -/
structure GData (D R : List J) (d : GDil) : Prop where
  gen_pos : d.con ≠ none → 0 < d.gen
  pend_cur : ∀ p ∈ d.pending, p.1 + 1 = d.gen ∧ d.con = some .connecting
  pend_sched : ∀ p ∈ d.pending, p ∈ d.sched
  sched_ok : ∀ p ∈ d.sched, p.1 < d.gen ∧ SchedOK d.tor (ownHints d.own) D R p.2
  dials_ok : ∀ p ∈ d.dials, p ∈ d.sched ∧ p.2.ep = true

/-- invariant of every reachable configuration -/
structure GInv (D R : List J) (d : GDil) : Prop where
  ctl : ctl d.mgr d.con = true
  data : GData D R d

theorem GData.mono {D R D' R' : List J} {d : GDil} (inv : GData D R d) (hD : ∀ x ∈ D, x ∈ D') (hR : ∀ x ∈ R, x ∈ R') :
    GData D' R' d :=
  ⟨inv.gen_pos, inv.pend_cur, inv.pend_sched, fun p hp => ⟨(inv.sched_ok p hp).1, (inv.sched_ok p hp).2.mono hD hR⟩, inv.dials_ok⟩

theorem GInv.mono {D R D' R' : List J} {d : GDil} (inv : GInv D R d) (hD : ∀ x ∈ D, x ∈ D') (hR : ∀ x ∈ R, x ∈ R') :
    GInv D' R' d := ⟨inv.ctl, inv.data.mono hD hR⟩

/-- the configuration (what the application chose) never changes -/
def SameCfg (d d' : GDil) : Prop :=
  d'.tor = d.tor ∧ d'.noListen = d.noListen ∧ d'.own = d.own ∧ d'.cbClears = d.cbClears

theorem SameCfg.refl (d : GDil) : SameCfg d d := ⟨rfl, rfl, rfl, rfl⟩

theorem SameCfg.trans {a b c : GDil} (h1 : SameCfg a b) (h2 : SameCfg b c) : SameCfg a c :=
  ⟨h2.1.trans h1.1, h2.2.1.trans h1.2.1, h2.2.2.1.trans h1.2.2.1, h2.2.2.2.trans h1.2.2.2⟩

/-- frame lemma: `d'` keeps the data invariant if every new scheduled connection is a valid one of the current
    Connector, only the current connecting Connector has timers, and every new dial is a fired timer with an endpoint -/
theorem GData.frame {D R : List J} {d d' : GDil} (inv : GData D R d) (hcfg : SameCfg d d')
    (hpos : d'.con ≠ none → 0 < d'.gen) (hgen : d.gen ≤ d'.gen)
    (hkeep : ∀ p ∈ d.sched, p ∈ d'.sched)
    (hsched : ∀ p ∈ d'.sched, p ∈ d.sched ∨ (p.1 + 1 = d'.gen ∧ SchedOK d.tor (ownHints d.own) D R p.2))
    (hpend : ∀ p ∈ d'.pending, p ∈ d'.sched ∧ p.1 + 1 = d'.gen ∧ d'.con = some .connecting)
    (hdials : ∀ p ∈ d'.dials, p ∈ d.dials ∨ (p ∈ d.pending ∧ p.2.ep = true)) : GData D R d' := by
  obtain ⟨htor, _, hown, _⟩ := hcfg
  refine ⟨hpos, fun p hp => (hpend p hp).2, fun p hp => (hpend p hp).1, ?_, ?_⟩
  · intro p hp
    rw [htor, hown]
    rcases hsched p hp with h | ⟨h1, h2⟩
    · exact ⟨Nat.lt_of_lt_of_le (inv.sched_ok p h).1 hgen, (inv.sched_ok p h).2⟩
    · exact ⟨by omega, h2⟩
  · intro p hp
    rcases hdials p hp with h | ⟨h1, h2⟩
    · exact ⟨hkeep p (inv.dials_ok p h).1, (inv.dials_ok p h).2⟩
    · exact ⟨hkeep p (inv.pend_sched p h1), h2⟩

/-- no timer is pending unless the current Connector is still connecting -/
theorem GData.pending_nil {D R : List J} {d : GDil} (inv : GData D R d) (h : d.con ≠ some .connecting) : d.pending = [] := by
  cases hp : d.pending with
  | nil => rfl
  | cons p ps => exact absurd (inv.pend_cur p (by rw [hp]; exact List.mem_cons_self)).2 h

/-- the Manager state is no part of the data invariant -/
theorem GData.setMgr {D R : List J} {d : GDil} (inv : GData D R d) (m' : Manager.State) : GData D R { d with mgr := m' } :=
  ⟨inv.gen_pos, inv.pend_cur, inv.pend_sched, inv.sched_ok, inv.dials_ok⟩

theorem GData.setRole {D R : List J} {d : GDil} (inv : GData D R d) (r : Option Role) : GData D R { d with role := r } :=
  ⟨inv.gen_pos, inv.pend_cur, inv.pend_sched, inv.sched_ok, inv.dials_ok⟩

/-! ### the building blocks -/

/-- `d'` is `d` after `ss` was scheduled on Connector `k` -/
structure Added (d d' : GDil) (k : Nat) (ss : List Sched) : Prop where
  mgr : d'.mgr = d.mgr
  role : d'.role = d.role
  con : d'.con = d.con
  gen : d'.gen = d.gen
  cfg : SameCfg d d'
  sched : d'.sched = d.sched ++ ss.map (fun s => (k, s))
  pending : d'.pending = d.pending ++ ss.map (fun s => (k, s))
  dials : d'.dials = d.dials
  noep : d'.noep = d.noep

theorem useHints_spec {D R : List J} (d : GDil) (k : Nat) (hints : List HintObj)
    (hg : ∀ h ∈ hints, HGood (ownHints d.own) D R h) :
    ∃ ss d', connectorUseHints d.tor d.noListen hints = .ok ss ∧ (∀ s ∈ ss, SchedOK d.tor (ownHints d.own) D R s) ∧
      d.useHints k hints = .ok d' ∧ Added d d' k ss := by
  obtain ⟨ss, hss, hok⟩ := connectorUseHints_spec (ownHints_valid d.own) d.tor d.noListen hints hg
  exact ⟨ss, GDil.hintStatus { d with sched := d.sched ++ ss.map (fun s => (k, s)), pending := d.pending ++ ss.map (fun s => (k, s)) }
      (ss.map statusOf), hss, hok, by simp only [GDil.useHints, hss, bind, Except.bind, pure, Except.pure],
    ⟨rfl, rfl, rfl, rfl, ⟨rfl, rfl, rfl, rfl⟩, rfl, rfl, rfl, rfl⟩⟩

theorem ownRelay_hgood (own : Bool) (D R : List J) (h : own = true) : ∀ x ∈ [HintObj.relay ownRelay], HGood (ownHints own) D R x := by
  intro x hx
  simp at hx
  subst hx
  intro t ht
  exact Or.inl (by simp [ownHints, h, ht])

/-- scheduling valid entries on the current, connecting Connector keeps the invariant -/
theorem GData.added {D R : List J} {d d' : GDil} {ss : List Sched} (inv : GData D R d) (ha : Added d d' (d.gen - 1) ss)
    (hc : d.con = some .connecting) (hok : ∀ s ∈ ss, SchedOK d.tor (ownHints d.own) D R s) : GData D R d' := by
  have hpos : 0 < d.gen := inv.gen_pos (by rw [hc]; simp)
  refine inv.frame ha.cfg (fun _ => by rw [ha.gen]; exact hpos) (by rw [ha.gen]; exact Nat.le_refl _)
    (fun p hp => by rw [ha.sched]; exact List.mem_append_left _ hp) ?_ ?_ (fun p hp => by rw [ha.dials] at hp; exact Or.inl hp)
  · intro p hp
    rw [ha.sched] at hp
    rcases List.mem_append.mp hp with h | h
    · exact Or.inl h
    · obtain ⟨s, hs, rfl⟩ := List.mem_map.mp h
      exact Or.inr ⟨by rw [ha.gen]; show d.gen - 1 + 1 = d.gen; omega, hok s hs⟩
  · intro p hp
    rw [ha.pending] at hp
    rw [ha.sched, ha.gen, ha.con]
    rcases List.mem_append.mp hp with h | h
    · exact ⟨List.mem_append_left _ (inv.pend_sched p h), (inv.pend_cur p h).1, hc⟩
    · obtain ⟨s, hs, rfl⟩ := List.mem_map.mp h
      exact ⟨List.mem_append_right _ h, by show d.gen - 1 + 1 = d.gen; omega, hc⟩

/-- a new Connector (the old one is not connecting any more: none of its timers is pending) -/
theorem GData.newConnector {D R : List J} {d : GDil} (inv : GData D R d) (hc : d.con ≠ some .connecting) :
    GData D R { d with con := some Connector.init, gen := d.gen + 1 } := by
  have hp := inv.pending_nil hc
  refine inv.frame ⟨rfl, rfl, rfl, rfl⟩ (fun _ => Nat.succ_pos _) (Nat.le_succ _) (fun p hp => hp) (fun p hp => Or.inl hp) ?_ (fun p hp => Or.inl hp)
  intro p hpp
  have : p ∈ d.pending := hpp
  rw [hp] at this
  cases this

/-- `_start_connecting()` never raises — with a relay configured it is a use of (our own) hints -/
theorem startConnecting_spec {D R : List J} {d : GDil} (inv : GData D R d) (hc : d.con ≠ some .connecting) :
    ∃ d', d.startConnecting = .ok d' ∧ GData D R d' ∧ SameCfg d d' ∧ d'.mgr = d.mgr ∧ d'.role = d.role ∧
      d'.con = some .connecting := by
  have inv1 := inv.newConnector hc
  by_cases hown : d.own = true
  · obtain ⟨ss, d', _, hok, heq, ha⟩ := useHints_spec (D := D) (R := R) { d with con := some Connector.init, gen := d.gen + 1 } d.gen
      [.relay ownRelay] (ownRelay_hgood d.own D R hown)
    refine ⟨d', by unfold GDil.startConnecting; rw [if_pos hown]; exact heq, inv1.added ha rfl hok, ha.cfg, ha.mgr, ha.role, ha.con⟩
  · exact ⟨{ d with con := some Connector.init, gen := d.gen + 1 }, by unfold GDil.startConnecting; rw [if_neg hown], inv1,
      ⟨rfl, rfl, rfl, rfl⟩, rfl, rfl, rfl⟩

/-- the Connector leaves `connecting` (stopped, or a winner selected) and its pending timers are cancelled -/
theorem GData.connectorDone {D R : List J} {d : GDil} (inv : GData D R d) (c' : Connector.State)
    (hg : 0 < d.gen) (pend : List (Nat × Sched)) (hpend : ∀ p ∈ pend, p ∈ d.pending ∧ p.1 ≠ d.gen - 1) :
    GData D R { d with con := some c', pending := pend } := by
  refine inv.frame ⟨rfl, rfl, rfl, rfl⟩ (fun _ => hg) (Nat.le_refl _) (fun _ hp => hp) (fun _ hp => Or.inl hp) ?_ (fun _ hp => Or.inl hp)
  intro p hp
  obtain ⟨h1, h2⟩ := hpend p hp
  have := (inv.pend_cur p h1).1
  exact absurd (by omega : p.1 = d.gen - 1) h2

theorem mem_filter_ne (l : List (Nat × Sched)) (k : Nat) : ∀ p ∈ l.filter (fun p => p.1 != k), p ∈ l ∧ p.1 ≠ k := by
  intro p hp
  obtain ⟨h1, h2⟩ := List.mem_filter.mp hp
  exact ⟨h1, by simpa using h2⟩

/-- `Connector.stop()` on a connecting Connector (generated row `connecting --stop--> stopped [stop_everything]`) -/
theorem connectorStop_spec {D R : List J} {d : GDil} (inv : GData D R d) (hc : d.con = some .connecting) :
    ∃ d', d.connectorStop = .ok d' ∧ GData D R d' ∧ SameCfg d d' ∧ d'.mgr = d.mgr ∧ d'.role = d.role ∧
      d'.con = some .stopped := by
  have hg : 0 < d.gen := inv.gen_pos (by rw [hc]; simp)
  exact ⟨GDil.cancelPending { d with con := some .stopped } (d.gen - 1), by simp [GDil.connectorStop, hc, Connector.table],
    inv.connectorDone .stopped hg _ (mem_filter_ne d.pending (d.gen - 1)), ⟨rfl, rfl, rfl, rfl⟩, rfl, rfl, rfl⟩

theorem ctl_con {m : Manager.State} {c : Option Connector.State} (h : C20.ctl m c = true) :
    (m = .WAITING ∨ m = .WANTING → c = none) ∧ (m = .CONNECTING → c = some .connecting) ∧
    (m = .CONNECTED ∨ m = .FLUSHING ∨ m = .LONELY ∨ m = .ABANDONING ∨ m = .STOPPING → c = some .connected) ∧
    (m = .STOPPED → c ≠ some .connecting) := by
  cases m <;> simp_all [C20.ctl]

/-- every Connector state that goes with `m` also goes with `m'` -/
def ctlCompat (m m' : Manager.State) : Bool :=
  [none, some Connector.State.connected, some .connecting, some .stopped].all fun c => !C20.ctl m c || C20.ctl m' c

theorem ctl_of_compat {m m' : Manager.State} {c : Option Connector.State} (h : ctlCompat m m' = true)
    (hc : C20.ctl m c = true) : C20.ctl m' c = true := by
  simp only [ctlCompat, List.all_cons, List.all_nil, Bool.and_true, Bool.and_eq_true, Bool.or_eq_true, Bool.not_eq_true'] at h
  obtain ⟨h0, h1, h2, h3⟩ := h
  rcases c with _ | c
  · rcases h0 with h | h
    · rw [h] at hc; cases hc
    · exact h
  · cases c
    · rcases h1 with h | h
      · rw [h] at hc; cases hc
      · exact h
    · rcases h2 with h | h
      · rw [h] at hc; cases hc
      · exact h
    · rcases h3 with h | h
      · rw [h] at hc; cases hc
      · exact h

/-- the outputs that have no semantics for hint state -/
def inert : Manager.Output → Bool
  | .choose_role => false
  | .start_connecting => false
  | .start_connecting_ignore_message => false
  | .stop_connecting => false
  | .use_hints => false
  | _ => true

theorem output_inert (d : GDil) (msg : J) (role : Option Role) (o : Manager.Output) (h : inert o = true) :
    d.output msg role o = .ok d := by
  cases o <;> first | rfl | cases h

theorem outputs_inert (d : GDil) (msg : J) (role : Option Role) (outs : List Manager.Output) (h : outs.all inert = true) :
    d.outputs msg role outs = .ok d := by
  induction outs with
  | nil => rfl
  | cons o os ih =>
    simp only [List.all_cons, Bool.and_eq_true] at h
    simp only [GDil.outputs, output_inert d msg role o h.1, bind, Except.bind, ih h.2]

theorem input_inert {D R : List J} {d : GDil} (inv : GInv D R d) (i : Manager.Input) (msg : J) (role : Option Role)
    (m' : Manager.State) (outs : List Manager.Output) (hrow : Manager.table d.mgr i = some (m', outs))
    (hin : outs.all inert = true) (hctl : ctlCompat d.mgr m' = true) :
    ∃ d', d.input i msg role = .ok d' ∧ GInv D R d' ∧ SameCfg d d' :=
  ⟨{ d with mgr := m' }, by simp only [GDil.input, hrow, outputs_inert _ msg role outs hin],
    ⟨ctl_of_compat hctl inv.ctl, inv.data.setMgr m'⟩, ⟨rfl, rfl, rfl, rfl⟩⟩

/-- the in-scope arguments of an input: a PLEASE carries a side, a hints message a list in `"hints"` -/
def ArgsOK (D R : List J) (i : Manager.Input) (msg : J) (role : Option Role) : Prop :=
  (i = .rx_PLEASE → role ≠ none) ∧
  (i = .rx_HINTS → ∃ kvs l, msg = .obj kvs ∧ lookup "hints" kvs = some (.arr l) ∧ (∀ x ∈ l, x ∈ D) ∧
    (∀ x ∈ l, ∀ y ∈ subSources x, y ∈ R))

/-- a row whose outputs are `pre ++ [start_connecting…] ++ post` with inert `pre`/`post`, taken when the old
    Connector (if any) is not connecting -/
theorem input_start {D R : List J} {d : GDil} (inv : GInv D R d) (i : Manager.Input) (msg : J) (role : Option Role)
    (m' : Manager.State) (pre post : List Manager.Output) (o : Manager.Output)
    (ho : o = .start_connecting ∨ o = .start_connecting_ignore_message)
    (hrow : Manager.table d.mgr i = some (m', pre ++ o :: post))
    (hpre : pre.all inert = true) (hpost : post.all inert = true) (hc : d.con ≠ some .connecting)
    (hm' : m' = .CONNECTING) :
    ∃ d', d.input i msg role = .ok d' ∧ GInv D R d' ∧ SameCfg d d' := by
  obtain ⟨d2, h2, i2, c2, m2, _, k2⟩ := startConnecting_spec (inv.data.setMgr m') (d := { d with mgr := m' }) hc
  refine ⟨d2, ?_, ⟨by rw [m2, k2]; show C20.ctl m' _ = true; rw [hm']; rfl, i2⟩, c2⟩
  have hout : GDil.output { d with mgr := m' } msg role o = .ok d2 := by
    rcases ho with rfl | rfl <;> exact h2
  have happ : ∀ (pre : List Manager.Output) (x : GDil), pre.all inert = true →
      x.outputs msg role (pre ++ o :: post) = x.outputs msg role (o :: post) := by
    intro pre
    induction pre with
    | nil => intro x _; rfl
    | cons p ps ih =>
      intro x hp
      simp only [List.all_cons, Bool.and_eq_true] at hp
      simp only [List.cons_append, GDil.outputs, output_inert x msg role p hp.1, bind, Except.bind]
      exact ih x hp.2
  simp only [GDil.input, hrow, happ pre _ hpre]
  simp only [GDil.outputs, hout, bind, Except.bind, outputs_inert d2 msg role post hpost]

theorem gotHints_spec {D R : List J} {d : GDil} (inv : GData D R d) (hc : d.con = some .connecting) (hints : List HintObj)
    (hg : ∀ h ∈ hints, HGood (ownHints d.own) D R h) :
    ∃ ss d', connectorUseHints d.tor d.noListen hints = .ok ss ∧ d.gotHints hints = .ok d' ∧ GData D R d' ∧
      Added d d' (d.gen - 1) ss := by
  obtain ⟨ss, d', hss, hok, heq, ha⟩ := useHints_spec (D := D) (R := R) { d with con := some .connecting } (d.gen - 1) hints hg
  have ha' : Added d d' (d.gen - 1) ss :=
    ⟨ha.mgr, ha.role, ha.con.trans hc.symm, ha.gen, ha.cfg, ha.sched, ha.pending, ha.dials, ha.noep⟩
  refine ⟨ss, d', hss, ?_, inv.added ha' hc hok, ha'⟩
  simp only [GDil.gotHints, hc, Connector.table, List.contains_cons, List.contains_nil, beq_self_eq_true, Bool.or_false, ↓reduceIte]
  exact heq

/-- every Manager input other than `connection_made` (which only a Connector that has just selected its winner sends) -/
theorem input_spec {D R : List J} {d : GDil} (inv : GInv D R d) (i : Manager.Input) (msg : J) (role : Option Role)
    (hi : i ≠ .connection_made) (args : ArgsOK D R i msg role) :
    (∃ d', d.input i msg role = .ok d' ∧ GInv D R d' ∧ SameCfg d d') ∨
    (d.input i msg role = .error .noTransition ∧ Manager.table d.mgr i = none) := by
  have hcc := ctl_con inv.ctl
  cases hm : d.mgr <;> cases i
  case CONNECTING.rx_HINTS =>
    left
    have hc := hcc.2.1 hm
    obtain ⟨kvs, l, rfl, hl, hD, hR⟩ := args.2 rfl
    obtain ⟨hs, hhs, hg⟩ := managerUseHints_list (O := ownHints d.own) (D := D) (R := R) kvs l hl hD hR
    obtain ⟨ss, d', _, heq, idat, ha⟩ := gotHints_spec (inv.data.setMgr .CONNECTING) (d := { d with mgr := .CONNECTING }) hc hs hg
    refine ⟨d', ?_, ⟨by rw [ha.mgr, ha.con]; exact hc ▸ rfl, idat⟩, ha.cfg⟩
    simp only [GDil.input, hm, Manager.table, GDil.outputs, GDil.output, bind, Except.bind, hhs, heq]
  case CONNECTING.rx_RECONNECT =>
    left
    have hc := hcc.2.1 hm
    obtain ⟨d1, h1, i1, c1, m1, _, k1⟩ := connectorStop_spec (inv.data.setMgr .CONNECTING) (d := { d with mgr := .CONNECTING }) hc
    obtain ⟨d2, h2, i2, c2, m2, _, k2⟩ := startConnecting_spec i1 (by rw [k1]; decide)
    refine ⟨d2, ?_, ⟨by rw [m2, m1, k2]; rfl, i2⟩, c1.trans c2⟩
    simp only [GDil.input, hm, Manager.table, GDil.outputs, GDil.output, bind, Except.bind, h1, h2]
  case CONNECTING.k_stop =>
    left
    have hc := hcc.2.1 hm
    obtain ⟨d1, h1, i1, c1, m1, _, k1⟩ := connectorStop_spec (inv.data.setMgr .STOPPED) (d := { d with mgr := .STOPPED }) hc
    refine ⟨d1, ?_, ⟨by rw [m1, k1]; rfl, i1⟩, c1⟩
    simp only [GDil.input, hm, Manager.table, GDil.outputs, GDil.output, bind, Except.bind, h1]
  case WANTING.rx_PLEASE =>
    left
    have hc : d.con = none := hcc.1 (Or.inr hm)
    cases hr : role with
    | none => exact absurd hr (args.1 rfl)
    | some r =>
      obtain ⟨d2, h2, i2, c2, m2, _, k2⟩ := startConnecting_spec ((inv.data.setMgr .CONNECTING).setRole (some r))
        (d := { d with mgr := .CONNECTING, role := some r }) (by show d.con ≠ _; rw [hc]; simp)
      refine ⟨d2, ?_, ⟨by rw [m2, k2]; rfl, i2⟩, c2⟩
      simp only [GDil.input, hm, Manager.table, GDil.outputs, GDil.output, bind, Except.bind, h2]
  case ABANDONING.connection_lost_follower =>
    exact Or.inl (input_start inv _ msg role _ [.send_reconnecting] [.send_status_dilation_generation, .send_status_reconnecting] _
      (Or.inl rfl) (by rw [hm]; rfl) (by decide) (by decide) (by rw [hcc.2.2.1 (by simp [hm])]; decide) rfl)
  case LONELY.rx_RECONNECT =>
    exact Or.inl (input_start inv _ msg role _ [.send_reconnecting] [.send_status_dilation_generation, .send_status_reconnecting] _
      (Or.inl rfl) (by rw [hm]; rfl) (by decide) (by decide) (by rw [hcc.2.2.1 (by simp [hm])]; decide) rfl)
  case FLUSHING.rx_RECONNECTING =>
    exact Or.inl (input_start inv _ msg role _ [] [.send_status_reconnecting] _
      (Or.inl rfl) (by rw [hm]; rfl) (by decide) (by decide) (by rw [hcc.2.2.1 (by simp [hm])]; decide) rfl)
  all_goals first
    | exact absurd rfl hi
    | (right; refine ⟨?_, rfl⟩; unfold GDil.input; rw [hm]; rfl)
    | exact Or.inl (input_inert inv _ msg role _ _ (by rw [hm]; rfl) (by decide) (by rw [hm]; decide))

/-- timers fire: those with an endpoint become dials; the rest of the timers stay -/
theorem GData.fired {D R : List J} {d : GDil} (inv : GData D R d) (rest ps : List (Nat × Sched))
    (hrest : ∀ p ∈ rest, p ∈ d.pending) (hps : ∀ p ∈ ps, p ∈ d.pending) :
    GData D R (GDil.fire { d with pending := rest } ps) := by
  refine inv.frame ⟨rfl, rfl, rfl, rfl⟩ inv.gen_pos (Nat.le_refl _) (fun _ hp => hp) (fun _ hp => Or.inl hp) ?_ ?_
  · intro p hp
    exact ⟨inv.pend_sched p (hrest p hp), inv.pend_cur p (hrest p hp)⟩
  · intro p hp
    rcases List.mem_append.mp hp with h | h
    · exact Or.inl h
    · obtain ⟨h1, h2⟩ := List.mem_filter.mp h
      exact Or.inr ⟨hps p h1, h2⟩

theorem tick_spec {D R : List J} {d : GDil} (inv : GInv D R d) : GInv D R d.tick ∧ SameCfg d d.tick := by
  refine ⟨⟨inv.ctl, ?_⟩, ⟨rfl, rfl, rfl, rfl⟩⟩
  refine inv.data.fired [] _ (fun _ hp => by cases hp) ?_
  intro p hp
  rcases List.mem_append.mp hp with h | h <;> exact (List.mem_filter.mp h).1

theorem fireDue_data {D R : List J} {d : GDil} (inv : GData D R d) : GData D R d.fireDue :=
  inv.fired _ _ (fun _ hp => (List.mem_filter.mp hp).1) (fun _ hp => (List.mem_filter.mp hp).1)

theorem con_connecting_mgr {m : Manager.State} (h : C20.ctl m (some .connecting) = true) : m = .CONNECTING := by
  cases m <;> first | rfl | cases h

/-- an attempt of the current Connector wins (there is a Connector) -/
theorem made_spec {D R : List J} {d : GDil} (inv : GInv D R d) (hcon : d.con ≠ none) :
    (∃ d', d.made = .ok d' ∧ GInv D R d' ∧ SameCfg d d') ∨ d.made = .error .noTransition := by
  cases hc : d.con with
  | none => exact absurd hc hcon
  | some c =>
    cases c with
    | stopped => right; simp [GDil.made, hc, Connector.table]
    | connected =>
      left
      refine ⟨GDil.fireDue { d with con := some .connected }, by simp [GDil.made, hc, Connector.table], ⟨?_, ?_⟩, ⟨rfl, rfl, rfl, rfl⟩⟩
      · show C20.ctl d.mgr (some .connected) = true
        rw [← hc]; exact inv.ctl
      · have : GData D R { d with con := some .connected } :=
          ⟨fun _ => inv.data.gen_pos hcon, fun p hp => absurd (inv.data.pend_cur p hp).2 (by rw [hc]; decide), inv.data.pend_sched,
            inv.data.sched_ok, inv.data.dials_ok⟩
        exact fireDue_data this
    | connecting =>
      left
      have hm : d.mgr = .CONNECTING := con_connecting_mgr (hc ▸ inv.ctl)
      have hg : 0 < d.gen := inv.data.gen_pos hcon
      have i0 : GData D R { d with con := some .connecting } :=
        ⟨fun _ => hg, fun p hp => ⟨(inv.data.pend_cur p hp).1, rfl⟩, inv.data.pend_sched, inv.data.sched_ok, inv.data.dials_ok⟩
      have i1 := fireDue_data i0
      have i2 := i1.connectorDone .connected hg _ (mem_filter_ne (GDil.fireDue { d with con := some .connecting }).pending (d.gen - 1))
      refine ⟨_, ?_, ⟨?_, i2.setMgr .CONNECTED⟩, ⟨rfl, rfl, rfl, rfl⟩⟩
      · simp only [GDil.made, hc, Connector.table, List.contains_cons, List.contains_nil, beq_self_eq_true, Bool.or_false, Bool.not_true,
          Bool.false_eq_true, ↓reduceIte, GDil.input, GDil.cancelPending, GDil.fireDue, GDil.fire, hm]
        rfl
      · rfl

/-- the selected connection is lost -/
theorem lost_spec {D R : List J} {d : GDil} (inv : GInv D R d) :
    (∃ d', d.lost = .ok d' ∧ GInv D R d' ∧ SameCfg d d') ∨ d.lost = .error .noTransition := by
  unfold GDil.lost
  split
  · rcases input_spec inv .connection_lost_leader .null none (by decide) ⟨fun h => (nomatch h), fun h => (nomatch h)⟩ with h | h
    · exact Or.inl h
    · exact Or.inr h.1
  · rcases input_spec inv .connection_lost_follower .null none (by decide) ⟨fun h => (nomatch h), fun h => (nomatch h)⟩ with h | h
    · exact Or.inl h
    · exact Or.inr h.1

/-- the hint list an op carries (`[]` for every other op) -/
def GOp.hintItems : GOp → List J
  | .hints (.obj kvs) => match lookup "hints" kvs with | some (.arr l) => l | _ => []
  | _ => []

/-- inside the property's quantifier: a `connection-hints` message has a list in hint position -/
def GOp.InScope : GOp → Prop
  | .hints msg => ∃ kvs l, msg = .obj kvs ∧ lookup "hints" kvs = some (.arr l)
  | _ => True

/-- the network can only complete a connection attempt of a Connector that exists -/
def GDil.enabled (d : GDil) : GOp → Bool
  | .made => d.con.isSome
  | _ => true

theorem gstep_spec {D R : List J} {d : GDil} (inv : GInv D R d) (op : GOp) (hs : op.InScope)
    (hD : ∀ x ∈ op.hintItems, x ∈ D) (hR : ∀ x ∈ op.hintItems, ∀ y ∈ subSources x, y ∈ R) (hen : d.enabled op = true) :
    (∃ d', d.step op = .ok d' ∧ GInv D R d' ∧ SameCfg d d') ∨ d.step op = .error .noTransition := by
  have triv : ∀ (i : Manager.Input), i ≠ .rx_PLEASE → i ≠ .rx_HINTS → ArgsOK D R i .null none :=
    fun i h1 h2 => ⟨fun h => absurd h h1, fun h => absurd h h2⟩
  have fin : ∀ {i msg role}, ((∃ d', d.input i msg role = .ok d' ∧ GInv D R d' ∧ SameCfg d d') ∨
      (d.input i msg role = .error .noTransition ∧ Manager.table d.mgr i = none)) →
      ((∃ d', d.input i msg role = .ok d' ∧ GInv D R d' ∧ SameCfg d d') ∨ d.input i msg role = .error .noTransition) :=
    fun h => h.elim Or.inl (fun h => Or.inr h.1)
  cases op with
  | please r => exact fin (input_spec inv .rx_PLEASE .null (some r) (by decide) ⟨fun _ => by simp, fun h => (nomatch h)⟩)
  | hints msg =>
    obtain ⟨kvs, l, rfl, hl⟩ := hs
    have hitems : (GOp.hints (.obj kvs)).hintItems = l := by simp [GOp.hintItems, hl]
    rw [hitems] at hD hR
    exact fin (input_spec inv .rx_HINTS (.obj kvs) none (by decide) ⟨fun h => (nomatch h), fun _ => ⟨kvs, l, rfl, hl, hD, hR⟩⟩)
  | reconnect => exact fin (input_spec inv .rx_RECONNECT .null none (by decide) (triv _ (by decide) (by decide)))
  | reconnecting => exact fin (input_spec inv .rx_RECONNECTING .null none (by decide) (triv _ (by decide) (by decide)))
  | made =>
    have : d.con ≠ none := by
      intro h
      simp [GDil.enabled, h] at hen
    exact made_spec inv this
  | lost => exact lost_spec inv
  | stop => exact fin (input_spec inv .k_stop .null none (by decide) (triv _ (by decide) (by decide)))
  | tick => exact Or.inl ⟨d.tick, rfl, (tick_spec inv).1, (tick_spec inv).2⟩

/-- a history.  An op the network cannot perform is skipped; `NoTransition` (Automat raises it before anything
    changes) leaves the Manager as it was and the history goes on; any other exception ends it. -/
def GDil.run : GDil → List GOp → GDil × Option Err
  | d, [] => (d, none)
  | d, op :: ops =>
    if d.enabled op then
      match d.step op with
      | .ok d' => d'.run ops
      | .error .noTransition => d.run ops
      | .error e => (d, some e)
    else d.run ops

theorem run_spec {D R : List J} (ops : List GOp) : ∀ {d : GDil}, GInv D R d → (∀ op ∈ ops, op.InScope) →
    (∀ op ∈ ops, ∀ x ∈ op.hintItems, x ∈ D) → (∀ op ∈ ops, ∀ x ∈ op.hintItems, ∀ y ∈ subSources x, y ∈ R) →
    (d.run ops).2 = none ∧ GInv D R (d.run ops).1 ∧ SameCfg d (d.run ops).1 := by
  induction ops with
  | nil => intro d inv _ _ _; exact ⟨rfl, inv, SameCfg.refl d⟩
  | cons op ops ih =>
    intro d inv hs hD hR
    have hs' := fun o ho => hs o (List.mem_cons_of_mem _ ho)
    have hD' := fun o ho => hD o (List.mem_cons_of_mem _ ho)
    have hR' := fun o ho => hR o (List.mem_cons_of_mem _ ho)
    unfold GDil.run
    by_cases hen : d.enabled op = true
    · rw [if_pos hen]
      rcases gstep_spec inv op (hs op List.mem_cons_self) (hD op List.mem_cons_self) (hR op List.mem_cons_self) hen with
        ⟨d', h1, i1, c1⟩ | h1
      · rw [h1]
        obtain ⟨a, b, c⟩ := ih i1 hs' hD' hR'
        exact ⟨a, b, c1.trans c⟩
      · rw [h1]
        exact ih inv hs' hD' hR'
    · rw [if_neg hen]
      exact ih inv hs' hD' hR'

theorem init_spec (tor noListen own cb : Bool) (D R : List J) :
    ∃ d0, GDil.init tor noListen own cb = .ok d0 ∧ GInv D R d0 ∧ d0.tor = tor ∧ d0.noListen = noListen ∧ d0.own = own ∧
      d0.sched = [] ∧ d0.dials = [] := by
  have inv : GInv D R (GDil.blank tor noListen own cb) :=
    ⟨rfl, ⟨fun h => absurd rfl h, fun _ hp => (nomatch hp), fun _ hp => (nomatch hp), fun _ hp => (nomatch hp), fun _ hp => (nomatch hp)⟩⟩
  exact ⟨_, rfl, ⟨rfl, inv.data.setMgr .WANTING⟩, rfl, rfl, rfl, rfl, rfl⟩

/-- statement-level reading of `SchedOK`: the scheduled connection is for an object the peer sent (of a supported type,
    string hostname, non-bool integer port) or for this side's own configured relay -/
theorem SchedOK.supported {tor own : Bool} {D R : List J} {s : Sched} (h : SchedOK tor (ownHints own) D R s) :
    (s.relay = false ∧ ∃ src ∈ D, SchedSupported tor src s ∧ (tor = false → s.kind = .direct)) ∨
    (s.relay = true ∧ ((own = true ∧ s.host = .str "relay.example" ∧ s.port = .int 4001) ∨
      ∃ src ∈ R, SchedSupported tor src s)) := by
  rcases h with ⟨hr, t, hgood, hfrom, hdir⟩ | ⟨hr, t, hgood, hfrom⟩
  · rcases hgood with hgood | ⟨src, hsrc, ha⟩
    · simp at hgood
    · exact Or.inl ⟨hr, src, hsrc, ha.schedSupported hfrom, fun ht => hfrom.2.2.1.trans (hdir ht)⟩
  · rcases hgood with hgood | ⟨src, hsrc, ha⟩
    · right
      refine ⟨hr, Or.inl ?_⟩
      cases own with
      | false => simp [ownHints] at hgood
      | true =>
        simp [ownHints, ownRelay] at hgood
        subst hgood
        exact ⟨rfl, hfrom.1, hfrom.2.1⟩
    · exact Or.inr ⟨hr, Or.inr ⟨src, hsrc, ha.schedSupported hfrom⟩⟩

/-- a hints message that arrives while the Manager is CONNECTING is used by the *current* Connector: exactly what
    `Manager.use_hints` / `Connector._use_hints` make of this message is scheduled, on Connector `gen - 1`, and starts
    its timers there; nothing else changes -/
theorem hints_step_current {D R : List J} {d : GDil} (inv : GInv D R d) (hm : d.mgr = .CONNECTING)
    (kvs : List (String × J)) (l : List J) (hl : lookup "hints" kvs = some (.arr l)) :
    ∃ hs ss d', managerUseHints (.obj kvs) = .ok hs ∧ connectorUseHints d.tor d.noListen hs = .ok ss ∧
      d.step (.hints (.obj kvs)) = .ok d' ∧ Added d d' (d.gen - 1) ss ∧ d.con = some .connecting := by
  have inv' : GInv (D ++ l) (R ++ l.flatMap subSources) d :=
    inv.mono (fun x hx => List.mem_append_left _ hx) (fun x hx => List.mem_append_left _ hx)
  have hc := (ctl_con inv.ctl).2.1 hm
  obtain ⟨hs, hhs, hg⟩ := managerUseHints_list (O := ownHints d.own) (D := D ++ l) (R := R ++ l.flatMap subSources) kvs l hl
    (fun x hx => List.mem_append_right _ hx) (fun x hx y hy => List.mem_append_right _ (List.mem_flatMap.mpr ⟨x, hx, hy⟩))
  obtain ⟨ss, d', hss, heq, _, ha⟩ := gotHints_spec (inv'.data.setMgr .CONNECTING) (d := { d with mgr := .CONNECTING }) hc hs hg
  refine ⟨hs, ss, d', hhs, hss, ?_, ⟨ha.mgr.trans hm.symm, ha.role, ha.con, ha.gen, ha.cfg, ha.sched, ha.pending, ha.dials, ha.noep⟩, hc⟩
  simp only [GDil.step, GDil.input, hm, Manager.table, GDil.outputs, GDil.output, bind, Except.bind, hhs, heq]

/-! ### the status side channel never feeds back into hint handling -/

/-- the same configuration with another `_latest_status.hints` and another behaviour of the application's callback -/
def GDil.withStatus (d : GDil) (st : List StatusHint) (cb : Bool) : GDil := { d with status := st, cbClears := cb }

/-- `b` is `a` up to the status side channel -/
def Agree (a b : GDil) : Prop := ∃ st cb, b = a.withStatus st cb

/-- same outcome up to the status side channel: the same exception, or results that agree -/
def AgreeR : Except Err GDil → Except Err GDil → Prop
  | .ok a, .ok b => Agree a b
  | .error e, .error f => e = f
  | _, _ => False

theorem AgreeR.ok {a b : GDil} (h : Agree a b) : AgreeR (.ok a) (.ok b) := h

theorem useHints_agree (x : GDil) (st : List StatusHint) (cb : Bool) (k : Nat) (hs : List HintObj) :
    AgreeR (x.useHints k hs) ((x.withStatus st cb).useHints k hs) := by
  simp only [GDil.useHints, GDil.withStatus]
  cases connectorUseHints x.tor x.noListen hs with
  | error e => exact rfl
  | ok ss => exact ⟨_, _, rfl⟩

theorem gotHints_agree (x : GDil) (st : List StatusHint) (cb : Bool) (hs : List HintObj) :
    AgreeR (x.gotHints hs) ((x.withStatus st cb).gotHints hs) := by
  simp only [GDil.gotHints, GDil.withStatus]
  cases x.con with
  | none => exact rfl
  | some c =>
    simp only
    cases Connector.table c .got_hints with
    | none => exact rfl
    | some row =>
      obtain ⟨c', outs⟩ := row
      simp only
      split
      · exact useHints_agree { x with con := some c' } st cb (x.gen - 1) hs
      · exact ⟨st, cb, rfl⟩

theorem connectorStop_agree (x : GDil) (st : List StatusHint) (cb : Bool) :
    AgreeR x.connectorStop (x.withStatus st cb).connectorStop := by
  simp only [GDil.connectorStop, GDil.withStatus]
  cases x.con with
  | none => exact rfl
  | some c =>
    simp only
    cases Connector.table c .k_stop with
    | none => exact rfl
    | some row =>
      obtain ⟨c', outs⟩ := row
      simp only
      split
      · exact ⟨st, cb, rfl⟩
      · exact ⟨st, cb, rfl⟩

theorem startConnecting_agree (x : GDil) (st : List StatusHint) (cb : Bool) :
    AgreeR x.startConnecting (x.withStatus st cb).startConnecting := by
  unfold GDil.startConnecting
  by_cases h : x.own = true
  · rw [if_pos h, if_pos (show (x.withStatus st cb).own = true from h)]
    exact useHints_agree { x with con := some Connector.init, gen := x.gen + 1 } st cb x.gen [.relay ownRelay]
  · rw [if_neg h, if_neg (show ¬ (x.withStatus st cb).own = true from h)]
    exact ⟨st, cb, rfl⟩

theorem output_agree (x : GDil) (st : List StatusHint) (cb : Bool) (msg : J) (role : Option Role) (o : Manager.Output) :
    AgreeR (x.output msg role o) ((x.withStatus st cb).output msg role o) := by
  cases o
  case choose_role =>
    cases role with
    | none => exact rfl
    | some r => exact ⟨st, cb, rfl⟩
  case start_connecting => exact startConnecting_agree x st cb
  case start_connecting_ignore_message => exact startConnecting_agree x st cb
  case stop_connecting => exact connectorStop_agree x st cb
  case use_hints =>
    simp only [GDil.output, bind, Except.bind]
    cases managerUseHints msg with
    | error e => exact rfl
    | ok hs => exact gotHints_agree x st cb hs
  all_goals exact ⟨st, cb, rfl⟩

theorem outputs_agree (msg : J) (role : Option Role) (outs : List Manager.Output) :
    ∀ (x : GDil) (st : List StatusHint) (cb : Bool), AgreeR (x.outputs msg role outs) ((x.withStatus st cb).outputs msg role outs) := by
  induction outs with
  | nil => intro x st cb; exact ⟨st, cb, rfl⟩
  | cons o os ih =>
    intro x st cb
    have h := output_agree x st cb msg role o
    simp only [GDil.outputs, bind, Except.bind]
    cases h1 : x.output msg role o with
    | error e =>
      cases h2 : (x.withStatus st cb).output msg role o with
      | error f => rw [h1, h2] at h; exact h
      | ok b => rw [h1, h2] at h; exact h.elim
    | ok a =>
      cases h2 : (x.withStatus st cb).output msg role o with
      | error f => rw [h1, h2] at h; exact h.elim
      | ok b =>
        rw [h1, h2] at h
        obtain ⟨st', cb', rfl⟩ := h
        exact ih a st' cb'

theorem input_agree (x : GDil) (st : List StatusHint) (cb : Bool) (i : Manager.Input) (msg : J) (role : Option Role) :
    AgreeR (x.input i msg role) ((x.withStatus st cb).input i msg role) := by
  simp only [GDil.input, GDil.withStatus]
  cases Manager.table x.mgr i with
  | none => exact rfl
  | some row =>
    obtain ⟨m', outs⟩ := row
    exact outputs_agree msg role outs { x with mgr := m' } st cb

theorem made_agree (x : GDil) (st : List StatusHint) (cb : Bool) : AgreeR x.made (x.withStatus st cb).made := by
  simp only [GDil.made, GDil.withStatus]
  cases x.con with
  | none => exact rfl
  | some c =>
    simp only
    cases Connector.table c .add_candidate with
    | none => exact rfl
    | some row =>
      obtain ⟨c1, outs1⟩ := row
      simp only
      split
      · exact ⟨st, cb, rfl⟩
      · cases Connector.table c1 .accept with
        | none => exact rfl
        | some row2 =>
          obtain ⟨c2, outs2⟩ := row2
          simp only
          split
          · exact ⟨st, cb, rfl⟩
          · exact input_agree _ st cb .connection_made .null none

theorem step_agree (x : GDil) (st : List StatusHint) (cb : Bool) (op : GOp) :
    AgreeR (x.step op) ((x.withStatus st cb).step op) := by
  cases op
  case made => exact made_agree x st cb
  case lost => exact input_agree x st cb _ .null none
  case tick => exact ⟨st, cb, rfl⟩
  all_goals exact input_agree x st cb _ _ _

theorem run_agree (ops : List GOp) : ∀ (x : GDil) (st : List StatusHint) (cb : Bool),
    (x.run ops).2 = ((x.withStatus st cb).run ops).2 ∧ Agree (x.run ops).1 ((x.withStatus st cb).run ops).1 := by
  induction ops with
  | nil => intro x st cb; exact ⟨rfl, st, cb, rfl⟩
  | cons op ops ih =>
    intro x st cb
    have h := step_agree x st cb op
    have hen : (x.withStatus st cb).enabled op = x.enabled op := by cases op <;> rfl
    unfold GDil.run
    rw [hen]
    split
    · cases h1 : x.step op with
      | error e =>
        cases h2 : (x.withStatus st cb).step op with
        | ok b => rw [h1, h2] at h; exact h.elim
        | error f =>
          rw [h1, h2] at h
          have : e = f := h
          subst this
          cases e <;> first | exact ih x st cb | exact ⟨rfl, st, cb, rfl⟩
      | ok a =>
        cases h2 : (x.withStatus st cb).step op with
        | error f => rw [h1, h2] at h; exact h.elim
        | ok b =>
          rw [h1, h2] at h
          obtain ⟨st', cb', rfl⟩ := h
          exact ih a st' cb'
    · exact ih x st cb

end WV.C20
