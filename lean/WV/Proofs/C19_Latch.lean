import WV.Proofs.C19_Frame
namespace WV.Proofs.C19
open WV WV.C19 WV.Gen

section
variable {P : St → Prop} (F : Framed P) (hlatch : ∀ s, P s → P { s with latch := true })
include F hlatch

omit hlatch in
theorem allocOutAllocate_framed (n : Nat) (hlen : ∀ s, P s → P { s with length := some n })
    (o : Allocator.Output) (s : St) (h : P s) : P (allocOutAllocate n o s).1 := by
  cases o <;> simp only [allocOutAllocate] <;> try exact h
  · exact hlen _ h
  · exact emit_framed F _ _ (hlen _ h)

omit hlatch in
theorem codeOutAllocateCode_framed (n : Nat) (hlen : ∀ s, P s → P { s with length := some n })
    (o : Code.Output) (s : St) (h : P s) : P (codeOutAllocateCode n o s).1 := by
  cases o <;> simp only [codeOutAllocateCode] <;> try exact h
  exact fireAlloc_preserves P _ _ F.alloc (allocOutAllocate_framed F n hlen) s h

theorem step_allocate_preserves (isD : Nat → Bool) (n : Nat) (hlen : ∀ s, P s → P { s with length := some n })
    (s : St) (h : P s) : P (step isD s (.allocate n)).1 := by
  have h0 : P { s with ret := none } := F.ret _ _ h
  simp only [step]
  split
  · exact h0
  · exact fireCode_preserves P _ _ F.code (codeOutAllocateCode_framed F n hlen) _ (hlatch _ h0)

theorem step_other_preserves (isD : Nat → Bool) (e : Ev) (he : ∀ n, e ≠ .allocate n)
    (s : St) (h : P s) : P (step isD s e).1 := by
  have h0 : P { s with ret := none } := F.ret _ _ h
  cases e with
  | allocate n => exact absurd rfl (he n)
  | setCode c =>
    simp only [step]
    split
    · exact h0
    · split
      · exact h0
      · exact codeSetCode_framed F isD c _ (hlatch _ h0)
  | inputCode =>
    simp only [step]
    split
    · exact h0
    · exact fireCode_preserves P _ _ F.code (codeOutInputCode_framed F) _ (hlatch _ h0)
  | connected => exact fireAlloc_preserves P _ _ F.alloc (allocOut0_framed F) _ h0
  | lost => exact fireAlloc_preserves P _ _ F.alloc (allocOut0_framed F) _ h0
  | rxAllocated np rand => exact fireAlloc_preserves P _ _ F.alloc (allocOutRx_framed F np rand) _ h0
  | gotNameplates l => exact fireInput_preserves P _ _ F.inp (inputOutGotNameplates_framed F l) _ h0
  | gotWordlist => exact fireInput_preserves P _ _ F.inp (inputOutGotWordlist_framed F) _ h0
  | hRefresh => exact fireInput_preserves P _ _ F.inp (inputOut0_framed F) _ h0
  | hNpCompl p => exact fireInput_preserves P _ _ F.inp (inputOut1_framed F p) _ h0
  | hChooseNp np =>
    simp only [step]
    split
    · exact h0
    · exact fireInput_preserves P _ _ F.inp (inputOut1_framed F np) _ h0
  | hWordCompl p => exact fireInput_preserves P _ _ F.inp (inputOut1_framed F p) _ h0
  | hChooseWords w => exact fireInput_preserves P _ _ F.inp (inputOut1_framed F w) _ h0
  | hWhenWordlist =>
    simp only [step]
    split
    · exact F.ret s (some [[1]]) h
    · exact F.ret _ (some [[0]]) (F.wt s (s.waiters + 1) h)

end

theorem framed_latch (b : Bool) : Framed (fun s => s.latch = b) :=
  ⟨fun _ _ h => h, fun _ _ h => h, fun _ _ h => h, fun _ _ h => h, fun _ _ h => h, fun _ _ h => h,
   fun _ _ h => h, fun _ _ h => h, fun _ _ h => h⟩

theorem framed_length (Q : Option Nat → Prop) : Framed (fun s => Q s.length) :=
  ⟨fun _ _ h => h, fun _ _ h => h, fun _ _ h => h, fun _ _ h => h, fun _ _ h => h, fun _ _ h => h,
   fun _ _ h => h, fun _ _ h => h, fun _ _ h => h⟩

/-- the latch is never reset -/
theorem latch_stays (isD : Nat → Bool) (s : St) (e : Ev) (h : s.latch = true) : (step isD s e).1.latch = true := by
  cases e with
  | allocate n => exact step_allocate_preserves (framed_latch true) (fun _ _ => rfl) isD n (fun _ h => h) s h
  | _ => exact step_other_preserves (framed_latch true) (fun _ _ => rfl) isD _ (by intro n; simp) s h

/-- `Allocator._length` is only ever written by `allocate_code(n)`, with that `n` -/
theorem length_step (isD : Nat → Bool) (s : St) (e : Ev) :
    (step isD s e).1.length = s.length ∨ ∃ n, e = .allocate n ∧ (step isD s e).1.length = some n := by
  by_cases he : ∃ n, e = .allocate n
  · obtain ⟨n, rfl⟩ := he
    have := step_allocate_preserves (framed_length (fun l => l = s.length ∨ l = some n)) (fun _ h => h) isD n
      (fun _ _ => Or.inr rfl) s (Or.inl rfl)
    rcases this with h | h
    · exact Or.inl h
    · exact Or.inr ⟨n, rfl, h⟩
  · exact Or.inl (step_other_preserves (framed_length (fun l => l = s.length)) (fun _ h => h) isD e
      (fun n hn => he ⟨n, hn⟩) s rfl)

theorem length_run (isD : Nat → Bool) (n : Nat) : ∀ (evs : List Ev) (s : St),
    (run isD s evs).length = some n → s.length = some n ∨ Ev.allocate n ∈ evs
  | [], _, h => Or.inl h
  | e :: es, s, h => by
    rcases length_run isD n es _ h with h1 | h1
    · rcases length_step isD s e with h2 | ⟨m, rfl, h2⟩
      · exact Or.inl (h2 ▸ h1)
      · rw [h2] at h1
        cases h1
        exact Or.inr (by simp)
    · exact Or.inr (by simp [h1])

/-! ### the latch -/

def isStart : Ev → Bool
  | .allocate _ | .setCode _ | .inputCode => true
  | _ => false

/-- a code-start call counts as refused iff it raised `OnlyOneCodeError` or `KeyFormatError` -/
def refused : Option Err → Bool
  | some .onlyOneCode | some .keyFormat => true
  | _ => false

theorem start_when_latched (isD : Nat → Bool) (s : St) (e : Ev) (hs : isStart e = true) (h : s.latch = true) :
    step isD s e = ({ s with ret := none }, some .onlyOneCode) ∨
    step isD s e = ({ s with ret := none }, some .keyFormat) := by
  cases e <;> simp [isStart] at hs
  · left; simp [step, h]
  · next c =>
    rcases validateCode_cases isD c with hv | hv
    · left; simp [step, h, hv]
    · right; simp [step, hv]
  · left; simp [step, h]

theorem start_sets_latch (isD : Nat → Bool) (s : St) (e : Ev) (hs : isStart e = true)
    (hr : refused (step isD s e).2 = false) : (step isD s e).1.latch = true := by
  by_cases h : s.latch = true
  · exact latch_stays isD s e h
  · have h' : s.latch = false := by simpa using h
    cases e <;> simp [isStart] at hs
    · next n =>
      simp only [step, h', Bool.false_eq_true, if_false]
      exact fireCode_preserves (fun s => s.latch = true) _ _ (framed_latch true).code
        (codeOutAllocateCode_framed (framed_latch true) n (fun _ h => h)) _ rfl
    · next c =>
      rcases validateCode_cases isD c with hv | hv
      · simp only [step, hv, h', Bool.false_eq_true, if_false]
        exact codeSetCode_framed (framed_latch true) isD c _ rfl
      · simp [step, hv, refused] at hr
    · simp only [step, h', Bool.false_eq_true, if_false]
      exact fireCode_preserves (fun s => s.latch = true) _ _ (framed_latch true).code
        (codeOutInputCode_framed (framed_latch true)) _ rfl

/-- number of code-start calls in a history that were not refused -/
def acceptedStarts (isD : Nat → Bool) : St → List Ev → Nat
  | _, [] => 0
  | s, e :: es =>
    (if isStart e && !refused (step isD s e).2 then 1 else 0) + acceptedStarts isD (step isD s e).1 es

theorem acceptedStarts_latched (isD : Nat → Bool) : ∀ (evs : List Ev) (s : St), s.latch = true →
    acceptedStarts isD s evs = 0
  | [], _, _ => rfl
  | e :: es, s, h => by
    have ih := acceptedStarts_latched isD es _ (latch_stays isD s e h)
    simp only [acceptedStarts, ih, Nat.add_zero]
    by_cases hs : isStart e = true
    · rcases start_when_latched isD s e hs h with h1 | h1 <;> simp [h1, refused]
    · simp [hs]

theorem acceptedStarts_le_one (isD : Nat → Bool) : ∀ (evs : List Ev) (s : St), acceptedStarts isD s evs ≤ 1
  | [], _ => by simp [acceptedStarts]
  | e :: es, s => by
    simp only [acceptedStarts]
    by_cases hc : (isStart e && !refused (step isD s e).2) = true
    · simp only [hc, if_true]
      simp at hc
      rw [acceptedStarts_latched isD es _ (start_sets_latch isD s e hc.1 hc.2)]
      exact Nat.le_refl 1
    · simp only [hc]
      have := acceptedStarts_le_one isD es (step isD s e).1
      simpa using this

end WV.Proofs.C19
