import WV.Proofs.C17_Inv
import WV.Proofs.C17_Keep

/-!
C17 helper lemmas, part 3: the Manager inputs that come from the peer's messages and from the
peer's versions preserve the invariant (for a conformant peer).
-/
namespace WV.Proofs.C17
open WV WV.Gen WV.C17

theorem andThen_ok {r : Res} {f : World → Res} (h : r.2 = none) : andThen r f = f r.1 := by
  obtain ⟨w, e⟩ := r
  cases e
  · rfl
  · simp at h

theorem andThen_err {r : Res} {f : World → Res} {e : Err} (h : r.2 = some e) : andThen r f = (r.1, some e) := by
  obtain ⟨w, e'⟩ := r
  cases e'
  · simp at h
  · simp at h; subst h; rfl

theorem andThen_pure_core (r : Res) : core (andThen r fun w => (w, none)).1 = core r.1 := by
  obtain ⟨w, e⟩ := r
  cases e <;> rfl

theorem useHints_core (n : Nat) (w : World) :
    core (withConnector w fun g => cInput noMade g .got_hints n w).1 = core w := by
  unfold withConnector
  cases h : w.ctors.length with
  | zero => rfl
  | succ g => exact gotHints_core g n w

theorem hints_core (n : Nat) (w : World) : core (mInput .rx_HINTS "" n w).1 = core w := by
  unfold mInput
  cases hms : w.ms <;> simp only [Manager.table, mOuts, mOut]
  any_goals (simp [core, hms])
  -- CONNECTING: use_hints
  have := andThen_pure_core (withConnector { w with ms := .CONNECTING } fun g => cInput noMade g .got_hints n { w with ms := .CONNECTING })
  rw [useHints_core] at this
  simpa [core, hms] using this

/-- after a successful `_start_connecting` the rest of the row only reports status -/
theorem startTail {w : World} {f : World → Res} (hr : w.role.isSome = true) (hk : w.key = true)
    (hf : ∀ v, core (f v).1 = core v) :
    core (andThen (startConnecting w) f).1 = { core w with ctors := w.ctors ++ [.connecting] } := by
  obtain ⟨h1, h2⟩ := startConnecting_core w hr hk
  rw [andThen_ok h1, hf, h2]

theorem please_inv {ps : String} {pend : List Thunk} {w : World} (hps : ps < w.mySide ∨ w.mySide < ps)
    (h : Inv ps pend w) (hm : w.hasMgr = true) (hk : w.key = true) :
    Inv ps pend (mInput .rx_PLEASE ps 0 w).1 := by
  unfold mInput
  cases hms : w.ms <;> simp only [Manager.table]
  any_goals exact h
  -- WANTING
  have hnc : ∀ g : Nat, w.ctors[g]? ≠ some Connector.State.connecting := by
    intro g hg
    have := (h.ctorB g hg).2
    simp [core, hms] at this
  simp only [mOuts, mOut]
  by_cases hlt : ps < w.mySide
  · simp only [hlt, ↓reduceIte]
    rw [andThen_ok rfl]
    dsimp only
    show InvC ps pend (core _)
    rw [startTail (w := { w with ms := .CONNECTING, role := some true }) rfl hk (fun v => rfl)]
    exact InvC.toConnecting h hm (by simp [core, hms]) (by simp [core, hms]) (some true) rfl
      (by intro r hr; cases hr; simp [core, hlt]) hk w.ctors hnc _ _
  · have hgt : w.mySide < ps := by rcases hps with h | h; exact absurd h hlt; exact h
    simp only [hlt, hgt, ↓reduceIte]
    rw [andThen_ok rfl]
    dsimp only
    show InvC ps pend (core _)
    rw [startTail (w := { w with ms := .CONNECTING, role := some false }) rfl hk (fun v => rfl)]
    exact InvC.toConnecting h hm (by simp [core, hms]) (by simp [core, hms]) (some false) rfl
      (by intro r hr; cases hr; simp [core, hlt]) hk w.ctors hnc _ _

theorem start_inv {ps : String} {pend : List Thunk} {w : World} (h : Inv ps pend w) (hm : w.hasMgr = true) :
    Inv ps pend (mInput .start "" 0 w).1 := by
  unfold mInput
  cases hms : w.ms <;> simp only [Manager.table]
  any_goals exact h
  simp only [mOuts, mOut, andThen]
  exact InvC.toWanting h hm (by simp [core, hms])

theorem reconnecting_inv {ps : String} {pend : List Thunk} {w : World} (h : Inv ps pend w) (hm : w.hasMgr = true) :
    Inv ps pend (mInput .rx_RECONNECTING "" 0 w).1 := by
  unfold mInput
  cases hms : w.ms <;> simp only [Manager.table]
  any_goals exact h
  -- FLUSHING
  have hnc : ∀ g : Nat, w.ctors[g]? ≠ some Connector.State.connecting := by
    intro g hg
    have := (h.ctorB g hg).2
    simp [core, hms] at this
  obtain ⟨hr, hk⟩ := h.roleSet (by simp [core, hms, active])
  simp only [mOuts, mOut]
  show InvC ps pend (core _)
  rw [startTail (w := { w with ms := .CONNECTING }) hr hk (fun v => rfl)]
  exact InvC.toConnecting h hm (by simp [core, hms]) (by simp [core, hms]) w.role hr h.roleVal hk w.ctors hnc _ _


theorem reconTail_core (w : World) (hr : w.role.isSome = true) (hk : w.key = true) :
    core (mOuts "" 0 [.send_reconnecting, .start_connecting, .send_status_dilation_generation,
      .send_status_reconnecting] w).1 = { core w with ctors := w.ctors ++ [.connecting] } := by
  simp only [mOuts, mOut]
  rw [andThen_ok rfl]
  dsimp only
  rw [startTail (w := sendGen "reconnecting" w) hr hk (fun v => rfl)]
  rfl

/-- no Connector other than the (now stopped) last one was still connecting -/
theorem set_stopped_none_connecting {ps : String} {pend : List Thunk} {k : Core} (h : InvC ps pend k) (g : Nat)
    (hlen : k.ctors.length = g + 1) : ∀ g' : Nat, (k.ctors.set g .stopped)[g']? ≠ some Connector.State.connecting := by
  intro g' hg'
  rw [List.getElem?_set] at hg'
  by_cases he : g = g'
  · simp [he] at hg'
  · simp [he] at hg'
    have := (h.ctorB g' hg').1
    omega

theorem stopConnecting_core {ps : String} {pend : List Thunk} {w : World} (h : Inv ps pend w) (hms : w.ms = .CONNECTING)
    (v : World) (hv : core v = core w) :
    ∃ g cs, w.ctors.length = g + 1 ∧ ConnsLe w.conns cs ∧
      (withConnector v fun g => cInput noMade g .k_stop 0 v).2 = none ∧
      core (withConnector v fun g => cInput noMade g .k_stop 0 v).1 = { core w with ctors := w.ctors.set g .stopped, conns := cs } := by
  obtain ⟨g, st, hlen, hst, hne⟩ := h.ctor (by simp [core, hms])
  have hvc : v.ctors = w.ctors := congrArg Core.ctors hv
  have hvn : v.conns = w.conns := congrArg Core.conns hv
  have hlen' : v.ctors.length = g + 1 := by rw [hvc]; exact hlen
  have hst' : v.ctors[g]? = some st := by rw [hvc]; exact hst
  obtain ⟨h1, cs, h2, h3⟩ := stop_core g v st hst' hne
  refine ⟨g, cs, hlen, by rw [← hvn]; exact h2, ?_, ?_⟩
  · simp only [withConnector, hlen']; exact h1
  · simp only [withConnector, hlen']; rw [h3, hv, hvc]

theorem reconnect_inv {ps : String} {pend : List Thunk} {w : World} (hnl : ¬ ps < w.mySide)
    (h : Inv ps pend w) (hm : w.hasMgr = true) (ht : TimerOk w) :
    Inv ps pend (mInput .rx_RECONNECT "" 0 w).1 := by
  unfold mInput
  cases hms : w.ms <;> simp only [Manager.table]
  any_goals exact h
  · -- CONNECTED: abandon_connection
    obtain ⟨c, x, hc, hx, _, _⟩ := h.armed (by simp [core, hms, inConn])
    have hc' : w.conn = some c := hc
    have e : core (mOuts "" 0 [.abandon_connection] { w with ms := .ABANDONING }).1 =
        { core w with ms := .ABANDONING, conns := (disconnect c w).conns } := by
      simp only [mOuts]
      rw [abandon_eval "" 0 { w with ms := .ABANDONING } ht c hc']
      simp [andThen, core, disconnect]
    show InvC ps pend (core _)
    rw [e]
    obtain ⟨hle, _⟩ := disconnect_core c w
    obtain ⟨y, hy, hyc, _, _⟩ := disconnect_closing c w x hx
    exact InvC.toAbandoning h hm (by simp [core, hms]) hnl _ hle
      (by intro c' hc''; rw [hc] at hc''; cases hc''; exact ⟨y, hy, hyc⟩)
  · -- CONNECTING: stop the Connector, start a new one
    obtain ⟨hr, hk⟩ := h.roleSet (by simp [core, hms, active])
    obtain ⟨g, cs, hlen, hle, h1, h2⟩ := stopConnecting_core h hms { w with ms := .CONNECTING } (by simp [core, hms])
    simp only [mOuts, mOut] at h1 h2 ⊢
    rw [andThen_ok h1]
    have hrole := congrArg Core.role h2
    have hkey := congrArg Core.key h2
    have hct := congrArg Core.ctors h2
    simp only [core] at hrole hkey hct
    have := reconTail_core _ (by rw [hrole]; exact hr) (by rw [hkey]; exact hk)
    simp only [mOuts, mOut] at this
    show InvC ps pend (core _)
    rw [this, h2, hct]
    dsimp only
    rw [show (core w).ms = Manager.State.CONNECTING from hms]
    exact InvC.toConnecting h hm (by simp [core, hms]) (by simp [core, hms]) w.role hr h.roleVal hk _
      (set_stopped_none_connecting h g hlen) _ _
  · -- LONELY
    have hnc : ∀ g : Nat, w.ctors[g]? ≠ some Connector.State.connecting := by
      intro g hg
      have := (h.ctorB g hg).2
      simp [core, hms] at this
    obtain ⟨hr, hk⟩ := h.roleSet (by simp [core, hms, active])
    show InvC ps pend (core _)
    rw [reconTail_core { w with ms := .CONNECTING } hr hk]
    exact InvC.toConnecting h hm (by simp [core, hms]) (by simp [core, hms]) w.role hr h.roleVal hk w.ctors hnc _ _

end WV.Proofs.C17
