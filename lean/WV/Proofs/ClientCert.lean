import WV.Proofs.Cert
import WV.Proofs.Closable

/-!
The one finite certificate behind C08 / C14 / C18: the reachable set of the closed
client × environment system is recomputed from the *generated* tables by `reachable` and checked
closed-and-safe by `certList`.  ≈ 2.8·10⁴ states × 34 events is far beyond what the kernel can
evaluate (measured 12–28 ms per abstract step, DESIGN §4), so this single evaluation is done by
`native_decide`; it adds `Lean.ofReduceBool` / `Lean.trustCompiler` to the axioms of the theorems
below, which the evidence reports per theorem.  Everything else (the lifting to all runs,
`Cert.cert_sound`) is ordinary kernel-checked induction.
-/
namespace WV.ClientCert
open WV.Client WV.ClientEnv WV.Cert

def R : List Sys := (reachable enabled 100000).1.toList

theorem cert : certList enabled safeStep R = true := by native_decide

/-- every reachable state, every enabled event: the step is safe -/
theorem reach_safe (s : Sys) (hr : Reach enabled s) (e : Event) (he : enabled s e = true) : safeStep s e = true :=
  (cert_sound enabled_mem_allEvents cert s hr).2 e he

theorem reach_mem (s : Sys) (hr : Reach enabled s) : s ∈ R :=
  (cert_sound enabled_mem_allEvents cert s hr).1

/-- the same under an order-preserving server, with the extra clause versions-before-messages -/
def Rfifo : List Sys := (reachable enabledFifo 100000).1.toList

theorem certFifo : certList enabledFifo safeStepFifo Rfifo = true := by native_decide

theorem reach_safe_fifo (s : Sys) (hr : Reach enabledFifo s) (e : Event) (he : enabledFifo s e = true) :
    safeStepFifo s e = true :=
  (cert_sound enabledFifo_mem_allEvents certFifo s hr).2 e he

/-- no trap after close(): certificate of the backward fixpoint (`Closable`) over the same set -/
theorem certClosable : WV.Closable.closableCert 80 R = true := by native_decide

theorem close_possible (s : Sys) (hr : Reach enabled s) (hc : s.env.appClosed = true) : WV.Closable.CanClose s :=
  WV.Closable.closable_sound certClosable s (reach_mem s hr) hc

/-- components of `safeStep`, spelled out -/
theorem safe_components {s : Sys} {e : Event} (h : safeStep s e = true) :
    (∀ x, (sysStep s e).2 ≠ Outcome.internal x) ∧
    (sysStep s e).1.mon.closedCount ≤ 1 ∧ (sysStep s e).1.mon.afterClosed = false ∧
    (sysStep s e).1.mon.dup = false ∧ (sysStep s e).1.mon.order = false ∧
    (sysStep s e).1.mon.verdictBad = false ∧ (sysStep s e).1.mon.resourceBad = false ∧
    (sysStep s e).1.mon.verdictWrong = false := by
  unfold safeStep at h
  simp only [Bool.and_eq_true, decide_eq_true_eq, Bool.not_eq_true'] at h
  obtain ⟨⟨⟨⟨⟨⟨⟨h1, h2⟩, h3⟩, h4⟩, h5⟩, h6⟩, h8⟩, h7⟩ := h
  refine ⟨?_, h2, h3, h4, h5, h6, h7, h8⟩
  intro x hx
  rw [hx] at h1
  simp at h1

end WV.ClientCert
